"""Regenerate the generated parts of DESIGN.md (between BEGIN/END GENERATED markers):
 asbuilt  - per-property 'as built' summary from harness/claims/*.json + Props theorem names + evidence
 seeds    - the seeded-change detection table from seeded/RESULTS.md"""
import json, os, re, glob
V = "/verif"
props = {json.loads(l)["id"]: json.loads(l) for l in open(V + "/properties.jsonl")}

def theorems(pid):
    p = "%s/coq/theories/Props/%s.v" % (V, pid)
    return re.findall(r"^\s*(?:Theorem|Corollary)\s+([A-Za-z0-9_']+)", open(p).read(), re.M) if os.path.exists(p) else []

def asbuilt():
    out = []
    for pid in sorted(props):
        cp = "%s/harness/claims/%s.json" % (V, pid)
        if not os.path.exists(cp):
            continue
        c = json.load(open(cp))
        ev = {}
        ep = "%s/evidence/%s.json" % (V, pid)
        if os.path.exists(ep):
            ev = json.load(open(ep))
        ths = theorems(pid)
        out.append("#### %s — %s\n" % (pid, props[pid]["title"]))
        out.append("*What is proved and tied.* " + c["text"] + "\n")
        out.append("*Assumed / trusted / partial.* " + c["note"] + "\n")
        out.append("*Technique.* " + c["technique"] + "\n")
        out.append("*Theorems (Props/%s.v, statements in THEOREMS.md).* %s\n" % (pid, ", ".join("`%s`" % t for t in ths)))
        mod = "%s/harness/props/%s.py" % (V, pid.lower())
        checks = re.search(r"^CHECKS\s*=\s*(\[.*?\])", open(mod).read(), re.M)
        out.append("*Checks run per case.* %s; last recorded run: tier %s, %s cases (%s non-trivial distinct), %s s.\n" % (
            checks.group(1) if checks else "?", ev.get("tier", "?"), ev.get("coverage", {}).get("evaluations", "?"),
            ev.get("coverage", {}).get("distinct_nontrivial", "?"), ev.get("wall_s", "?")))
    return "\n".join(out)

def seeds():
    p = V + "/seeded/RESULTS.md"
    return open(p).read().split("\n", 2)[2] if os.path.exists(p) else "(not yet run)"

def main():
    s = open(V + "/DESIGN.md").read()
    for name, fn in (("asbuilt", asbuilt), ("seeds", seeds)):
        b, e = "<!-- BEGIN GENERATED:%s -->" % name, "<!-- END GENERATED:%s -->" % name
        if b in s:
            i, j = s.index(b) + len(b), s.index(e)
            s = s[:i] + "\n" + fn() + "\n" + s[j:]
    open(V + "/DESIGN.md", "w").write(s)

main()
