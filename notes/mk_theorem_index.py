"""Write /verif/THEOREMS.md: every theorem statement of coq/theories/Props/*.v, verbatim."""
import glob, os, re
out = ["# Property theorems (verbatim from coq/theories/Props/*.v)\n",
       "Every statement below is closed with `exact <lemma>` and followed by `Print Assumptions`; the check fails unless each prints",
       "\"Closed under the global context\". Regenerate with `python3 notes/mk_theorem_index.py`.\n"]
for f in sorted(glob.glob("/verif/coq/theories/Props/*.v")):
    src = open(f).read()
    out.append("\n## %s\n" % os.path.basename(f)[:-2])
    for m in re.finditer(r"(?:\(\*(?:(?!\*\)).)*\*\)\s*)?^(Theorem|Example|Lemma|Corollary)\s+([A-Za-z0-9_']+)(.*?)\n\s*Proof\.", src, re.S | re.M):
        whole = m.group(0)
        whole = whole[:whole.rfind("Proof.")].rstrip()
        out.append("```coq\n%s\n```\n" % whole)
open("/verif/THEOREMS.md", "w").write("\n".join(out))
print(sum(1 for l in out if l.startswith("```coq")), "statements")
