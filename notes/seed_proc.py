# Imports finished seeds of a round into seeded/, verifies them (notes/seedtest.py verify) and runs the first-pass detection.
import json, os, shutil, subprocess, sys
# usage: proc.py C17 C18 ...  -> import /tmp/seed7_out/Cxx_7 as seeded/Cxx_<next>, verify, detect
for pid in sys.argv[1:]:
    src = "/tmp/seed8_out/%s_8" % pid
    have = [d for d in os.listdir("/verif/seeded") if d.startswith(pid + "_")]
    done = [d for d in have if os.path.exists("/verif/seeded/%s/meta.json" % d) and json.load(open("/verif/seeded/%s/meta.json" % d)).get("round") == 8]
    if done:
        dst = "/verif/seeded/" + done[0]
    else:
        n = max(int(d.split("_")[1]) for d in have) + 1
        dst = "/verif/seeded/%s_%d" % (pid, n)
        shutil.copytree(src, dst)
    v = json.loads(subprocess.run(["python3", "/verif/notes/seedtest.py", "verify", dst], capture_output=True, text=True).stdout.strip().splitlines()[-1])
    print("VERIFY", os.path.basename(dst), v.get("ok"), v.get("tests_tail"), v.get("demo_msg")); sys.stdout.flush()
    if not v.get("ok"):
        print("  NOT CONFIRMED", v); continue
    d = json.loads(subprocess.run(["python3", "/verif/notes/seedtest.py", "detect", dst], capture_output=True, text=True).stdout.strip().splitlines()[-1])
    kinds = sorted(set(w.split("kind=")[1].split()[0] for w in d["lines"] if "kind=" in w))
    print("DETECT", os.path.basename(dst), "exit", d["exit"], kinds, [l[:200] for l in d["lines"][:2]]); sys.stdout.flush()
    m = json.load(open(dst + "/meta.json"))
    m["round"] = 8
    m["confirmed"] = {"how": "notes/seedtest.py verify: scratch worktree of /repo HEAD, git apply patch.diff, full pytest suite, demo.py with and without the patch", "tests": v.get("tests_tail"), "demo_unchanged_exit": v.get("demo_unchanged_exit"), "demo_changed_exit": v.get("demo_changed_exit"), "demo_msg": v.get("demo_msg")}
    m["detection_first_pass"] = {"detected": d["exit"] == 1 and bool(kinds), "violation_kinds": kinds}
    json.dump(m, open(dst + "/meta.json", "w"), indent=1)
