# Prompt generator used for the seeding sub-agents of rounds 7-9 (round number / output dir are the literals below; the agents get ONLY
# the file it writes: property text, earlier one-line summaries, scratch worktree instructions). Kept for reference / later rounds.
import json, os
props = {json.loads(l)["id"]: json.loads(l) for l in open("/verif/properties.jsonl")}
prev = {}
for d in sorted(os.listdir("/verif/seeded")):
    p = os.path.join("/verif/seeded", d, "meta.json")
    if os.path.exists(p):
        m = json.load(open(p)); prev.setdefault(m["property"], []).append(m.get("summary", "")[:200])
ids = sorted(props)
groups = [ids[i:i+2] for i in range(0, 20, 2)]
for gi, g in enumerate(groups):
    wt = "/tmp/seed8_wt_%d" % gi
    txt = []
    txt.append("""You are helping to evaluate a verification effort for the Python library klausweinbauer/FGUtils (a cheminformatics utility library). Your job: write, for EACH of the properties below, ONE realistic code change ("seeded change") to the library that BREAKS the property while the library still imports and its whole existing test suite still passes, plus a small demonstration program that fails with the change and passes without it.

Setup (do this first):
  git -C /repo worktree add --detach %(wt)s HEAD
Work ONLY inside %(wt)s (your private scratch worktree). Never modify /repo itself, never look at or touch /verif. Run python as
  cd %(wt)s && PYTHONPATH=%(wt)s PYTHONHASHSEED=0 /venv/bin/python -W ignore ...
and the test suite as
  cd %(wt)s && PYTHONPATH=%(wt)s /venv/bin/python -m pytest -q -p no:cacheprovider -x
(249 tests pass on the unchanged tree; a conda WARNING line on stderr is noise). No network is available.

What kind of change: it must be something a maintainer could plausibly commit (a refactoring slip, an "optimisation", a cache, a changed default, a reordered condition, an off-by-one at a boundary, a shared mutable object, two edits in two places that each look harmless alone) - NOT an obvious sabotage, and NOT something ordinary use would expose at once. It must need something specific to manifest: a multi-step sequence of operations on one object, an unusual but legitimate input (unusual ids, sizes, orderings, option combinations, boundary values), state leaking between calls, an iteration-order dependence, or two cooperating sites. Prefer changes whose effect is a WRONG RESULT (silently) rather than an exception. Changes already tried in earlier rounds are listed under each property: do NOT repeat them or near-variants; find a different mechanism or a different code site.

For each property Cxx write three files into /tmp/seed8_out/Cxx_8/ :
  patch.diff  - `git -C %(wt)s diff` of ONLY this change (against HEAD; must apply with `git apply` to a clean checkout of HEAD). Never use `git stash` (the stash is shared between all worktrees and other agents work in parallel); reset the worktree with `git -C %(wt)s checkout -- .` between the two properties so the patches are independent.
  demo.py     - a standalone program (uses only fgutils, networkx, numpy, rdkit, torch as needed; imports fgutils from PYTHONPATH/cwd) that checks the property statement on a few inputs including the one that triggers the change: exit code 0 and no failure on the unchanged tree, exit code 1 with a one-line explanation with the change applied. It must check the PROPERTY (as stated), not compare against hard-coded implementation internals.
  meta.json   - {"property": "Cxx", "summary": "<what the change does, 1-2 sentences>", "needs_to_manifest": "<what specific input/sequence/option is needed and what is unaffected>", "files": [<changed files>], "round": 8}
Before finishing verify yourself, from a clean state: (1) demo exits 0 without the patch, (2) the patch applies, (3) the full test suite passes with it, (4) demo exits 1 with it. When completely done remove your worktree: git -C /repo worktree remove --force %(wt)s . Report in your final message, per property, one line: what you changed and what triggers it.
""" % {"wt": wt})
    for pid in g:
        p = props[pid]
        txt.append("=" * 70)
        txt.append("PROPERTY %s - %s" % (pid, p["title"]))
        txt.append("Statement: " + p["statement"])
        txt.append("Quantified over: " + p["quantifier"]["text"])
        txt.append("Code anchors: " + "; ".join("%s (%s)" % (m["name"], m["where"]) for m in p["anchors"]["mechanism"]))
        txt.append("Observe at: " + "; ".join(p["anchors"]["observe_at"]))
        txt.append("Changes already tried for this property (do not repeat):")
        for s in prev.get(pid, []):
            txt.append("  - " + s.replace("\n", " "))
    open("/tmp/seed8_prompts/g%d.txt" % gi, "w").write("\n".join(txt))
    print(gi, g, len("\n".join(txt)))
