import warnings; warnings.filterwarnings("ignore")
import random, sys, copy, itertools, networkx as nx, torch
from rdkit import Chem, RDLogger
RDLogger.DisableLog('rdApp.*')
from fgutils.torch import its_to_torch, its_from_torch, prune
from fgutils.torch.graph import node_induced_subgraph, edge_induced_subgraph
from fgutils.rdkit import graph_to_mol, mol_to_graph, graph_to_smiles, smiles_to_graph
from fgutils.utils import mol_compare
from fgutils.chem.ps import atomic_sym2num, atomic_num2sym
random.seed(int(sys.argv[1])); N=int(sys.argv[2])
bad={}
def fail(k,info): bad.setdefault(k,[]).append(info)
SY=['C','N','O','S','Cl','Si','B','Br','H','Sn']
def rand_ids(n):
    k=random.random()
    ids=list(range(n)) if k<0.3 else (list(range(1,n+1)) if k<0.5 else random.sample(range(0,3*n+5),n))
    if random.random()<0.5: random.shuffle(ids)
    return ids
def rand_its(n):
    ids=rand_ids(n); g=nx.Graph()
    for i in ids: g.add_node(i,symbol=random.choice(SY))
    for k in range(1,n):
        u,v=ids[k],ids[random.randrange(k)]
        if random.random()<0.5: u,v=v,u
        g.add_edge(u,v,bond=random.choice([(1,1),(1,2),(2,1),(0,1),(1,0),(2,2),(3,2)]))
    return g
def tens(d): return (d.x.tolist(), d.edge_index.tolist(), d.edge_attr.tolist())
def pos_graph(g):
    pos={x:i for i,x in enumerate(g.nodes)}
    return [g.nodes[x]['symbol'] for x in g.nodes], sorted((min(pos[u],pos[v]),max(pos[u],pos[v]),tuple(d['bond'])) for u,v,d in g.edges(data=True))
def back(g): return [d['symbol'] for _,d in sorted(g.nodes(data=True))], sorted((min(u,v),max(u,v),tuple(int(b) for b in d['bond'])) for u,v,d in g.edges(data=True))
for it in range(N):
    n=random.randint(2,7); g=rand_its(n)
    try:
        d=its_to_torch(g); r=its_from_torch(d)
    except Exception as e: fail('C18_exc',(type(e).__name__,str(e)[:80])); continue
    if back(r)!=pos_graph(g) or sorted(r.nodes)!=list(range(n)): fail('C18_rt',(pos_graph(g),back(r)))
    gs=[rand_its(random.randint(2,5)) for _ in range(random.randint(1,3))]
    b=its_to_torch(gs); rs=its_from_torch(b)
    if [back(x) for x in rs]!=[pos_graph(x) for x in gs]: fail('C18_batch',1)
    # batch tensors = concat of members
    off=0; X=[];EI=[[],[]];EA=[]
    for x in gs:
        t=its_to_torch(x); X+=t.x.tolist(); EI[0]+=[a+off for a in t.edge_index[0].tolist()]; EI[1]+=[a+off for a in t.edge_index[1].tolist()]; EA+=t.edge_attr.tolist(); off+=t.x.size(0)
    if (b.x.tolist(),b.edge_index.tolist(),b.edge_attr.tolist())!=(X,EI,EA): fail('C18_batch_tensors',1)
    # prune
    S=random.sample(range(n),random.randint(1,2)); rad=random.randint(0,3)
    pg=nx.relabel_nodes(g,{x:i for i,x in enumerate(g.nodes)})
    keep=set()
    for s in S: keep|=set(nx.single_source_shortest_path_length(pg,s,cutoff=rad))
    p=prune(d,torch.tensor(S),radius=rad)
    keepl=sorted(keep); ren={x:i for i,x in enumerate(keepl)}
    expx=[d.x[i].tolist() for i in keepl]
    expe=[(ren[u],ren[v],tuple(a)) for (u,v),a in zip(d.edge_index.T.tolist(),d.edge_attr.tolist()) if u in keep and v in keep]
    gote=[(u,v,tuple(a)) for (u,v),a in zip(p.edge_index.T.tolist(),p.edge_attr.tolist())] if p.edge_index.numel() else []
    if p.x.tolist()!=expx or gote!=expe: fail('C18_prune',(S,rad,keepl,p.x.tolist(),expx))
    # node induced
    sub=sorted(random.sample(range(n),random.randint(2,n)))
    ind=[(u,v) for u,v in d.edge_index.T.tolist() if u in sub and v in sub]
    if ind:
        ns=node_induced_subgraph(d,sub); ren={x:i for i,x in enumerate(sub)}
        if ns.x.tolist()!=[d.x[i].tolist() for i in sub] or ns.edge_index.T.tolist()!=[[ren[u],ren[v]] for u,v in ind] or ns.edge_attr.tolist()!=[a for (u,v),a in zip(d.edge_index.T.tolist(),d.edge_attr.tolist()) if u in sub and v in sub]: fail('C18_nodeind',1)
    es=sorted(random.sample(range(d.edge_index.size(1)),random.randint(1,d.edge_index.size(1))))
    e=edge_induced_subgraph(d,es); sel=[d.edge_index.T.tolist()[i] for i in es]; ns_=sorted({x for p_ in sel for x in p_}); ren={x:i for i,x in enumerate(ns_)}
    if e.x.tolist()!=[d.x[i].tolist() for i in ns_] or e.edge_index.T.tolist()!=[[ren[u],ren[v]] for u,v in sel] or e.edge_attr.tolist()!=[d.edge_attr.tolist()[i] for i in es]: fail('C18_edgeind',1)
# periodic table sanity
if any(atomic_num2sym[atomic_sym2num[s]]!=s for s in atomic_sym2num) or sorted(atomic_num2sym)!=list(range(1,119)): fail('C18_ps',1)
for n_,s_ in [(1,'H'),(6,'C'),(7,'N'),(8,'O'),(14,'Si'),(16,'S'),(17,'Cl'),(35,'Br'),(50,'Sn'),(53,'I'),(79,'Au'),(118,'Og')]:
    if atomic_num2sym[n_]!=s_: fail('C18_ps',(n_,s_))
# ---------- C19
for it in range(N):
    n=random.randint(1,7); ids=rand_ids(n); g=nx.Graph()
    for i in ids:
        g.add_node(i,symbol=random.choice(['C','N','O','S','c','n','Cl','Si']))
        if random.random()<0.5: g.nodes[i]['aam']=random.randint(1,30)
    for k in range(1,n):
        if random.random()<0.9: g.add_edge(ids[k],ids[random.randrange(k)],bond=random.choice([1,1.5,2,3,4]))
    g0=copy.deepcopy(g)
    m=graph_to_mol(g); r=mol_to_graph(m); pos={x:i for i,x in enumerate(g.nodes)}
    en=[({'c':'C','n':'N'}.get(d['symbol'],d['symbol']), d.get('aam')) for _,d in g.nodes(data=True)]
    gn=[(d['symbol'],d.get('aam')) for _,d in sorted(r.nodes(data=True))]
    ee=sorted((min(pos[u],pos[v]),max(pos[u],pos[v]),d['bond']) for u,v,d in g.edges(data=True)); ge=sorted((min(u,v),max(u,v),d['bond']) for u,v,d in r.edges(data=True))
    if en!=gn or ee!=ge: fail('C19_bridge',(en,gn,ee,ge))
    if not nx.utils.graphs_equal(g,g0): fail('C19_mut',1)
    # mol_compare invariance under renumbering
    perm=ids[:]; random.shuffle(perm); h=nx.relabel_nodes(g,dict(zip(ids,[x+100 for x in perm])))
    if mol_compare([h],g)[0]!=1: fail('C19_cmp',1)
print({k:len(v) for k,v in bad.items()})
for k,v in bad.items(): print(k,str(v[0])[:400])
