import warnings; warnings.filterwarnings("ignore")
import collections, networkx as nx, sys
from rdkit import Chem, RDLogger
RDLogger.DisableLog('rdApp.*')
from fgutils.proxy_collection.diels_alder_proxy import DielsAlderProxy
from fgutils.its import get_its, get_rc
from fgutils.rdkit import graph_to_mol
VAL={'C':4,'N':3,'O':2,'S':6,'Cl':1,'F':1,'Br':1,'I':1,'Si':4,'c':4}
def valence_ok(g):
    for n,d in g.nodes(data=True):
        s=sum(b for _,_,b in g.edges(n,data='bond'))
        sym=d['symbol']
        if sym=='N' and s in (4,5): pass
        elif s>VAL[sym]+1e-9: return (n,sym,s)
    return None
for neg in (False,True):
    bad=collections.Counter(); n=0; ex={}
    labs=collections.Counter()
    for g,h in DielsAlderProxy(neg_sample=neg):
        n+=1
        if set(g.nodes)!=set(h.nodes) or any(g.nodes[x]['symbol']!=h.nodes[x]['symbol'] or g.nodes[x]['aam']!=x+1 or h.nodes[x]['aam']!=x+1 for x in g.nodes): bad['atoms']+=1
        its=get_its(g,h); rc=get_rc(its)
        lab=sorted(tuple(d['bond']) for _,_,d in rc.edges(data=True))
        labs[tuple(lab)]+=1
        ok = rc.number_of_nodes()==6 and rc.number_of_edges()==6 and nx.is_connected(rc) and all(dg==2 for _,dg in rc.degree()) and all(d['symbol']=='C' for _,d in rc.nodes(data=True))
        if not ok: bad['cycle']+=1; ex.setdefault('cycle',(n,lab))
        c=collections.Counter(lab)
        if not (c[(0,1)]==2 and c[(1,2)]==1 and c[(2,1)]+c[(3,2)]==3 and c[(3,2)]<=1 and len(lab)==6): bad['labels']+=1; ex.setdefault('labels',(n,lab))
        for side,name in ((g,'g'),(h,'h')):
            v=valence_ok(side)
            if v: bad['valence_'+name]+=1; ex.setdefault('valence_'+name,(n,v))
        if n%10==0:
            for side,name in ((g,'g'),(h,'h')):
                try:
                    m=graph_to_mol(side); Chem.SanitizeMol(m)
                except Exception as e:
                    bad['rdkit_'+name]+=1; ex.setdefault('rdkit_'+name,(n,str(e)[:80]))
    print('neg',neg,'n',n,dict(bad),ex); print(dict(labs))
