import warnings; warnings.filterwarnings("ignore")
import random, collections, sys
from fgutils.proxy import Proxy, ProxyGroup, ProxyGraph
from fgutils.parse import Parser
random.seed(int(sys.argv[1]))
atoms=['C','O','N','Cl']
def rand_pattern(labels, allow_empty):
    if allow_empty and random.random()<0.15: return '', [0]
    n=random.randint(1,4); toks=[]; 
    for i in range(n):
        if labels and random.random()<0.35: toks.append('{%s}'%random.choice(labels))
        else: toks.append(random.choice(atoms))
    # chain with occasional branch and bond symbols / its bonds
    s=toks[0]
    for t in toks[1:]:
        b=random.choice(['','','=','<1,2>','<0,1>'])
        if random.random()<0.3: s+='(%s%s)'%(b,t)
        else: s+=b+t
    anchors=sorted(random.sample(range(n), random.randint(1,min(n,2))))
    return s, anchors
bad=0
for it in range(int(sys.argv[2])):
    k=random.randint(1,4); names=['g%d'%i for i in range(k)]
    groups=[]
    for i,nm in enumerate(names):
        lower=names[i+1:]  # acyclic: only refer to later groups
        graphs=[ProxyGraph(*rand_pattern(lower, True)) for _ in range(random.randint(1,3))]
        groups.append(ProxyGroup(nm, graphs))
    cores=[rand_pattern(names, False)[0] for _ in range(random.randint(1,2))]
    gd={g.name:g for g in groups}
    P=Parser(use_multigraph=True)
    def nlabels(pat):
        g=P.parse(pat); return [d['labels'] for _,d in g.nodes(data=True) if d['is_labeled']]
    memo={}
    def cnt_group(nm):
        if nm not in memo: memo[nm]=sum(cnt_pat(g.pattern) for g in gd[nm].graphs)
        return memo[nm]
    def cnt_pat(pat):
        r=1
        for ls in nlabels(pat):
            ks=[l for l in ls if l in gd]
            if ks: r*=cnt_group(ks[0])
        return r
    expected=sum(cnt_pat(c) for c in cores)
    try:
        res=list(Proxy(cores, groups, parser=Parser(use_multigraph=True)))
    except Exception as e:
        print('EXC',type(e).__name__,e,cores,[(g.name,[x.pattern for x in g.graphs]) for g in groups]); bad+=1; continue
    ok=len(res)==expected and all(sorted(g.nodes)==list(range(len(g))) for g in res) and all(not (d['is_labeled'] and any(l in gd for l in d['labels'])) for g in res for _,d in g.nodes(data=True))
    if not ok:
        bad+=1; print('MISMATCH',len(res),expected,cores,[(g.name,[(x.pattern,x.anchor) for x in g.graphs]) for g in groups])
print('bad',bad)
