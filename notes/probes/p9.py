import warnings; warnings.filterwarnings("ignore")
import networkx as nx, numpy as np
from fgutils.parse import parse
from fgutils.synthesis.rule_application import apply_rule, ReactionRule
from fgutils.its import ITS, get_its
def show(g): return ([(n,d.get('symbol'),d.get('aam')) for n,d in g.nodes(data=True)], [(u,v,d['bond']) for u,v,d in g.edges(data=True)])
# C16
rule=ReactionRule(parse('C<1,0>O'))
g=parse('CCO')
r=apply_rule(g,rule,unique=False); print(len(r), [show(x.graph)[1] for x in r])
r=apply_rule(g,rule,n=0,unique=False); print('n=0 ->',len(r))
# extra bond between matched atoms: rule C.C -> C-C ; reactant already bonded
rule2=ReactionRule(parse('C<0,1>C'))
g2=parse('C=C'); r=apply_rule(g2,rule2,unique=False); print('extra', [show(x.graph)[1] for x in r])
rule3=ReactionRule(parse('C<1,2>C<0,1>C'))
g3=parse('C1CC1'); r=apply_rule(g3,rule3,unique=False); print('extra3', len(r), [show(x.graph)[1] for x in r][:2])
print('input unchanged', show(g3))
# C17
from fgutils.algorithm import node_induced_connected_subgraphs
G=nx.Graph(); G.add_edges_from([('a','b'),('b','c'),('x','y')])
print(sorted(map(sorted, node_induced_connected_subgraphs(G,'b'))))
G=nx.path_graph(4); print(sorted(map(sorted, node_induced_connected_subgraphs(G,2))))
