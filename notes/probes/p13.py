import warnings; warnings.filterwarnings("ignore")
import itertools, random, sys, networkx as nx
from fgutils.fgconfig import FGConfig, build_config_tree_from_list
from fgutils.permutation import PermutationMapper
m=PermutationMapper(wildcard='R', ignore_case=True)
def sym_ok(p,g): return m.permute([p],[g])==[[(0,0)]]
def embeds(P,G):
    pn=list(nx.dfs_preorder_nodes(P, list(P.nodes)[0])); gn=list(G.nodes)
    if len(pn)<len(P): return None
    def rec(i,f,used):
        if i==len(pn): return True
        p=pn[i]
        for g in gn:
            if g in used or not sym_ok(P.nodes[p]['symbol'],G.nodes[g]['symbol']): continue
            if all((q not in f) or (G.has_edge(g,f[q]) and G.edges[g,f[q]]['bond']==P.edges[p,q]['bond']) for q in P.neighbors(p)):
                f[p]=g; used.add(g)
                if rec(i+1,f,used): return True
                del f[p]; used.discard(g)
        return False
    return rec(0,{},set())
pats=['C','CC','CCC','C1CC1','CO','COC','ROR','C=O','CC=O','RC(=O)R','C(=O)O','RC(=O)OR','C1OC1','RC1OC1','CN','RN(R)R','CCO','C(C)(C)O','OCCO','C1CCC1','CC(C)C','RCR','RR','C=C','C=CC','C1=CC1']
random.seed(int(sys.argv[1]))
def tree_edges(roots):
    out=set()
    def rec(n):
        for c in n.children: out.add((n.fgconfig.name,c.fgconfig.name)); rec(c)
    for r in roots: rec(r)
    return out, sorted(r.fgconfig.name for r in roots)
bad=0
for it in range(int(sys.argv[2])):
    sel=random.sample(pats, random.randint(3,7))
    cfgs=[FGConfig(name=p,pattern=p) for p in sel]
    anc={(a.name,b.name) for a in cfgs for b in cfgs if a is not b and embeds(a.pattern,b.pattern)}
    if any((b,a) in anc for (a,b) in anc): continue
    cover={(a,b) for (a,b) in anc if not any((a,x.name) in anc and (x.name,b) in anc for x in cfgs)}
    rt=sorted(c.name for c in cfgs if not any((a.name,c.name) in anc for a in cfgs))
    res=set()
    for k in range(4):
        c2=cfgs[:]; random.shuffle(c2)
        try:
            te,tr=tree_edges(build_config_tree_from_list(c2,m))
        except AssertionError as e:
            te,tr=('assert',str(e)[:60]),None
        if te!=cover or tr!=rt:
            bad+=1; print(sel, 'tree-only',sorted(te-cover) if isinstance(te,set) else te,'cover-only',sorted(cover-te) if isinstance(te,set) else '', tr, rt); break
print('bad',bad)
