import warnings; warnings.filterwarnings("ignore")
import time
from fgutils import FGQuery
q=FGQuery()
mols={'aspirin':'O=C(C)Oc1ccccc1C(=O)O','taxol-ish':'CC1=C2C(C(=O)C3(C(CC4C(C3C(C(C2(C)C)(CC1OC(=O)C(C(C5=CC=CC=C5)NC(=O)C6=CC=CC=C6)O)O)OC(=O)C7=CC=CC=C7)(CO4)OC(=O)C)O)C)OC(=O)C',
'cholesterol':'CC(C)CCCC(C)C1CCC2C1(CCC3C2CC=C4C3(CCC(C4)O)C)C','glucose':'OCC1OC(O)C(O)C(O)C1O','peptide':'NCC(=O)NC(C)C(=O)NC(CO)C(=O)NC(CC(=O)O)C(=O)O','crown':'C1COCCOCCOCCOCCOCCO1'}
for k,s in mols.items():
    t=time.time(); r=q.get(s); dt=time.time()-t
    print(k, round(dt,3), r[:6], '...' if len(r)>6 else '')
