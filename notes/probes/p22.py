import warnings; warnings.filterwarnings("ignore")
import random, sys, copy, itertools, collections, networkx as nx
from fgutils.parse import Parser, parse
from fgutils.proxy import replace_node, ProxyGraph
from fgutils.synthesis.rule_application import apply_rule, ReactionRule
from fgutils.its import split_its
random.seed(int(sys.argv[1])); N=int(sys.argv[2])
bad={}
def fail(k,info): bad.setdefault(k,[]).append(info)
AT=['C','N','O','Cl','{x}','{y,z}','R']
def rand_pat(n, its):
    toks=[random.choice(AT) for _ in range(n)]
    s=toks[0]; opened=[]
    for i,t in enumerate(toks[1:],1):
        b=random.choice(['','','=','#']+(['<1,2>','<0,1>','<2,1>'] if its else []))
        if random.random()<0.25: s+='(%s%s)'%(b,t)
        else: s+=b+t
        if random.random()<0.2 and i>=2:
            s+= '%s%d'%(random.choice(['','=']), 1) if False else ''
    return s
def canon(g):
    nodes=[(n,d['symbol'],tuple(d['labels']),d['is_labeled']) for n,d in g.nodes(data=True)]
    edges=collections.Counter((min(u,v),max(u,v),str(d['bond'])) for u,v,d in g.edges(data=True))
    return sorted(nodes),edges
# ---------- C13
for it in range(N):
    multi=random.random()<0.5; its=random.random()<0.4
    P=Parser(use_multigraph=multi)
    n=random.randint(1,6); par=P.parse(rand_pat(n,its))
    if multi and len(par)>=2 and random.random()<0.5:
        u,v=random.sample(list(par.nodes),2); par.add_edge(u,v,bond=random.choice([1,2,(0,1)]))
    node=random.choice(list(par.nodes))
    k=random.randint(0,4); pat='' if k==0 else rand_pat(k, random.random()<0.3)
    anchors=[random.randrange(max(k,1)) for _ in range(random.randint(1,3))]
    par0=copy.deepcopy(par)
    try:
        res=replace_node(par,node,ProxyGraph(pat,anchor=anchors),P)
    except Exception as e:
        fail('C13_exc',(type(e).__name__,str(e)[:60],pat,anchors)); continue
    m=len(par); h=P.parse(pat,idx_offset=m)
    # expected (before renumbering)
    E=nx.MultiGraph() if multi else nx.Graph()
    for x,d in par.nodes(data=True):
        if x!=node: E.add_node(x,**d)
    for x,d in h.nodes(data=True): E.add_node(x,**d)
    if multi:
        for u,v,kk,d in par.edges(keys=True,data=True):
            if node not in (u,v): E.add_edge(u,v,**d)
        for u,v,kk,d in h.edges(keys=True,data=True): E.add_edge(u,v,**d)
        inc=[(v,d) for _,v,d in par.edges(node,data=True)]
    else:
        for u,v,d in par.edges(data=True):
            if node not in (u,v): E.add_edge(u,v,**d)
        for u,v,d in h.edges(data=True): E.add_edge(u,v,**d)
        inc=[(v,d) for _,v,d in par.edges(node,data=True)]
    if len(h)>0:
        for i,(v,d) in enumerate(inc):
            if v==node: continue
            a=anchors[min(i,len(anchors)-1)]
            E.add_edge(m+a,v,**d)
    ren={x:i for i,x in enumerate(sorted(E.nodes))}
    E=nx.relabel_nodes(E,ren)
    if canon(E)!=canon(res) or sorted(res.nodes)!=list(range(len(res))): fail('C13',(list(par0.nodes(data='symbol')),list(par0.edges(data='bond')),node,pat,anchors,canon(res),canon(E)))
# ---------- C16
def rand_g(n):
    g=nx.Graph()
    for i in range(n): g.add_node(i,symbol=random.choice(['C','C','O','N']))
    for i in range(1,n): g.add_edge(i,random.randrange(i),bond=random.choice([1,1,2]))
    for _ in range(random.randint(0,2)):
        if n>=3:
            u,v=random.sample(range(n),2)
            if not g.has_edge(u,v): g.add_edge(u,v,bond=random.choice([1,2]))
    return g
for it in range(N):
    g=rand_g(random.randint(2,6))
    k=random.randint(2,3); rc=nx.Graph()
    for i in range(k): rc.add_node(i,symbol=random.choice(['C','C','O','N']))
    for u,v in itertools.combinations(range(k),2):
        if random.random()<0.7:
            lab=random.choice([(1,0),(0,1),(1,2),(2,1),(1,1),(2,2)]); rc.add_edge(u,v,bond=lab)
    if rc.number_of_edges()==0: continue
    rule=ReactionRule(rc); g0=copy.deepcopy(g)
    L=rule.l
    monos=[]
    for img in itertools.permutations(list(g.nodes),k):
        f=dict(zip(range(k),img))
        if all(rc.nodes[i]['symbol']==g.nodes[f[i]]['symbol'] for i in range(k)) and all(g.has_edge(f[u],f[v]) and g.edges[f[u],f[v]]['bond']==d['bond'] for u,v,d in L.edges(data=True)): monos.append(f)
    try: res=apply_rule(g,rule,unique=False)
    except Exception as e: fail('C16_exc',(type(e).__name__,str(e)[:80])); continue
    if not nx.utils.graphs_equal(g,g0): fail('C16_mut',1)
    def expected(f):
        e={}
        for u,v,d in g.edges(data=True): e[(min(u,v),max(u,v))]=[d['bond'],d['bond']]
        for u,v,d in rc.edges(data=True):
            a,b=f[u],f[v]; key=(min(a,b),max(a,b))
            gb=g.edges[a,b]['bond'] if g.has_edge(a,b) else 0
            e[key]=[gb,d['bond'][1]]
        return tuple(sorted((k_,tuple(v_)) for k_,v_ in e.items()))
    exp=collections.Counter(expected(f) for f in monos)
    got=collections.Counter(tuple(sorted(((min(u,v),max(u,v)),tuple(d['bond'])) for u,v,d in r.graph.edges(data=True))) for r in res)
    if exp!=got: fail('C16',(list(g.nodes(data='symbol')),list(g.edges(data='bond')),list(rc.nodes(data='symbol')),list(rc.edges(data='bond')),len(monos),len(res), sorted(set(got)-set(exp))[:1], sorted(set(exp)-set(got))[:1]))
    for r in res:
        gg,hh=split_its(r.graph)
        if {(min(u,v),max(u,v)):d['bond'] for u,v,d in gg.edges(data=True)}!={(min(u,v),max(u,v)):d['bond'] for u,v,d in g.edges(data=True)}: fail('C16_reactant_side',1)
    nlim=random.randint(0,3)
    rl=apply_rule(g,rule,n=nlim,unique=False)
    if len(rl)!=min(nlim,len(monos)): fail('C16_n',(nlim,len(rl),len(monos)))
    ru=apply_rule(g,rule,unique=True)
    hs={nx.weisfeiler_lehman_graph_hash(r.graph,edge_attr='bond',node_attr='symbol',iterations=3) for r in res}
    if len(ru)!=len(hs): fail('C16_unique',(len(ru),len(hs)))
    rcn=apply_rule(g,rule,unique=False,connected_only=True)
    if len(rcn)!=sum(1 for r in res if nx.is_connected(r.graph)): fail('C16_conn',1)
print({k:len(v) for k,v in bad.items()})
for k,v in bad.items(): print(k, str(v[0])[:700])
