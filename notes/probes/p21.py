import warnings; warnings.filterwarnings("ignore")
import random, sys, copy, itertools, networkx as nx, numpy as np
from fgutils.its import get_its, split_its, get_rc, prune_its_to_rc, ITS
from fgutils.utils import add_implicit_hydrogens, get_unreachable_nodes, complete_aam, initialize_aam
random.seed(int(sys.argv[1])); N=int(sys.argv[2])
SY=['C','N','O','S','Cl','c','R','H','Si','B','Mg','Xx']
def rand_ids(n):
    k=random.random()
    if k<0.3: ids=list(range(n))
    elif k<0.5: ids=list(range(1,n+1))
    elif k<0.8: ids=random.sample(range(0,3*n+5),n)
    else: ids=list(range(7,7+n))
    if random.random()<0.5: random.shuffle(ids)
    return ids
def rand_mol(n, ids=None, bonds=(1,1,1,2,3,1.5)):
    ids=ids or rand_ids(n); g=nx.Graph()
    for i in ids: g.add_node(i, symbol=random.choice(SY))
    for k in range(1,n):
        if random.random()<0.85: 
            u,v=ids[k],ids[random.randrange(k)]
            if random.random()<0.5: u,v=v,u
            g.add_edge(u,v,bond=random.choice(bonds))
    for _ in range(random.randint(0,2)):
        if n>=3:
            u,v=random.sample(ids,2)
            if not g.has_edge(u,v): g.add_edge(u,v,bond=random.choice(bonds))
    return g
bad={}
def fail(k,info):
    bad.setdefault(k,[]).append(info)
# ---------- C09 / C10
for it in range(N):
    n=random.randint(1,7)
    G=rand_mol(n); H=nx.Graph()
    # H: same atoms under a different id scheme, edited bonds
    idsH=rand_ids(n); mp=dict(zip(list(G.nodes),idsH))
    order=list(G.nodes); random.shuffle(order)
    for u in order: H.add_node(mp[u], symbol=G.nodes[u]['symbol'])
    for u,v,d in G.edges(data=True):
        r=random.random()
        if r<0.6: H.add_edge(mp[u],mp[v],bond=d['bond'])
        elif r<0.8: H.add_edge(mp[v],mp[u],bond=random.choice((1,2,3)))
    for _ in range(random.randint(0,2)):
        if n>=2:
            u,v=random.sample(list(H.nodes),2)
            if not H.has_edge(u,v): H.add_edge(u,v,bond=random.choice((1,2)))
    # atom maps: injective, shuffled, partial
    nums=random.sample(range(1,3*n+2),n)
    for u,k in zip(G.nodes,nums):
        if random.random()<0.85: G.nodes[u]['aam']=k
        if random.random()<0.85: H.nodes[mp[u]]['aam']=k
    # extra unmapped / one-sided atoms
    G0=copy.deepcopy(G); H0=copy.deepcopy(H)
    try:
        I=get_its(G,H)
    except Exception as e:
        fail('C09_exc',(type(e).__name__,str(e)[:60])); continue
    mg={d['aam']:u for u,d in G.nodes(data=True) if 'aam' in d}; mh={d['aam']:u for u,d in H.nodes(data=True) if 'aam' in d}
    both=set(mg)&set(mh)
    ok = set(I.nodes)==both and all(I.nodes[k].get('symbol')==G.nodes[mg[k]]['symbol'] and I.nodes[k].get('aam')==k for k in both)
    exp={}
    for k,l in itertools.combinations(sorted(both),2):
        eg=G.edges[mg[k],mg[l]]['bond'] if G.has_edge(mg[k],mg[l]) else 0
        eh=H.edges[mh[k],mh[l]]['bond'] if H.has_edge(mh[k],mh[l]) else 0
        if eg!=0 or eh!=0: exp[(k,l)]=(eg,eh)
    got={(min(u,v),max(u,v)):tuple(d['bond']) for u,v,d in I.edges(data=True)}
    if not ok or got!=exp: fail('C09',(list(G.nodes(data=True)),list(G.edges(data=True)),list(H.nodes(data=True)),list(H.edges(data=True)),got,exp))
    if not (nx.utils.graphs_equal(G,G0) and nx.utils.graphs_equal(H,H0)): fail('C09_mut',1)
    # C10: split then re-superimpose (ITS ids = aam)
    g2,h2=split_its(I)
    okS = set(g2.nodes)==set(I.nodes)==set(h2.nodes) and {(min(u,v),max(u,v)):d['bond'] for u,v,d in g2.edges(data=True)}=={e:b[0] for e,b in got.items() if b[0]!=0} and {(min(u,v),max(u,v)):d['bond'] for u,v,d in h2.edges(data=True)}=={e:b[1] for e,b in got.items() if b[1]!=0}
    if not okS: fail('C10_split',1)
    I2=get_its(g2,h2)
    got2={(min(u,v),max(u,v)):tuple(d['bond']) for u,v,d in I2.edges(data=True)}
    if set(I2.nodes)!=set(I.nodes) or got2!=got: fail('C10_resup',(got,got2))
# ---------- C11
def dist_le(g,S,r):
    d={}
    for s in S:
        for v,k in nx.single_source_shortest_path_length(g,s,cutoff=r).items(): d[v]=min(d.get(v,99),k)
    return set(d)
for it in range(N):
    n=random.randint(1,8); g=rand_mol(n)
    S=random.sample(list(g.nodes),random.randint(1,min(3,n))); r=random.randint(0,4)
    try: u=set(int(x) for x in get_unreachable_nodes(g,S,r))
    except Exception as e: fail('C11_exc',(type(e).__name__,str(e)[:80])); continue
    if u!=set(g.nodes)-dist_le(g,S,r): fail('C11_unreach',(list(g.nodes),list(g.edges),S,r,sorted(u)))
    # prune on ITS-labelled version
    its=nx.Graph(); 
    for x,d in g.nodes(data=True): its.add_node(x,symbol=d['symbol'])
    for a,b in g.edges: 
        p=random.choice([(1,1),(1,1),(2,2),(1,2),(0,1),(2,1),(1,0)]); its.add_edge(a,b,bond=p)
    rc=get_rc(its)
    exp_rc={(min(a,b),max(a,b)) for a,b,d in its.edges(data=True) if d['bond'][0]!=d['bond'][1]}
    if {(min(a,b),max(a,b)) for a,b in rc.edges}!=exp_rc or set(rc.nodes)!={x for e in exp_rc for x in e}: fail('C11_rc',1)
    if len(rc)==0: continue
    for ih in (False,True):
        its0=copy.deepcopy(its)
        try: p=prune_its_to_rc(its,r,ih)
        except Exception as e: fail('C11_prune_exc',(type(e).__name__,str(e)[:80])); continue
        keep=dist_le(its,list(rc.nodes),r)
        newn=set(p.nodes)-set(its.nodes)
        okp = (set(p.nodes)-newn)==keep and all(p.nodes[x]==its.nodes[x] for x in keep) and all(p.has_edge(a,b) and p.edges[a,b]==d for a,b,d in its.edges(data=True) if a in keep and b in keep)
        cuts=sum(1 for a,b in its.edges if (a in keep)!=(b in keep))
        if ih: okp = okp and len(newn)==cuts and all(p.nodes[x]['symbol']=='H' and p.degree(x)==1 and list(p.edges(x,data='bond'))[0][2]==(1,1) for x in newn) and p.number_of_edges()==sum(1 for a,b in its.edges if a in keep and b in keep)+cuts
        else: okp = okp and not newn and p.number_of_edges()==sum(1 for a,b in its.edges if a in keep and b in keep)
        if not okp: fail('C11_prune',(list(its.nodes),list(its.edges(data='bond')),r,ih,list(p.nodes(data='symbol')),list(p.edges(data='bond'))))
        if not nx.utils.graphs_equal(its,its0): fail('C11_mut',1)
# ---------- C12
VT={}
for v,els in {2:["Be","Mg","Ca","Sr","Ba"],3:["B","Al","Ga","In","Tl"],4:["C","Si","Sn","Pb"],5:["N","P","As","Sb","Bi"],6:["O","S","Se","Te","Po"],7:["F","Cl","Br","I","At"]}.items():
    for e in els: VT[e]=v
for it in range(N):
    n=random.randint(1,7); g=rand_mol(n); g0=copy.deepcopy(g)
    h=add_implicit_hydrogens(copy.deepcopy(g))
    newn=set(h.nodes)-set(g.nodes)
    ok = all(h.nodes[x]==g.nodes[x] for x in g.nodes) and all(h.has_edge(a,b) and h.edges[a,b]==d for a,b,d in g.edges(data=True)) and h.number_of_edges()==g.number_of_edges()+len(newn)
    ok = ok and all(h.nodes[x]['symbol']=='H' and h.degree(x)==1 and list(h.edges(x,data='bond'))[0][2]==1 and x>max(g.nodes) for x in newn)
    for x,d in g.nodes(data=True):
        s=d['symbol']; add=sum(1 for y in h.neighbors(x) if y in newn)
        if s in VT:
            bs=sum(2*b for _,_,b in g.edges(x,data='bond')); v=VT[s]; t=2*(min(8,2*v)-v)-bs
            exp=max(0,int(t/2)) if t>=0 else 0
        else: exp=0
        if add!=exp: ok=False
    if not ok: fail('C12',(list(g.nodes(data='symbol')),list(g.edges(data='bond')),list(h.nodes(data='symbol')),list(h.edges(data='bond'))))
    h2=add_implicit_hydrogens(copy.deepcopy(h))
    if not nx.utils.graphs_equal(h,h2): fail('C12_idem',1)
# ---------- C20
for it in range(N):
    n=random.randint(1,8); g=rand_mol(n)
    for x in g.nodes:
        if random.random()<0.4: g.nodes[x]['aam']=random.randint(1,12)
    old={x:d['aam'] for x,d in g.nodes(data=True) if 'aam' in d}
    off=random.choice([None,None,'min',0,1,3,5,9])
    complete_aam(g,off)
    start=1 if off is None else (min(old.values()) if (off=='min' and old) else (1 if off=='min' else off))
    new=[g.nodes[x]['aam'] for x in g.nodes if x not in old]
    used=set(old.values()); exp=[]; k=start
    for _ in new:
        while k in used: k+=1
        exp.append(k); used.add(k)
    if any(g.nodes[x]['aam']!=v for x,v in old.items()) or new!=exp: fail('C20',(old,off,new,exp))
print({k:len(v) for k,v in bad.items()})
for k,v in bad.items(): print(k, str(v[0])[:500])
