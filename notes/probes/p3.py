import warnings; warnings.filterwarnings("ignore")
import networkx as nx, itertools, os, sys
from fgutils.parse import parse
from fgutils.permutation import PermutationMapper, MappingMatrix
# C08
m = PermutationMapper(wildcard='R', ignore_case=True)
print(m.permute(['C','R'],['O','C']))
print(m.permute(['C'],['R']), m.permute(['R'],['R']), m.permute(['r'],['C']))
print(m.permute([],[]), m.permute([],['C']), m.permute(['C'],[]))
m2 = PermutationMapper(wildcard='R', ignore_case=True, can_map_to_nothing=['H'])
print(m2.permute(['H','C'],['C']), m2.permute(['H','H'],['H']), m2.permute(['H','H'],['H','H']))
m3 = PermutationMapper(wildcard='R', can_map_to_nothing=['R'])
print(m3.permute(['R','C'],['C']), m3.permute(['R','R'],['C']), m3.permute(['R','C'],['C','O']))
m4 = PermutationMapper(wildcard='R', can_map_to_nothing=['R','H'])
print(m4.can_map_to_nothing, m4.permute(['R','H','C'],['C']))
print(m4.permute(['R','H'],['C','H','O']))
try:
    MappingMatrix(['Cl','C'],['Cl','C'],m)
    print('mm ok')
except AssertionError as e: print('MappingMatrix assertion', repr(e))
mm=MappingMatrix(['C','R'],['C','O','R'],m); print(mm.is_mapping('R','O'), mm.is_mapping('C','R'), mm.is_mapping('R','R'))
mm=MappingMatrix(['C','c'],['C','c'],m); print('case', mm.is_mapping('C','c'), m.permute(['C'],['c']))
# caller's lists not modified
p=['H','C']; s=['C']; m2.permute(p,s); print(p,s)
# wildcard lower-case interplay: wildcard 'R' ignore_case -> 'r'; pattern 'r' matches all
print(PermutationMapper(wildcard='R', ignore_case=False).permute(['r'],['C']))
# structure-side wildcard never matches concrete pattern symbol
print(m.permute(['C'],['R']))
# can_map_to_nothing where structure has more of cmtn than pattern: num_to_add negative -> range empty
print(m2.permute(['C'],['H','H','C']))
# cmtn == wildcard with struct longer
print(m3.permute(['R'],['C','O']))
