import warnings; warnings.filterwarnings("ignore")
from fgutils import FGQuery
q=FGQuery()
for s in ['CCOCC','C1OO1','CC1(C)OO1','C1CC1O','OC1CC1','C1OC1','CCOC(C)C','C1CO1','OC1OC1','C1COC1','C1CCOC1', 'CC(C)OC(C)C']:
    print(s, q.get(s))
