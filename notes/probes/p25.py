import warnings; warnings.filterwarnings("ignore")
import random, collections, sys, itertools
from fgutils.proxy import Proxy, ProxyGroup, ProxyGraph
from fgutils.parse import Parser
random.seed(int(sys.argv[1]))
atoms=['C','O','N','Cl']
def rand_pattern(labels, allow_empty):
    if allow_empty and random.random()<0.15: return '', [0]
    n=random.randint(1,4); toks=[]
    for i in range(n):
        toks.append('{%s}'%random.choice(labels) if labels and random.random()<0.35 else random.choice(atoms))
    s=toks[0]
    for t in toks[1:]:
        b=random.choice(['','','=','<1,2>','<0,1>'])
        s+= '(%s%s)'%(b,t) if random.random()<0.3 else b+t
    return s, sorted(random.sample(range(n), random.randint(1,min(n,2))))
P=Parser(use_multigraph=True)
def fz(c): return tuple(sorted(c.items()))
bad=0; par=0
for it in range(int(sys.argv[2])):
    k=random.randint(1,4); names=['g%d'%i for i in range(k)]
    groups=[]
    for i,nm in enumerate(names):
        groups.append(ProxyGroup(nm,[ProxyGraph(*rand_pattern(names[i+1:],True)) for _ in range(random.randint(1,3))]))
    cores=[rand_pattern(names,False)[0] for _ in range(random.randint(1,2))]
    gd={g.name:g for g in groups}
    # expected multiset of (symbols, bonds) per combination. A pattern contributes its non-group symbols and its bonds;
    # bonds incident to a node replaced by the empty pattern are removed.
    def expand(pat):
        """list of (symbolCounter, bondCounter, is_empty) for all expansions of a pattern string"""
        g=P.parse(pat)
        if len(g)==0: return [(collections.Counter(),collections.Counter(),True)]
        base_s=collections.Counter(); slots=[]
        for n,d in g.nodes(data=True):
            ks=[l for l in d['labels'] if l in gd] if d['is_labeled'] else []
            if ks: slots.append((n,ks[0]))
            else: base_s[d['symbol'] if not d['is_labeled'] else '#'+','.join(d['labels'])]+=1
        base_b=collections.Counter(str(d['bond']) for _,_,d in g.edges(data=True))
        out=[]
        opts=[ [ (n,e) for gr in gd[nm].graphs for e in expand(gr.pattern) ] for n,nm in slots]
        for combo in itertools.product(*opts):
            s=collections.Counter(base_s); b=collections.Counter(base_b)
            for n,(es,eb,empty) in combo:
                s+=es; b+=eb
                if empty:
                    for _,_,d in g.edges(n,data=True): b[str(d['bond'])]-=1
            out.append((s,+b,False))
        return out
    try:
        exp=collections.Counter()
        for c in cores:
            for s,b,_ in expand(c): exp[(fz(s),fz(b))]+=1
    except RecursionError: continue
    res=list(Proxy(cores,groups,enable_aam=False,parser=Parser(use_multigraph=True)))
    got=collections.Counter()
    for g in res:
        s=collections.Counter((d['symbol'] if not d['is_labeled'] else '#'+','.join(d['labels'])) for _,d in g.nodes(data=True))
        b=collections.Counter(str(d['bond']) for _,_,d in g.edges(data=True))
        got[(fz(s),fz(b))]+=1
    if got!=exp:
        # is it only the multigraph collapse? re-run keeping multigraphs via build_graphs
        from fgutils.proxy import build_graphs
        got2=collections.Counter()
        for c in cores:
            for g in build_graphs(ProxyGraph(c), gd, Parser(use_multigraph=True)):
                s=collections.Counter((d['symbol'] if not d['is_labeled'] else '#'+','.join(d['labels'])) for _,d in g.nodes(data=True))
                b=collections.Counter(str(d['bond']) for _,_,d in g.edges(data=True))
                got2[(fz(s),fz(b))]+=1
        if got2==exp: par+=1
        else:
            bad+=1
            if bad<4: print('MISMATCH',cores,[(g.name,[(x.pattern,x.anchor) for x in g.graphs]) for g in groups], '\n got-exp',list((got2-exp).items())[:2],'\n exp-got',list((exp-got2).items())[:2])
print('bad',bad,'explained-by-parallel-edge-collapse',par)
