import warnings; warnings.filterwarnings("ignore")
import random, sys, collections
from fgutils.parse import Parser
random.seed(int(sys.argv[1]))
ATOMS=['C','N','O','S','Cl','Br','c','n','o','s','H','Si','B','F','P','I']
BSYM=['-','=','#','$',':']
class Gen:
    def __init__(s, its, multi):
        s.its=its; s.multi=multi; s.open={}; s.next_label=1; s.natoms=0; s.pairs=set()
    def atom(s):
        r=random.random()
        if r<0.08: return ('W',)
        if r<0.16: return ('L', [random.choice(['g','grp_1','a-b','x2']) for _ in range(random.randint(1,2))])
        return ('A', random.choice(ATOMS))
    def bond(s, allow_dot=True):
        r=random.random()
        if r<0.5: return ('I',)
        if allow_dot and r<0.58: return ('D',)
        if s.its and r<0.8:
            return ('R', random.choice([None,0,1,2,3]), random.choice([None,0,1,2,3]))
        return ('S', random.choice(BSYM))
    def chain(s, depth, budget):
        a=s.atom(); my=s.natoms; s.natoms+=1; budget[0]-=1
        items=[]
        # ring marks
        last_was_ring=False
        for _ in range(random.randint(0,2)):
            if random.random()<0.5 and s.open:
                # close some open ring not opened on this atom and not already bonded (simple graph)
                cands=[l for l,(at) in s.open.items() if at!=my and (s.multi or (min(at,my),max(at,my)) not in s.pairs)]
                if cands:
                    l=random.choice(cands); at=s.open.pop(l)
                    b=s.bond()
                    if last_was_ring and b[0] in ('I',): continue_flag=True
                    else: continue_flag=False
                    if continue_flag: 
                        s.open[l]=at; continue
                    items.append(('ring',b,l)); s.pairs.add((min(at,my),max(at,my))); last_was_ring=True
                    continue
            if random.random()<0.5 and not last_was_ring:
                l=str(s.next_label); s.next_label+=1 if random.random()<0.7 else 9
                if l in s.open: continue
                s.open[l]=my; items.append(('ring',('I',),l)); last_was_ring=True
        # branches
        while budget[0]>0 and depth<3 and random.random()<0.3:
            b=s.bond(); s.pairs.add((my,s.natoms))
            items.append(('branch',b,s.chain(depth+1,budget)))
        nxt=None
        if budget[0]>0 and random.random()<0.75:
            b=s.bond(); s.pairs.add((my,s.natoms))
            nxt=(b,s.chain(depth,budget))
        return (a,items,nxt)
def pbond(b):
    if b[0]=='I': return ''
    if b[0]=='D': return '.'
    if b[0]=='S': return b[1]
    return '<%s,%s>'%('' if b[1] is None else b[1], '' if b[2] is None else b[2])
def patom(a):
    return 'R' if a[0]=='W' else ('{'+','.join(a[1])+'}' if a[0]=='L' else a[1])
def pr(c):
    a,items,nxt=c; s=patom(a)
    for it in items:
        if it[0]=='ring': s+=pbond(it[1])+it[2]
        else: s+='('+pbond(it[1])+pr(it[2])+')'
    if nxt: s+=pbond(nxt[0])+pr(nxt[1])
    return s
def has_rc(c):
    a,items,nxt=c
    def hb(b): return b[0]=='R'
    return any(hb(it[1]) or (it[0]=='branch' and has_rc(it[2])) for it in items) or (nxt is not None and (hb(nxt[0]) or has_rc(nxt[1])))
def denote(c, off, its):
    nodes=[]; edges=[]; open_={}
    def sym(a): return 'R' if a[0]=='W' else ('#' if a[0]=='L' else a[1])
    def order(b, s1, s2):
        if b[0]=='D': return None
        if b[0]=='I': o=1.5 if (s1.islower() and s2.islower()) else 1
        elif b[0]=='S': o={'-':1,'=':2,'#':3,'$':4,':':1.5}[b[1]]
        else: return (1 if b[1] is None else b[1], 1 if b[2] is None else b[2])
        return (o,o) if its else o
    def rec(c, parent, pb):
        a,items,nxt=c; me=len(nodes)+off; nodes.append((me,sym(a),a[1] if a[0]=='L' else [], a[0]=='L'))
        if parent is not None:
            o=order(pb, nodes[parent-off][1], sym(a))
            if o is not None: edges.append((parent,me,o))
        for it in items:
            if it[0]=='ring':
                l=it[2]
                if l in open_:
                    at=open_.pop(l); o=order(it[1], sym(a), nodes[at-off][1])
                    if o is not None: edges.append((me,at,o))
                else: open_[l]=me
            else: rec(it[2], me, it[1])
        if nxt: rec(nxt[1], me, nxt[0])
    rec(c,None,None)
    return nodes, sorted((min(u,v),max(u,v),str(o)) for u,v,o in edges)
bad=0; tot=0; skipped=0
for it in range(int(sys.argv[2])):
    its=random.random()<0.4; multi=random.random()<0.4
    g=Gen(its,multi); c=g.chain(0,[random.randint(1,10)])
    if g.open: skipped+=1; continue
    text=pr(c)
    if 'Sn' in text or 'Cn' in text and False: skipped+=1; continue
    real_its=has_rc(c); off=random.choice([0,0,3])
    try:
        G=Parser(use_multigraph=multi).parse(text, idx_offset=off)
    except Exception as e:
        bad+=1; print('EXC',text,type(e).__name__,e); continue
    tot+=1
    gn=[(n,d['symbol'],d['labels'],d['is_labeled']) for n,d in G.nodes(data=True)]
    ge=sorted((min(u,v),max(u,v),str(d['bond'])) for u,v,d in G.edges(data=True))
    en,ee=denote(c,off,real_its)
    if gn!=en or ge!=ee:
        bad+=1
        if bad<10: print('DIFF',text,multi,'\n  got',ge,'\n  exp',ee, '\n', gn if gn!=en else '')
print('tot',tot,'bad',bad,'skipped',skipped)
