import warnings; warnings.filterwarnings("ignore")
import networkx as nx, torch
from fgutils.parse import parse, Parser
from fgutils.its import ITS
from fgutils.torch import its_to_torch, its_from_torch, prune
from fgutils.torch.graph import node_induced_subgraph, edge_induced_subgraph
from fgutils.rdkit import graph_to_mol, mol_to_graph, graph_to_smiles, smiles_to_graph
def show(g): return ([(n,d.get('symbol'),d.get('aam')) for n,d in g.nodes(data=True)], [(u,v,d['bond']) for u,v,d in g.edges(data=True)])
its=ITS.from_smiles('[C:1][C:2][O:3]>>[C:1].[C:2][O:3]')
print(show(its.graph))
try:
    d=its_to_torch(its); print(d.x.tolist(), d.edge_index.tolist(), d.edge_attr.tolist()); print(show(its_from_torch(d)))
except Exception as e: print('EXC',type(e).__name__,e)
g=parse('C<1,2>C<2,1>O'); d=its_to_torch(g); print(d.x.tolist(), d.edge_index.tolist(), d.edge_attr.tolist(), d.edge_attr.dtype)
g=parse('c<1,2>cO') ; 
try: d=its_to_torch(g); print(d.x.tolist())
except Exception as e: print('EXC lower',type(e).__name__,e)
b=its_to_torch([parse('C<1,2>C'),parse('O<1,2>CC')]); print(b.x.tolist(), b.edge_index.tolist(), b.batch.tolist()); print([show(x) for x in its_from_torch(b)])
# batch where a graph has an isolated last node
b=its_to_torch([parse('C<1,2>C.O'),parse('O<1,2>C')]); 
try: print([show(x) for x in its_from_torch(b)])
except Exception as e: print('EXC batch',type(e).__name__,e)
d=its_to_torch(parse('C<1,2>CCC')); p=prune(d, torch.tensor([0]), radius=1); print('prune', p.x.tolist(), p.edge_index.tolist())
# C19
g=parse('C$C'.replace('$','#')); 
g=nx.Graph(); g.add_node(5,symbol='C',aam=2); g.add_node(3,symbol='c'); g.add_edge(5,3,bond=4)
m=graph_to_mol(g); print(show(mol_to_graph(m)))
g=nx.Graph(); g.add_node(0,symbol='C',aam=0); m=graph_to_mol(g); print(show(mol_to_graph(m)))
try: graph_to_mol(parse('C{x}')); print('no refuse')
except ValueError as e: print('refuses', e)
print(graph_to_smiles(parse('c1ccccc1')), graph_to_smiles(parse('C:C')))
# C13
from fgutils.proxy import replace_node, ProxyGraph
p=Parser(use_multigraph=True)
g=p.parse('{a}1<0,1>C<0,1>1'); print(list(g.edges(0,data=True,keys=True)))
r=replace_node(g,0,ProxyGraph('CCC',anchor=[0,2]),p); print(show(r))
g=p.parse('N{g}(O)(S)C'); r=replace_node(g,1,ProxyGraph('CC',anchor=[0,1]),p); print(show(r))
g=p.parse('N{g}C'); r=replace_node(g,1,ProxyGraph(''),p); print(show(r))
