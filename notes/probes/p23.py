import warnings; warnings.filterwarnings("ignore")
import networkx as nx
from fgutils.parse import Parser
from fgutils.proxy import replace_node, ProxyGraph, Proxy, ProxyGroup
P=Parser(use_multigraph=True)
g=P.parse('C1C{g}1')
print('parent incident order of node 2:', list(g.edges(2,data='bond')))
print('composed incident order        :', list(nx.compose(g,P.parse('NO',idx_offset=3)).edges(2,data='bond')))
r=replace_node(g.copy(),2,ProxyGraph('NO',anchor=[0,1]),P)
print([(n,d['symbol']) for n,d in r.nodes(data=True)], list(r.edges(data='bond')))
g=P.parse('C=1C{g}1')   # chain bond 2->1 is single, ring bond 2->0 single; make them distinguishable
g=P.parse('C1C={g}#1')
print('parent incident order of node 2:', list(g.edges(2,data='bond')))
r=replace_node(g.copy(),2,ProxyGraph('NO',anchor=[0,1]),P)
print([(n,d['symbol']) for n,d in r.nodes(data=True)], list(r.edges(data='bond')))
# via the public Proxy
print([ (list(x.nodes(data='symbol')), list(x.edges(data='bond'))) for x in Proxy('C1C={g}#1', ProxyGroup('g', ProxyGraph('NO',anchor=[0,1])), enable_aam=False)])
