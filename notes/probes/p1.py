import warnings; warnings.filterwarnings("ignore")
import networkx as nx
from fgutils.parse import parse, Parser, tokenize
def show(g):
    return ([(n,d['symbol']) for n,d in g.nodes(data=True)], sorted((min(u,v),max(u,v),d['bond']) for u,v,d in g.edges(data=True)))
def t(s, **k):
    try:
        print(repr(s), show(parse(s, **k)))
    except Exception as e:
        print(repr(s), 'EXC', type(e).__name__, e)
# C01
t('C$C'); t('C.C<1,2>C'); t('C1CCCc1'); t('C1CC=c1'); t('C/C'); t('C\\C'); t('C:C'); t('cc'); t('c-c'); t('C.C'); t('C(.C)C')
t('C1CCCc2c1cccc2')
t('c1ccccc1'); t('C1.C1'); t('C=1CC1'); t('C1CC=1'); t('C%12'); t('C12CC1C2'); t('C10CC10'); t('C(C')
t('C)C'); t('1CC1'); t('C1CC'); t('C11'); t('CC', idx_offset=5); t('{a,b}C'); t('R1CC1'); t('C<,2>C'); t('C<2,>C'); t('C<,>C')
print(list(tokenize('C<1,2>C$C')))
print(list(tokenize('C12')))
print(list(tokenize('ClC')), list(tokenize('Sc')), list(tokenize('Cn')), list(tokenize('CH')))
p=Parser(use_multigraph=True); g=p.parse('C1C=1'); print(type(g), list(g.edges(data=True,keys=True)))
g=p.parse('C=1C1'); print(type(g), list(g.edges(data=True,keys=True)))
g=p.parse('C1CC1<1,2>C'); print(list(g.edges(data=True)))
t('CC()C'); t('C(C)(C)C'); t('()C'); t('(C)C'); t('C((C)C)C')
t('C-.C'); t('C.-C'); t('c1ccc.cc1'); t('c:c'); t('c=c'); t('c1ccccc=1')
t('C<1,2>.C')
t('C1CC.1')
