import warnings; warnings.filterwarnings("ignore")
# C05: static anchor-monotonicity of the default config
import networkx as nx
from fgutils.fgconfig import FGConfigProvider
from fgutils.permutation import PermutationMapper
m=PermutationMapper(wildcard='R', ignore_case=True)
def sym_ok(p,g): return m.permute([p],[g])==[[(0,0)]]
def embeddings(P,G,fix=None):
    pn=list(nx.dfs_preorder_nodes(P, fix[0] if fix else list(P.nodes)[0])); gn=list(G.nodes)
    def rec(i,f,used):
        if i==len(pn): yield dict(f); return
        p=pn[i]
        for g in ([fix[1]] if (fix and p==fix[0]) else gn):
            if g in used or not sym_ok(P.nodes[p]['symbol'],G.nodes[g]['symbol']): continue
            if all((q not in f) or (G.has_edge(g,f[q]) and G.edges[g,f[q]]['bond']==P.edges[p,q]['bond']) for q in P.neighbors(p)):
                f[p]=g; used.add(g); yield from rec(i+1,f,used); del f[p]; used.discard(g)
    yield from rec(0,{},set())
prov=FGConfigProvider(); roots=prov.get_tree()
bad=[]
def walk(n):
    for c in n.children:
        P=n.fgconfig; C=c.fgconfig
        for u in C.pattern.nodes:
            if u not in C.group_atoms: continue
            s=C.pattern.nodes[u]['symbol']
            if s in ('C','H','c'): continue   # anchoring atoms are never C/H ; R could be anything
            ok=any(True for pa in P.group_atoms for f in embeddings(P.pattern,C.pattern,fix=(pa,u)))
            if not ok: bad.append((P.name,C.name,u,s))
        walk(c)
for r in roots: walk(r)
print('non-monotone edges', sorted(set(bad)))
