import warnings; warnings.filterwarnings("ignore")
from rdkit import Chem, RDLogger
RDLogger.DisableLog('rdApp.*')
import random
from fgutils.parse import parse
from fgutils.rdkit import mol_smiles_to_graph
def show(g): return ([d['symbol'] for n,d in g.nodes(data=True)], sorted((min(u,v),max(u,v),d['bond']) for u,v,d in g.edges(data=True)))
m=Chem.MolFromSmiles('C1=CCCCC1')
s=set()
for i in range(200): s.add(Chem.MolToSmiles(m,doRandom=True))
print(s)
m=Chem.MolFromSmiles('CSn1cccc1'); print('CSn1cccc1', m is not None and [a.GetSymbol() for a in m.GetAtoms()])
try: print(show(parse('CSn1cccc1')))
except Exception as e: print('EXC',e)
# compare parse vs rdkit on random smiles of a few molecules
mols=['c1ccccc1C(=O)O','C1CCCc2c1cccc2','CC(=O)Nc1ccc(O)cc1','c1ccc2ccccc2c1','C1=CC=CC=C1','c1ccncc1','c1cc[nH]c1','O=C1CCCCC1','C#N','c1ccccc1-c1ccccc1','C1CC1C1CC1','c1ccc2c(c1)CCC2', 'C12CC1C2']
bad=0;tot=0;ex=[]
for ms in mols:
    m=Chem.MolFromSmiles(ms)
    for i in range(100):
        s=Chem.MolToSmiles(m,doRandom=True)
        tot+=1
        try:
            a=show(parse(s))
        except Exception as e:
            a=('EXC',str(e)[:40])
        b=show(mol_smiles_to_graph(s))
        b=([x for x in b[0]], b[1])
        a2=([x.upper() if len(x)==1 else x for x in a[0]], a[1]) if a[0]!='EXC' else a
        if a2!=b:
            bad+=1
            if len(ex)<12: ex.append((s,a2[1] if a[0]!='EXC' else a,b[1]))
print(bad,tot)
for e in ex: print(e)
