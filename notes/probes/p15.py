import warnings; warnings.filterwarnings("ignore")
import sys, itertools, random, copy, re
sys.argv=['p12.py','0','0']
exec(open('p12.py').read().split("random.seed(")[0])
from fgutils.fgconfig import _default_fg_config
from fgutils.parse import parse
random.seed(3)
subs=['C','H','O','N','CC','C(=O)C','OC','S','Cl']
bad=0; tot=0
for c in _default_fg_config:
    pat=c['pattern']
    nR=pat.count('R')
    combos=set()
    for _ in range(40):
        combos.add(tuple(random.choice(subs) for _ in range(nR)))
    for combo in combos:
        it=iter(combo)
        s=re.sub('R', lambda m: '('+next(it)+')' if False else next(it), pat)
        # R at start of string followed by atoms: keep as prefix; branches handled by pattern parentheses already
        try:
            G=parse(s)
        except Exception as e:
            continue
        # drop explicit H nodes? keep them: they are real atoms in the graph
        if len(G)>13: continue
        tot+=1
        try:
            out,errs=check(G)
        except Exception as e:
            out,errs=None,[('EXC',type(e).__name__,str(e)[:80])]
        if errs:
            bad+=1
            if bad<=12: print(c['name'],s,out,errs)
print('tot',tot,'bad',bad)
