import warnings; warnings.filterwarnings("ignore")
exec(open('p14.py').read().split("prov=FGConfigProvider()")[0])
prov=FGConfigProvider(); roots=prov.get_tree()
nodes={}
def coll(ns):
    for n in ns: nodes[n.fgconfig.name]=n; coll(n.children)
coll(roots)
def desc(n):
    out={}
    for c in n.children:
        out[c.fgconfig.name]=c; out.update(desc(c))
    return out
fail=[]; tot=0
for N in nodes.values():
    ch={c.fgconfig.name for c in N.children}
    for dn,D in desc(N).items():
        if dn in ch: continue
        for u in D.fgconfig.pattern.nodes:
            if u not in D.fgconfig.group_atoms: continue
            s=D.fgconfig.pattern.nodes[u]['symbol']
            if s in ('C','H','c'): continue
            tot+=1
            ok=False
            for X in N.children:
                for pa in X.fgconfig.group_atoms:
                    if any(True for f in embeddings(X.fgconfig.pattern, D.fgconfig.pattern, fix=(pa,u))): ok=True;break
                if ok: break
            if not ok:
                # can N itself sit on u through D?
                nsit=any(True for pa in N.fgconfig.group_atoms for f in embeddings(N.fgconfig.pattern, D.fgconfig.pattern, fix=(pa,u)))
                fail.append((N.fgconfig.name,dn,u,s,'N-sits' if nsit else 'N-cannot-sit-via-D'))
print('triples',tot,'failing',len(fail))
for f in fail: print(f)
