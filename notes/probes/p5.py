import warnings; warnings.filterwarnings("ignore")
import itertools, random, networkx as nx
from fgutils.fgconfig import FGConfigProvider, FGConfig, _default_fg_config, build_config_tree_from_list, is_subgroup
from fgutils.permutation import PermutationMapper
from fgutils.algorithm.subgraph import map_subgraph_to_graph
m=PermutationMapper(wildcard='R', ignore_case=True)
cfgs=[FGConfig(**c) for c in _default_fg_config]
def sym_ok(p,g): return m.permute([p],[g])==[[(0,0)]]
def embeds(P,G):
    pn=list(P.nodes); gn=list(G.nodes)
    if len(pn)>len(gn): return False
    # backtracking
    order=pn
    def rec(i,f,used):
        if i==len(order): return True
        p=order[i]
        for g in gn:
            if g in used or not sym_ok(P.nodes[p]['symbol'],G.nodes[g]['symbol']): continue
            ok=True
            for q in P.neighbors(p):
                if q in f:
                    if not G.has_edge(g,f[q]) or G.edges[g,f[q]]['bond']!=P.edges[p,q]['bond']: ok=False;break
            if ok:
                f[p]=g; used.add(g)
                if rec(i+1,f,used): return True
                del f[p]; used.discard(g)
        return False
    return rec(0,{},set())
names=[c.name for c in cfgs]
# true order: A < B iff A.pattern embeds into B.pattern (A ancestor of B), with anti-pattern exclusion
anc=set()
for a in cfgs:
    for b in cfgs:
        if a is b: continue
        if embeds(a.pattern,b.pattern):
            if any(embeds(ap,b.pattern) for ap in a.anti_pattern): continue
            anc.add((a.name,b.name))
# both directions?
both=[(a,b) for (a,b) in anc if (b,a) in anc]
print('mutual',both)
# impl relation via map_subgraph_to_graph
impl=set()
for a in cfgs:
    for b in cfgs:
        if a is b: continue
        try:
            if is_subgroup(a,b,m): impl.add((a.name,b.name))
        except AssertionError as e: print('assert',e)
print('impl-only',sorted(impl-anc)); print('true-only',sorted(anc-impl))
# transitivity of anc?
nt=[(a,c) for (a,b) in anc for (b2,c) in anc if b==b2 and a!=c and (a,c) not in anc]
print('non-transitive',nt[:10])
# covering pairs
cover={(a,b) for (a,b) in anc if not any((a,x) in anc and (x,b) in anc for x in names)}
roots_true=sorted(n for n in names if not any((a,n) in anc for a in names))
def tree_edges(roots):
    out=set()
    def rec(n):
        for c in n.children:
            out.add((n.fgconfig.name,c.fgconfig.name)); rec(c)
    for r in roots: rec(r)
    return out
t=build_config_tree_from_list(cfgs,m)
te=tree_edges(t)
print('roots impl',sorted(r.fgconfig.name for r in t)); print('roots true',roots_true)
print('tree-only edges',sorted(te-cover)); print('cover-only edges',sorted(cover-te))
# permutations of list
random.seed(0)
diff=0
for i in range(20):
    c2=cfgs[:]; random.shuffle(c2)
    t2=build_config_tree_from_list(c2,m)
    if tree_edges(t2)!=te or sorted(r.fgconfig.name for r in t2)!=sorted(r.fgconfig.name for r in t): diff+=1
print('order-dependent builds',diff,'/20')
