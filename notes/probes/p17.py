import warnings; warnings.filterwarnings("ignore")
import itertools, collections
from fgutils.permutation import PermutationMapper
alpha=['C','H','R','O','c']
viol=collections.Counter(); tot=0; ex={}
for wildcard in (None,'R'):
  for ic in (False,True):
    for cmtn in ([],['H'],['R'],['H','R'],['R','H'],['H','O']):
      m=PermutationMapper(wildcard=wildcard, ignore_case=ic, can_map_to_nothing=list(cmtn))
      norm=(lambda x:x.lower()) if ic else (lambda x:x)
      w=None if wildcard is None else norm(wildcard)
      cm=[norm(c) for c in cmtn]
      for lp in range(1,4):
        for ls in range(0,4):
          for p in itertools.product(alpha,repeat=lp):
            for s in itertools.product(alpha,repeat=ls):
              tot+=1
              res=m.permute(list(p),list(s))
              P=[norm(x) for x in p]; S=[norm(x) for x in s]
              # declarative: all assignments a: pos -> j or None
              # admissible iff: injective on non-None; sym ok; None only if P[i] in cm; counts
              # shortage per symbol computed like this:
              def adm(pi,sj): return pi==w or pi==sj
              expected=set()
              # number of nothing per non-wildcard cmtn symbol
              short={c:max(0,P.count(c)-S.count(c)) for c in cm if c!=w}
              padlen=len(S)+sum(short.values())
              wshort=max(0,len(P)-padlen) if (w in cm) else 0
              for choice in itertools.product(list(range(len(S)))+[None],repeat=len(P)):
                  used=[c for c in choice if c is not None]
                  if len(set(used))!=len(used): continue
                  ok=True
                  for i,c in enumerate(choice):
                      if c is None:
                          if P[i] not in cm: ok=False;break
                      elif not adm(P[i],S[c]): ok=False;break
                  if not ok: continue
                  # count constraints
                  nn=collections.Counter(P[i] for i,c in enumerate(choice) if c is None)
                  good=True
                  for c in cm:
                      if c==w: 
                          if nn.get(c,0)!=wshort: good=False
                      else:
                          if nn.get(c,0)!=short[c]: good=False
                  if good: expected.add(tuple(choice))
              got=[tuple((None if sj==-1 else sj) for _,sj in r) for r in res]
              if len(set(got))!=len(got): viol['dup']+=1
              if set(got)!=expected:
                  viol['set']+=1
                  ex.setdefault((wildcard,ic,tuple(cmtn)),(p,s,sorted(set(got)-expected,key=str),sorted(expected-set(got),key=str)))
print(tot,dict(viol))
for k,v in list(ex.items())[:8]: print(k,v)
