import warnings; warnings.filterwarnings("ignore")
import time, collections
from fgutils.proxy_collection.diels_alder_proxy import DielsAlderProxy
for neg in (False, True):
    t=time.time(); n=0; sizes=collections.Counter()
    for g,h in DielsAlderProxy(neg_sample=neg):
        n+=1; sizes[len(g)]+=1
    print('neg',neg,'count',n,'time',round(time.time()-t,1), 'maxsize', max(sizes))
