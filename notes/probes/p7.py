import warnings; warnings.filterwarnings("ignore")
import networkx as nx, numpy as np
from fgutils.parse import parse
from fgutils.its import get_its, split_its, ITS, get_rc, prune_its_to_rc
from fgutils.rdkit import smiles_to_graph, graph_to_smiles
from fgutils.utils import add_implicit_hydrogens, get_unreachable_nodes, complete_aam, initialize_aam
def show(g): return ([(n,d.get('symbol'),d.get('aam')) for n,d in g.nodes(data=True)], [(u,v,d['bond']) for u,v,d in g.edges(data=True)])
# C09
g,h=smiles_to_graph('[C:1][O:2][C:3]>>[C:1][O:2]'); print('ghost', show(get_its(g,h)))
g,h=smiles_to_graph('[C:1][O:2]>>[C:1][O:2][C:3]'); print('ghost2', show(get_its(g,h)))
g,h=smiles_to_graph('[C:3][O:1][C:2]>>[C:3][O:1].[C:2]'); its=get_its(g,h); print('shuffled', show(its))
g2,h2=split_its(its); print(show(g2), show(h2)); its2=get_its(g2,h2); print('re-derive', show(its2))
g,h=smiles_to_graph('[C:2][O:1]>>[C:2].[O:1]'); its=get_its(g,h); print(show(its)); g2,h2=split_its(its); print('re', show(get_its(g2,h2)))
# aam 0?
g=parse('CO'); h=parse('C.O'); 
for n in g.nodes: g.nodes[n]['aam']=n; h.nodes[n]['aam']=n
print('aam0', show(get_its(g,h)))
# C11
its=ITS.from_smiles('[C:1][C:2][O:3].[H:4]>>[C:1][C:2].[O:3][H:4]')
print(show(its.graph))
try:
    its.prune(radius=0); print(show(its.graph))
except Exception as e: print('prune EXC', type(e).__name__, e)
g=parse('CCCCC'); print('unreach r1 from [0]', get_unreachable_nodes(g,[0],1), 'r0', get_unreachable_nodes(g,[0],0), 'r2', get_unreachable_nodes(g,[0],2))
print('unreach r1 from [0,4]', get_unreachable_nodes(g,[0,4],1))
print('unreach r2 from [0,1]', get_unreachable_nodes(g,[0,1],2))
# A^2 includes return paths: node 0 reach itself in 2 steps. r=1: 0 not reachable from 0 (A[0,0]=0)
its=parse('CC<1,2>CCC'); print('prune r=1', show(prune_its_to_rc(its,1,True)))
its=parse('CC<1,2>CCC'); print('prune r=0', show(prune_its_to_rc(its,0,True)))
# C12
g=parse('CO',idx_offset=1); print('ids from 1', show(add_implicit_hydrogens(g)))
g=parse('C=O'); g2=add_implicit_hydrogens(g.copy()); g3=add_implicit_hydrogens(g2.copy()); print(len(g),len(g2),len(g3))
g=parse('c1ccccc1'); print('benzene', len(add_implicit_hydrogens(g)))
g=parse('C(=O)(=O)(=O)'); print('overvalent', len(add_implicit_hydrogens(g)))
g=parse('B'); print('B', len(add_implicit_hydrogens(g)));  g=parse('Mg'); print('Mg', len(add_implicit_hydrogens(g)))
g=parse('cn'); print(show(add_implicit_hydrogens(g)))
g=parse('c:c:c'); print('1.5 sum', show(add_implicit_hydrogens(g)))
# C20
g=parse('CCOC'); g.nodes[1]['aam']=1; g.nodes[3]['aam']=5; complete_aam(g); print(show(g)[0])
g=parse('CCOC'); g.nodes[1]['aam']=3; g.nodes[3]['aam']=3; complete_aam(g, offset='min'); print(show(g)[0])
g=parse('CCOC'); g.nodes[1]['aam']=7; complete_aam(g, offset='min'); print(show(g)[0])
g=parse('CCOC'); g.nodes[1]['aam']=2; complete_aam(g, offset=2); print(show(g)[0])
g=parse('CCOC'); complete_aam(g, offset=True); print('bool offset', show(g)[0])
