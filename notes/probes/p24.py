import warnings; warnings.filterwarnings("ignore")
from fgutils.parse import Parser
from fgutils.proxy import replace_node, ProxyGraph
P=Parser(use_multigraph=True)
g=P.parse('C1C={g}#1')
print('given graph incident order of node 2:', list(g.edges(2,data='bond')))
r=replace_node(g,2,ProxyGraph('NO',anchor=[0,1]),P)
print([(n,d['symbol']) for n,d in r.nodes(data=True)], list(r.edges(data='bond')))
