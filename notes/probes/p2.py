import warnings; warnings.filterwarnings("ignore")
import networkx as nx, itertools
from fgutils.parse import parse
from fgutils.permutation import PermutationMapper, MappingMatrix
from fgutils.algorithm.subgraph import map_anchored_subgraph, map_subgraph, map_subgraph_to_graph
m = PermutationMapper(wildcard='R', ignore_case=True)
# C04: cyclopropane accepts C(CC)CC, pentane accepts C1CC1
print('cyclopropane vs C(CC)CC', map_anchored_subgraph(parse('C1CC1'),0,parse('C(CC)CC'),0,m))
print('pentane vs C1CC1', map_anchored_subgraph(parse('CCCCC'),2,parse('C1CC1'),0,m))
print('pentane vs C1CC1 anchor0', map_anchored_subgraph(parse('CCCCC'),0,parse('C1CC1'),0,m))
# C03 completeness candidates: does it miss embeddings?
# brute force oracle
def embeds(G,a,P,pa,mapper):
    pn=list(P.nodes); 
    def ok_sym(p,g):
        return mapper.permute([P.nodes[p]['symbol']],[G.nodes[g]['symbol']])==[[(0,0)]]
    others=[p for p in pn if p!=pa]
    gn=[g for g in G.nodes if g!=a]
    if not ok_sym(pa,a): return False
    for img in itertools.permutations(gn,len(others)):
        f={pa:a}; f.update(dict(zip(others,img)))
        if all(ok_sym(p,f[p]) for p in pn) and all(G.has_edge(f[u],f[v]) and G.edges[f[u],f[v]]['bond']==d['bond'] for u,v,d in P.edges(data=True)):
            return True
    return False
import random
random.seed(1)
def rand_graph(n, extra, syms='CNO', bonds=(1,2)):
    g=nx.Graph()
    for i in range(n): g.add_node(i, symbol=random.choice(syms))
    for i in range(1,n): g.add_edge(i, random.randrange(i), bond=random.choice(bonds))
    for _ in range(extra if n>=2 else 0):
        u,v=random.sample(range(n),2)
        if not g.has_edge(u,v): g.add_edge(u,v,bond=random.choice(bonds))
    return g
miss=0; false_pos=0; tot=0; miss_ex=None; fp_ex=None; miss_acyc=0; fp_acyc=0
for it in range(4000):
    G=rand_graph(random.randint(1,6), random.randint(0,2))
    P=rand_graph(random.randint(1,4), random.randint(0,1), syms='CNOR')
    a=random.randrange(len(G)); pa=random.randrange(len(P))
    r=map_anchored_subgraph(G,a,P,pa,m)[0]
    o=embeds(G,a,P,pa,m)
    tot+=1
    acyc = nx.is_forest(G) and nx.is_forest(P)
    if o and not r:
        miss+=1; miss_acyc+=acyc
        if miss_ex is None or acyc: miss_ex=(list(G.nodes(data='symbol')),list(G.edges(data='bond')),a,list(P.nodes(data='symbol')),list(P.edges(data='bond')),pa, acyc)
    if r and not o:
        false_pos+=1; fp_acyc+=acyc
        if fp_ex is None or acyc: fp_ex=(list(G.nodes(data='symbol')),list(G.edges(data='bond')),a,list(P.nodes(data='symbol')),list(P.edges(data='bond')),pa, acyc)
print('tot',tot,'miss',miss,'acyc',miss_acyc,'fp',false_pos,'acyc',fp_acyc)
print('miss ex',miss_ex); print('fp ex',fp_ex)
