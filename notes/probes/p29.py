import warnings; warnings.filterwarnings("ignore")
import itertools, networkx as nx, random
from networkx.generators.atlas import graph_atlas_g
from fgutils.algorithm import node_induced_connected_subgraphs
random.seed(0)
def oracle(G,a):
    comp=nx.node_connected_component(G,a); out=set()
    others=[x for x in comp if x!=a]
    for r in range(len(others)+1):
        for S in itertools.combinations(others,r):
            s=frozenset(S)|{a}
            if nx.is_connected(G.subgraph(s)): out.add(s)
    return out
bad=0; tot=0
for G in graph_atlas_g():
    if len(G)==0 or len(G)>6: continue
    for a in G.nodes:
        for variant in range(2):
            H=G
            if variant==1:
                names=['n%d'%i for i in range(len(G))]; random.shuffle(names)
                mp=dict(zip(G.nodes,names)); H=nx.relabel_nodes(G,mp); an=mp[a]
                # shuffle adjacency order
                H2=nx.Graph(); ns=list(H.nodes); random.shuffle(ns); H2.add_nodes_from(ns); es=list(H.edges); random.shuffle(es); H2.add_edges_from(es); H=H2
            else: an=a
            res=[frozenset(x) for x in node_induced_connected_subgraphs(H,an)]
            tot+=1
            if len(res)!=len(set(res)) or set(res)!=oracle(H,an): bad+=1; print('BAD',list(H.nodes),list(H.edges),an)
print('tot',tot,'bad',bad)
