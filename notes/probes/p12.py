import warnings; warnings.filterwarnings("ignore")
import itertools, random, copy, sys, networkx as nx, numpy as np
from rdkit import Chem, RDLogger
RDLogger.DisableLog('rdApp.*')
from fgutils import FGQuery
from fgutils.fgconfig import FGConfigProvider, FGConfig
from fgutils.permutation import PermutationMapper
from fgutils.utils import add_implicit_hydrogens
from fgutils.rdkit import mol_smiles_to_graph
m=PermutationMapper(wildcard='R', ignore_case=True)
def sym_ok(p,g): return m.permute([p],[g])==[[(0,0)]]
def embeddings(P,G,fix=None):
    """all embeddings of connected pattern P into G (dict p->g); fix: (p,g) forced"""
    pn=list(nx.dfs_preorder_nodes(P, fix[0] if fix else list(P.nodes)[0]))
    gn=list(G.nodes)
    def rec(i,f,used):
        if i==len(pn): yield dict(f); return
        p=pn[i]
        cands=[fix[1]] if (fix and p==fix[0]) else gn
        for g in cands:
            if g in used or not sym_ok(P.nodes[p]['symbol'],G.nodes[g]['symbol']): continue
            if all((not (q in f)) or (G.has_edge(g,f[q]) and G.edges[g,f[q]]['bond']==P.edges[p,q]['bond']) for q in P.neighbors(p)):
                f[p]=g; used.add(g)
                yield from rec(i+1,f,used)
                del f[p]; used.discard(g)
    yield from rec(0,{},set())
q=FGQuery(); prov=q.config_provider; roots=prov.get_tree()
allnodes={}
def collect(ns):
    for n in ns:
        allnodes[n.fgconfig.name]=n; collect(n.children)
collect(roots)
def descendants(n):
    out=[]
    for c in n.children: out.append(c); out+=descendants(c)
    return out
def witnessed_at(cfg, GH, a, max_id):
    """set of possible listed-atom tuples for cfg anchored at a (group atom on a), or empty"""
    res=set()
    for pa in cfg.pattern.nodes:
        if pa not in cfg.group_atoms: continue
        for f in embeddings(cfg.pattern, GH, fix=(pa,a)):
            res.add(tuple(sorted(g for p,g in f.items() if p in cfg.group_atoms and g<=max_id)))
    if not res: return res
    for ap in cfg.anti_pattern:
        for pa in ap.nodes:
            for f in embeddings(ap, GH, fix=(pa,a)):
                return set()
    return res
def check(G):
    out=q.get(G)
    max_id=max(G.nodes); GH=add_implicit_hydrogens(copy.deepcopy(G))
    errs=[]
    covered=set()
    for name,atoms in out:
        if name not in allnodes: errs.append(('unknown',name)); continue
        if atoms!=sorted(atoms) or len(set(atoms))!=len(atoms) or any(a not in G.nodes for a in atoms): errs.append(('ids',name,atoms))
        covered|=set(atoms)
        node=allnodes[name]; ok=False; why=[]
        for a in atoms:
            if G.nodes[a]['symbol'] in ('C','H'): continue
            w=witnessed_at(node.fgconfig,GH,a,max_id)
            if tuple(atoms) not in w: why.append((a,'notwit')); continue
            more=[d.fgconfig.name for d in descendants(node) if witnessed_at(d.fgconfig,GH,a,max_id)]
            if more: why.append((a,'more',more)); continue
            ok=True;break
        if not ok: errs.append(('unjustified',name,atoms,why))
    for a,s in G.nodes(data='symbol'):
        if s in ('C','H'): continue
        if any(witnessed_at(r.fgconfig,GH,a,max_id) for r in roots) and a not in covered: errs.append(('uncovered',a))
    return out,errs
random.seed(int(sys.argv[1]) if len(sys.argv)>1 else 0)
frags=['C','C','C','O','N','S','Cl','C(=O)','C(=O)O','OO','N(C)','C#N','N=O','C=C','c1ccccc1','C1OC1','C1CC1','OC(O)','C(O)(O)','SC(=O)','N(=O)O','C(Cl)=O']
bad=0;tot=0
seen=set()
for it in range(int(sys.argv[2]) if len(sys.argv)>2 else 300):
    s=''.join(random.choice(frags) for _ in range(random.randint(1,4)))
    mol=Chem.MolFromSmiles(s)
    if mol is None or s in seen: continue
    seen.add(s)
    G=mol_smiles_to_graph(s)
    if len(G)>14: continue
    tot+=1
    try:
        out,errs=check(G)
    except Exception as e:
        out,errs=None,[('EXC',type(e).__name__,str(e)[:80])]
    if errs:
        bad+=1
        if bad<=15: print(s,out,errs)
print('tot',tot,'bad',bad)
