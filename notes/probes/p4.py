import warnings; warnings.filterwarnings("ignore")
import sys
from fgutils import FGQuery
from fgutils.fgconfig import FGConfigProvider, tree2str
q=FGQuery()
for s in ['O=CCl','CC(=O)SC(=O)OC','O=C(C)Oc1ccccc1C(=O)O','NC(=O)Cl','OC(=O)Cl', 'CC(=O)OC(=O)C','OO','CON','C1OC1','CC(O)O']:
    print(s, q.get(s))
r=q.config_provider.get_tree()
def edges(roots):
    seen=set(); out=set()
    def rec(n):
        for c in n.children:
            out.add((n.fgconfig.name,c.fgconfig.name)); rec(c)
    for r in roots: rec(r)
    return sorted(out), [r.fgconfig.name for r in roots]
e,rt=edges(r)
print(len(e), rt)
import hashlib; print(hashlib.md5(str(e).encode()).hexdigest())
def order(n): return [c.fgconfig.name for c in n.children]
def walk(roots, d=0):
    for n in roots:
        print(' '*d+n.fgconfig.name, [p.fgconfig.name for p in n.parents]); walk(n.children,d+2)
if len(sys.argv)>1: walk(r)
