import warnings; warnings.filterwarnings("ignore")
import random, collections, sys, itertools
from fgutils.proxy import Proxy, ProxyGroup, ProxyGraph, build_graphs
from fgutils.parse import Parser
exec(open('p25.py').read().split("P=Parser(use_multigraph=True)")[0])
P=Parser(use_multigraph=True)
def fz(c): return tuple(sorted(c.items()))
# independent spec: graphs as (nodes: list of (sym, grouplabel|None), edges: list of (i,j,label)); depth-first, substitute LAST group node first
def to_spec(pat, gd):
    g=P.parse(pat); ids=list(g.nodes); pos={x:i for i,x in enumerate(ids)}
    nodes=[]
    for x in ids:
        d=g.nodes[x]; ks=[l for l in d['labels'] if l in gd] if d['is_labeled'] else []
        nodes.append(((d['symbol'] if not d['is_labeled'] else '#'+','.join(d['labels'])), ks[0] if ks else None))
    edges=[(pos[u],pos[v],str(d['bond'])) for u,v,d in g.edges(data=True)]
    return nodes,edges
def expand_spec(nodes,edges,gd):
    idx=[i for i,(s,k) in enumerate(nodes) if k is not None]
    if not idx: yield nodes,edges; return
    i=idx[-1]; grp=gd[nodes[i][1]]
    inc=[e for e in edges if i in (e[0],e[1])]   # order irrelevant for multisets except anchor choice
    for gr in grp.graphs:
        pn,pe=to_spec(gr.pattern,gd)
        keep=[e for e in edges if i not in (e[0],e[1])]
        base=len(nodes)
        nn=list(nodes)+pn; ne=keep+[(a+base,b+base,l) for a,b,l in pe]
        if pn:
            # incident order as in the (copied) graph: global edge order
            for k,e in enumerate(inc):
                other=e[1] if e[0]==i else e[0]
                a=gr.anchor[min(k,len(gr.anchor)-1)]
                ne.append((base+a,other,e[2]))
        # drop node i
        ren={j:(j if j<i else j-1) for j in range(len(nn)) if j!=i}
        nn2=[x for j,x in enumerate(nn) if j!=i]; ne2=[(ren[a],ren[b],l) for a,b,l in ne]
        yield from expand_spec(nn2,ne2,gd)
bad=0
random.seed(int(sys.argv[1]))
for it in range(int(sys.argv[2])):
    k=random.randint(1,4); names=['g%d'%i for i in range(k)]
    groups=[ProxyGroup(nm,[ProxyGraph(*rand_pattern(names[i+1:],True)) for _ in range(random.randint(1,3))]) for i,nm in enumerate(names)]
    cores=[rand_pattern(names,False)[0] for _ in range(random.randint(1,2))]
    gd={g.name:g for g in groups}
    exp=collections.Counter()
    for c in cores:
        for nn,ne in expand_spec(*to_spec(c,gd),gd):
            exp[(fz(collections.Counter(s for s,_ in nn)), fz(collections.Counter(l for _,_,l in ne)))]+=1
    got=collections.Counter()
    for c in cores:
        for g in build_graphs(ProxyGraph(c), gd, Parser(use_multigraph=True)):
            s=collections.Counter((d['symbol'] if not d['is_labeled'] else '#'+','.join(d['labels'])) for _,d in g.nodes(data=True))
            b=collections.Counter(str(d['bond']) for _,_,d in g.edges(data=True))
            got[(fz(s),fz(b))]+=1
    if got!=exp:
        bad+=1
        if bad<3: print('MISMATCH',cores,[(g.name,[(x.pattern,x.anchor) for x in g.graphs]) for g in groups])
print('bad',bad)
