"""Handling of seeded changes (realistic breakage written by independent sub-agents).
  python3 notes/seedtest.py verify <dir-with-patch.diff,demo.py,meta.json> [...]
      -> in a scratch worktree: tests pass with the patch, demo exits 1 with it and 0 without
  python3 notes/seedtest.py detect <seeded/ID> [--tier quick]
      -> applies the patch in a scratch worktree and runs ./check <property> against it (VERIF_REPO)
Scratch worktrees live under /tmp/sv_* and are removed afterwards."""
import json
import os
import subprocess
import sys

ENV = dict(os.environ, PYTHONHASHSEED="0", PYTHONDONTWRITEBYTECODE="1")


def sh(cmd, cwd=None, env=None, timeout=1800):
    p = subprocess.run(cmd, cwd=cwd, env=env or ENV, capture_output=True, text=True, timeout=timeout)
    return p.returncode, (p.stdout + p.stderr)


def worktree(tag):
    wt = "/tmp/sv_" + tag
    sh(["git", "-C", "/repo", "worktree", "remove", "--force", wt])
    rc, out = sh(["git", "-C", "/repo", "worktree", "add", "--detach", wt, "HEAD"])
    assert rc == 0, out
    return wt


def drop(wt):
    sh(["git", "-C", "/repo", "worktree", "remove", "--force", wt])


def verify(d):
    tag = os.path.basename(d.rstrip("/"))
    wt = worktree(tag)
    res = {"id": tag}
    try:
        env = dict(ENV, PYTHONPATH=wt)
        demo = os.path.abspath(os.path.join(d, "demo.py"))
        rc0, o0 = sh(["/venv/bin/python", "-W", "ignore", demo], cwd=wt, env=env)
        res["demo_unchanged_exit"] = rc0
        rc, out = sh(["git", "-C", wt, "apply", os.path.abspath(os.path.join(d, "patch.diff"))])
        res["apply"] = rc
        if rc != 0:
            res["apply_out"] = out[-500:]
            return res
        rc, out = sh(["/venv/bin/python", "-m", "pytest", "-q", "-p", "no:cacheprovider", "-x"], cwd=wt, env=env)
        res["tests_rc"] = rc
        res["tests_tail"] = [l for l in out.strip().splitlines() if "passed" in l or "failed" in l][-1:]
        rc1, o1 = sh(["/venv/bin/python", "-W", "ignore", demo], cwd=wt, env=env)
        res["demo_changed_exit"] = rc1
        res["demo_msg"] = [l for l in o1.strip().splitlines() if "WARNING" not in l][-3:]
        res["ok"] = (rc0 == 0 and res["tests_rc"] == 0 and rc1 != 0)
    finally:
        drop(wt)
    return res


def detect(d, tier="quick"):
    tag = os.path.basename(d.rstrip("/"))
    meta = json.load(open(os.path.join(d, "meta.json")))
    prop = meta["property"]
    wt = worktree("d_" + tag)
    try:
        rc, out = sh(["git", "-C", wt, "apply", os.path.abspath(os.path.join(d, "patch.diff"))])
        if rc != 0:
            rc, out = sh(["git", "-C", wt, "apply", "-3", os.path.abspath(os.path.join(d, "patch.diff"))])
        if rc != 0:
            # the patch was written against an earlier /repo HEAD and a later repair touched the same lines
            return {"id": tag, "property": prop, "exit": -1, "lines": ["patch no longer applies to /repo HEAD (superseded by a later repair): " + out.strip()[-160:]]}
        env = dict(os.environ, VERIF_REPO=wt)
        rc, out = sh(["/verif/check", prop, "--tier", tier], cwd="/verif", env=env, timeout=3600)
        lines = [l for l in out.splitlines() if l.startswith(("VIOLATION", "KNOWN-FINDING", prop))]
        return {"id": tag, "property": prop, "exit": rc, "lines": lines[:6]}
    finally:
        drop(wt)
        import shutil
        shutil.rmtree("/verif/coq_other/" + wt.strip("/").replace("/", "_"), ignore_errors=True)


def matrix():
    """Run every confirmed seeded change against the check of its property; write seeded/RESULTS.md."""
    import concurrent.futures as cf
    ids = sorted(d for d in os.listdir("/verif/seeded") if os.path.isdir(os.path.join("/verif/seeded", d)))
    claimed = {c["property_id"] for c in json.load(open("/verif/MANIFEST.json"))["checks"]}
    rows = []
    todo = [i for i in ids if json.load(open("/verif/seeded/%s/meta.json" % i))["property"] in claimed]
    with cf.ThreadPoolExecutor(max_workers=4) as ex:
        for r in ex.map(lambda i: detect("/verif/seeded/" + i), todo):
            rows.append(r)
            print(json.dumps(r)[:200]); sys.stdout.flush()
    with open("/verif/seeded/RESULTS.md", "w") as f:
        f.write("# Seeded changes vs. checks (quick tier, VERIF_REPO = scratch worktree with the patch applied)\n\n")
        f.write("| seeded change | property | detected | kinds reported | what the change needs to manifest |\n|---|---|---|---|---|\n")
        for r in sorted(rows, key=lambda r: r["id"]):
            meta = json.load(open("/verif/seeded/%s/meta.json" % r["id"]))
            kinds = sorted(set(w.split("kind=")[1].split()[0] for w in r["lines"] if "kind=" in w))
            f.write("| %s | %s | %s | %s | %s |\n" % (r["id"], r["property"], "yes" if r["exit"] == 1 and kinds else ("n/a (patch superseded)" if r["exit"] == -1 else "NO"),
                    ", ".join(kinds), meta.get("needs_to_manifest", "").replace("|", "/").replace("\n", " ")[:300]))
    print("written seeded/RESULTS.md")


def matrix_update(props):
    """Re-run the seeds of the given properties plus every seed that has no row in seeded/RESULTS.md yet; keep the
    other rows as they are (their checks did not change)."""
    import concurrent.futures as cf
    path = "/verif/seeded/RESULTS.md"
    lines = open(path).read().splitlines()
    head, rows = lines[:4], {}
    for l in lines[4:]:
        if l.startswith("| "):
            rows[l.split("|")[1].strip()] = l
    ids = sorted(d for d in os.listdir("/verif/seeded") if os.path.isdir(os.path.join("/verif/seeded", d)))
    todo = [i for i in ids if i not in rows or json.load(open("/verif/seeded/%s/meta.json" % i))["property"] in props]
    print("re-running", len(todo), "of", len(ids)); sys.stdout.flush()
    with cf.ThreadPoolExecutor(max_workers=4) as ex:
        for r in ex.map(lambda i: detect("/verif/seeded/" + i), todo):
            print(json.dumps(r)[:200]); sys.stdout.flush()
            meta = json.load(open("/verif/seeded/%s/meta.json" % r["id"]))
            kinds = sorted(set(w.split("kind=")[1].split()[0] for w in r["lines"] if "kind=" in w))
            rows[r["id"]] = "| %s | %s | %s | %s | %s |" % (
                r["id"], r["property"], "yes" if r["exit"] == 1 and kinds else ("n/a (patch superseded)" if r["exit"] == -1 else "NO"),
                ", ".join(kinds), meta.get("needs_to_manifest", "").replace("|", "/").replace("\n", " ")[:300])
    with open(path, "w") as f:
        f.write("\n".join(head) + "\n")
        for k in sorted(rows):
            f.write(rows[k] + "\n")
    print("updated seeded/RESULTS.md:", sum(1 for v in rows.values() if "| yes |" in v), "of", len(rows), "detected")


if __name__ == "__main__":
    cmd = sys.argv[1]
    if cmd == "matrix":
        matrix()
        sys.exit(0)
    if cmd == "matrix-update":
        matrix_update(set(sys.argv[2:]))
        sys.exit(0)
    args = [a for a in sys.argv[2:] if not a.startswith("--")]
    tier = "thorough" if "--thorough" in sys.argv else "quick"
    for d in args:
        r = verify(d) if cmd == "verify" else detect(d, tier)
        print(json.dumps(r))
        sys.stdout.flush()
