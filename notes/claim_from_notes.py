"""python3 notes/claim_from_notes.py <notes.md> <Cxx>: turn a 'MANIFEST text' section
(level_claimed.text: / level_note: / technique:) into harness/claims/Cxx.json"""
import json, re, sys
txt = open(sys.argv[1]).read()
pid = sys.argv[2]
i = txt.rfind("MANIFEST text")
sec = txt[i:]
def grab(key, nxt):
    m = re.search(key + r":\s*(.*?)(?=\n(?:%s):|\Z)" % "|".join(nxt), sec, re.S)
    return re.sub(r"\s+", " ", m.group(1)).strip() if m else ""
text = grab(r"level_claimed\.text", ["level_note", "technique", "design"])
note = grab("level_note", ["technique", "design", r"level_claimed\.text"])
tech = grab("technique", ["design", "level_note", r"level_claimed\.text", "##"])
assert text and note and tech, (bool(text), bool(note), bool(tech))
json.dump({"text": text, "note": note, "technique": tech, "design": "6/" + pid}, open("/verif/harness/claims/%s.json" % pid, "w"), indent=1)
print(pid, len(text), len(note), len(tech))
