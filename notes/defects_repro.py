"""Reproduce defects D1..D21 (DESIGN section 5) against the tree on PYTHONPATH.
Prints one line per defect: 'Dn BROKEN <detail>' or 'Dn ok'.
Run: PYTHONHASHSEED=0 PYTHONPATH=/repo /venv/bin/python notes/defects_repro.py
"""
import os, subprocess, sys
import networkx as nx

from fgutils.parse import parse, Parser
from fgutils.permutation import PermutationMapper, MappingMatrix
from fgutils.algorithm.subgraph import map_anchored_subgraph
from fgutils.its import get_its, split_its, prune_its_to_rc, ITS
from fgutils.utils import add_implicit_hydrogens, get_unreachable_nodes
from fgutils.proxy import replace_node, ProxyGraph
from fgutils.const import BOND_KEY, SYMBOL_KEY, AAM_KEY

res = {}


def rec(d, broken, detail=""):
    res[d] = (broken, detail)
    print(d, "BROKEN " + str(detail) if broken else "ok")


def guard(d, f):
    try:
        b, detail = f()
        rec(d, b, detail)
    except Exception as e:  # noqa
        rec(d, True, "exception %s: %s" % (type(e).__name__, e))


def d1():
    g = parse("C$C")
    return g.edges[0, 1][BOND_KEY] != 4, dict(g.edges)


def d2():
    g = parse("C.C<1,2>C")
    return g.has_edge(0, 1), list(g.edges(data=True))


def d3():
    g = parse("C1CCCc2c1cccc2")
    return g.edges[0, 5][BOND_KEY] != 1, g.edges[0, 5]


def d4():
    g = parse("c-c")
    return g.edges[0, 1][BOND_KEY] != 1, g.edges[0, 1]


def d5():
    g = parse("c1c<1,2>C1")
    a = g.edges[0, 1][BOND_KEY]
    return a != (1.5, 1.5), list(g.edges(data=True))


def d7():
    m = PermutationMapper(wildcard="R", ignore_case=True)
    ok1, mp1, _ = map_anchored_subgraph(parse("CCCCC"), 2, parse("C1CC1"), 0, m)
    ok2, mp2, _ = map_anchored_subgraph(parse("C1CC1"), 0, parse("C(CC)CC"), 0, m)
    from fgutils import FGQuery
    q = FGQuery().get("CCOCC")
    return ok1 or ok2 or q != [("ether", [2])], (ok1, ok2, q)


def d8():
    m = PermutationMapper()
    mm = MappingMatrix(["Cl", "C"], ["Cl", "C"], m)
    return not (mm.is_mapping("Cl", "Cl") and not mm.is_mapping("Cl", "C")), ""


def d9():
    outs = set()
    for seed in ["0", "4", "1", "2"]:
        env = dict(os.environ, PYTHONHASHSEED=seed)
        o = subprocess.run(
            [sys.executable, "-c", "from fgutils import FGQuery;print(FGQuery().get('O=CCl'))"],
            env=env, capture_output=True, text=True).stdout.strip().splitlines()[-1]
        outs.add(o)
    return len(outs) > 1, outs


def d11():
    its = parse("C<1,2>C(C)<2,1>C")
    g0 = nx.Graph()
    # ids with descending edge report: relabel so that an edge is reported (larger, smaller)
    its = nx.relabel_nodes(its, {0: 5, 1: 1, 2: 7, 3: 3})
    for n in its.nodes:
        its.nodes[n][AAM_KEY] = n
    g, h = split_its(its)
    its2 = get_its(g, h)
    return its2.number_of_edges() != its.number_of_edges(), (list(its.edges), list(its2.edges))


def d12():
    g = parse("COC"); h = parse("CO")
    for n in g.nodes: g.nodes[n][AAM_KEY] = n + 1
    for n in h.nodes: h.nodes[n][AAM_KEY] = n + 1
    its = get_its(g, h)
    return 3 in its.nodes, list(its.nodes(data=True))


def d13():
    g = parse("CCCCC")
    u = list(get_unreachable_nodes(g, [0], 1))
    return 0 in u, u


def d14():
    g = nx.relabel_nodes(parse("CCCCC"), {i: i + 1 for i in range(5)})
    u = list(get_unreachable_nodes(g, [1], 1))
    return sorted(u) != [3, 4, 5], u


def d15():
    its = parse("CC<1,2>CC")
    its = nx.relabel_nodes(its, {i: i + 1 for i in range(4)})
    p = prune_its_to_rc(its, radius=0, insert_hydrogens=True)
    # two cut bonds -> two hydrogens; ids must not collide with existing ones
    hs = [n for n, d in p.nodes(data=True) if d[SYMBOL_KEY] == "H"]
    return not (len(hs) == 2 and len(p) == 4), list(p.nodes(data=True))


def d16():
    g = parse("CO", idx_offset=1)
    g2 = add_implicit_hydrogens(g.copy())
    return g2.nodes[2][SYMBOL_KEY] != "O", list(g2.nodes(data=SYMBOL_KEY))


def d17():
    from fgutils.synthesis.rule_application import apply_rule, ReactionRule
    rule = ReactionRule(parse("C<1,2>C<0,1>C"))
    g = parse("C1CC1")
    out = apply_rule(g, rule, unique=False)
    bad = any(tuple(d[BOND_KEY]) == (1, 0) for its in out for _, _, d in its.graph.edges(data=True))
    return bad, [list(i.graph.edges(data=BOND_KEY)) for i in out][:2]


def d18():
    from fgutils.synthesis.rule_application import apply_rule, ReactionRule
    rule = ReactionRule(parse("C<1,2>C"))
    g = parse("CCCC")
    out = apply_rule(g, rule, unique=False, n=1)
    return len(out) > 1, len(out)


def d19():
    from fgutils.torch.utils import its_to_torch, its_from_torch
    its = nx.relabel_nodes(parse("C<1,2>CC", init_aam=False), {0: 1, 1: 2, 2: 3})
    back = its_from_torch(its_to_torch(its))
    return len(back) != 3, len(back)


def d20():
    from fgutils.torch.utils import its_to_torch
    its = parse("C<1,2>CC")
    t = its_to_torch([its], node_feature_transform=lambda d: [7.0, 7.0])
    return t.x.shape[1] != 2, tuple(t.x.shape)


def d21():
    ps = Parser(use_multigraph=True)
    g = ps("C1C={g}#1")
    r = replace_node(g, 2, ProxyGraph("NO", anchor=[0, 1]), ps)
    # first incident bond of node 2 in the given graph is '=' (to atom 1): it must land on anchor 0 (N)
    n_id = [n for n, d in r.nodes(data=True) if d[SYMBOL_KEY] == "N"][0]
    bonds = sorted(d[BOND_KEY] for _, _, d in r.edges(n_id, data=True) if True)
    return 2 not in bonds, list(r.edges(data=BOND_KEY))


for name, f in [("D1", d1), ("D2", d2), ("D3", d3), ("D4", d4), ("D5", d5), ("D7", d7), ("D8", d8),
                ("D9", d9), ("D11", d11), ("D12", d12), ("D13", d13), ("D14", d14), ("D15", d15),
                ("D16", d16), ("D17", d17), ("D18", d18), ("D19", d19), ("D20", d20), ("D21", d21)]:
    guard(name, f)
