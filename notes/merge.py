"""Merge an agent's private copy into /verif: python3 notes/merge.py <name> [--apply]
Lists new files and files that differ; with --apply copies NEW files and files listed as owned
(not shared). Shared files that differ are only reported."""
import filecmp
import os
import shutil
import sys

SHARED = {"harness/lib.py", "harness/main.py", "harness/coqterm.py", "harness/gens.py", "harness/gen_tables.py",
          "harness/nxtie.py", "harness/mkmanifest.py", "check", "setup.sh", "MANIFEST.json", "DESIGN.md",
          "known_findings.txt", "notes/HOWTO_property.md", "notes/merge.py", "properties.jsonl", ".gitignore",
          "coq/_CoqProject"}
SKIP_EXT = (".vo", ".vok", ".vos", ".glob", ".aux", ".pyc", ".cache")
SKIP_DIR = ("coq/cases", "replays", "evidence", "__pycache__", ".git", "coq_other", "evidence_other", "replays_other")


def walk(root):
    for d, dirs, files in os.walk(root):
        rel = os.path.relpath(d, root)
        if any(rel == s or rel.startswith(s + "/") or ("/" + s) in ("/" + rel) for s in SKIP_DIR):
            dirs[:] = []
            continue
        for f in files:
            if f.endswith(SKIP_EXT) or f.startswith(".") or f in ("Makefile", "Makefile.conf"):
                continue
            yield os.path.normpath(os.path.join(rel, f))


def main():
    name = sys.argv[1]
    apply = "--apply" in sys.argv
    src = "/work/%s/verif" % name
    dst = "/verif"
    new, changed_owned, changed_shared = [], [], []
    for rel in sorted(walk(src)):
        a, b = os.path.join(src, rel), os.path.join(dst, rel)
        if not os.path.exists(b):
            new.append(rel)
        elif not filecmp.cmp(a, b, shallow=False):
            (changed_shared if rel in SHARED or rel.startswith("coq/theories/Base/") and os.path.exists(b) else changed_owned).append(rel)
    print("NEW:", *new, sep="\n  ")
    print("CHANGED (owned):", *changed_owned, sep="\n  ")
    print("CHANGED (shared, not copied):", *changed_shared, sep="\n  ")
    extra = [a for a in sys.argv[2:] if not a.startswith("--")]   # changed files to take explicitly
    if apply:
        for rel in new + [r for r in changed_owned + changed_shared if r in extra]:
            os.makedirs(os.path.dirname(os.path.join(dst, rel)), exist_ok=True)
            shutil.copy2(os.path.join(src, rel), os.path.join(dst, rel))
        print("copied new files + explicitly listed changed ones")


main()
