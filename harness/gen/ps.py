"""Translator for fgutils/chem/ps.py -> Gen/PeriodicTable.v  (used by C18).

Reads the module with `ast` only (nothing is imported or evaluated) and is fail-closed:

* `atomic_data` must be ONE module-level assignment of a dict literal whose keys are string
  constants and whose values are dict literals with constant string keys, no duplicate inner key,
  and an int constant under "num".  The generated list has one (num, symbol) pair per entry of the
  literal, IN SOURCE ORDER, duplicates (if any) included: the Python dict semantics (later entry
  overwrites the value, first entry fixes the position) is applied by Model/Torch.v, not here.
* `atomic_sym2num` / `atomic_num2sym` must each be ONE module-level assignment whose `ast.dump`
  equals the dump of the two comprehensions the model mirrors.
* none of the three names may be written, deleted, mutated or declared global anywhere else in
  ps.py, and fgutils/torch/utils.py may use the two derived dicts only as `name[...]` reads.
"""
import ast
import os

import lib

SRC = "fgutils/chem/ps.py"
UTILS = "fgutils/torch/utils.py"
NAMES = ("atomic_data", "atomic_sym2num", "atomic_num2sym")

EXPECT = {
    "atomic_sym2num": 'atomic_sym2num = {sym: d["num"] for sym, d in atomic_data.items()}',
    "atomic_num2sym": "atomic_num2sym = {num: sym for sym, num in atomic_sym2num.items()}",
}
READ_METHODS = {"items", "keys", "values", "get"}


class TranslatorError(Exception):
    pass


def _parents(tree):
    par = {}
    for node in ast.walk(tree):
        for ch in ast.iter_child_nodes(node):
            par[ch] = node
    return par


def _check_uses(tree, allowed_assign, fname, names, reads_only_subscript=False):
    """Every occurrence of one of `names` must be a harmless read (or one of the allowed
    defining assignments)."""
    par = _parents(tree)
    for node in ast.walk(tree):
        if isinstance(node, (ast.Global, ast.Nonlocal)):
            if set(node.names) & set(names):
                raise TranslatorError("%s:%d: global/nonlocal declaration of a table name" % (fname, node.lineno))
        if isinstance(node, (ast.Import, ast.ImportFrom)) and not reads_only_subscript:
            for a in node.names:
                if (a.asname or a.name) in names:
                    raise TranslatorError("%s:%d: import rebinding a table name" % (fname, node.lineno))
        if isinstance(node, (ast.FunctionDef, ast.AsyncFunctionDef, ast.ClassDef)) and node.name in names:
            raise TranslatorError("%s:%d: def/class rebinding a table name" % (fname, node.lineno))
        if isinstance(node, ast.arg) and node.arg in names:
            raise TranslatorError("%s:%d: argument shadows a table name" % (fname, node.lineno))
        if not (isinstance(node, ast.Name) and node.id in names):
            continue
        p = par.get(node)
        if isinstance(node.ctx, (ast.Store, ast.Del)):
            if p in allowed_assign and isinstance(node.ctx, ast.Store) and p.targets == [node]:
                continue
            raise TranslatorError("%s:%d: %s is written outside its defining assignment" % (fname, node.lineno, node.id))
        # Load context: classify by parent
        if isinstance(p, ast.Subscript) and p.value is node and isinstance(p.ctx, ast.Load):
            continue
        if reads_only_subscript:
            raise TranslatorError("%s:%d: %s used other than as a subscript read" % (fname, node.lineno, node.id))
        if isinstance(p, ast.Attribute) and p.value is node and p.attr in READ_METHODS \
                and isinstance(par.get(p), ast.Call) and par[p].func is p:
            continue
        if isinstance(p, ast.Compare) and node in p.comparators \
                and all(isinstance(o, (ast.In, ast.NotIn)) for o in p.ops):
            continue
        raise TranslatorError("%s:%d: unrecognised use of %s (%s)" % (fname, node.lineno, node.id, type(p).__name__))


def read_table(repo=None):
    repo = repo or lib.REPO
    path = os.path.join(repo, SRC)
    tree = ast.parse(open(path).read(), filename=path)
    assigns = {}
    for node in tree.body:
        if isinstance(node, ast.Assign) and len(node.targets) == 1 and isinstance(node.targets[0], ast.Name) \
                and node.targets[0].id in NAMES:
            if node.targets[0].id in assigns:
                raise TranslatorError("%s assigned twice at module level" % node.targets[0].id)
            assigns[node.targets[0].id] = node
    for nm in NAMES:
        if nm not in assigns:
            raise TranslatorError("no module-level assignment of %s" % nm)
    order = [assigns[nm].lineno for nm in NAMES]
    if order != sorted(order):
        raise TranslatorError("the three tables are not defined in the order data, sym2num, num2sym")
    _check_uses(tree, set(assigns.values()), SRC, NAMES)

    # the two comprehensions, structurally
    for nm, text in EXPECT.items():
        want = ast.dump(ast.parse(text).body[0])
        got = ast.dump(assigns[nm])
        if want != got:
            raise TranslatorError("%s is no longer derived as `%s`\n got: %s" % (nm, text, got))

    # the literal
    lit = assigns["atomic_data"].value
    if not isinstance(lit, ast.Dict):
        raise TranslatorError("atomic_data is not a dict literal")
    pairs = []
    for k, v in zip(lit.keys, lit.values):
        if not (isinstance(k, ast.Constant) and isinstance(k.value, str)):
            raise TranslatorError("atomic_data key is not a string constant (line %s)" % getattr(k, "lineno", "?"))
        if not isinstance(v, ast.Dict):
            raise TranslatorError("atomic_data[%r] is not a dict literal" % k.value)
        inner = {}
        for ik, iv in zip(v.keys, v.values):
            if not (isinstance(ik, ast.Constant) and isinstance(ik.value, str)):
                raise TranslatorError("atomic_data[%r] has a non-constant key" % k.value)
            if ik.value in inner:
                raise TranslatorError("atomic_data[%r] repeats the key %r" % (k.value, ik.value))
            inner[ik.value] = iv
        if "num" not in inner:
            raise TranslatorError("atomic_data[%r] has no 'num'" % k.value)
        num = inner["num"]
        if not (isinstance(num, ast.Constant) and type(num.value) is int):
            raise TranslatorError("atomic_data[%r]['num'] is not an int constant" % k.value)
        sym = k.value
        if not sym or any(not (32 < ord(c) < 127) or c == '"' for c in sym):
            raise TranslatorError("symbol %r is not plain printable ASCII" % sym)
        pairs.append((num.value, sym))

    # the consumer: only subscript reads of the derived dicts
    upath = os.path.join(repo, UTILS)
    utree = ast.parse(open(upath).read(), filename=upath)
    _check_uses(utree, set(), UTILS, ("atomic_sym2num", "atomic_num2sym", "atomic_data"), reads_only_subscript=True)
    imported = set()
    for node in ast.walk(utree):
        if isinstance(node, ast.ImportFrom) and node.module == "fgutils.chem.ps" and node.level == 0:
            for a in node.names:
                if a.asname not in (None, a.name):
                    raise TranslatorError("%s imports %s under another name" % (UTILS, a.name))
                imported.add(a.name)
    if not {"atomic_sym2num", "atomic_num2sym"} <= imported:
        raise TranslatorError("%s does not import atomic_sym2num/atomic_num2sym from fgutils.chem.ps" % UTILS)
    return pairs


def generate():
    pairs = read_table()
    rows = []
    for i in range(0, len(pairs), 6):
        rows.append("  " + "; ".join('(%s, "%s")' % (("(%d)" % n) if n < 0 else str(n), s) for n, s in pairs[i:i + 6]))
    text = """(** GENERATED by harness/gen/ps.py from %s -- do not edit.
    One (num, symbol) pair per entry of the `atomic_data` dict literal, in source order.
    The derivations  atomic_sym2num = {sym: d["num"] for sym, d in atomic_data.items()}  and
    atomic_num2sym = {num: sym for sym, num in atomic_sym2num.items()}  were checked structurally
    (ast dump) by the translator; Model/Torch.v mirrors them. *)
From Coq Require Import ZArith List String.
Import ListNotations.
Local Open Scope string_scope.
Open Scope Z_scope.

Definition atomic_data_src : list (Z * string) := [
%s
].
""" % (SRC, ";\n".join(rows))
    return "Gen/PeriodicTable.v", text


if __name__ == "__main__":
    rel, text = generate()
    print(text)
