"""Translator for C19: the constant tables of fgutils/rdkit.py -> Gen/RdkitMaps.v.

Read with `ast` only (nothing is imported or evaluated):
  * mol_to_graph:        bond_order_map = {"SINGLE": 1, ...}      (type name -> order)
                         edge_attributes = {BOND_KEY: 1}          (order used for any other type)
  * graph_to_mol:        bond_order_map = {1: Chem.rdchem.BondType.SINGLE, ...}  (order -> type)
  * _get_rdkit_atom_sym: sym_map = {"c": "C", ...}; return sym_map.get(symbol, symbol)
Orders are emitted in half units (1 -> 2, 1.5 -> 3). Fail-closed: anything unrecognised raises."""
import ast
import os

import lib

SRC = "fgutils/rdkit.py"


class TranslatorError(Exception):
    pass


def _fail(msg):
    raise TranslatorError("%s: %s" % (SRC, msg))


def _func(tree, name):
    fs = [n for n in tree.body if isinstance(n, ast.FunctionDef) and n.name == name]
    if len(fs) != 1:
        _fail("expected exactly one top-level def %s, found %d" % (name, len(fs)))
    return fs[0]


def _assigned_dicts(fn, var):
    """all `var = {...}` statements anywhere in the function body (nested statements included)"""
    res = []
    for n in ast.walk(fn):
        if isinstance(n, ast.Assign):
            for t in n.targets:
                if isinstance(t, ast.Name) and t.id == var:
                    if len(n.targets) != 1 or not isinstance(n.value, ast.Dict):
                        _fail("%s.%s is not assigned a single dict literal" % (fn.name, var))
                    res.append(n.value)
        elif isinstance(n, (ast.AugAssign, ast.AnnAssign)):
            t = n.target
            if isinstance(t, ast.Name) and t.id == var:
                _fail("%s.%s: unsupported assignment form" % (fn.name, var))
    return res


def _one_dict(fn, var):
    ds = _assigned_dicts(fn, var)
    if len(ds) != 1:
        _fail("expected exactly one dict literal assigned to %s in %s, found %d" % (var, fn.name, len(ds)))
    d = ds[0]
    if any(k is None for k in d.keys):
        _fail("%s.%s uses ** unpacking" % (fn.name, var))
    return d


def _half(node, what):
    """numeric constant -> half units, exact"""
    neg = False
    if isinstance(node, ast.UnaryOp) and isinstance(node.op, ast.USub):
        neg, node = True, node.operand
    if not isinstance(node, ast.Constant) or isinstance(node.value, bool) or not isinstance(node.value, (int, float)):
        _fail("%s: not a numeric constant (%s)" % (what, ast.dump(node)))
    v = node.value
    h = v * 2
    if isinstance(h, float):
        if h != int(h):
            _fail("%s: order %r is not a multiple of 0.5" % (what, v))
        h = int(h)
    return -h if neg else h


def _str(node, what):
    if not isinstance(node, ast.Constant) or not isinstance(node.value, str):
        _fail("%s: not a string constant (%s)" % (what, ast.dump(node)))
    s = node.value
    if any(ord(c) < 32 or ord(c) > 126 or c == '"' for c in s):
        _fail("%s: unsupported character in %r" % (what, s))
    return s


def _bondtype_attr(node, what):
    """Chem.rdchem.BondType.X  ->  "X" """
    ok = (isinstance(node, ast.Attribute) and isinstance(node.value, ast.Attribute)
          and node.value.attr == "BondType"
          and isinstance(node.value.value, ast.Attribute) and node.value.value.attr == "rdchem"
          and isinstance(node.value.value.value, ast.Name) and node.value.value.value.id == "Chem")
    if not ok:
        _fail("%s: value is not Chem.rdchem.BondType.<NAME> (%s)" % (what, ast.dump(node)))
    return node.attr


def _nodup(keys, what):
    if len(set(keys)) != len(keys):
        _fail("%s: duplicate keys %r" % (what, keys))


def read_tables(repo=None):
    path = os.path.join(repo or lib.REPO, SRC)
    tree = ast.parse(open(path).read(), filename=path)
    # the Chem alias the bond-type attributes hang off
    if not any(isinstance(n, ast.Import) and any(a.name == "rdkit.Chem" and a.asname == "Chem" for a in n.names)
               for n in tree.body):
        _fail("`import rdkit.Chem as Chem` not found")

    m2g = _func(tree, "mol_to_graph")
    d = _one_dict(m2g, "bond_order_map")
    m2g_map = [(_str(k, "mol_to_graph.bond_order_map key"), _half(v, "mol_to_graph.bond_order_map value"))
               for k, v in zip(d.keys, d.values)]
    _nodup([k for k, _ in m2g_map], "mol_to_graph.bond_order_map")
    d = _one_dict(m2g, "edge_attributes")
    if len(d.keys) != 1 or not (isinstance(d.keys[0], ast.Name) and d.keys[0].id == "BOND_KEY"):
        _fail("mol_to_graph.edge_attributes is not {BOND_KEY: <order>}")
    default_bond = _half(d.values[0], "mol_to_graph.edge_attributes default")

    g2m = _func(tree, "graph_to_mol")
    d = _one_dict(g2m, "bond_order_map")
    g2m_map = [(_half(k, "graph_to_mol.bond_order_map key"), _bondtype_attr(v, "graph_to_mol.bond_order_map value"))
               for k, v in zip(d.keys, d.values)]
    _nodup([k for k, _ in g2m_map], "graph_to_mol.bond_order_map")

    sm = _func(tree, "_get_rdkit_atom_sym")
    if len(sm.args.args) != 1 or sm.args.vararg or sm.args.kwarg or sm.args.kwonlyargs or sm.args.defaults:
        _fail("_get_rdkit_atom_sym: unexpected signature")
    arg = sm.args.args[0].arg
    body = [n for n in sm.body if not (isinstance(n, ast.Expr) and isinstance(n.value, ast.Constant))]
    if len(body) != 2 or not isinstance(body[0], ast.Assign) or not isinstance(body[1], ast.Return):
        _fail("_get_rdkit_atom_sym: body is not `sym_map = {...}; return sym_map.get(x, x)`")
    d = _one_dict(sm, "sym_map")
    r = body[1].value
    ok = (isinstance(r, ast.Call) and isinstance(r.func, ast.Attribute) and r.func.attr == "get"
          and isinstance(r.func.value, ast.Name) and r.func.value.id == "sym_map"
          and len(r.args) == 2 and not r.keywords
          and all(isinstance(a, ast.Name) and a.id == arg for a in r.args))
    if not ok:
        _fail("_get_rdkit_atom_sym: return is not sym_map.get(%s, %s)" % (arg, arg))
    sym_map = [(_str(k, "sym_map key"), _str(v, "sym_map value")) for k, v in zip(d.keys, d.values)]
    _nodup([k for k, _ in sym_map], "sym_map")
    return {"m2g": m2g_map, "default": default_bond, "g2m": g2m_map, "sym": sym_map}


def _z(n):
    return "(%d)" % n if n < 0 else "%d" % n


def _s(x):
    return '"%s"' % x


def generate():
    t = read_tables()
    lines = [
        "(* GENERATED by harness/gen/rdkitmaps.py from %s -- do not edit. *)" % SRC,
        "From Coq Require Import ZArith List String.",
        "Import ListNotations.",
        "Local Open Scope string_scope.",
        "Open Scope Z_scope.",
        "",
        "(* mol_to_graph: bond_order_map, RDKit bond-type name -> order in half units *)",
        "Definition m2g_bond_map : list (string * Z) :=",
        "  [" + "; ".join("(%s, %s)" % (_s(k), _z(v)) for k, v in t["m2g"]) + "].",
        "",
        "(* mol_to_graph: edge_attributes = {BOND_KEY: ...}, the order of every other bond type *)",
        "Definition default_bond : Z := %s." % _z(t["default"]),
        "",
        "(* graph_to_mol: bond_order_map, order in half units -> Chem.rdchem.BondType.<name> *)",
        "Definition g2m_bond_map : list (Z * string) :=",
        "  [" + "; ".join("(%s, %s)" % (_z(k), _s(v)) for k, v in t["g2m"]) + "].",
        "",
        "(* _get_rdkit_atom_sym: sym_map *)",
        "Definition sym_map : list (string * string) :=",
        "  [" + "; ".join("(%s, %s)" % (_s(k), _s(v)) for k, v in t["sym"]) + "].",
        "",
    ]
    return "Gen/RdkitMaps.v", "\n".join(lines)


if __name__ == "__main__":
    print(generate()[1])
