"""Translator for the default functional-group list: regenerates coq/theories/Gen/FGDefault.v
from fgutils/fgconfig.py and fgutils/query.py in lib.REPO.

Read with `ast` only (fail-closed, nothing of fgconfig.py is executed):
  * the literal `_default_fg_config` (keys name, pattern, group_atoms, anti_pattern; any other
    key, a non-literal value or a duplicate key raises),
  * the default `len_exclude_nodes` of FGConfig.__init__,
  * the default mapper arguments of FGConfigProvider.__init__ and FGQuery.__init__,
  * the candidate exclusion list of FGQuery.__get_functional_groups.
The PARSED pattern / anti-pattern graphs are obtained by running the real parser
(fgutils.parse.Parser of the same tree) on the literal strings inside this generator; the
parser is therefore trusted here (it is the subject of C01, not of C05-C07)."""
import ast

import coqterm as ct
import lib
from gen.tables import (TranslatorError, read_module, find_function, coq_string, coq_z, coq_list, dump)

REL = "Gen/FGDefault.v"
ALLOWED_KEYS = ("name", "pattern", "group_atoms", "anti_pattern")


def _literal_list(tree, name):
    vals = [n.value for n in tree.body
            if isinstance(n, ast.Assign) and len(n.targets) == 1
            and isinstance(n.targets[0], ast.Name) and n.targets[0].id == name]
    if len(vals) != 1 or not isinstance(vals[0], ast.List):
        raise TranslatorError("%s is not a single list-literal assignment" % name)
    # the name must not be rebound or mutated anywhere else in the module
    for n in ast.walk(tree):
        if isinstance(n, ast.Name) and n.id == name and isinstance(n.ctx, (ast.Store, ast.Del)) \
                and not any(n is t for a in tree.body if isinstance(a, ast.Assign) for t in a.targets):
            raise TranslatorError("%s is rebound" % name)
        if isinstance(n, (ast.Attribute, ast.Subscript)) and isinstance(n.value, ast.Name) and n.value.id == name \
                and not (isinstance(n, ast.Subscript) and isinstance(n.ctx, ast.Load)):
            raise TranslatorError("%s is accessed through %s (possible mutation)" % (name, ast.unparse(n)))
    return vals[0]


def _str(node, what):
    if not isinstance(node, ast.Constant) or not isinstance(node.value, str):
        raise TranslatorError("%s is not a string literal: %s" % (what, ast.unparse(node)))
    return node.value


def _int_list(node, what):
    if not isinstance(node, ast.List):
        raise TranslatorError("%s is not a list literal" % what)
    out = []
    for e in node.elts:
        if not isinstance(e, ast.Constant) or isinstance(e.value, bool) or not isinstance(e.value, int):
            raise TranslatorError("%s contains a non-int: %s" % (what, ast.unparse(e)))
        out.append(e.value)
    return out


def read_default_list():
    tree = read_module("fgutils/fgconfig.py")
    lit = _literal_list(tree, "_default_fg_config")
    rows = []
    for k, d in enumerate(lit.elts):
        if not isinstance(d, ast.Dict):
            raise TranslatorError("_default_fg_config[%d] is not a dict literal" % k)
        row = {}
        for kk, vv in zip(d.keys, d.values):
            if kk is None:
                raise TranslatorError("_default_fg_config[%d] uses ** unpacking" % k)
            key = _str(kk, "key of entry %d" % k)
            if key not in ALLOWED_KEYS:
                raise TranslatorError("unknown key %r in _default_fg_config[%d]" % (key, k))
            if key in row:
                raise TranslatorError("duplicate key %r in _default_fg_config[%d]" % (key, k))
            if key in ("name", "pattern"):
                row[key] = _str(vv, "%s of entry %d" % (key, k))
            elif key == "group_atoms":
                row[key] = _int_list(vv, "group_atoms of entry %d" % k)
            else:
                if isinstance(vv, ast.List):
                    row[key] = [_str(e, "anti_pattern of entry %d" % k) for e in vv.elts]
                else:
                    row[key] = [_str(vv, "anti_pattern of entry %d" % k)]   # a single string is wrapped
        if "name" not in row or "pattern" not in row:
            raise TranslatorError("_default_fg_config[%d] lacks name or pattern" % k)
        rows.append(row)
    return tree, rows


def _class_method(tree, cls, meth):
    cs = [n for n in tree.body if isinstance(n, ast.ClassDef) and n.name == cls]
    if len(cs) != 1:
        raise TranslatorError("expected exactly one class %s" % cls)
    ms = [n for n in cs[0].body if isinstance(n, ast.FunctionDef) and n.name == meth]
    if len(ms) != 1:
        raise TranslatorError("expected exactly one method %s.%s" % (cls, meth))
    return ms[0]


def _default_of(fn, arg):
    args = fn.args.args
    defaults = [None] * (len(args) - len(fn.args.defaults)) + list(fn.args.defaults)
    for a, d in zip(args, defaults):
        if a.arg == arg:
            if d is None:
                raise TranslatorError("%s has no default for %s" % (fn.name, arg))
            return d
    raise TranslatorError("%s has no argument %s" % (fn.name, arg))


def _mapper_default(fn, owner):
    """the unique expression  PermutationMapper(wildcard=<str>, ignore_case=<bool>)  in fn"""
    calls = [n for n in ast.walk(fn) if isinstance(n, ast.Call) and isinstance(n.func, ast.Name)
             and n.func.id == "PermutationMapper"]
    if len(calls) != 1:
        raise TranslatorError("%s: expected exactly one PermutationMapper(...) call" % owner)
    c = calls[0]
    if c.args or sorted(k.arg for k in c.keywords) != ["ignore_case", "wildcard"]:
        raise TranslatorError("%s: unrecognised default mapper %s" % (owner, ast.unparse(c)))
    kw = {k.arg: k.value for k in c.keywords}
    w = _str(kw["wildcard"], "wildcard")
    ic = kw["ignore_case"]
    if not isinstance(ic, ast.Constant) or not isinstance(ic.value, bool):
        raise TranslatorError("%s: ignore_case is not a bool literal" % owner)
    return w, ic.value


def read_constants(tree):
    init = _class_method(tree, "FGConfig", "__init__")
    d = _default_of(init, "len_exclude_nodes")
    if not isinstance(d, ast.List):
        raise TranslatorError("default len_exclude_nodes is not a list literal")
    len_excl = [_str(e, "len_exclude_nodes default") for e in d.elts]
    anti_default = _default_of(init, "anti_pattern")
    if dump(anti_default) != dump(ast.parse("[]").body[0].value):
        raise TranslatorError("default anti_pattern is not []")
    for nm in ("group_atoms", "depth"):
        dd = _default_of(init, nm)
        if not (isinstance(dd, ast.Constant) and dd.value is None):
            raise TranslatorError("default %s is not None" % nm)
    m1 = _mapper_default(_class_method(tree, "FGConfigProvider", "__init__"), "FGConfigProvider.__init__")
    qtree = read_module("fgutils/query.py")
    m2 = _mapper_default(_class_method(qtree, "FGQuery", "__init__"), "FGQuery.__init__")
    if m1 != m2:
        raise TranslatorError("FGConfigProvider and FGQuery use different default mappers: %r %r" % (m1, m2))
    rq = _default_of(_class_method(qtree, "FGQuery", "__init__"), "require_implicit_hydrogen")
    if not (isinstance(rq, ast.Constant) and isinstance(rq.value, bool)):
        raise TranslatorError("default require_implicit_hydrogen is not a bool literal")
    gfg = _class_method(qtree, "FGQuery", "__get_functional_groups")
    excl = None
    for n in ast.walk(gfg):
        if isinstance(n, ast.Assign) and len(n.targets) == 1 and isinstance(n.targets[0], ast.Name) \
                and n.targets[0].id == "fg_candidate_ids":
            try:
                lst = n.value.generators[0].ifs[0].comparators[0]
                op = n.value.generators[0].ifs[0].ops[0]
            except (AttributeError, IndexError):
                raise TranslatorError("candidate comprehension has an unrecognised shape")
            if not isinstance(op, ast.NotIn) or not isinstance(lst, ast.List):
                raise TranslatorError("candidate filter is not `n_sym not in [...]`")
            if excl is not None:
                raise TranslatorError("fg_candidate_ids is assigned more than once")
            excl = [_str(e, "candidate exclusion list") for e in lst.elts]
    if excl is None:
        raise TranslatorError("fg_candidate_ids comprehension not found")
    return len_excl, m1, rq.value, excl


def parse_graph(text):
    from fgutils.parse import Parser
    import fgutils
    import os
    if not os.path.realpath(fgutils.__file__).startswith(lib.REPO + "/"):
        raise TranslatorError("fgutils is not imported from %s" % lib.REPO)
    return Parser().parse(text)


def generate():
    tree, rows = read_default_list()
    len_excl, (w, ic), rq, excl = read_constants(tree)
    raw, graphs = [], []
    for r in rows:
        ga = "None" if "group_atoms" not in r else "(Some %s)" % coq_list([coq_z(x) for x in r["group_atoms"]])
        antis = r.get("anti_pattern", [])
        raw.append("(%s, %s, %s, (%s : list string))" % (coq_string(r["name"]), coq_string(r["pattern"]), ga,
                                                         coq_list([coq_string(a) for a in antis])))
        try:
            g = ct.graph(parse_graph(r["pattern"]))
            ags = [ct.graph(parse_graph(a)) for a in antis]
        except ct.Unrepresentable as e:
            raise TranslatorError("parsed graph of %r is not representable: %s" % (r["name"], e))
        graphs.append("(%s,\n     (%s : list graph))" % (g, coq_list(ags)))
    text = """(** GENERATED by harness/gen/fgdefault.py from fgutils/fgconfig.py and fgutils/query.py -- do not edit.
    default_raw: the literal _default_fg_config read with `ast`:
      (name, pattern string, group_atoms or None, anti-pattern strings).
    default_graphs: for every entry the graph the REAL parser returns for the pattern string and
      for each anti-pattern string (in the order given), computed inside the generator. *)
From Coq Require Import ZArith List String.
From FGV Require Import Base.Bond Base.NX.
Import ListNotations.
Open Scope string_scope.
Open Scope Z_scope.

Definition default_raw : list (string * string * option (list Z) * list string) :=
  [ %s ].

Definition default_graphs : list (graph * list graph) :=
  [ %s ].

(* FGConfig.__init__: default of len_exclude_nodes *)
Definition default_len_exclude : list string := %s.

(* PermutationMapper(wildcard=..., ignore_case=...) built by FGConfigProvider / FGQuery *)
Definition default_wildcard : string := %s.
Definition default_ignore_case : bool := %s.

(* FGQuery.__init__: default of require_implicit_hydrogen *)
Definition default_require_h : bool := %s.

(* __get_functional_groups:  if n_sym not in [...] *)
Definition default_candidate_excluded : list string := %s.
""" % (";\n    ".join(raw), ";\n    ".join(graphs), coq_list([coq_string(x) for x in len_excl]),
       coq_string(w), "true" if ic else "false", "true" if rq else "false",
       coq_list([coq_string(x) for x in excl]))
    return REL, text


if __name__ == "__main__":
    print(generate()[1])
