"""Translator for the lexer tables of fgutils/parse.py -> coq/theories/Gen/Lexer.v.

Reads, with `ast` only (nothing is imported or evaluated):
  * the module-level literal  token_specification = [(name, r"regex"), ...]
  * the literal dict          self.bond_to_order_map = {...}  in Parser.__init__
and prints them as Coq values of FGV.Base.Regex.regex / list (string * Z) (orders in half units).

The regex parser accepts EXACTLY the constructs that occur in the pinned source:
  alternation `|` (top level of a token regex only), concatenation, literal characters from a
  white list, the escapes  \\. \\( \\) \\$ \\\\ \\{ \\}  (literal) and \\d (digit set), `.`, a
  character class [..] of single characters and a-b ranges (a trailing/leading `-` is literal),
  and the quantifiers + and * applied to a set (\\d, `.`, class).
Anything else raises TranslatorError (fail-closed)."""
import ast
import os

import lib


class TranslatorError(Exception):
    pass


LITERAL_OK = set("abcdefghijklmnopqrstuvwxyzABCDEFGHIJKLMNOPQRSTUVWXYZ0123456789-=#:/<>,_ %&!~;@'\"")
ESCAPED_LITERALS = set(".()$\\{}[]|+*?^")


# ---------------------------------------------------------------- regex AST (Python side)
# ("lit", str) ("set", cs) ("plus", cs) ("star", cs) ("cat", a, b) ("alt", a, b)
# cs: ("any",) ("digit",) ("class", [(lo, hi), ...])

def parse_regex(src):
    if not isinstance(src, str) or src == "":
        raise TranslatorError("empty or non-string regex %r" % (src,))
    if any(ord(c) < 32 or ord(c) > 126 for c in src):
        raise TranslatorError("non printable-ASCII regex source %r" % src)
    alts = []
    pos = 0
    cur = []          # elements of the current alternative
    n = len(src)
    while pos < n:
        c = src[pos]
        if c == "|":
            if not cur:
                raise TranslatorError("empty alternative in %r" % src)
            alts.append(cur)
            cur = []
            pos += 1
            continue
        if c == "\\":
            if pos + 1 >= n:
                raise TranslatorError("dangling backslash in %r" % src)
            e = src[pos + 1]
            pos += 2
            if e == "d":
                elem = ("set", ("digit",))
            elif e in ESCAPED_LITERALS:
                elem = ("lit", e)
            else:
                raise TranslatorError("unsupported escape \\%s in %r" % (e, src))
        elif c == ".":
            elem = ("set", ("any",))
            pos += 1
        elif c == "[":
            end = src.find("]", pos + 1)
            if end < 0:
                raise TranslatorError("unterminated class in %r" % src)
            elem = ("set", parse_class(src[pos + 1:end], src))
            pos = end + 1
        elif c in LITERAL_OK:
            elem = ("lit", c)
            pos += 1
        else:
            raise TranslatorError("unsupported regex character %r in %r" % (c, src))
        if pos < n and src[pos] in "+*":
            if elem[0] != "set":
                raise TranslatorError("quantifier on a non-set in %r" % src)
            elem = ("plus" if src[pos] == "+" else "star", elem[1])
            pos += 1
            if pos < n and src[pos] in "+*?":
                raise TranslatorError("stacked / lazy quantifier in %r" % src)
        elif pos < n and src[pos] in "?{":
            raise TranslatorError("unsupported quantifier %r in %r" % (src[pos], src))
        cur.append(elem)
    if not cur:
        raise TranslatorError("empty alternative in %r" % src)
    alts.append(cur)
    seqs = [seq_to_regex(a) for a in alts]
    r = seqs[-1]
    for s in reversed(seqs[:-1]):
        r = ("alt", s, r)
    return r


def parse_class(body, src):
    if body == "" or body[0] == "^" or "\\" in body or "[" in body:
        raise TranslatorError("unsupported character class [%s] in %r" % (body, src))
    ranges = []
    i = 0
    n = len(body)
    while i < n:
        c = body[i]
        if i + 2 < n and body[i + 1] == "-":
            lo, hi = c, body[i + 2]
            if not (lo.isalnum() and hi.isalnum() and ord(lo) <= ord(hi)):
                raise TranslatorError("unsupported range %s-%s in %r" % (lo, hi, src))
            ranges.append((lo, hi))
            i += 3
        else:
            if not (c.isalnum() or c in "_,-"):
                raise TranslatorError("unsupported class member %r in %r" % (c, src))
            if c == "-" and not (i == 0 or i == n - 1):
                raise TranslatorError("ambiguous '-' inside class in %r" % src)
            ranges.append((c, c))
            i += 1
    return ("class", ranges)


def seq_to_regex(elems):
    # merge adjacent literals
    merged = []
    for e in elems:
        if e[0] == "lit" and merged and merged[-1][0] == "lit":
            merged[-1] = ("lit", merged[-1][1] + e[1])
        else:
            merged.append(e)
    r = merged[-1]
    for e in reversed(merged[:-1]):
        r = ("cat", e, r)
    return r


# ---------------------------------------------------------------- Coq printing

def coq_string(s):
    return '"' + s.replace('"', '""') + '"'


def coq_char(c):
    return ('""""' if c == '"' else '"%s"' % c) + "%char"


def coq_cset(cs):
    if cs[0] == "any":
        return "CAny"
    if cs[0] == "digit":
        return "CDigit"
    return "(CClass [%s])" % "; ".join("(%s, %s)" % (coq_char(a), coq_char(b)) for a, b in cs[1])


def coq_regex(r):
    k = r[0]
    if k == "lit":
        return "(RLit %s)" % coq_string(r[1])
    if k == "set":
        return "(RSet %s)" % coq_cset(r[1])
    if k == "plus":
        return "(RPlus %s)" % coq_cset(r[1])
    if k == "star":
        return "(RStar %s)" % coq_cset(r[1])
    if k == "cat":
        return "(RCat %s %s)" % (coq_regex(r[1]), coq_regex(r[2]))
    if k == "alt":
        return "(RAlt %s\n      %s)" % (coq_regex(r[1]), coq_regex(r[2]))
    raise TranslatorError("internal: %r" % (r,))


# ---------------------------------------------------------------- source reading

def read_token_specification(tree):
    found = None
    for node in tree.body:
        if isinstance(node, ast.Assign) and len(node.targets) == 1 and isinstance(node.targets[0], ast.Name) \
                and node.targets[0].id == "token_specification":
            if found is not None:
                raise TranslatorError("token_specification assigned twice")
            found = node.value
    if found is None:
        raise TranslatorError("token_specification not found at module level")
    if not isinstance(found, ast.List):
        raise TranslatorError("token_specification is not a list literal")
    out = []
    for el in found.elts:
        if not (isinstance(el, ast.Tuple) and len(el.elts) == 2
                and all(isinstance(x, ast.Constant) and isinstance(x.value, str) for x in el.elts)):
            raise TranslatorError("token_specification entry is not a (str, str) literal: %s" % ast.dump(el))
        name, rx = el.elts[0].value, el.elts[1].value
        if not name.isidentifier():
            raise TranslatorError("token name %r" % name)
        out.append((name, rx))
    if len(set(n for n, _ in out)) != len(out):
        raise TranslatorError("duplicate token names")
    # any other write to the table (append, +=, item assignment) is not understood
    for node in ast.walk(tree):
        if isinstance(node, (ast.AugAssign, ast.AnnAssign)) and isinstance(node.target, ast.Name) \
                and node.target.id == "token_specification":
            raise TranslatorError("token_specification is modified after its definition")
        if isinstance(node, ast.Attribute) and isinstance(node.value, ast.Name) and node.value.id == "token_specification" \
                and node.attr in ("append", "extend", "insert", "pop", "remove", "sort", "reverse", "clear"):
            raise TranslatorError("token_specification is modified after its definition")
        if isinstance(node, ast.Subscript) and isinstance(node.value, ast.Name) and node.value.id == "token_specification" \
                and isinstance(node.ctx, (ast.Store, ast.Del)):
            raise TranslatorError("token_specification is modified after its definition")
    return out


def read_bond_map(tree):
    cls = [n for n in tree.body if isinstance(n, ast.ClassDef) and n.name == "Parser"]
    if len(cls) != 1:
        raise TranslatorError("class Parser not found exactly once")
    init = [n for n in cls[0].body if isinstance(n, ast.FunctionDef) and n.name == "__init__"]
    if len(init) != 1:
        raise TranslatorError("Parser.__init__ not found exactly once")
    found = []
    for node in ast.walk(cls[0]):
        targets = []
        if isinstance(node, ast.Assign):
            targets = node.targets
        elif isinstance(node, (ast.AugAssign, ast.AnnAssign)):
            targets = [node.target]
        for t in targets:
            if isinstance(t, ast.Attribute) and t.attr == "bond_to_order_map":
                found.append(node)
            if isinstance(t, ast.Subscript) and isinstance(t.value, ast.Attribute) and t.value.attr == "bond_to_order_map":
                raise TranslatorError("bond_to_order_map is modified item-wise")
    if len(found) != 1 or not isinstance(found[0], ast.Assign) or found[0] not in init[0].body:
        raise TranslatorError("bond_to_order_map must be assigned exactly once, directly in Parser.__init__")
    d = found[0].value
    if not isinstance(d, ast.Dict):
        raise TranslatorError("bond_to_order_map is not a dict literal")
    out = []
    for k, v in zip(d.keys, d.values):
        if not (isinstance(k, ast.Constant) and isinstance(k.value, str)):
            raise TranslatorError("bond_to_order_map key %s" % (ast.dump(k) if k is not None else None))
        if not (isinstance(v, ast.Constant) and type(v.value) in (int, float)):
            raise TranslatorError("bond_to_order_map value %s" % ast.dump(v))
        h = v.value * 2
        if h != int(h):
            raise TranslatorError("bond order %r is not a multiple of 0.5" % (v.value,))
        if any(ord(c) < 32 or ord(c) > 126 for c in k.value):
            raise TranslatorError("non printable-ASCII bond symbol %r" % k.value)
        out.append((k.value, int(h)))
    if len(set(k for k, _ in out)) != len(out):
        raise TranslatorError("duplicate key in bond_to_order_map (later one would win)")
    return out


def translate(path):
    src = open(path).read()
    tree = ast.parse(src)
    spec = read_token_specification(tree)
    bonds = read_bond_map(tree)
    lines = ["(** GENERATED by harness/gen/lexer.py from fgutils/parse.py. Do not edit.",
             "    token_specification and Parser.bond_to_order_map (orders in half units). *)",
             "From Coq Require Import ZArith Ascii String List.",
             "From FGV Require Import Base.Regex.",
             "Import ListNotations.",
             "Open Scope string_scope.",
             "",
             "Definition token_spec : list (string * regex) := ["]
    ents = []
    for name, rx in spec:
        ents.append("  (%s,\n   %s)" % (coq_string(name), coq_regex(parse_regex(rx))))
    lines.append(";\n".join(ents))
    lines.append("].")
    lines.append("")
    lines.append("Definition bond_order_table : list (string * Z) := [")
    lines.append(";\n".join("  (%s, %d%%Z)" % (coq_string(k), h) for k, h in bonds))
    lines.append("].")
    return "\n".join(lines) + "\n"


def generate():
    return "Gen/Lexer.v", translate(os.path.join(lib.REPO, "fgutils", "parse.py"))


if __name__ == "__main__":
    print(generate()[1])
