"""Translator: regenerate coq/theories/Gen/*.v from /repo's current source. Fail-closed: a
generator that meets anything it does not recognise raises, and the check reports a violation.
Each generator lives in harness/gen/<name>.py and exposes generate() -> (relative .v path, text).
Files are rewritten only when their text changes (so make does not rebuild needlessly)."""
import importlib
import os
import sys
import traceback

import lib

ALL = ["tables", "lexer", "rdkitmaps", "ps", "rulemap", "fgdefault", "proxyda"]


def regenerate(which=None):
    ok, msgs = True, []
    for name in (which or ALL):
        path = os.path.join(os.path.dirname(os.path.abspath(__file__)), "gen", name + ".py")
        if not os.path.exists(path):
            continue
        try:
            mod = importlib.import_module("gen." + name)
            rel, text = mod.generate()
            changed = lib.write_if_changed(os.path.join(lib.COQ, "theories", rel), text)
            msgs.append("%s: %s" % (rel, "rewritten" if changed else "unchanged"))
        except Exception as e:
            ok = False
            msgs.append("%s: TRANSLATOR FAILURE %s: %s" % (name, type(e).__name__, e))
            msgs.append(traceback.format_exc()[-1500:])
    return ok, msgs


if __name__ == "__main__":
    lib.assert_repo()
    ok, msgs = regenerate()
    print("\n".join(msgs))
    sys.exit(0 if ok else 1)
