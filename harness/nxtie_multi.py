"""Correspondence run for the networkx.MultiGraph model (Base/NXMulti.v): random operation
sequences on a real networkx.MultiGraph and on the model; the final graph (all dict orders and
edge keys), edges(keys=True, data=True), edges(n, data=True) for every node and the collapse
nx.Graph(M) must agree exactly. Same idea as nxtie.py for Base/NX.v."""
import networkx as nx

import coqterm as ct
import ctmulti as cm
import lib
from nxtie import rand_attrs, rand_label

IMPORTS = "From FGV Require Import Base.NXMulti Model.NXMultiOps."


def rand_small_mgraph(rng, ids):
    h = nx.MultiGraph()
    for n in rng.sample(ids, rng.randint(1, 4)):
        h.add_node(n, **rand_attrs(rng))
    ns = list(h.nodes)
    for _ in range(rng.randint(0, 5)):
        u, v = rng.choice(ns), rng.choice(ns)
        if u != v:
            if rng.random() < 0.3:
                h.add_edge(u, v, key=rng.randint(0, 4), bond=rand_label(rng))
            else:
                h.add_edge(u, v, bond=rand_label(rng))
    return h


def op_term(o):
    k = o[0]
    if k == "add_node":
        return "(MAddNode %s %s)" % (ct.z(o[1]), ct.nattr(o[2]))
    if k == "add_edge":
        return "(MAddEdge %s %s %s)" % (ct.z(o[1]), ct.z(o[2]), ct.label(o[3]))
    if k == "add_edge_key":
        return "(MAddEdgeKey %s %s %s %s)" % (ct.z(o[1]), ct.z(o[2]), ct.z(o[3]), ct.label(o[4]))
    if k == "remove_node":
        return "(MRemoveNode %s)" % ct.z(o[1])
    if k == "copy":
        return "MCopy"
    if k == "compose":
        return "(MCompose %s)" % cm.mgraph(o[1])
    if k == "composel":
        return "(MComposeL %s)" % cm.mgraph(o[1])
    if k == "relabel":
        return "(MRelabel %s)" % ct.lst(["(%s, %s)" % (ct.z(a), ct.z(b)) for a, b in o[1].items()])
    raise ValueError(k)


def gen_case(rng):
    ids = list(range(-2, 8))
    g = nx.MultiGraph()
    ops = []
    for _ in range(rng.randint(3, 16)):
        r = rng.random()
        nodes = list(g.nodes)
        if r < 0.2 or not nodes:
            o = ("add_node", rng.choice(ids), rand_attrs(rng))
            g.add_node(o[1], **o[2])
        elif r < 0.5:
            # bias towards existing nodes so that parallel edges are frequent
            u = rng.choice(nodes) if rng.random() < 0.7 else rng.choice(ids)
            v = rng.choice(nodes) if rng.random() < 0.7 else rng.choice(ids)
            if u == v:
                continue   # self-loops are outside the modelled domain
            o = ("add_edge", u, v, rand_label(rng))
            g.add_edge(u, v, bond=o[3])
        elif r < 0.62:
            u = rng.choice(nodes) if rng.random() < 0.7 else rng.choice(ids)
            v = rng.choice(nodes) if rng.random() < 0.7 else rng.choice(ids)
            if u == v:
                continue
            o = ("add_edge_key", u, v, rng.randint(0, 5), rand_label(rng))
            g.add_edge(u, v, key=o[3], bond=o[4])
        elif r < 0.70:
            o = ("remove_node", rng.choice(nodes))
            g.remove_node(o[1])
        elif r < 0.78:
            o = ("copy",)
            g = g.copy()
        elif r < 0.85:
            h = rand_small_mgraph(rng, ids)
            o = ("compose", h)
            g = nx.compose(g, h)
        elif r < 0.90:
            h = rand_small_mgraph(rng, ids)
            o = ("composel", h)
            g = nx.compose(h, g)
        else:
            sub = rng.sample(nodes, rng.randint(0, len(nodes)))
            if rng.random() < 0.6:
                # injective (partial dict: the rest keep their ids)
                free = [i for i in range(-6, 16) if i not in nodes or i in sub]
                tgt = rng.sample(free, len(sub))
            else:
                # possibly merging nodes: exercises the conflicting-key loop
                tgt = [rng.choice(list(range(-3, 10))) for _ in sub]
            m = dict(zip(sub, tgt))
            if any(m.get(u, u) == m.get(v, v) for u, v in g.edges()):
                continue   # would create a self-loop
            o = ("relabel", m)
            g = nx.relabel_nodes(g, m, copy=True)
        ops.append(o)
    return ops, g


def coq_case(ops, g):
    return {"defs": {"ops": "(%s : list mop)" % ct.lst([op_term(o) for o in ops]), "exp": cm.mgraph(g),
                     "es": cm.edges4(g), "inc": cm.incident_all(g), "simple": ct.graph(nx.Graph(g))},
            "checks": {"agree": "mobserve_ok (mrun_ops $ops) $exp $es $inc $simple"}}


def run(seed, n=200):
    """Returns (n_cases, failures) where failures is a list of dict(ops=..., impl=...)."""
    cases, meta = [], []
    for i in range(n):
        rng = lib.rng_for(seed, "NXTIEM", i)
        ops, g = gen_case(rng)
        cases.append(coq_case(ops, g))
        meta.append((ops, g))
    failing, errors = lib.run_coq_cases("NXTIEM", IMPORTS, cases, ["agree"], chunk=100)
    fails = []
    for i in failing["agree"]:
        ops, g = meta[i]
        fails.append({"ops": [repr(o) for o in ops], "impl": cm.graph_py(g)})
    for k, path, log in errors:
        fails.append({"error": "coqc failed on %s" % path, "log": log})
    return len(cases), fails


if __name__ == "__main__":
    import sys
    n, fails = run(int(sys.argv[1]) if len(sys.argv) > 1 else 0, int(sys.argv[2]) if len(sys.argv) > 2 else 300)
    print("networkx MultiGraph tie: %d cases, %d failures" % (n, len(fails)))
    for f in fails[:3]:
        print(f)
    sys.exit(1 if fails else 0)
