"""C14 — proxy expansion is exhaustive and conservative.
Correspondence: Model.ProxyGen.proxy_all ~ [g for g in fgutils.proxy.Proxy(core, groups, enable_aam)]
with the default parser and default samplers: the WHOLE enumeration as a list, every graph compared
exactly (all dict orders), and how the iteration ends (StopIteration after the last graph, or the
exception that leaves the generator). The parser is not modelled: patterns reach the model parsed by
the real Parser(use_multigraph=True) at offset 0; parse(pattern, idx_offset=m) = shift by m is an
assumption that is validated here on every pattern used (offsets 3 and 17)."""
import copy

import networkx as nx

import lib
import coqterm as ct
import ctmulti as cm
import proxycfg as pc
from fgutils.parse import Parser
from fgutils.proxy import (Proxy, MolProxy, ReactionProxy, ProxyGroup, ProxyGraph, GraphSampler, build_graphs,
                           build_group_tree)

ID = "C14"
REPEAT_PROBE = True   # engine: repeat 1 call in 5 after editing its first result in place (purity / no shared state)
PROPS = "Props/C14.v"
MODEL_FILES = ["Model/ProxyGen.v", "Gen/ProxyDA.v", "Spec/ProxyGenCheck.v", "Spec/ProxyRefCheck.v", "Spec/ProxyParserCheck.v", "Model/ProxyDict.v", "Model/ProxyTree.v"]
IMPORTS = "From FGV Require Import Base.NXMulti Model.Proxy Model.ProxyTerms Model.ProxyGen Spec.ProxyGenSpec Spec.ProxyGenCheck Spec.ProxyRefCheck Spec.ProxyParserCheck Model.ProxyDict Model.ProxyTree Gen.ProxyDA."
CHECKS = ["agree", "spec", "bonds"]
USES_GEN = ["proxyda"]
CHUNK = 25
CORRESPONDENCE = ("Model.ProxyGen.{proxy_all,generate_loop,gen_for,build_graphs,build_loop,build_round,"
                  "replace_next_node,get_next_group_node,is_group_node,sample_unique,sample_all,finish} ~ "
                  "fgutils.proxy.{Proxy.__generate,build_graphs,replace_next_node,_get_next_group_node,"
                  "_is_group_node,GraphSampler.sample,ProxyGroup.sample_graphs} (+ Model.Proxy.replace_node_multi ~ "
                  "replace_node, Base.NXMulti.to_simple ~ nx.Graph(multigraph)); Model.ProxyDict.{proxy_from_dict,from_dict,group_of,"
                  "from_dict_single,graphs_of,graph_of} ~ Proxy.from_dict, ProxyGroup.from_dict, ProxyGroup.from_dict_single, "
                  "ProxyGraph( **dict); Model.ProxyTree.{group_tree,add_node} ~ fgutils.proxy.build_group_tree; whole enumeration as a list, "
                  "exact graph equality incl. dict orders, and the terminal event")
RULE = ("random acyclic group DAGs: 1-5 groups on levels 1-4, a group references only groups of lower level (depth <= 4), "
        "1-3 ProxyGraphs per group, patterns of 0-5 atoms ('' = the empty pattern 12%) with branches, rings (also closed "
        "on the neighbouring atom: parallel bonds in the MultiGraph, e.g. 'C1{g}1'), plain and ITS <g,h> bonds, group "
        "labels, non-group labels that must survive, anchor lists of length 1-3 (shorter and longer than the degree, "
        "repeats, 4% out of range or empty -> IndexError); 1-3 core patterns; 5% configurations with a node naming two "
        "configured groups (RuntimeError), 3% with a dict key different from the group name (ValueError); the API is "
        "driven through Proxy / MolProxy / ReactionProxy-as-Proxy with core as str / list / unique ProxyGroup and groups "
        "as ProxyGroup / list / dict; enumeration size <= 300 (quick; thorough: <= 1500 for 12% of the cases) by the count formula; "
        "common_groups with small cores; thorough: the full Diels-Alder proxy, both modes, every graph (sliced). "
        "on top of the configurations (separate random stream): 22% get one or two core graphs repeated (distinct ProxyGraph "
        "objects with equal pattern and anchor: each counts), 22% an iteration history on ONE proxy object (k = 0..n+1 items "
        "through next() / get_next() / a for-loop left with break, then list(proxy); the concatenation is compared with the "
        "whole enumeration, then next() must raise StopIteration), 6% two proxies over the SAME ProxyGroup and core "
        "ProxyGraph objects driven alternately (both must yield the whole enumeration), 20% an explicit "
        "Parser(use_multigraph=True|False, init_aam=True|False); 20% of the remaining ones a RE-CONFIGURATION history: a proxy "
        "over ProxyGroup objects G is enumerated, then one or two of the groups get `group.graphs = value` through the "
        "documented setter (value = str | list[str] | ProxyGraph | list[ProxyGraph]: other patterns, anchors, number of "
        "graphs) and a proxy over the SAME group objects is built again (same arguments / another core / through the "
        "`proxy.groups` setter with a ProxyGroup | list | dict) and enumerated: this second enumeration is compared with "
        "the model and the checkers for the NEW configuration. "
        "30% of the cases that are not re-configured / dict-built / alternately driven get CUSTOM NON-RESTRICTING SAMPLERS "
        "(they return every graph they are given) on a random non-empty subset of the groups, in every form the API accepts: "
        "plain function f(graphs), function f(graphs, group_name=None), lambda of both signatures, object with __call__ of "
        "both signatures, a GraphSampler(unique=False) instance, and (groups with one graph) a sampler returning the single "
        "ProxyGraph instead of a list; both signatures are mixed within one configuration and one process; the enumeration "
        "must equal the model's for the same configuration with default samplers, and every sampler that declares group_name "
        "must have been called with its group's name; the core keeps the unique default sampler. "
        "30% of the cases without history/parser are BUILT FROM DICTS: an equivalent JSON-style configuration (group as "
        "string / list of strings and dicts / {graphs: str | dict | list}, {pattern, anchor} dicts with extra property "
        "keys and 'name', core as string or list, enable_aam present or not) goes through Proxy.from_dict / "
        "ReactionProxy.from_dict / MolProxy.from_dict / cls(core, ProxyGroup.from_dict(..)) / ProxyGroup.from_dict_single; "
        "the model normalises the same dict (Model.ProxyDict.proxy_from_dict) and must give the configuration the live "
        "object holds and the same enumeration; 14 dict configurations the entry points reject (TypeError / ValueError "
        "no graphs / missing pattern / AttributeError / IndexError), compared by exception kind; ~50 build_group_tree cases "
        "on small acyclic configurations (a few with a label that names no group: KeyError), tree compared exactly "
        "(node names in order, adjacency lists in order) with Model.ProxyTree.group_tree. "
        "non-trivial = at least 2 results and a group referenced from a group; distinct = distinct configuration + history + parser")
TRUSTED = ["the pattern parser (not part of this property): patterns reach the model as the MultiGraphs the real "
           "Parser(use_multigraph=True) returns at offset 0",
           "model of the attribute dict as a record of the five keys FGUtils uses; edge data = the single key 'bond'",
           "Base.NXMulti model of networkx.MultiGraph incl. copy/compose/relabel/nx.Graph(M) (validated by "
           "operation-sequence ties in C13) and Model.Proxy.replace_node_multi (tied in C13)"]
ASSUMPTIONS = ["parser.parse(pattern, idx_offset=m) is parser.parse(pattern) with every node id shifted by m, all dict "
               "orders and edge keys unchanged (validated on every pattern of every case at offsets 3 and 17; node "
               "numbering from the offset is proved for the parser model in C01)",
               "samplers: groups use the default GraphSampler(unique=False), the core group GraphSampler(unique=True) "
               "over pairwise distinct ProxyGraph OBJECTS (equal contents allowed and generated: each object counts); "
               "RESTRICTING samplers (custom ones that drop graphs, ProxyGroup(..., unique=True) groups) are outside the model "
               "and are not generated (the translator fails closed on any non-default sampler; the harness accepts only the "
               "non-restricting custom samplers it installs itself, whose enumeration must be the default one)",
               "explicit parsers: Parser(use_multigraph=True, init_aam=..) is covered by the model (the final aam overwrite "
               "makes parse-time map numbers irrelevant) except init_aam=True with enable_aam=False, where the parse-time "
               "numbers stay on the nodes: there, and for Parser(use_multigraph=False) (simple-graph path: no nx.Graph "
               "collapse, Graph.copy/compose/relabel, not modelled above replace_node), 'agree' does not apply and only "
               "the decidable checkers (count, ids, no group label, aam rule, signature multiset against the reference "
               "expander, with the configuration as that parser reads it) run on the implementation's outputs",
               "theorems: acyclic configuration (a rank function on group names exists), every labelled node names at "
               "most one configured group, dict keys equal group names, anchors non-empty and inside non-empty patterns",
               "bond conservation additionally assumes patterns without self-loops, and for the collapsed graph that the "
               "expansion has no parallel bonds (otherwise nx.Graph(multigraph) keeps only the last of them: "
               "C14_collapse_refuted); the proofs rest on the C13 theorem replace_node_multi_spec and on facts about "
               "MultiGraph.copy() proved in Proofs/NXMultiCopyFacts.v (no hypothesis is left in Props/C14.v)"]

ATOMS = ["C", "C", "C", "C", "N", "O", "S", "Cl", "c", "c", "Br", "H", "R", "Si"]
BONDS_PLAIN = ["", "", "", "", "", "-", "=", "#", ":"]
BONDS_ITS = ["<1,2>", "<2,1>", "<0,1>", "<1,0>", "<,2>", "<2,>", "<1,1>", "<3,2>"]
NONGROUP = ["x_1", "keep", "Z9"]


def rand_pat(rng, refs, natoms, its=False, label_p=0.35, ring_p=0.3, multi_p=0.0):
    """Random pattern string over atoms and {label} tokens. refs = group names that may be referenced."""
    def bond():
        if its and rng.random() < 0.45:
            return rng.choice(BONDS_ITS)
        return rng.choice(BONDS_PLAIN)

    open_rings = []
    state = {"n": 0}

    def atom():
        r = rng.random()
        if refs and r < label_p:
            if rng.random() < multi_p and len(refs) >= 1:
                ls = [rng.choice(refs), rng.choice(refs + NONGROUP)]
                s = "{" + ",".join(ls) + "}"
            elif rng.random() < 0.2:
                ls = [rng.choice(refs), rng.choice(NONGROUP)]
                rng.shuffle(ls)
                s = "{" + ",".join(ls) + "}"
            else:
                s = "{" + rng.choice(refs) + "}"
        elif r < label_p + 0.06:
            s = "{" + rng.choice(NONGROUP) + "}"
        else:
            s = rng.choice(ATOMS)
        idx = state["n"]
        state["n"] += 1
        if rng.random() < ring_p:
            closable = [x for x in open_rings if x[1] != idx]
            if closable and rng.random() < 0.65:
                x = rng.choice(closable)
                open_rings.remove(x)
                s += bond() + str(x[0])
            else:
                free = [d for d in range(1, 10) if d not in [x[0] for x in open_rings]]
                if free:
                    d = rng.choice(free)
                    open_rings.append((d, idx))
                    s += str(d)
        return s

    if natoms == 0:
        return ""
    out = atom()
    depth = 0
    while state["n"] < natoms:
        r = rng.random()
        if r < 0.25:
            out += "(" + bond() + atom()
            depth += 1
        elif r < 0.45 and depth > 0:
            out += ")"
            depth -= 1
        else:
            out += bond() + atom()
    out += ")" * depth
    return out


def ok_pattern(p):
    try:
        g, msg = pc.pattern_graph(p)
    except Exception:
        return None
    if pc.has_selfloop(g):
        return None
    return g


def rand_anchors(rng, k, bad_p):
    if k == 0:
        return rng.choice([[0], [0], [], [0, 1]])
    r = rng.random()
    if r < bad_p / 2:
        return []
    n = rng.choice([1, 1, 1, 2, 2, 3])
    a = [rng.randrange(0, k) for _ in range(n)]
    if r < bad_p:
        a[rng.randrange(0, n)] = rng.choice([k, k + 2, -1])
    elif r < 0.35:
        a = [0] * n
    elif r < 0.5 and k > 1:
        a = [0, k - 1]
    return a


def rand_pgraph(rng, refs, its, nmax=5, empty_p=0.12, bad_p=0.0, multi_p=0.0, nonempty=False):
    for _ in range(50):
        if not nonempty and rng.random() < empty_p:
            p = ""
        else:
            p = rand_pat(rng, refs, rng.randint(1, nmax), its=its, multi_p=multi_p)
        g = ok_pattern(p)
        if g is not None:
            return [p, rand_anchors(rng, g.number_of_nodes(), bad_p)]
    return ["C", [0]]


def gen_config(rng, limit, big=False):
    """A random acyclic configuration (cfg dict) whose enumeration has at most `limit` graphs."""
    for _ in range(200):
        its = rng.random() < 0.3
        r = rng.random()
        multi_p = 0.25 if r < 0.05 else 0.0
        bad_p = 0.3 if 0.05 <= r < 0.09 else 0.0
        wrong_key = 0.09 <= r < 0.12
        k = rng.randint(1, 6 if big else 5)
        level = [rng.randint(1, 4) for _ in range(k)]
        names = ["g%d" % i for i in range(k)]
        if rng.random() < 0.3:
            names = [rng.choice(["alk", "R-x", "aryl_2", "e", "Ring"]) + str(i) for i in range(k)]
        groups = []
        for i in range(k):
            refs = [names[j] for j in range(k) if level[j] < level[i]]
            ng = rng.choice([1, 1, 2, 2, 3, 4 if big else 3])
            graphs = [rand_pgraph(rng, refs, its, nmax=6 if big else 5, bad_p=bad_p, multi_p=multi_p) for _ in range(ng)]
            key = names[i]
            gname = names[i]
            if wrong_key and rng.random() < 0.5:
                gname = names[i] + "_x"
            groups.append([key, gname, graphs])
        rng.shuffle(groups)
        ncore = rng.choice([1, 1, 2, 3])
        core = [rand_pgraph(rng, names, its, nmax=6, multi_p=multi_p, nonempty=rng.random() < 0.95) for _ in range(ncore)]
        cfg = {"core": core, "groups": groups, "aam": rng.random() < 0.6}
        cnt = pc.count_formula(cfg, limit=100 * limit)
        if cnt is None and multi_p == 0.0:
            continue
        if cnt is not None and cnt > limit:
            continue
        # the API variants
        hows = ["dict", "dict"]
        if all(key == gname for key, gname, _ in groups):
            hows += ["list", "plain"]
            if len(groups) == 1:
                hows.append("single")
        cfg_how = rng.choice(hows)
        if cfg_how == "plain":
            cfg["core"] = [[p, [0]] for p, _ in core]
        cls = rng.choice(["Proxy", "Proxy", "MolProxy", "ReactionProxy"])
        return {"kind": "gen", "cfg": cfg, "how": cfg_how, "cls": cls, "expected": cnt}
    raise RuntimeError("no configuration found")


DRIVES = ["next", "get_next", "break"]
PARSERS = [[True, False], [True, True], [False, False], [False, True]]


VIAS = ["recreate", "recreate", "newcore", "setter_dict", "setter_list", "setter_single"]


def _form_for(rng, graphs):
    """a value form the documented `graphs` setter accepts for this list of [pattern, anchors]"""
    forms = ["listpg"]
    if all(a == [0] for _, a in graphs):
        forms.append("liststr")
        if len(graphs) == 1:
            forms.append("str")
    if len(graphs) == 1:
        forms.append("pg")
    return rng.choice(forms)


def make_reconf(rng, c, limit):
    """History: a proxy over group objects G is enumerated, then one or two of the ProxyGroup objects are re-configured
    through the public `graphs` setter (and/or the proxy's `groups` setter is used), then a proxy over the SAME group
    objects is enumerated: that second enumeration is what the case compares with the model, for the NEW configuration
    (c["cfg"]); c["reconf"] records the old configuration and how the new one is installed."""
    old = c["cfg"]
    if not old["groups"]:
        return c
    keys = [k for k, _, _ in old["groups"]]
    its = any("<" in p for p in pc.all_patterns(old))
    new_groups = [[k, n, [[p, list(a)] for p, a in gl]] for k, n, gl in old["groups"]]
    changed, forms = [], {}
    for j in rng.sample(range(len(new_groups)), min(len(new_groups), rng.choice([1, 1, 2]))):
        k, n, gl = new_groups[j]
        refs = []
        for p, _ in gl:
            g = ok_pattern(p)
            for _, d in (g.nodes(data=True) if g is not None else []):
                refs += [l for l in d["labels"] if l in keys and l != k and l not in refs]
        graphs = [rand_pgraph(rng, refs, its, nmax=4) for _ in range(rng.choice([1, 1, 2, 3]))]
        new_groups[j] = [k, n, graphs]
        changed.append(k)
        forms[k] = _form_for(rng, graphs)
    vias = [v for v in VIAS if (v != "setter_single" or len(keys) == 1)
            and (v not in ("setter_list", "setter_single") or all(k == n for k, n, _ in new_groups))]
    via = rng.choice(vias)
    core = [[p, list(a)] for p, a in old["core"]]
    if via == "newcore":
        core = [rand_pgraph(rng, keys, its, nmax=5, nonempty=True) for _ in range(rng.choice([1, 2]))]
    new = {"core": core, "groups": new_groups, "aam": old["aam"]}
    cnt = pc.count_formula(new, limit=100 * limit)
    if cnt is None or cnt > limit:
        return c
    c["reconf"] = {"old_core": old["core"], "old_groups": old["groups"], "changed": changed, "forms": forms, "via": via}
    c["cfg"] = new
    c["expected"] = cnt
    c["how"] = "dict"
    return c


def decorate(rng, c, limit):
    """Independent of the configuration stream: duplicate core graphs (distinct ProxyGraph objects with equal
    pattern and anchor must count separately), iteration histories (k items through next()/get_next()/a broken
    for-loop, then list(proxy) on the SAME object), two proxies over shared group/ProxyGraph objects driven
    alternately, explicit parsers."""
    cfg = c["cfg"]
    r = rng.random()
    if r < 0.22 and cfg["core"]:
        cfg["core"] = list(cfg["core"])
        for _ in range(rng.choice([1, 1, 2])):
            j = rng.randrange(len(cfg["core"]))
            cfg["core"].insert(rng.randrange(len(cfg["core"]) + 1), [cfg["core"][j][0], list(cfg["core"][j][1])])
        c["expected"] = pc.count_formula(cfg, limit=100 * limit)
        c["dup_core"] = True
    r = rng.random()
    if r < 0.22:
        n = c.get("expected") or 3
        k = rng.choice([1, 1, 2, max(1, n // 2), max(1, n - 1), n, n + 1, 0])
        c["drive"] = [rng.choice(DRIVES), k]
    elif r < 0.28:
        c["drive"] = ["alt", 0]
    if c.get("drive"):
        # next(proxy) must hand out the graphs themselves
        if c["cls"] == "ReactionProxy":
            c["cls"] = "Proxy"
    r = rng.random()
    if r < 0.2:
        c["parser"] = rng.choice(PARSERS)
    if not c.get("drive") and c.get("parser") is None and rng.random() < 0.2:
        make_reconf(rng, c, limit)
    if not c.get("drive") and c.get("parser") is None and not c.get("reconf") and rng.random() < 0.3:
        make_dict(rng, c)
    if not c.get("reconf") and not c.get("dict") and not (c.get("drive") and c["drive"][0] == "alt") \
            and c["cfg"]["groups"] and rng.random() < 0.3:
        make_samplers(rng, c)
    return c


SAMPLER_FORMS = ["func", "func_kw", "lambda", "lambda_kw", "obj", "obj_kw", "graphsampler", "single", "single_kw"]


def make_samplers(rng, c):
    """Custom NON-RESTRICTING samplers (they return every graph they are given) on some of the groups, in every form
    the API accepts; both call signatures (with and without the keyword group_name) are mixed within one
    configuration. The core keeps its unique default sampler. The model is the one for the default samplers."""
    groups = c["cfg"]["groups"]
    keys = [k for k, _, _ in groups]
    chosen = rng.sample(keys, rng.randint(1, len(keys)))
    forms = {}
    for k in chosen:
        ng = [len(gl) for kk, _, gl in groups if kk == k][0]
        pool = [f for f in SAMPLER_FORMS if not f.startswith("single") or ng == 1]
        forms[k] = rng.choice(pool)
    # make sure both signatures occur among plain functions when there is room for it
    if len(chosen) >= 2:
        forms[chosen[0]], forms[chosen[1]] = rng.choice([("func", "func_kw"), ("func_kw", "func"), ("lambda_kw", "func"),
                                                        ("lambda", "func_kw")])
    c["samplers"] = forms
    return c


ENTRIES = ["Proxy.from_dict", "Proxy.from_dict", "ReactionProxy.from_dict", "MolProxy.from_dict", "groups_from_dict",
           "groups_from_dict", "from_dict_single"]


def make_dict(rng, c):
    """Build the proxy through the documented JSON-style entry points from an equivalent dict configuration
    (short form string, list of strings, {"pattern","anchor"} dict, list of such dicts, extra property keys)."""
    cfg = c["cfg"]
    if not cfg["groups"] or not cfg["core"] or any(k != n for k, n, _ in cfg["groups"]):
        return c
    cfg["core"] = [[p, [0]] for p, _ in cfg["core"]]
    c["dict"] = {"conf": pc.dict_forms(rng, cfg), "entry": rng.choice(ENTRIES)}
    if c["dict"]["entry"].endswith(".from_dict"):
        c["cls"] = "Proxy"          # the static method returns a plain Proxy whatever class it is called on
    c["how"] = "dict"
    return c


BAD_CONFS = [
    ({"core": "C{g}", "groups": {"g": {}}}, "JNoGraphs"),
    ({"core": "C{g}", "groups": {"g": []}}, "JNoGraphs"),
    ({"core": "C{g}", "groups": {"g": {"graphs": []}}}, "JNoGraphs"),
    ({"core": "C{g}", "groups": {"g": {"graphs": {"anchor": [0]}}}}, "JTypeError"),
    ({"core": "C{g}", "groups": {"g": {"graphs": {"pattern": None}}}}, "JNoPattern"),
    ({"core": "C{g}", "groups": {"g": {"graphs": 5}}}, "JTypeError"),
    ({"core": "C{g}", "groups": {"g": 5}}, "JAttributeError"),
    ({"core": "C{g}", "groups": {"g": ["C", 5]}}, "JTypeError"),
    ({"core": "C{g}", "groups": {"h": "N", "g": ["C", {"anchor": [0], "order": 1}]}}, "JTypeError"),
    ({"core": "C{g}", "groups": {}}, "JIndexError"),
    ({"core": [], "groups": {"g": "C"}}, "JNoGraphs"),
    ({"core": [], "groups": {}}, "JNoGraphs"),
    ({"core": ["C{g}", "N"], "groups": {"g": {"graphs": [{"pattern": "CC", "anchor": [1]}, {"pattern": None}]}}}, "JNoPattern"),
    ({"core": "C{g}", "groups": {"a": "C", "g": {"graphs": ["C", {"pattern": "O", "x": 1}, []]}}}, "JTypeError"),
]
JERR_OF = {"TypeError": "JTypeError", "AttributeError": "JAttributeError", "IndexError": "JIndexError"}


COMMON_CORES = ["C{alkyl}", "{aryl}C{halogen}", "C{amine}", "{any}", "C{alkene}C", "{carbon_chain}1CC1", "N{ester}{H}",
                "C{H}", "{allyl}{H}O", "C({H})({halogen}){methyl}", "{3-amine}", "C{CC3}C", "C1{CC2}1", "{H}{H}",
                "{ether}1CC1", "C{x_1}{alkohol}", "c1ccccc1{nitrile}"]
DA_SUB_CORES = ["{dienophile}", "{ring_bridge}", "C1{ring_bridge}C1", "{intra_mol_bridge}", "C{electron_withdrawing_group}",
                "C{electron_donating_group}", "{s-trans_diene_bridge}", "C{fg_col2}", "{dienophile_bridge}1C<2,1>C1",
                "C1{intra_mol_bridge_invalid}C1", "{CC34}", "{s-trans_diene_mol}C"]
DA_SLICE = 600
_common = {}


def common_cfg():
    if "c" not in _common:
        from fgutils.proxy_collection.common import common_groups
        _common["c"] = pc.dump_proxy(Proxy("C", common_groups))
    return _common["c"]


def da_cfg(neg):
    k = "da%d" % neg
    if k not in _common:
        from fgutils.proxy_collection.diels_alder_proxy import DielsAlderProxy
        _common[k] = pc.dump_proxy(DielsAlderProxy(neg_sample=neg))
    return _common[k]


def generate(seed, tier, ncases=None):
    global CHUNK
    quick = tier == "quick"
    CHUNK = 25 if quick else 1
    n = ncases or (260 if quick else 1600)
    limit = 300 if quick else 1500
    if not quick and not ncases:
        # the full Diels-Alder enumeration, both modes, every graph, in slices (first, so that the long
        # evaluations start first)
        for neg in (False, True):
            total = pc.count_formula(da_cfg(neg))
            for i in range(0, total, DA_SLICE):
                yield {"kind": "da", "neg": neg, "slice": [i, min(DA_SLICE, total - i)], "total": total,
                       "cfg": da_cfg(neg), "how": "da", "cls": "DielsAlderProxy", "expected": total}
    for i in range(n):
        rng = lib.rng_for(seed, ID, i)
        if quick:
            lim = limit if rng.random() < 0.8 else 40
        else:
            r = rng.random()
            lim = limit if r < 0.12 else 300 if r < 0.7 else 40
        yield decorate(lib.rng_for(seed, ID + "deco", i), gen_config(rng, lim, big=not quick), lim)
    # construction from dicts that the entry points reject
    for conf, err in BAD_CONFS:
        yield {"kind": "dicterr", "cfg": {"core": [], "groups": [], "aam": True}, "how": "dict", "cls": "Proxy",
               "dict": {"conf": conf, "entry": "Proxy.from_dict"}, "expected_err": err}
    # build_group_tree against its model
    for i in range(60 if quick else 500):
        rng = lib.rng_for(seed, ID + "tree", i)
        for _ in range(40):
            c = gen_config(rng, 40)
            names = set(k for k, _, _ in c["cfg"]["groups"])
            foreign = any(l not in names for p in pc.all_patterns(c["cfg"]) for _, d in (ok_pattern(p) or nx.Graph()).nodes(data=True)
                          for l in d["labels"])
            # a label that names no group makes build_group_tree raise KeyError: keep a few of those
            if not any(k != nm for k, nm, _ in c["cfg"]["groups"]) and (not foreign or rng.random() < 0.012):
                break
        else:
            continue
        yield {"kind": "tree", "cfg": c["cfg"], "how": "dict", "cls": "Proxy", "expected": c["expected"],
               "tree": {"parser": rng.choice([None, None, [False, False], [True, False]]),
                        "single": len(c["cfg"]["groups"]) == 1 and rng.random() < 0.5}}
    # shipped collections with small cores
    for j, core in enumerate(COMMON_CORES):
        rng = lib.rng_for(seed, ID + "common", j)
        cfg = dict(common_cfg(), core=[[core, [0]]], aam=rng.random() < 0.5)
        yield {"kind": "common", "cfg": cfg, "how": rng.choice(["dict", "list", "plain"]), "cls": "Proxy",
               "expected": pc.count_formula(cfg)}
    for j, core in enumerate(DA_SUB_CORES):
        for neg in (False, True):
            cfg = dict(da_cfg(neg), core=[[core, [0]]], aam=True)
            cnt = pc.count_formula(cfg)
            if cnt <= limit:
                yield {"kind": "dasub", "cfg": cfg, "how": "dict", "cls": "Proxy", "expected": cnt, "neg": neg}


def json_sub(x, old, new):
    if isinstance(x, str):
        return new if x == old else x
    if isinstance(x, list):
        return [json_sub(y, old, new) for y in x]
    if isinstance(x, dict):
        return {k: json_sub(v, old, new) for k, v in x.items()}
    return x


def _mk(core, groups, aam=True, how="dict", cls="Proxy"):
    cfg = {"core": [[c, [0]] if isinstance(c, str) else c for c in core],
           "groups": [[k, k, [[g, [0]] if isinstance(g, str) else g for g in gl]] for k, gl in groups], "aam": aam}
    return {"kind": "corpus", "cfg": cfg, "how": how, "cls": cls, "expected": pc.count_formula(cfg)}


def corpus():
    # documentation example and test/test_proxy.py
    yield _mk(["C{g}"], [("g", ["C", "O", "N"])], how="single")
    yield _mk(["C{g0}", "O{g1}", "N{g2}"], [("g0", ["C"]), ("g1", ["C"]), ("g2", ["C"])], how="list")
    yield _mk(["{g}1CC1"], [("g", ["C"])], how="plain")
    yield _mk(["C{g}C"], [("g", [["OC", [1]]])])
    yield _mk(["C1{g}C1"], [("g", [["CCC", [0, 2]]])])
    yield _mk(["C{group1}"], [("group1", ["{group2}C"]), ("group2", ["C=O"])], how="list")
    yield _mk(["C{H}"], [("H", [""])], aam=False)
    yield _mk(["{g12}C{g3}"], [("g12", ["C", "O"]), ("g3", ["N"])])
    yield _mk(["C1CCC{g}1"], [("g", [["CC", [0, 1]], ["c1ccccc1", [0, 5]]])])
    yield _mk(["CC(<2,1>O)<0,1>{nucleophile}"], [("nucleophile", ["C#N"])], cls="ReactionProxy")
    yield _mk(["{diene}1<0,1>{dienophile}<0,1>1"], [("diene", [["C<2,1>C<1,2>C<2,1>C", [0, 3]]]),
                                                    ("dienophile", [["C<2,1>C", [0, 1]]])], cls="ReactionProxy")
    # parallel attachments: the MultiGraph has two bonds 0-1, nx.Graph(M) keeps the later one
    yield _mk(["C1{g}1"], [("g", ["C"])])
    yield _mk(["C1{g}=1"], [("g", ["C", ["CO", [0, 1]], ""])])
    yield _mk(["{a}1<0,1>{b}<0,1>1"], [("a", ["C"]), ("b", ["C", "N"])], cls="ReactionProxy")
    # empty pattern on an anchor and on a node with inherited bonds (substitution order matters)
    yield _mk(["N{a}"], [("a", ["{b}C"]), ("b", ["", "O"])])
    yield _mk(["N{a}(O){b}"], [("a", [["C{b}", [1, 0]], ""]), ("b", ["", "S"])])
    yield _mk(["{b}N{a}"], [("a", [["{b}{b}", [0, 1]]]), ("b", ["", "Cl"])])
    # non-group labels survive; a node naming a group and a non-group label
    yield _mk(["C{x_1}{g}", "{keep,g}"], [("g", ["C{Z9}", ""])])
    # errors: two configured groups on one node (after one good core), key/name mismatch, anchors
    yield _mk(["C{a}", "C{a,b}", "C{b}"], [("a", ["C", "N"]), ("b", ["O"])], how="list")
    yield _mk(["C{a}"], [("a", ["{b,b}"]), ("b", ["O"])])
    c = _mk(["C{a}"], [("a", ["C"])])
    c["cfg"]["groups"][0][1] = "other"
    yield c
    yield _mk(["C{a}C"], [("a", [["CC", [2]]])])
    yield _mk(["C{a}C"], [("a", [["CC", []]])])
    yield _mk(["{a}"], [("a", [["CC", []]])])
    yield _mk(["C{a}"], [("a", [["CC", [-1]]])])
    # two distinct core ProxyGraph objects with the same pattern and anchor count separately (sum over core graphs)
    yield _mk(["C{g}", "C{g}"], [("g", ["C", "O"])], how="plain")
    yield _mk(["C{g}", "N", "C{g}"], [("g", ["C", "O", ""])], how="dict")
    # iteration histories on one object: k items, then list(proxy), then StopIteration
    for drv in (["next", 1], ["get_next", 2], ["break", 1], ["break", 3], ["next", 4], ["alt", 0]):
        c = _mk(["C{g}N", "O{g}"], [("g", ["C", "O", "S"])], how="list")
        c["drive"] = drv
        yield c
    c = _mk(["C{g}{h}"], [("g", ["C", "O"]), ("h", ["N", "{g}"])])
    c["drive"] = ["next", 2]
    yield c
    # re-configured groups: enumerate, assign group.graphs (every value form) / proxy.groups, enumerate again
    for via, form, newg in (("recreate", "liststr", ["N", "S", "CC"]), ("recreate", "str", ["Cl"]),
                            ("recreate", "pg", [["OC", [1]]]), ("newcore", "listpg", [["CO", [0, 1]], ["", [0]]]),
                            ("setter_dict", "liststr", ["N"]), ("setter_list", "listpg", [["C=O", [0]], ["S", [0]]]),
                            ("setter_single", "str", ["Br"])):
        newg = [[g, [0]] if isinstance(g, str) else g for g in newg]
        c = _mk(["C{g}N", "O{g}"] if via != "newcore" else ["{g}1CC1"], [("g", newg)], how="dict")
        c["reconf"] = {"old_core": [["C{g}N", [0]], ["O{g}", [0]]], "old_groups": [["g", "g", [["C", [0]], ["O", [0]]]]],
                       "changed": ["g"], "forms": {"g": form}, "via": via}
        yield c
    c = _mk(["C{a}{b}"], [("a", ["N{b}", "O"]), ("b", ["S", ["CC", [1]]])])
    c["reconf"] = {"old_core": [["C{a}{b}", [0]]], "old_groups": [["a", "a", [["C{b}", [0]]]], ["b", "b", [["F", [0]], ["Cl", [0]], ["Br", [0]]]]],
                   "changed": ["a", "b"], "forms": {"a": "liststr", "b": "listpg"}, "via": "recreate"}
    yield c
    # test/test_proxy.py: test_create_proxy_tree, test_proxy_tree_with_two_groups; the docstring counter-examples
    for core, gl in ((["{g1,g2,g3}"], [("g1", ["O"]), ("g2", ["C{g1}"]), ("g3", ["N"])]),
                     (["{g1,g2}{g1,g3}"], [("g1", ["O"]), ("g2", ["C{g1}"]), ("g3", ["N"])]),
                     (["C{g}"], [("g", ["C", "O", "N"])]), (["{g}{g}"], [("g", ["C", "O"])]),
                     (["{g}{x_1}"], [("g", ["C"])])):
        c = _mk(core, gl)
        c["kind"] = "tree"
        c["tree"] = {"parser": None, "single": False}
        yield c
    # test/test_proxy.py: test_init configurations (ReactionProxy.from_dict)
    for conf in ({"core": "A", "groups": {"test": {"graphs": [{"pattern": "BB", "anchor": [0], "order": 7}]}}},
                 {"core": "A", "groups": {"test": {"graphs": {"pattern": "BB", "anchor": [0]}}}},
                 {"core": "A", "groups": {"test": {"graphs": ["BB"]}}}, {"core": "A", "groups": {"test": {"graphs": "BB"}}},
                 {"core": ["A"], "groups": {"test": "BB"}}, {"core": "A", "groups": {"test": ["BB"]}}):
        conf = dict(conf, core="C{test}" if conf["core"] == "A" else ["C{test}"])
        conf["groups"] = {"test": json_sub(conf["groups"]["test"], "BB", "NO")}
        c = _mk(["C{test}"], [("test", ["NO"])])
        c["dict"] = {"conf": conf, "entry": "ReactionProxy.from_dict"}
        yield c
    # custom non-restricting samplers in every accepted form, both signatures within one configuration
    for forms in ({"a": "func", "b": "func_kw"}, {"a": "func_kw", "b": "func"}, {"a": "lambda_kw", "b": "lambda", "c": "obj"},
                  {"a": "obj_kw", "b": "graphsampler", "c": "single"}, {"c": "single_kw", "a": "lambda"},
                  {"b": "obj", "a": "obj_kw", "c": "func_kw"}):
        c = _mk(["C{a}{b}", "N{b}{c}"], [("a", ["C", "O"]), ("b", ["N", "{c}S", ""]), ("c", [["CC", [1]]])], how="dict")
        c["samplers"] = forms
        yield c
    # explicit parsers: init_aam / use_multigraph, with and without enable_aam
    for ps in PARSERS:
        for aam, cls in ((True, "Proxy"), (False, "Proxy"), (False, "MolProxy")):
            c = _mk(["C{g}N{h}", "O{h}"], [("g", ["CC", "", "C=O"]), ("h", [["C{g}", [1, 0]], "S"])], aam=aam, cls=cls)
            c["parser"] = ps
            yield c
    # nothing to expand, empty core pattern
    yield _mk(["CCO"], [("a", ["C"])])
    yield _mk([""], [("a", ["C"])])


_da_cache = {}


def gens_copy(g):
    return cm.copy_exact(g)


RUNAWAY_CAP = 60000      # the largest shipped enumeration (Diels-Alder, negative mode) has 12875 results


def _iterate(p, base_next):
    graphs, status = [], "done"
    try:
        while True:
            try:
                x = base_next(p)
            except StopIteration:
                break
            if x is None or len(graphs) >= RUNAWAY_CAP:
                # no graph where the iteration should have ended or yielded one / an iteration that never ends: an
                # outcome the model has no counterpart for (nothing agrees); nothing is accumulated beyond this point
                return [], ("NotAGraph" if x is None else "Runaway"), True
            graphs.append(x)
    except RuntimeError as e:
        status = "RuntimeError"
    except ValueError as e:
        status = "ValueError"
    except IndexError as e:
        status = "IndexError"
    except KeyError as e:
        status = "KeyError"
    except TypeError as e:
        status = "TypeError"
    # "and then stops": the iterator stays exhausted
    stays = True
    for _ in range(2):
        try:
            base_next(p)
            stays = False
        except StopIteration:
            pass
    return graphs, status, stays


EXC = ((RuntimeError, "RuntimeError"), (ValueError, "ValueError"), (IndexError, "IndexError"), (KeyError, "KeyError"),
       (TypeError, "TypeError"))


def _status_of(e):
    for cls, name in EXC:
        if isinstance(e, cls):
            return name
    raise e


def _stays(p):
    ok = True
    for _ in range(2):
        try:
            next(p)
            ok = False
        except StopIteration:
            pass
    return ok


def _drive(p, drv):
    """k items through next() / get_next() / a for-loop left with break, then list(p) on the same object; what was
    obtained before and after, concatenated, must be the whole enumeration; then next(p) must raise StopIteration."""
    kind, k = drv
    items, status = [], "done"
    try:
        try:
            if kind == "next":
                for _ in range(k):
                    items.append(next(p))
            elif kind == "get_next":
                for _ in range(k):
                    items.append(p.get_next())
            elif kind == "break" and k > 0:
                for x in p:
                    items.append(x)
                    if len(items) >= k:
                        break
        except StopIteration:
            pass
        for x in p:            # like list(p), but what was yielded before an exception is kept
            if x is None or len(items) >= RUNAWAY_CAP:
                return [], ("NotAGraph" if x is None else "Runaway"), True
            items.append(x)
    except (RuntimeError, ValueError, IndexError, KeyError, TypeError) as e:
        status = _status_of(e)
    return items, status, _stays(p)


def _alternate(cfg, cls, parser):
    """Two proxy objects over the SAME ProxyGroup objects and the SAME core ProxyGraph objects (each with its own
    unique core group), driven alternately: each must yield the whole enumeration."""
    groups = {key: ProxyGroup(name, [ProxyGraph(p, anchor=list(a)) for p, a in graphs]) for key, name, graphs in cfg["groups"]}
    cores = [ProxyGraph(p, anchor=list(a)) for p, a in cfg["core"]]

    def mk():
        core = ProxyGroup("__core__", cores, unique=True)
        if cls is MolProxy:
            return cls(core, groups, parser=pc.make_parser(parser))
        return cls(core, groups, enable_aam=cfg["aam"], parser=pc.make_parser(parser))

    ps = [mk(), mk()]
    outs, status, live = [[], []], ["done", "done"], [True, True]
    while any(live):
        for i in (0, 1):
            if live[i]:
                try:
                    x = next(ps[i])
                    if x is None or len(outs[i]) >= RUNAWAY_CAP:
                        outs[i], status[i], live[i] = [], ("NotAGraph" if x is None else "Runaway"), False
                    else:
                        outs[i].append(x)
                except StopIteration:
                    live[i] = False
                except (RuntimeError, ValueError, IndexError, KeyError) as e:
                    status[i] = _status_of(e)
                    live[i] = False
    msgs = []
    if status[0] != status[1] or len(outs[0]) != len(outs[1]) or not all(cm.identical(a, b) for a, b in zip(*outs)):
        msgs.append("two proxies over the same group and ProxyGraph objects, driven alternately, yield different enumerations "
                    "(%d %s / %d %s)" % (len(outs[0]), status[0], len(outs[1]), status[1]))
    return ps[0], outs[0], status[0], _stays(ps[0]) and _stays(ps[1]), msgs


def _graphs_value(form, graphs):
    if form == "str":
        return graphs[0][0]
    if form == "liststr":
        return [p for p, _ in graphs]
    if form == "pg":
        return ProxyGraph(graphs[0][0], anchor=list(graphs[0][1]))
    return [ProxyGraph(p, anchor=list(a)) for p, a in graphs]


def _reconfigured(c, cls):
    """Enumerate a proxy over the OLD configuration, re-configure the same ProxyGroup objects through the public
    setters, and return a fresh proxy over them (not yet iterated) for the NEW configuration."""
    rc, cfg = c["reconf"], eff_cfg(c)
    gobj = {key: ProxyGroup(name, [ProxyGraph(p, anchor=list(a)) for p, a in graphs]) for key, name, graphs in rc["old_groups"]}

    def mk(core, groups):
        cg = ProxyGroup("__core__", [ProxyGraph(p, anchor=list(a)) for p, a in core], unique=True)
        if cls is MolProxy:
            return cls(cg, groups)
        return cls(cg, groups, enable_aam=cfg["aam"])

    p1 = mk(rc["old_core"], gobj)
    try:
        _iterate(p1, Proxy.get_next)          # uses every reachable group at least once
    except Exception:                          # noqa  (the old configuration may be one of the error configurations)
        pass
    for key, _, graphs in cfg["groups"]:
        if key in rc["changed"]:
            gobj[key].graphs = _graphs_value(rc["forms"][key], graphs)
    via = rc["via"]
    if via in ("recreate", "newcore"):
        return mk(cfg["core"], gobj)
    p2 = mk(cfg["core"], ProxyGroup("zz_unused_placeholder", "C"))
    if via == "setter_single":
        p2.groups = list(gobj.values())[0]
    elif via == "setter_list":
        p2.groups = list(gobj.values())
    else:
        p2.groups = gobj
    return p2


def _make_sampler(form, calls, key):
    """A non-restricting sampler of the given form; every call is recorded as (key, declares group_name, value received)."""
    if form == "func":
        def plain_sampler(graphs):
            calls.append((key, False, None))
            return graphs
        return plain_sampler
    if form == "func_kw":
        def named_sampler(graphs, group_name=None):
            calls.append((key, True, group_name))
            return graphs
        return named_sampler
    if form == "lambda":
        return lambda graphs: (calls.append((key, False, None)), graphs)[1]
    if form == "lambda_kw":
        return lambda graphs, group_name=None: (calls.append((key, True, group_name)), graphs)[1]
    if form == "obj":
        class PlainSampler:
            def __call__(self, graphs):
                calls.append((key, False, None))
                return list(graphs)
        return PlainSampler()
    if form == "obj_kw":
        class NamedSampler:
            def __call__(self, graphs, group_name=None):
                calls.append((key, True, group_name))
                return list(graphs)
        return NamedSampler()
    if form == "graphsampler":
        return GraphSampler(unique=False)
    if form == "single":
        def single_sampler(graphs):
            calls.append((key, False, None))
            return graphs[0]          # one ProxyGraph instead of a list: sample_graphs wraps it
        return single_sampler
    if form == "single_kw":
        def single_named_sampler(graphs, group_name=None):
            calls.append((key, True, group_name))
            return graphs[0]
        return single_named_sampler
    raise ValueError(form)


def _with_samplers(c, cls, calls):
    cfg = eff_cfg(c)
    groups = {}
    for key, name, graphs in cfg["groups"]:
        pgs = [ProxyGraph(p, anchor=list(a)) for p, a in graphs]
        if key in c["samplers"]:
            groups[key] = ProxyGroup(name, pgs, sampler=_make_sampler(c["samplers"][key], calls, key))
        else:
            groups[key] = ProxyGroup(name, pgs)
    core = ProxyGroup("__core__", [ProxyGraph(p, anchor=list(a)) for p, a in cfg["core"]], unique=True)
    gl = list(groups.values()) if c["how"] in ("list", "plain") else groups
    if cls is MolProxy:
        return cls(core, gl, parser=pc.make_parser(c.get("parser")))
    return cls(core, gl, enable_aam=cfg["aam"], parser=pc.make_parser(c.get("parser")))


def repeat_ok(c):
    # the Diels-Alder enumerations are cached across the slice cases (editing a result in place would edit the cache)
    return c["kind"] != "da"


def _from_dict(c, cls):
    """the proxy built through the JSON-style entry points (the dict is copied: from_dict rewrites it)"""
    d = c["dict"]
    conf = copy.deepcopy(d["conf"])
    entry = d["entry"]
    if entry.endswith(".from_dict"):
        return {"Proxy": Proxy, "ReactionProxy": ReactionProxy, "MolProxy": MolProxy}[entry.split(".")[0]].from_dict(conf)
    if entry == "from_dict_single":
        groups = {}
        for k, v in conf["groups"].items():
            if isinstance(v, str):
                v = [v]
            if isinstance(v, list):
                v = {"graphs": v}
            groups[k] = ProxyGroup.from_dict_single(k, v)
    else:
        groups = ProxyGroup.from_dict(conf["groups"])
    if cls is MolProxy:
        return cls(conf["core"], groups)
    return cls(conf["core"], groups, enable_aam=conf.get("enable_aam", True))


def _run_tree(c):
    cfg, t = c["cfg"], c["tree"]
    groups = [ProxyGroup(name, [ProxyGraph(p, anchor=list(a)) for p, a in graphs]) for _, name, graphs in cfg["groups"]]
    core = ProxyGroup("core", [ProxyGraph(p, anchor=list(a)) for p, a in cfg["core"]])
    arg = groups[0] if t.get("single") and len(groups) == 1 else groups
    try:
        if t.get("parser") is None:
            tree = build_group_tree(core, arg)
        else:
            tree = build_group_tree(core, arg, parser=pc.make_parser(t["parser"]))
    except KeyError as e:
        return {"status": "KeyError", "key": e.args[0], "graphs": [], "n": 0, "stays": True, "msgs": []}
    adj = [[n, list(tree._adj[n])] for n in tree._adj]
    msgs = []
    if list(tree._node) != [n for n, _ in adj] or any(tree._node[n] for n in tree._node):
        msgs.append("the tree's node dict is not what its adjacency dict says")
    if tree.number_of_edges() != tree.number_of_nodes() - 1 or not nx.is_connected(tree):
        msgs.append("build_group_tree did not return a tree")
    leaves = sum(1 for i, (n, a) in enumerate(adj) if len(a) == (0 if i == 0 else 1))
    return {"status": "done", "adj": adj, "leaves": leaves, "graphs": [], "n": len(adj), "stays": True, "msgs": msgs}


def run_impl(c):
    if c["kind"] == "tree":
        return _run_tree(c)
    if c["kind"] == "dicterr":
        try:
            _from_dict(c, Proxy)
            return {"graphs": [], "status": "ctor:none", "stays": True, "n": 0, "msgs": []}
        except Exception as e:       # noqa: the exception class is the result
            name = type(e).__name__
            if name == "ValueError":
                name = "JNoGraphs" if "has no graphs" in str(e) else "JNoPattern" if "Missing config" in str(e) else name
            return {"graphs": [], "status": "ctor:" + JERR_OF.get(name, name), "stays": True, "n": 0, "msgs": []}
    if c["kind"] == "da":
        key = c["neg"]
        if key not in _da_cache:
            from fgutils.proxy_collection.diels_alder_proxy import DielsAlderProxy
            p = DielsAlderProxy(neg_sample=c["neg"])
            _da_cache[key] = _iterate(p, Proxy.get_next)
        graphs, status, stays = _da_cache[key]
        i, k = c["slice"]
        return {"graphs": graphs[i:i + k], "status": status, "stays": stays, "n": len(graphs), "msgs": []}
    cls = {"Proxy": Proxy, "MolProxy": MolProxy, "ReactionProxy": ReactionProxy}[c["cls"]]
    cfg = eff_cfg(c)
    drv = c.get("drive")
    msgs = []
    if drv and drv[0] == "alt":
        p, graphs, status, stays, msgs = _alternate(cfg, cls, c.get("parser"))
    elif c.get("reconf"):
        p = _reconfigured(c, cls)
    elif c.get("samplers"):
        calls = []
        p = _with_samplers(c, cls, calls)
    elif c.get("dict"):
        p = _from_dict(c, cls)
        if c["dict"]["entry"].endswith(".from_dict") and type(p) is not Proxy:
            msgs.append("%s returned a %s" % (c["dict"]["entry"], type(p).__name__))
    else:
        p = pc.build_proxy(cfg, cls=cls, how=c["how"], parser=c.get("parser"))
    try:
        dumped = pc.dump_proxy(p, any_parser=c.get("parser") is not None, custom_samplers=set(c.get("samplers") or ()))
        if dumped != cfg:
            msgs.append("the proxy object does not hold the configuration it was built from")
    except pc.Unexpected as e:
        if not (drv and drv[0] == "alt"):     # after the alternate run the core sampler has a history
            msgs.append("proxy object outside the modelled domain: %s" % e)
    if drv and drv[0] == "alt":
        pass
    elif drv:
        graphs, status, stays = _drive(p, drv)
    else:
        graphs, status, stays = _iterate(p, Proxy.get_next)
    if c.get("samplers"):
        names = {key: name for key, name, _ in cfg["groups"]}
        wrong = [x for x in calls if x[1] and x[2] != names[x[0]]]
        if wrong:
            msgs.append("a sampler that declares group_name was called with group_name=%r for group %r (%d such calls)"
                        % (wrong[0][2], names[wrong[0][0]], len(wrong)))
    return {"graphs": graphs, "status": status, "stays": stays, "n": len(graphs), "msgs": msgs}


def parser_mg(c):
    return True if c.get("parser") is None else bool(c["parser"][0])


def eff_cfg(c):
    cfg = c["cfg"]
    if c["cls"] == "MolProxy":
        cfg = dict(cfg, aam=False)
    return cfg


STATUS = {"done": "GDone", "RuntimeError": "(GFail GMulti)", "ValueError": "(GFail GName)",
          "IndexError": "(GFail (GRepl EIndex))", "KeyError": "(GFail GKey)"}


def graphs_term(gl):
    for g in gl:
        if g.is_multigraph():
            raise ct.Unrepresentable("Proxy yielded a MultiGraph")
    return "(%s : list graph)" % ct.lst([pc.cgraph(g) for g in gl])


def coq_case(c, out):
    if c["kind"] == "da":
        name = "DA_neg" if c["neg"] else "DA_pos"
        i, k = c["slice"]
        defs = {"out": graphs_term(out["graphs"])}
        agree = "gen_slice_eqb (proxy_all %s) %s %s %s $out" % (name, ct.nat(i), ct.nat(k), ct.nat(out["n"]))
        if out["status"] != "done":
            agree = "false"
        spec = "C14_slice_full_okb %s $out" % name
        # no shipped Diels-Alder expansion has parallel bonds: theorem C14_DA_no_parallel
        return {"defs": defs, "checks": {"agree": agree, "spec": spec, "bonds": "true"}, "diag": []}
    if c["kind"] == "tree":
        defs = {"cfg": pc.cfg_term(c["cfg"])}
        if out["status"] == "done":
            exp = "(Some %s)" % ct.lst(["(%s, %s)" % (ct.s(n), ct.lst([ct.s(x) for x in a])) for n, a in out["adj"]])
            key = '""'
        else:
            exp, key = "None", ct.s(out["key"])
        agree = "tree_agree (group_tree \"core\" $cfg) %s %s" % (exp, key)
        return {"defs": defs, "checks": {"agree": agree, "spec": "true", "bonds": "true"},
                "diag": ["group_tree \"core\" $cfg"]}
    if c["kind"] == "dicterr":
        conf = c["dict"]["conf"]
        defs = {"tbl": pc.table_term(pc.conf_patterns(conf)), "jgroups": pc.jgroups_term(conf["groups"])}
        aam = "(Some %s)" % ct.b(conf["enable_aam"]) if "enable_aam" in conf else "None"
        model = "proxy_from_dict string (jparse $tbl) %s $jgroups %s" % (pc.jcore_term(conf["core"]), aam)
        st = out["status"].split(":", 1)[1]
        agree = "dict_err_agree (%s) %s" % (model, st) if st.startswith("J") else "false"
        return {"defs": defs, "checks": {"agree": agree, "spec": "true", "bonds": "true"}, "diag": []}
    cfg = eff_cfg(c)
    if c["kind"] in ("common", "dasub"):
        # the shipped group dicts are the definitions of Gen/ProxyDA.v (regenerated from the same tree)
        gname = "Common_groups" if c["kind"] == "common" else ("DA_neg_groups" if c["neg"] else "DA_pos_groups")
        ref = common_cfg() if c["kind"] == "common" else da_cfg(c["neg"])
        if cfg["groups"] != ref["groups"]:
            raise RuntimeError("case does not use the shipped groups")
        cfgt = "(mkCfg %s %s %s)" % (ct.lst([pc.pgraph_term(p, a) for p, a in cfg["core"]]), gname, ct.b(cfg["aam"]))
    else:
        cfgt = pc.cfg_term(cfg, mg=parser_mg(c))
    defs = {"cfg": cfgt, "out": graphs_term(out["graphs"])}
    if out["status"] not in STATUS:
        # an exception the model has no counterpart for (e.g. TypeError out of a sampler call): nothing agrees
        return {"defs": defs, "checks": {"agree": "false", "spec": "false", "bonds": "true"}, "diag": []}
    agree = "gen_eqb (proxy_all $cfg) ($out, %s)" % STATUS[out["status"]]
    okb = "C14_full_okb"
    ps = c.get("parser")
    if ps is not None:
        # Model.ProxyGen covers the MultiGraph path with the final aam overwrite: an explicit multigraph parser is
        # modelled unless it writes map numbers that enable_aam=False leaves in place; a simple-graph parser is not
        # modelled (no nx.Graph collapse, Graph.copy/compose/relabel): there only the checkers run on the outputs,
        # with the configuration read by that parser
        if not ps[0] or (ps[1] and not cfg["aam"]):
            agree = "true"
        if ps[1] and not cfg["aam"]:
            okb = "C14_full_noaam_okb"
    spec = "%s $cfg $out" % okb if out["status"] == "done" else "C14_err_okb $cfg"
    if c.get("dict"):
        # the model of the construction path: normalising the dict gives the configuration the live object holds
        # (c["cfg"], checked against dump_proxy) and that configuration enumerates what the implementation yielded
        conf = c["dict"]["conf"]
        defs["tbl"] = pc.table_term(pc.conf_patterns(conf))
        defs["jgroups"] = pc.jgroups_term(conf["groups"])
        aam = "(Some %s)" % ct.b(conf["enable_aam"]) if "enable_aam" in conf and c["cls"] != "MolProxy" else \
            ("(Some false)" if c["cls"] == "MolProxy" else "None")
        agree = "dict_agree (proxy_from_dict string (jparse $tbl) %s $jgroups %s) $cfg ($out, %s)" % (
            pc.jcore_term(conf["core"]), aam, STATUS[out["status"]])
    # bond conservation as the property states it fails exactly when some expansion has parallel bonds:
    # nx.Graph(multigraph) keeps only one of them (C14_collapse_refuted; known finding KF-C14-collapse)
    bonds = "negb (C14_parallel_leaf $cfg)" if out["status"] == "done" else "true"
    return {"defs": defs, "checks": {"agree": agree, "spec": spec, "bonds": bonds},
            "diag": ["(List.length (fst (proxy_all $cfg)), snd (proxy_all $cfg), count_cfg $cfg)"]}


def describe(c):
    d = {"kind": c["kind"], "cfg": c["cfg"] if c["kind"] != "da" else "DielsAlderProxy(neg_sample=%s)" % c["neg"],
         "how": c["how"], "cls": c["cls"], "expected": c.get("expected"), "neg": c.get("neg"),
         "drive": c.get("drive"), "parser": c.get("parser"), "reconf": c.get("reconf"),
         "dict": c.get("dict"), "tree": c.get("tree"), "expected_err": c.get("expected_err"),
         "samplers": c.get("samplers")}
    if c["kind"] == "da":
        d["neg"] = c["neg"]
        d["slice"] = c["slice"]
        d["total"] = c["total"]
    return d


def from_json(d):
    if d["kind"] == "da":
        return {"kind": "da", "neg": d["neg"], "slice": d["slice"], "total": d["total"], "cfg": da_cfg(d["neg"]),
                "how": "da", "cls": "DielsAlderProxy", "expected": d["total"]}
    cfg = d["cfg"]
    cfg = {"core": [[p, list(a)] for p, a in cfg["core"]],
           "groups": [[k, n, [[p, list(a)] for p, a in gl]] for k, n, gl in cfg["groups"]], "aam": cfg["aam"]}
    return {"kind": d["kind"], "cfg": cfg, "how": d["how"], "cls": d["cls"], "expected": d.get("expected"),
            "neg": d.get("neg"), "drive": d.get("drive"), "parser": d.get("parser"), "reconf": d.get("reconf"),
            "dict": d.get("dict"), "tree": d.get("tree"), "expected_err": d.get("expected_err"),
            "samplers": d.get("samplers")}


def describe_out(out):
    if "adj" in out or "key" in out:
        return {"status": out["status"], "tree": out.get("adj"), "key": out.get("key"), "leaves": out.get("leaves")}
    return {"status": out["status"], "n": out["n"], "stays_exhausted": out["stays"],
            "graphs": [ct.graph_py(g) for g in out["graphs"][:4]]}


def key(c):
    if c["kind"] == "da":
        return ("da", c["neg"], tuple(c["slice"]))
    cfg = eff_cfg(c)
    return (tuple((p, tuple(a)) for p, a in cfg["core"]),
            tuple((k, n, tuple((p, tuple(a)) for p, a in gl)) for k, n, gl in cfg["groups"]), cfg["aam"],
            tuple(c.get("drive") or ()), tuple(c.get("parser") or ()),
            repr(c["reconf"]) if c.get("reconf") else None, repr(c["dict"]) if c.get("dict") else None,
            repr(c["tree"]) if c.get("tree") else None, c["kind"] in ("tree", "dicterr"),
            repr(sorted(c["samplers"].items())) if c.get("samplers") else None)


def _nested(cfg):
    names = set(k for k, _, _ in cfg["groups"])
    for _, _, gl in cfg["groups"]:
        for p, _ in gl:
            g = ok_pattern(p)
            if g is not None and any(l in names for _, d in g.nodes(data=True) for l in d["labels"]):
                return True
    return False


def nontrivial(c, out):
    if c["kind"] == "tree":
        return out["n"] >= 3
    if c["kind"] == "dicterr":
        return True
    return out["n"] >= 2 and (c["kind"] == "da" or _nested(c["cfg"]))


def _has_parallel_leaf(c):
    """Does some fully expanded MultiGraph (before nx.Graph) carry parallel bonds?"""
    cfg = eff_cfg(c)
    groups = {key: ProxyGroup(name, [ProxyGraph(p, anchor=list(a)) for p, a in graphs]) for key, name, graphs in cfg["groups"]}
    try:
        for p, a in cfg["core"]:
            for g in build_graphs(ProxyGraph(p, anchor=list(a)), groups, Parser(use_multigraph=True)):
                if any(len(kd) > 1 for u in g._adj for kd in g._adj[u].values()):
                    return True
    except Exception:
        return False
    return False


def classes(c, out):
    yield "kind=" + c["kind"]
    yield "status=" + out["status"]
    if c["kind"] == "dicterr":
        return
    if c["kind"] == "tree":
        # observation (documentation vs code): "the number of leave nodes is the number of possible samples"
        if out["status"] == "done" and c.get("expected") is not None:
            yield "tree_leaves_vs_samples=" + ("equal" if out["leaves"] == c["expected"] else
                                               "fewer_leaves" if out["leaves"] < c["expected"] else "more_leaves")
        return
    n = out["n"]
    yield "results=" + ("0" if n == 0 else "1" if n == 1 else "2-9" if n < 10 else "10-99" if n < 100 else "100-999" if n < 1000 else "1000+")
    if c["kind"] == "da":
        return
    cfg = eff_cfg(c)
    yield "api=%s/%s" % (c["cls"], c["how"])
    if c.get("drive"):
        yield "history=%s" % c["drive"][0]
        if 0 < c["drive"][1] < n:
            yield "history_splits_enumeration=yes"
    if c.get("parser") is not None:
        yield "parser=use_multigraph:%s,init_aam:%s" % tuple(c["parser"])
    if c.get("samplers"):
        for f in sorted(set(c["samplers"].values())):
            yield "custom_sampler=%s" % f
        kinds = set(f.endswith("_kw") for f in c["samplers"].values() if f != "graphsampler")
        if len(kinds) == 2:
            yield "custom_samplers_both_signatures=yes"
    if c.get("dict"):
        yield "built_from_dict=%s" % c["dict"]["entry"]
        for v in c["dict"]["conf"]["groups"].values():
            yield "dict_group_form=" + ("str" if isinstance(v, str) else "list" if isinstance(v, list) else
                                        "dict/" + type(v.get("graphs")).__name__)
    if c.get("reconf"):
        yield "reconfigured=%s" % c["reconf"]["via"]
        for f in sorted(set(c["reconf"]["forms"].values())):
            yield "graphs_setter_value=%s" % f
    if len(set((p, tuple(a)) for p, a in cfg["core"])) < len(cfg["core"]):
        yield "equal_core_graphs=yes"
    yield "aam=%s" % cfg["aam"]
    yield "cores=%d" % len(cfg["core"])
    pats = pc.all_patterns(cfg)
    if "" in pats:
        yield "empty_pattern=yes"
    if any("<" in p for p in pats):
        yield "its_bonds=yes"
    if _nested(cfg):
        yield "nested_groups=yes"
    if any(len(a) > 1 for _, _, gl in cfg["groups"] for _, a in gl):
        yield "multi_anchor=yes"
    if any(any(l in NONGROUP for l in d["labels"]) for p in pats for _, d in (ok_pattern(p) or nx.Graph()).nodes(data=True)):
        yield "nongroup_label=yes"
    if out["status"] == "done" and c["kind"] in ("gen", "corpus") and n <= 400 and parser_mg(c) and _has_parallel_leaf(c):
        yield "parallel_bonds_collapsed=yes"
    if out["status"] == "done" and c.get("expected") is not None:
        yield "count_formula=" + ("equal" if c["expected"] == n else "DIFFERENT")


def py_invariants(c, out):
    msgs = list(out["msgs"])
    if c["kind"] == "dicterr":
        if out["status"] != "ctor:" + c["expected_err"]:
            msgs.append("construction from the dict ended with %s, expected %s" % (out["status"], c["expected_err"]))
        return msgs
    if c["kind"] == "tree":
        return msgs
    msgs += pc.shift_messages(c["cfg"], parser_mg(c))
    if not out["stays"]:
        msgs.append("the exhausted proxy yielded again")
    if c["kind"] == "da" and out["n"] != c["total"]:
        msgs.append("Diels-Alder proxy (neg=%s) yields %d samples, count formula says %d" % (c["neg"], out["n"], c["total"]))
    return msgs


def known_class(c, out, which=None):
    # attributed only when the parallel-bond clause is the ONLY failing check (so model = implementation and every
    # other clause of the specification holds on this input)
    if which is not None and list(which) == ["bonds"]:
        return "parallel-bonds-collapse"
    return None


def known_witness_fails(entry):
    """Proxy("C1{g}1", ProxyGroup("g", "C")): the core writes two bonds between the two atoms, the result has one."""
    from fgutils.proxy import Proxy, ProxyGroup
    gs = list(Proxy("C1{g}1", ProxyGroup("g", "C"), enable_aam=False))
    return len(gs) == 1 and gs[0].number_of_edges() < 2
