"""C05 — functional-group query results are justified, most specific and covering.
Correspondence: Model.Query.query ~ fgutils.query.FGQuery(config=..., require_implicit_hydrogen=..).get(graph)
(the returned list exactly: names, atom lists, order; exception class)."""
import lib
import gens
import coqterm as ct
from props import _fg_common as fc

ID = "C05"
PROPS = "Props/C05.v"
USES_GEN = ["fgdefault", "tables"]
MODEL_FILES = fc.MODEL_FILES + ["Spec/FGSpec.v", "Spec/QuerySpec.v", "Proofs/FGDefaultTree.v", "Proofs/DescendantWitness.v"]
IMPORTS = fc.IMPORTS[:-1] + " Spec.FGSpec Spec.QuerySpec Proofs.FGDefaultTree Proofs.DescendantWitness."
CHECKS = ["agree", "spec", "descendant", "descendant_unattributed"]
KF_CLASS = "partial-group-atoms-descendant"
CHUNK = 20
CORRESPONDENCE = ("Model.Query.{is_functional_group,find_best_node_rec,worklist,get_functional_groups_with,get,query} with "
                  "Model.FGTree (tree), Model.Hydrogens.add_implicit_hydrogens, Model.Match.map_subgraph ~ "
                  "fgutils.query.{is_functional_group,FGQuery.__find_best_node_rec,FGQuery.__get_functional_groups,FGQuery.get} "
                  "(list of (name, sorted atom ids) exactly, including order; exception class)")
RULE = ("random molecules glued from 73 FG-rich fragments (carbonyls, esters, amides, acid chlorides, ethers incl. oxetane / dioxane / "
        "crown-ether-like rings, thio / sulfinyl / sulfonyl, nitriles, peroxides, acetals, anhydrides, carbamates, aromatic rings "
        "with lower-case atoms), 1-14 heavy atoms, single/double attachment bonds, occasional extra ring bond or disconnected part, "
        "hydrogens written explicitly on none / some / all atoms; node ids contiguous / offset / sparse / negative / shuffled "
        "insertion order (the D16 situation); configuration = the default list (70%) or a generated list of 3-8 patterns with random "
        "group_atoms and anti-patterns (25%), or (5%) one of four small configurations inside the input class of the known finding KF-C05-descendant; "
        "plus ring PATTERNS of 3-5 members (17 patterns, with and without wildcards, chain prefixes as less specific groups) against the same ring and "
        "every copy with one ring bond doubled, in different writings; plus molecules whose largest node id is exactly 0 / -1 / 1 (single atoms with id 0, "
        "ids ending at 0) with groups that list a pattern hydrogen; plus a family of small hetero rings (3-6 members, O/N/S in the ring, substituents on ring atoms), each in 3 different SMILES writings / adjacency "
        "orders; small molecules (1-4 heavy atoms) against user configurations whose anti-pattern or user-given depth is larger (or smaller) than the pattern; "
        "with user configurations of chain patterns of depth 1-4 from a hetero anchor (a deep pattern and its prefixes as less specific groups); "
        "about 12% of the user configurations give two groups the same name (the checker resolves each returned entry independently against all groups carrying its name); "
        "require_implicit_hydrogen both ways. Checks: 'spec' = every clause with 'no CHILD witnessed' (must hold for every configuration), 'descendant' = the full "
        "statement 'no DESCENDANT witnessed' (run on every case, generated configurations included), 'descendant_unattributed' = a descendant failure "
        "that the kernel cannot attribute to KF-C05-descendant (configuration outside kf_descendant_classb, or model != implementation): always a violation. non-trivial = at least one group reported; "
        "distinct = distinct (molecule incl. ids and dict orders, configuration, flag)")
TRUSTED = ["the parser: pattern / anti-pattern graphs are produced by the real fgutils parser and handed to the model as data",
           "Model/Match.v + Model/Permute.v (sub-graph matcher; C03/C04/C08) and Model/Hydrogens.v + Gen/Tables.v (C12) are other properties' models; "
           "the theorems of C05 take the matcher facts C03 / C04 and the hydrogen fact C12_fresh as hypotheses of a Section",
           "copy.deepcopy(graph) preserves node and adjacency dict order (modelled as the identity); non-mutation of the caller's graph is checked at run time"]
ASSUMPTIONS = ["the molecule is a networkx.Graph built through the networkx API with int node ids, every node has a 'symbol' (ASCII string), every edge a numeric 'bond' "
               "(a tuple/list bond makes add_implicit_hydrogens raise TypeError, which the model reproduces)",
               "the mapper is the default PermutationMapper(wildcard='R', ignore_case=True); configurations are lists of FGConfig objects with distinct names"]


# configurations inside the class of the known finding KF-C05-descendant (kept in the stream so that the
# finding stays visible and its attribution is exercised)
KF_FAMILIES = [
    [{"name": "carbonyl", "pattern": "C=O"}, {"name": "acyl", "pattern": "RC=O", "group_atoms": [1]},
     {"name": "ketone", "pattern": "RC(R)=O", "group_atoms": [1, 3]}],
    [{"name": "oxygen", "pattern": "O"}, {"name": "hydroxy", "pattern": "CO"}, {"name": "acid", "pattern": "C(=O)O"}],
    [{"name": "carbonyl", "pattern": "C=O"}, {"name": "acidC", "pattern": "RC(=O)O", "group_atoms": [1]},
     {"name": "ester", "pattern": "RC(=O)OC", "group_atoms": [1, 2, 3]}],
    [{"name": "ether", "pattern": "ROR", "group_atoms": [1]}, {"name": "alkoxyC", "pattern": "ROC", "group_atoms": [2]},
     {"name": "acetal", "pattern": "ROCOR", "group_atoms": [1, 2, 3]}],
]


def gen_case(rng, default_p=0.7, kf_p=0.05):
    g, hmode = fc.rand_molecule(rng)
    g, scheme, _ = gens.reid(rng, g)
    kind = "random"
    r = rng.random()
    if r < kf_p:
        specs = [dict(s) for s in rng.choice(KF_FAMILIES)]
        rng.shuffle(specs)
        kind = "kf-family"
    elif r < kf_p + default_p:
        specs = None
    else:
        specs = fc.rand_config_list(rng, anti_list_p=0.4, ga_p=0.6)
        if rng.random() < 0.5:
            # generic names: different configurations of the stream (run one after the other in one interpreter) then
            # carry the same tuple of names -- an answer must not depend on what was asked before
            for i, sp in enumerate(specs):
                sp["name"] = "g%d" % i
        if rng.random() < 0.12:
            fc.dup_names(rng, specs)        # two groups with the same name (nothing in FGConfig forbids it)
    req_h = rng.random() < 0.6
    r = rng.random()
    if r < 0.06 and len(g) > 0:
        mx = max(g.nodes)
        g, scheme = fc.shift_ids(g, lambda n: n - mx), "max0"              # the largest id is exactly 0
    elif r < 0.10 and len(g) > 0:
        mx = max(g.nodes)
        d = rng.choice([-1, 1])
        g, scheme = fc.shift_ids(g, lambda n: n - mx + d), "max%+d" % d     # the largest id is -1 / +1
    return {"graph": g, "specs": specs, "req_h": req_h, "scheme": scheme, "hmode": hmode, "kind": kind}


def gen_ring_cases(rng, k=3):
    """one small hetero ring (3-6 members, O / N / S in the ring, substituents on ring atoms) in k different SMILES
    writings (different node numbering and adjacency order), one of them also rebuilt by gens.reid; with a user
    configuration of chain patterns of depth 1-4 from a hetero anchor (a deep pattern and its shorter prefixes)"""
    from fgutils.parse import parse
    g0 = fc.hetero_ring(rng)
    hetero = sorted(set(d["symbol"] for _, d in g0.nodes(data=True) if d["symbol"] in ("O", "N", "S")))
    specs = fc.chain_configs(rng, hetero)
    if rng.random() < 0.15:
        fc.dup_names(rng, specs)
    req_h = rng.random() < 0.5
    out = []
    for j in range(k):
        text = fc.write_smiles(g0, rng)
        g = parse(text)
        scheme = "smiles"
        if j == k - 1 and rng.random() < 0.7:
            g, scheme, _ = gens.reid(rng, g)
        out.append({"graph": g, "specs": [dict(x) for x in specs], "req_h": req_h, "scheme": scheme, "hmode": "none",
                    "kind": "hetero-ring", "text": text})
    return out


def gen_ring_pattern_cases(rng, pattern, writings=1):
    """a user configuration with the ring PATTERN (3-5 members, with / without wildcards) and chain prefixes as less specific
    groups, against the ring itself and against every copy with ONE ring bond doubled (the pattern must not match there:
    the ring-closing bond, whichever it is for the search order, is compared like any other), in several SMILES writings"""
    from fgutils.parse import parse
    specs = fc.ring_pattern_config(rng, pattern)
    out = []
    for tag, mol in fc.ring_pattern_molecules(pattern):
        for j in range(writings):
            text = fc.write_smiles(mol, rng)
            g = parse(text)
            scheme = "smiles"
            if rng.random() < 0.3:
                g, scheme, _ = gens.reid(rng, g)
            out.append({"graph": g, "specs": [dict(x) for x in specs], "req_h": rng.random() < 0.5, "scheme": scheme,
                        "hmode": "none", "kind": "ring-pattern", "text": text, "tag": tag})
    return out


ZERO_MOLS = ["O", "N", "S", "CO", "CCO", "CN", "C(O)O", "CC(O)OC", "OCO", "CS", "OO", "CC(C)O", "NO"]
ZERO_CONFIGS = [None, None,
                [{"name": "hydroxy", "pattern": "OH"}, {"name": "oxy", "pattern": "RO", "group_atoms": [1]}],
                [{"name": "XH", "pattern": "RH"}, {"name": "alcohol", "pattern": "COH", "group_atoms": [1, 2]}],
                [{"name": "amino", "pattern": "NH"}, {"name": "thiol", "pattern": "SH"}, {"name": "hydroxy", "pattern": "OH"}]]


def gen_zero_case(rng):
    """node ids whose MAXIMUM is exactly 0 (a single atom with id 0 such as water / ammonia; ids ..., -2, -1, 0) or -1 / 1,
    with groups whose group_atoms contain a pattern hydrogen, mostly require_implicit_hydrogen=True: hydrogens added
    internally (ids 1, 2, ...) must never be listed"""
    from fgutils.parse import parse
    g = parse(fc.write_smiles(fc._frag(rng.choice(ZERO_MOLS)), rng))
    top = rng.choice([0, 0, 0, -1, 1])
    order = list(g.nodes)
    if rng.random() < 0.5:
        rng.shuffle(order)                      # which atom carries the largest id
    gaps = sorted(rng.sample(range(0, 2 * len(order) + 1), len(order)), reverse=True) if rng.random() < 0.3 \
        else list(range(len(order)))
    m = {n: top - gaps[i] for i, n in enumerate(order)}
    g = fc.shift_ids(g, lambda n: m[n])
    specs = rng.choice(ZERO_CONFIGS)
    return {"graph": g, "specs": None if specs is None else [dict(x) for x in specs], "req_h": rng.random() < 0.85,
            "scheme": "max%+d" % top if top else "max0", "hmode": "none", "kind": "ids-around-zero"}


SMALL_MOLS = ["CO", "O", "CCO", "C", "CC", "CN", "N", "COC", "C=O", "OC=O", "CCl", "CS", "OO", "NCO", "C1OC1", "CC(=O)O"]
SMALL_CONFIGS = [
    # the anti-pattern (or the user-given depth) is LARGER than the pattern: the molecule may be smaller than
    # max_pattern_size and still contain the group
    [{"name": "alcohol", "pattern": "COH", "anti_pattern": ["OC(O)(O)C(O)(O)O"]}],
    [{"name": "hydroxy", "pattern": "OH", "anti_pattern": ["CC(C)(C)OH", "RC(=O)OH"]},
     {"name": "oxy", "pattern": "RO", "group_atoms": [1]}],
    [{"name": "amine", "pattern": "RN", "group_atoms": [1], "anti_pattern": ["RC(=O)N(R)R"]},
     {"name": "carbon", "pattern": "C", "depth": 6}],
    [{"name": "alcohol", "pattern": "COH", "depth": 9}, {"name": "ether", "pattern": "COC", "anti_pattern": ["C1OC1CCCC"]},
     {"name": "oxy", "pattern": "RO", "group_atoms": [1], "depth": 12}],
    [{"name": "carbonyl", "pattern": "C=O", "anti_pattern": ["RC(=O)OC(=O)CCCC"]},
     {"name": "acid", "pattern": "RC(=O)OH", "group_atoms": [1, 2, 3], "anti_pattern": ["OC(=O)C(C)(C)C(C)(C)C"]}],
    [{"name": "het", "pattern": "RO", "group_atoms": [1], "depth": 1}, {"name": "alcohol", "pattern": "COH", "depth": 2}],
]


def gen_small_case(rng):
    """small molecules (1-4 heavy atoms) against user configurations whose anti-pattern, or whose user-given `depth`, is
    larger than the pattern itself - or smaller (depth 1 / 2): the molecule can have fewer atoms than max_pattern_size and
    still contain the group, so nothing may be decided from that size"""
    from fgutils.parse import parse
    g = parse(fc.write_smiles(fc._frag(rng.choice(SMALL_MOLS)), rng))
    scheme = "smiles"
    if rng.random() < 0.3:
        g, scheme, _ = gens.reid(rng, g)
    return {"graph": g, "specs": [dict(x) for x in rng.choice(SMALL_CONFIGS)], "req_h": rng.random() < 0.7,
            "scheme": scheme, "hmode": "none", "kind": "small-vs-max-pattern-size"}


def gen_edited_case(rng):
    """the molecule is a graph OBJECT that the same FGQuery has already been asked about and that the caller then edited in
    place (get(g), edit g, get(g)): the judged answer is the second one, against the contents after the edit"""
    c = gen_case(rng)
    if len(c["graph"]) == 0:
        return c
    ed = fc.rand_edits(rng, c["graph"])
    events = [{"op": "get", "obj": "g"}, {"op": "edit", "obj": "g", "edits": ed}, {"op": "get", "obj": "g"}]
    c["pre_graph"], c["pre_events"] = c["graph"], events
    c["graph"] = fc.play(events, c["pre_graph"])[-1][0]
    c["kind"] = "edited-in-place"
    return c


def generate(seed, tier, ncases=None):
    quick = tier == "quick"
    n = ncases or (220 if quick else 8000)
    n_rings = max(2, (ncases // 12) if ncases else (20 if quick else 700))
    cases = [gen_case(lib.rng_for(seed, ID, i)) for i in range(n)]
    for j in range(n_rings):
        cases.extend(gen_ring_cases(lib.rng_for(seed, ID, 700000 + j)))
    # every ring pattern x (the ring, each ring bond doubled in turn) x writings
    for j, pat in enumerate(fc.RING_PATTERNS):
        for rep in range(1 if quick or ncases else 12):
            cases.extend(gen_ring_pattern_cases(lib.rng_for(seed, ID, 800000 + 100 * rep + j), pat, writings=1 if quick or ncases else 2))
    for j in range(max(2, (ncases // 12) if ncases else (30 if quick else 600))):
        cases.append(gen_zero_case(lib.rng_for(seed, ID, 900000 + j)))
    for j in range(max(2, (ncases // 12) if ncases else (30 if quick else 600))):
        cases.append(gen_small_case(lib.rng_for(seed, ID, 920000 + j)))
    for j in range(max(2, (ncases // 15) if ncases else (20 if quick else 500))):
        cases.append(gen_edited_case(lib.rng_for(seed, ID, 950000 + j)))
    attach_outputs(cases)
    for c in cases:
        yield c


def attach_outputs(cases):
    """run the implementation on all generated cases in parallel fresh interpreters (PYTHONHASHSEED=0, a fresh
    FGQuery object per case) instead of one after the other in this process; run_impl falls back to an in-process
    run for corpus and replay cases"""
    jobs = []
    for c in cases:
        if "pre_events" in c:
            jobs.append({"kind": "editseq", "specs": c["specs"], "req_h": c["req_h"], "graph": ct.graph_py(c["pre_graph"]),
                         "events": c["pre_events"]})
        else:
            jobs.append({"kind": "query", "specs": c["specs"], "req_h": c["req_h"], "graph": ct.graph_py(c["graph"])})
    res = fc.run_all_seeds(jobs, ["0"], parallel=14, pieces=14)["0"]
    for c, r in zip(cases, res):
        a = r["answers"][-1] if "pre_events" in c else r["answers"][0]
        if a[0] == "ok":
            c["_out"] = ("ok", [(nm, list(ids)) for nm, ids in a[1]])
        else:
            c["_out"] = (a[0], "")
        c["_mutated"] = r["mutated"]


def _c(text, specs=None, req_h=True, kind="corpus", offset=0):
    from fgutils.parse import parse
    g = parse(text, idx_offset=offset) if offset else parse(text)
    return {"graph": g, "specs": specs, "req_h": req_h, "scheme": "corpus", "hmode": "none", "kind": kind}


def corpus():
    cases = list(_corpus())
    attach_outputs(cases)        # in parallel fresh interpreters, like the generated cases
    for c in cases:
        yield c


def _corpus():
    # D7 witnesses: epoxid reported for ethers / crown ethers before the matcher repair
    yield _c("CCOCC", kind="corpus-D7")
    yield _c("C1COC1", kind="corpus-D7")
    yield _c("C1COCCOCCOCCOCCOCCO1", kind="corpus-D7")
    # D9 witness: aldehyde vs acyl_chloride depended on the hash seed
    yield _c("O=CCl", kind="corpus-D9")
    # D16 witness: hydrogen ids collided with atom ids when ids do not start at 0
    yield _c("CO", offset=1, kind="corpus-D16")
    yield _c("CC(=O)O", offset=5, kind="corpus-D16")
    # the documented examples and test/test_query.py
    for s in ["O=C(C)Oc1ccccc1C(=O)O", "C=O", "CC(=O)OC", "C(=O)N", "NC(=O)CC(N)C(=O)O", "COC(C)=O", "CC(=O)O", "NCC(=O)O",
              "CNC(C)C(=O)c1ccccc1", "CCSCC", "CSC(=O)c1ccccc1", "CC(C)(C)OO", "CC(=O)OO", "O", "CCl", "OO", "C1OC1",
              "CC(O)O", "CC(O)(O)C", "COC(C)(C)OC", "NC(=O)OC", "CC(=O)OC(=O)C", "CC#N", "CN=O", "CN(=O)O", "c1ccccc1O",
              "c1ccccc1N", "C=C=O", "C=CO", "CC(C)O", "CC(C)(C)O", "CCO", "OC(O)(C)C"]:
        yield _c(s)
        yield _c(s, req_h=False)
    yield _c("CC(=O)OC", specs=[{"name": "carbonyl-AE", "pattern": "C(=O)(OR)C", "group_atoms": [0, 1, 2, 4]}], req_h=False)
    # a chain pattern of depth 3 from the oxygen, a ring through the oxygen's neighbour, two writings (the first makes a
    # matcher that does not restore its used-atom set per neighbour permutation miss the embedding)
    chain = [{"name": "a", "pattern": "CO"}, {"name": "b", "pattern": "CCO"}, {"name": "c", "pattern": "CCCO"}]
    for smi in ["CC1(C)OC1", "C1OC1(C)C", "O1CC1(C)C", "CC1(C)CO1"]:
        yield _c(smi, specs=[dict(x) for x in chain], req_h=False, kind="corpus-ring")
        yield _c(smi, specs=[dict(x) for x in chain], req_h=True, kind="corpus-ring")
    yield _c("CC1(C)OC1", specs=[{"name": "a", "pattern": "RO"}, {"name": "b", "pattern": "RCCCO"}, {"name": "c", "pattern": "OCCN"}], kind="corpus-ring")
    # a ring PATTERN against the same ring with one bond doubled (the ring-closing bond of the search must be compared too)
    ringcfg = [{"name": "oxirane", "pattern": "C1CO1"}, {"name": "ether", "pattern": "COC"}, {"name": "oxy", "pattern": "CO"}]
    for smi in ["C1CO1", "C1=CO1", "O1C=C1", "C1OC=1"]:
        yield _c(smi, specs=[dict(x) for x in ringcfg], req_h=False, kind="corpus-ringpattern")
    ring4 = [{"name": "oxetane", "pattern": "C1CCO1"}, {"name": "oxy", "pattern": "CO"}]
    for smi in ["C1CCO1", "C1C=CO1", "C1=CCO1", "O1CC=C1", "C1CC=O1"]:
        yield _c(smi, specs=[dict(x) for x in ring4], req_h=True, kind="corpus-ringpattern")
    # the largest node id is exactly 0: water / ammonia as single atoms with id 0, methanol with ids -1, 0
    ohcfg = [{"name": "hydroxy", "pattern": "OH"}, {"name": "amino", "pattern": "NH"}]
    for smi in ["O", "N"]:
        yield _c(smi, specs=[dict(x) for x in ohcfg], req_h=True, kind="corpus-maxid0")
        yield _c(smi, req_h=True, kind="corpus-maxid0")
    for smi in ["CO", "CC(O)OC", "CCO"]:
        c = _c(smi, req_h=True, kind="corpus-maxid0")
        mx = max(c["graph"].nodes)
        c["graph"] = fc.shift_ids(c["graph"], lambda n: n - mx)
        yield c
    # two groups with the same name
    yield _c("CC(=O)OC", specs=[{"name": "carbonyl", "pattern": "C=O"}, {"name": "acyl", "pattern": "RC(=O)OR", "group_atoms": [1, 2, 3]},
                                {"name": "acyl", "pattern": "RC(=O)N(R)R", "group_atoms": [1, 2, 3]}], kind="corpus-dupnames")
    yield _c("CC(=O)N(C)C", specs=[{"name": "carbonyl", "pattern": "C=O"}, {"name": "acyl", "pattern": "RC(=O)OR", "group_atoms": [1, 2, 3]},
                                   {"name": "acyl", "pattern": "RC(=O)N(R)R", "group_atoms": [1, 2, 3]}], kind="corpus-dupnames")
    yield _c("COC(=O)N(C)C", specs=[{"name": "carbonyl", "pattern": "C=O"}, {"name": "acyl", "pattern": "RC(=O)OR", "group_atoms": [1, 2, 3]},
                                    {"name": "acyl", "pattern": "RC(=O)N(R)R", "group_atoms": [1, 2, 3]},
                                    {"name": "carbamate", "pattern": "ROC(=O)N(R)R", "group_atoms": [1, 2, 3, 4]}], kind="corpus-dupnames")
    # the witness of C05_descendant_refuted (Props/C05.v): the descendant clause fails, the child clause holds
    yield _c("CC(=O)C", specs=[{"name": "carbonyl", "pattern": "C=O"}, {"name": "acyl", "pattern": "RC=O", "group_atoms": [1]},
                               {"name": "ketone", "pattern": "RC(R)=O", "group_atoms": [1, 3]}], req_h=False,
             kind="corpus-descendant")
    # a tuple bond label: add_implicit_hydrogens raises TypeError
    from fgutils.parse import parse
    g = parse("CO")
    g.edges[0, 1]["bond"] = (1, 1)
    yield {"graph": g, "specs": None, "req_h": True, "scheme": "corpus", "hmode": "none", "kind": "corpus-typeerror"}
    import networkx as nx
    yield {"graph": nx.Graph(), "specs": None, "req_h": True, "scheme": "corpus", "hmode": "none", "kind": "corpus-empty"}
    yield {"graph": nx.Graph(), "specs": None, "req_h": False, "scheme": "corpus", "hmode": "none", "kind": "corpus-empty"}


def run_impl(c):
    if "_out" in c:
        return c["_out"]
    if "pre_events" in c:
        outs = fc.run_editseq(c["specs"], c["req_h"], c["pre_graph"], c["pre_events"])
        c["_mutated"] = any(o[0] == "MUTATED" for o in outs)
        last = outs[-1]
        return last[1] if last[0] == "MUTATED" else last
    g = gens.copy_exact(c["graph"])
    out = fc.run_query(c["specs"], c["req_h"], g, repeats=1)[0]
    c["_mutated"] = not gens.graphs_identical(g, c["graph"])
    return out


def py_invariants(c, out):
    return ["FGQuery.get modified the graph it was given"] if c.get("_mutated") else []


def model_expr(c):
    if c["specs"] is None:
        return "default_query_fast %s $g" % ct.b(c["req_h"])
    return "query default_mapper $cfgs %s $g" % ct.b(c["req_h"])


def coq_case(c, out):
    defs = {"g": ct.graph(c["graph"]), "out": fc.answer_term(out)}
    rq = ct.b(c["req_h"])
    agree = "answer_agreeb (%s) $out" % model_expr(c)
    # Two groups may share a name (nothing in FGConfig forbids it) and the implementation reports names only: the Coq
    # checker resolves every returned entry on its own, against ALL groups carrying the reported name
    # (Spec/QuerySpec.v entry_okb: anyb over indices_named); no relabelling, no enumeration of readings here.
    if c["specs"] is None:
        # default configuration: the tree is the kernel-computed constant default_tree_val
        # (Proofs/FGDefaultTree.v: default_tree_ok, default_query_fast_ok)
        rt = "(Good default_tree_val)"
    else:
        defs["cfgs"] = fc.cfgs_term(c["specs"])
        rt = "(build_config_tree_from_list default_mapper $cfgs)"
    return {"defs": defs,
            "checks": {
                "agree": agree,
                # every clause of the property with "no CHILD witnessed" (what the descent guarantees)
                "spec": "C05_tree_okb false default_mapper %s %s $g $out" % (rt, rq),
                # the FULL statement: no DESCENDANT witnessed
                "descendant": "C05_tree_okb true default_mapper %s %s $g $out" % (rt, rq),
                # a failing descendant clause that is NOT attributable to KF-C05-descendant: the configuration is
                # outside the class (kf_descendant_classb, decided by the kernel) or the model disagrees
                "descendant_unattributed": "C05_desc_attrib_okb default_mapper %s %s $g $out (%s)" % (rt, rq, agree)},
            "diag": [model_expr(c)]}


def known_class(c, out, which=None):
    """attribute a rejected output to KF-C05-descendant exactly when the ONLY failing clause is the descendant
    clause: "spec" (all other clauses) passed and "descendant_unattributed" passed, i.e. the kernel found the
    configuration inside the class and the model's answer equal to the implementation's"""
    if which is not None and list(which) == ["descendant"]:
        return KF_CLASS
    return None


WITNESS_SPECS = KF_FAMILIES[0]


def known_witness_fails(entry):
    """True while the recorded witness (carbonyl / acyl / ketone, acetone, no implicit hydrogens) still violates the
    descendant clause on the implementation: decided by the checker C05_okb evaluated in Coq on the output"""
    if entry.get("class") != KF_CLASS:
        return False
    from fgutils.parse import parse
    out = fc.run_query(WITNESS_SPECS, False, parse("CC(=O)C"), repeats=1)[0]
    try:
        term = fc.answer_term(out)
    except ct.Unrepresentable:
        return False
    rc, log = lib.coq_eval("C05kf", IMPORTS, {"out": term},
                           ["(C05_child_okb default_mapper wit_cfgs false acetone $out, "
                            "C05_okb default_mapper wit_cfgs false acetone $out)"])
    flat = " ".join(log.split())
    return rc == 0 and "= (true, false)" in flat


def describe(c):
    d = {"graph": ct.graph_py(c["graph"]), "specs": c["specs"], "req_h": c["req_h"], "scheme": c["scheme"],
         "hmode": c["hmode"], "kind": c["kind"]}
    if "pre_events" in c:
        d["pre_graph"] = ct.graph_py(c["pre_graph"])
        d["pre_events"] = c["pre_events"]
    return d


def from_json(d):
    c = {"graph": ct.graph_from_py(d["graph"]), "specs": d["specs"], "req_h": d["req_h"], "scheme": d.get("scheme", "replay"),
         "hmode": d.get("hmode", "?"), "kind": d.get("kind", "replay")}
    if "pre_events" in d:
        c["pre_graph"] = ct.graph_from_py(d["pre_graph"])
        c["pre_events"] = d["pre_events"]
    return c


def describe_out(out):
    if out[0] != "ok":
        return {"status": out[0], "msg": out[1]}
    return {"status": "ok", "groups": [[n, ids] for n, ids in out[1]]}


def key(c):
    sp = None if c["specs"] is None else tuple(fc.spec_key(s) for s in c["specs"])
    return (ct.graph_canon(c["graph"]), sp, c["req_h"])


def nontrivial(c, out):
    return out[0] == "ok" and len(out[1]) > 0


def classes(c, out):
    g = c["graph"]
    yield "config=" + ("default" if c["specs"] is None else "kf-family" if c["kind"] in ("kf-family", "corpus-descendant")
                       else "chains" if c["kind"] == "hetero-ring" else "ring-pattern" if c["kind"] == "ring-pattern" else "generated")
    if len(g):
        yield "max_id=" + ("0" if max(g.nodes) == 0 else "-1" if max(g.nodes) == -1 else "1" if max(g.nodes) == 1 else "other")
    if c["specs"] is not None:
        yield "dup_names=" + ("yes" if fc.has_dup_names(c["specs"]) else "no")
    yield "req_h=%s" % c["req_h"]
    yield "scheme=" + c["scheme"]
    yield "explicit_h=" + c["hmode"]
    yield "result=" + out[0]
    heavy = sum(1 for n in g.nodes if g.nodes[n].get("symbol") != "H")
    yield "heavy=" + ("0" if heavy == 0 else "1-4" if heavy <= 4 else "5-9" if heavy <= 9 else "10-14" if heavy <= 14 else "15+")
    if out[0] == "ok":
        k = len(out[1])
        yield "groups=" + ("0" if k == 0 else "1" if k == 1 else "2-3" if k <= 3 else "4+")
        for n, _ in out[1]:
            yield "fg=" + (n if c["specs"] is None else "generated")
    import networkx as nx
    yield "rings=" + ("yes" if len(g) and not nx.is_forest(g) else "no")
    yield "aromatic=" + ("yes" if any(str(g.nodes[n].get("symbol", "")).islower() for n in g.nodes) else "no")
