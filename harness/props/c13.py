"""C13 — node substitution. Correspondence: Model.Proxy.replace_node / replace_node_multi ~
fgutils.proxy.replace_node (+ relabel_graph), exact graph equality including every dict order and
(for multigraphs) edge keys. The pattern parser is not modelled: h = parser.parse(pattern,
idx_offset=len(graph.nodes)) is computed by the real parser and handed to the model.
Cases of kind "mtie" validate the MultiGraph model itself (Base/NXMulti.v) against networkx by
random operation sequences (the simple-graph model is validated by nxtie.py via NX_TIE)."""
import networkx as nx

import lib
import gens
import coqterm as ct
import ctmulti as cm
import nxtie_multi
from fgutils.parse import Parser
from fgutils.proxy import replace_node, ProxyGraph

ID = "C13"
REPEAT_PROBE = True   # engine: repeat 1 call in 5 after editing its first result in place (purity / no shared state)
PROPS = "Props/C13.v"
MODEL_FILES = ["Model/Proxy.v", "Model/NXMultiOps.v", "Spec/ProxyCheck.v"]
IMPORTS = "From FGV Require Import Base.NXMulti Model.NXMultiOps Model.Proxy Spec.ProxyCheck."
CHECKS = ["agree", "spec"]
NX_TIE = True
CHUNK = 200
CORRESPONDENCE = ("Model.Proxy.{replace_node,replace_node_multi,relabel_graph,relabel_graph_multi} ~ "
                  "fgutils.proxy.{replace_node,relabel_graph} on networkx.Graph / networkx.MultiGraph "
                  "(Base.NX / Base.NXMulti), exact equality incl. dict orders and edge keys")
RULE = ("parent graphs = random SMILES-like pattern strings (440 quick / 10000 thorough single calls; 30% 'stars': a labelled centre with 0-5 bonds, some doubled "
        "through ring closures; else 1-10 atoms, branches, one ring token per atom incl. "
        "rings closed on the neighbouring atom = parallel bonds in a multigraph, explicit/ITS <g,h> bonds, '.' "
        "non-bonds, node labels) parsed by the real Parser(use_multigraph=False|True); 35% of the parents are "
        "rebuilt with shuffled node/edge insertion order (adjacency order independent of node order, used "
        "without copy: the D21 situation), 10% get non-contiguous ids (hypothesis of the theorem fails; tie only); "
        "replaced node = a labelled node (60%) or any node, degree 0-5; sub-pattern in {'', single atom, chains, "
        "rings, labelled nodes, ITS bonds, random pattern <= 5 atoms}; anchor list of length 1..degree+2 with "
        "values inside the sub-pattern (repeats allowed), 6% out of range/negative/empty, 2% node not in the graph; "
        "corpus = D21 witness, a hand-built parent with adjacency out of node order, the substitutions of "
        "test/test_proxy.py, anchor overflow and double attachment, each for both graph classes; history cases "
        "(55 quick / 1200 thorough + 28 corpus): ONE ProxyGraph object and ONE Parser object used for 2-3 consecutive "
        "calls on different parents/nodes, 40% of the later calls on the previous call's result (as build_graphs "
        "does), every call compared with the model on its own inputs and the original anchors; 45% of the histories "
        "contain 1-2 calls whose sub-pattern the parser rejects (random valid prefix + offending token: SyntaxError, "
        "IndexError 'pop from empty list', KeyError on '/' '\\'; must raise what a fresh parser raises, parent "
        "untouched) before valid calls with the SAME Parser object; 45% of the histories have the caller EDIT the "
        "ProxyGraph's public attributes after construction, before the first and/or later calls (anchor re-assigned "
        "longer / shorter / reordered, append / insert / del / reverse in place, pattern re-assigned, name set): the "
        "model gets the pattern and anchors the object holds at call time; after every call "
        "runtime invariants: graph argument, ProxyGraph.pattern/anchor (object and contents), caller's anchor list, "
        "ProxyGraph's default anchor list unchanged, parser still parses, earlier results not modified later; plus random "
        "operation sequences validating the MultiGraph model itself (kind=mtie: 130 quick / 2000 thorough). "
        "non-trivial = replaced node has degree >= 1 (mtie: >= 3 operations); distinct = distinct (graph class, "
        "parent with all dict orders, node, pattern, anchors)")
TRUSTED = ["model of the attribute dict as a record of the five keys FGUtils uses; edge data = the single key 'bond'",
           "the pattern parser (not part of this property): its output graph h is an input of the model",
           "Base.NX / Base.NXMulti models of networkx.Graph / MultiGraph (validated by operation-sequence ties)"]
ASSUMPTIONS = ["theorems: parent ids are 0..m-1 and the sub-pattern graph has ids m..m+k-1 (what Parser.parse and "
               "relabel_graph establish), anchors non-empty and inside the sub-pattern, no self-loops",
               "node ids and anchors are Python ints"]

ATOMS = ["C", "C", "C", "C", "N", "O", "S", "Cl", "c", "c", "n", "H", "R", "Br"]
LABELS = ["{g}", "{g}", "{a}", "{g,b}", "{x_1}"]
BONDS_PLAIN = ["", "", "", "", "-", "=", "#", ":", "$"]
BONDS_ITS = ["<1,2>", "<2,1>", "<0,1>", "<1,0>", "<,2>", "<2,>", "<1,1>"]
FIXED_SUB = ["C", "N", "O", "Cl", "c", "{g}", "CC", "C=O", "OC", "NO", "CCC", "C#N", "C(C)C", "C1CC1", "c1ccccc1",
             "C{a}", "{a}C{b}", "C<2,1>C", "C<2,1>C<1,2>C<2,1>C", "C(=O)O", "N(C)C", "C.C", "C1C=1"]


def rand_pattern(rng, natoms, its_p=0.2, label_p=0.25, ring_p=0.3, dot_p=0.04):
    """Random pattern string. One ring token per atom (RING_NUM is \\d+), never closing a ring on the atom
    that opened it (self-loop)."""
    its = rng.random() < its_p

    def bond():
        if rng.random() < dot_p:
            return "."
        if its and rng.random() < 0.5:
            return rng.choice(BONDS_ITS)
        return rng.choice(BONDS_PLAIN)

    open_rings = []   # (digit, atom index)
    state = {"n": 0}

    def atom():
        s = rng.choice(LABELS) if rng.random() < label_p else rng.choice(ATOMS)
        idx = state["n"]
        state["n"] += 1
        if rng.random() < ring_p:
            closable = [r for r in open_rings if r[1] != idx]
            if closable and rng.random() < 0.6:
                r = rng.choice(closable)
                open_rings.remove(r)
                b = bond()
                s += ("" if b == "." else b) + str(r[0])
            else:
                free = [d for d in range(1, 10) if d not in [r[0] for r in open_rings]]
                if free:
                    d = rng.choice(free)
                    open_rings.append((d, idx))
                    s += str(d)
        return s

    out = atom()
    depth = 0
    just_opened = False
    while state["n"] < natoms:
        r = rng.random()
        if r < 0.25 and not just_opened:
            out += "(" + bond() + atom()
            depth += 1
            just_opened = False
        elif r < 0.45 and depth > 0:
            out += ")"
            depth -= 1
        else:
            out += bond() + atom()
    out += ")" * depth
    return out


def star_pattern(rng):
    """A labelled centre with 0-5 bonds, some of them doubled through ring closures (multigraph: parallel)."""
    its = rng.random() < 0.25

    def bond():
        if its and rng.random() < 0.6:
            return rng.choice(BONDS_ITS)
        return rng.choice(BONDS_PLAIN)

    def arm():
        a = rng.choice(ATOMS + ["{a}", "{g}"])
        if rng.random() < 0.3:
            a += bond() + rng.choice(ATOMS)
        return a

    out = ""
    ring = ""
    if rng.random() < 0.7:
        out = arm()
        if rng.random() < 0.5:
            out += "1"
            b = bond()
            ring = b + "1"
        out += bond()
    centre = rng.choice(["{g}", "{g}", "{g,b}", "C", "N"]) + ring
    out += centre
    nb = rng.choice([0, 0, 1, 1, 2, 2, 3])
    for j in range(nb):
        if ring == "" and rng.random() < 0.3:
            # branch atom closing a ring on the centre: second bond between the two
            out += "2(" + bond() + rng.choice(ATOMS) + bond() + "2)"
            ring = "x"
        else:
            out += "(" + bond() + arm() + ")"
    if rng.random() < 0.6:
        out += bond() + arm()
    return out


def rand_sub_pattern(rng):
    r = rng.random()
    if r < 0.12:
        return ""
    if r < 0.55:
        return rng.choice(FIXED_SUB)
    return rand_pattern(rng, rng.randint(1, 5), its_p=0.25, label_p=0.2, ring_p=0.3, dot_p=0.03)


def has_selfloop(g):
    return any(n in g._adj[n] for n in g._adj)


def safe_parse(mg, pattern, off=0):
    try:
        g = Parser(use_multigraph=mg).parse(pattern, idx_offset=off)
    except Exception:
        return None
    if has_selfloop(g):
        return None
    return g


def rand_anchors(rng, deg, k):
    if k == 0:
        return rng.choice([[0], [0], [], [0, 1]])
    r = rng.random()
    if r < 0.02:
        return []
    n = rng.choice([1, 1, max(1, deg - 1), max(1, deg), deg + 1, deg + 2, rng.randint(1, 4)])
    a = [rng.randrange(0, k) for _ in range(n)]
    if r < 0.06:
        a[rng.randrange(0, n)] = rng.choice([k, k + 1, -1, -2])
    elif r < 0.3:
        a = [0] * n if rng.random() < 0.5 else a
    return a


def gen_parent(rng, mg):
    """(graph, node, order, source pattern) for one replace_node call."""
    while True:
        pat = star_pattern(rng) if rng.random() < 0.3 else rand_pattern(rng, rng.randint(1, 10))
        g = safe_parse(mg, pat)
        if g is not None and g.number_of_nodes() > 0:
            break
    labelled = [n for n in g.nodes if g.nodes[n].get("is_labeled")]
    # favour high-degree nodes from time to time
    if labelled and rng.random() < 0.6:
        node = rng.choice(labelled)
    elif rng.random() < 0.4:
        node = max(g.nodes, key=lambda n: (g.degree(n), rng.random()))
    else:
        node = rng.choice(list(g.nodes))
    r = rng.random()
    order = "parsed"
    if r < 0.35:
        g, _, m = gens.reid(rng, g, "contig")
        node = m[node]
        order = "shuffled"
    elif r < 0.45:
        g, sch, m = gens.reid(rng, g, rng.choice(["offset", "sparse", "negative", "shuffled"]))
        node = m[node]
        order = "noncontig"
    elif r < 0.47:
        node = rng.choice([-1, g.number_of_nodes(), g.number_of_nodes() + 3])   # not a node
        order = "parsed"
    return g, node, order, pat


def gen_replace_case(rng):
    mg = rng.random() < 0.5
    g, node, order, pat = gen_parent(rng, mg)
    while True:
        sub = rand_sub_pattern(rng)
        h = safe_parse(mg, sub, len(g.nodes))
        if h is not None:
            break
    deg = g.degree(node) if node in g else 0
    anchors = rand_anchors(rng, deg, h.number_of_nodes())
    return {"kind": "replace", "mg": mg, "graph": g, "node": node, "pattern": sub, "anchors": anchors,
            "order": order, "src": pat, "default_anchor": anchors == [0] and rng.random() < 0.5}


BAD_TOKENS = ["%", "~", "*", "[C]", "@", "+", " ", "x", "<1>", "<1,2,3>", "<a,b>", "{}", "{a b}", "}", ">",   # SyntaxError
              ")", "))", "C)",                                                                            # IndexError (pop from empty list)
              "/", "\\", "/C", "\\C"]                                                                       # KeyError (bond map)
BAD_WHOLE = ["1C", "=1", "2CC2", ")", "C)", "C/C", "C%", "C(C))C", "C\\C", "<1,2>1C"]


def parser_rejects(mg, pattern, off):
    """Exception class name a FRESH parser raises on the pattern, None when it parses."""
    try:
        Parser(use_multigraph=mg).parse(pattern, idx_offset=off)
    except Exception as e:
        return type(e).__name__
    return None


def rand_bad_pattern(rng, mg):
    """A sub-pattern the parser rejects, mostly AFTER it has already built something (nodes, an anchor, an open
    branch or ring, a pending bond order, the ITS flag), so that a parser which does not reset itself before the
    next parse carries visible leftovers."""
    for _ in range(200):
        if rng.random() < 0.25:
            pat = rng.choice(BAD_WHOLE)
        else:
            pre = rand_pattern(rng, rng.randint(1, 4), its_p=0.3, label_p=0.2, ring_p=0.4, dot_p=0.0)
            pre += rng.choice(["", "", "(", "(=", "=", "<2,1>", "3"])
            pat = pre + rng.choice(BAD_TOKENS) + rng.choice(["", "", "C", "O1"])
        if parser_rejects(mg, pat, 0) is not None and parser_rejects(mg, pat, 7) is not None:
            return pat
    return "C%"


def gen_history_case(rng):
    """The SAME ProxyGraph object and the SAME Parser object used for 2-3 consecutive replace_node calls
    (what build_graphs does with a group's ProxyGraph). A step marked chain=True takes the previous step's
    actual result as its parent (filled in by run_impl, the pre-generated parent is the fallback)."""
    mg = rng.random() < 0.5
    nsteps = rng.choice([2, 2, 3])
    steps = []
    for j in range(nsteps):
        g, node, order, pat = gen_parent(rng, mg)
        steps.append({"graph": g, "node": node, "order": order, "src": pat,
                      "chain": j > 0 and rng.random() < 0.4, "pick": rng.randrange(0, 1000)})
    while True:
        sub = rand_sub_pattern(rng) if rng.random() < 0.3 else rng.choice(
            ["CC", "NO", "CCC", "C=O", "C{a}", "N(C)C", "C1CC1", "C<2,1>C", "C<2,1>C<1,2>C<2,1>C", "{g}C", "C{g}"])
        if safe_parse(mg, sub, 0) is not None:
            break
    k = safe_parse(mg, sub, 0).number_of_nodes()
    deg = max([st["graph"].degree(st["node"]) if st["node"] in st["graph"] else 0 for st in steps])
    anchors = rand_anchors(rng, deg, k)
    if k >= 2 and len(anchors) < 2 and rng.random() < 0.7:
        anchors = [rng.randrange(0, k) for _ in range(rng.randint(2, 3))]   # several anchors: order matters
    # 45%: the caller edits the ProxyGraph's public pattern / anchor AFTER construction, before some of the calls
    default_anchor = anchors == [0] and rng.random() < 0.5
    if rng.random() < 0.45:
        pat_now, anc_now = sub, list(anchors)
        for j, st in enumerate(steps):
            if rng.random() < (0.7 if j == 0 else 0.4):
                d = st["graph"].degree(st["node"]) if st["node"] in st["graph"] else 0
                st["edits"], pat_now, anc_now = rand_edits(rng, mg, pat_now, anc_now, d)
                st["edits"] = [list(e) for e in st["edits"]]
        if any(e[0] not in ("assign_anchor", "assign_pattern", "set_name") for st in steps for e in st.get("edits") or []):
            default_anchor = False     # an in-place edit of the shared default list would be the caller's own bug
    # 45%: 1-2 calls (same Parser object) whose sub-pattern the parser rejects, before valid calls
    if rng.random() < 0.45:
        nbad = rng.choice([1, 1, 2])
        pos = 0 if rng.random() < 0.7 else 1          # sometimes a valid call comes first
        for j in range(nbad):
            g, node, order, pat = gen_parent(rng, mg)
            steps.insert(pos, {"graph": g, "node": node, "order": order, "src": pat, "chain": False,
                               "pick": 0, "bad": rand_bad_pattern(rng, mg)})
        if pos < len(steps) - nbad:
            steps[pos + nbad]["chain"] = False        # no previous result to chain on
    return {"kind": "history", "mg": mg, "steps": steps, "pattern": sub, "anchors": anchors,
            "default_anchor": default_anchor}


def generate(seed, tier, ncases=None):
    n = ncases or (440 if tier == "quick" else 10000)
    n_tie = max(1, n // 4) if ncases else (130 if tier == "quick" else 2000)
    n_hist = max(1, n // 10) if ncases else (55 if tier == "quick" else 1200)
    for i in range(n):
        rng = lib.rng_for(seed, ID, i)
        yield gen_replace_case(rng)
    for i in range(n_hist):
        rng = lib.rng_for(seed, ID + "hist", i)
        yield gen_history_case(rng)
    for i in range(n_tie):
        rng = lib.rng_for(seed, ID + "mtie", i)
        ops, g = nxtie_multi.gen_case(rng)
        yield {"kind": "mtie", "ops": ops, "final": g}


def _corpus_case(mg, core, node, pattern, anchors, shuffle=None):
    g = Parser(use_multigraph=mg).parse(core)
    return {"kind": "replace", "mg": mg, "graph": g, "node": node, "pattern": pattern, "anchors": list(anchors),
            "order": "parsed", "src": core}


def _corpus_history(mg, pattern, anchors, calls, default_anchor=False):
    """calls: list of (core pattern | None = previous result, node[, sub-pattern the parser rejects])."""
    steps = []
    for call in calls:
        core, node = call[0], call[1]
        g = Parser(use_multigraph=mg).parse(core if core is not None else "C")
        steps.append({"graph": g, "node": node, "order": "parsed", "src": core, "chain": core is None, "pick": 0,
                      "bad": call[2] if len(call) > 2 and isinstance(call[2], str) else None,
                      "edits": [list(e) for e in call[2]] if len(call) > 2 and isinstance(call[2], list) else []})
    return {"kind": "history", "mg": mg, "steps": steps, "pattern": pattern, "anchors": list(anchors),
            "default_anchor": default_anchor}


def corpus():
    for mg in (True, False):
        # D21 witness: incident order of node 2 is [(2,1,'='), (2,0,'#')]
        yield _corpus_case(mg, "C1C={g}#1", 2, "NO", [0, 1])
        # the same parent with adjacency lists out of node order, used without copy
        g = nx.MultiGraph() if mg else nx.Graph()
        for i, s in enumerate(["C", "C", "#", "O"]):
            g.add_node(i, symbol=s, labels=["g"] if s == "#" else [], is_labeled=s == "#")
        g.add_edge(2, 3, bond=1)
        g.add_edge(2, 1, bond=2)
        g.add_edge(0, 2, bond=3)
        g.add_edge(0, 1, bond=1)
        yield {"kind": "replace", "mg": mg, "graph": g, "node": 2, "pattern": "NOS", "anchors": [0, 1, 2],
               "order": "shuffled", "src": "hand-built"}
        # test/test_proxy.py: test_build_graph, test_insert_groups, reaction and multigraph reaction generation
        yield _corpus_case(mg, "{g}1CC1", 0, "C", [0])
        yield _corpus_case(mg, "C{g}C", 1, "OC", [1])
        yield _corpus_case(mg, "{g}1CC1", 0, "CC", [0])
        yield _corpus_case(mg, "C1{g}C1", 1, "CCC", [0, 2])
        yield _corpus_case(mg, "C#{group}", 1, "N", [0])
        yield _corpus_case(mg, "C{group2}={group1}", 1, "C", [0])
        yield _corpus_case(mg, "C{group1}", 1, "{group2}C", [0])
        yield _corpus_case(mg, "CC(<2,1>O)<0,1>{nucleophile}", 3, "C#N", [0])
        yield _corpus_case(mg, "{diene}1<0,1>{dienophile}<0,1>1", 0, "C<2,1>C<1,2>C<2,1>C", [0, 3])
        yield _corpus_case(mg, "{diene}1<0,1>{dienophile}<0,1>1", 1, "C<2,1>C", [0, 1])
        # empty pattern, anchors running out, double attachment
        yield _corpus_case(mg, "N{g}(O)(S)C", 1, "", [0])
        yield _corpus_case(mg, "N{g}(O)(S)C", 1, "CC", [1])
        yield _corpus_case(mg, "N{g}(O)(S)C", 1, "CCC", [2, 0])
        yield _corpus_case(mg, "C1{g}1", 1, "CO", [0, 1])
        yield _corpus_case(mg, "C1{g}=1", 1, "CO", [1])
        # one ProxyGraph object used repeatedly (anchor list must not be consumed): same group label twice in a
        # core (second call on the first result, as build_graphs does), several cores, repeated sampling
        yield _corpus_history(mg, "CCC", [0, 2], [("C1{g}C1", 1), ("N{g}(O)(S)C", 1), ("O{g}=S", 1)])
        yield _corpus_history(mg, "NO", [1, 0], [("C{g}(=O){g}(Cl)S", 1), (None, 0)])
        yield _corpus_history(mg, "C<2,1>C", [0, 1], [("{g}1<0,1>{g}<0,1>1", 0), (None, 0)])
        yield _corpus_history(mg, "CC", [0], [("C{g}C", 1), ("N{g}O", 1)], default_anchor=True)
        # a call whose sub-pattern the parser rejects (SyntaxError / IndexError / KeyError), then valid calls with
        # the SAME Parser object: nothing of the rejected pattern may survive in the parser
        yield _corpus_history(mg, "NO", [0, 1], [("C{g}C", 1, "CC(=O%"), ("C1C={g}#1", 2)])
        yield _corpus_history(mg, "CCC", [0, 2], [("C{g}C", 1, "1C"), ("C{g}C", 1, "C<2,1>C(C))"), ("C1{g}C1", 1)])
        yield _corpus_history(mg, "C=O", [0], [("N{g}O", 1), ("C{g}C", 1, "CC1/C"), ("N{g}(O)S", 1), (None, 0)])
        yield _corpus_history(mg, "C", [0], [("{g}C", 7, "C)"), ("C{g}", 1)])      # node missing AND pattern rejected
        # the caller edits the public attributes after construction: replace_node must read pattern / anchor (and
        # the anchor list's CURRENT length) at call time
        yield _corpus_history(mg, "CCC", [0], [("N{g}(O)(S)C", 1, [("assign_anchor", [0, 2])])])
        yield _corpus_history(mg, "CCC", [0, 1], [("N{g}(O)(S)C", 1, [("append", 2)]), ("N{g}(O)(S)C", 1, [("append", 0)])])
        yield _corpus_history(mg, "CCC", [0, 1, 2], [("N{g}(O)(S)C", 1, [("del_last",)]), ("N{g}(O)(S)C", 1, [("del_last",)])])
        yield _corpus_history(mg, "CCC", [2, 0], [("C1{g}C1", 1), ("C1{g}C1", 1, [("reverse",)]), (None, 0, [("insert0", 1)])])
        yield _corpus_history(mg, "C", [0], [("C{g}(O)N", 1, [("assign_pattern", "OCN"), ("assign_anchor", [0, 1, 2])]),
                                             ("C{g}(O)N", 1, [("assign_pattern", "NO"), ("assign_anchor", [1])])])
        yield _corpus_history(mg, "CC", [1], [("C{g}C", 1, [("set_name", "grp"), ("assign_pattern", "C=O")])])


PROBE = "C1(=O)c{q}1"      # parsed after every call to see that the Parser object is still usable


# ---- edits of the PUBLIC attributes of a ProxyGraph after construction (ProxyGraph is a plain attribute bag:
# pattern and anchor are public, ProxyGroup's setter assigns g.name). replace_node must read them at call time.
def edit_state(pattern, anchors, e):
    """Pure simulation of an edit on (pattern, anchor list contents): what the model is given at call time."""
    op = e[0]
    if op == "assign_anchor":
        return pattern, list(e[1])
    if op == "append":
        return pattern, anchors + [e[1]]
    if op == "insert0":
        return pattern, [e[1]] + anchors
    if op == "del_last":
        return pattern, anchors[:-1]
    if op == "reverse":
        return pattern, anchors[::-1]
    if op == "assign_pattern":
        return e[1], anchors
    if op == "set_name":
        return pattern, anchors
    raise ValueError(op)


def edit_object(pg, e):
    """The same edit done the way a caller does it on the real object."""
    op = e[0]
    if op == "assign_anchor":
        pg.anchor = list(e[1])
    elif op == "append":
        pg.anchor.append(e[1])
    elif op == "insert0":
        pg.anchor.insert(0, e[1])
    elif op == "del_last":
        del pg.anchor[-1]
    elif op == "reverse":
        pg.anchor.reverse()
    elif op == "assign_pattern":
        pg.pattern = e[1]
    elif op == "set_name":
        pg.name = e[1]
    else:
        raise ValueError(op)


def step_states(c):
    """(pattern, anchors) the ProxyGraph holds when each step's call is made."""
    pat, anc = c["pattern"], list(c["anchors"])
    out = []
    for st in c["steps"]:
        for e in st.get("edits") or []:
            pat, anc = edit_state(pat, anc, e)
        out.append((pat, list(anc)))
    return out


def rand_edits(rng, mg, pattern, anchors, deg):
    """1-2 edits that keep the ProxyGraph usable (pattern parses, anchors mostly inside it)."""
    edits = []
    pat, anc = pattern, list(anchors)
    for _ in range(rng.choice([1, 1, 2])):
        k = safe_parse(mg, pat, 0).number_of_nodes()
        r = rng.random()
        if r < 0.22 and k > 0:                       # longer list assigned
            e = ("assign_anchor", anc + [rng.randrange(0, k) for _ in range(rng.randint(1, 2))])
        elif r < 0.36 and len(anc) >= 2:             # shorter list assigned
            e = ("assign_anchor", anc[:rng.randint(1, len(anc) - 1)])
        elif r < 0.48 and k > 0:                     # reordered / different list assigned
            new = anc[::-1] if len(set(anc)) > 1 and rng.random() < 0.5 else [rng.randrange(0, k) for _ in range(max(2, min(deg, 3)))]
            e = ("assign_anchor", new)
        elif r < 0.60 and k > 0:
            e = ("append", rng.randrange(0, k))
        elif r < 0.66 and k > 0:
            e = ("insert0", rng.randrange(0, k))
        elif r < 0.76 and len(anc) >= 2:
            e = ("del_last",)
        elif r < 0.82 and len(anc) >= 2:
            e = ("reverse",)
        elif r < 0.95:
            while True:
                new = rng.choice(["CC", "NO", "CCC", "C=O", "OCN", "C1CC1", "C(C)(C)C", "C<2,1>C", "C{a}", "N"]) \
                    if rng.random() < 0.7 else rand_sub_pattern(rng)
                h = safe_parse(mg, new, 0)
                if h is not None and new != pat:
                    break
            e = ("assign_pattern", new)
            pat, anc = edit_state(pat, anc, e)
            edits.append(e)
            k2 = h.number_of_nodes()
            if k2 > 0 and any(a >= k2 for a in anc) and rng.random() < 0.85:
                e = ("assign_anchor", [rng.randrange(0, k2) for _ in range(rng.randint(1, 3))])
            else:
                continue
        else:
            e = ("set_name", "grp")
        pat, anc = edit_state(pat, anc, e)
        edits.append(e)
    return edits, pat, anc


def _make_proxy_graph(c, anchors_arg):
    # ProxyGraph's anchor parameter has the mutable default [0]: exercise it as well
    if c.get("default_anchor"):
        return ProxyGraph(c["pattern"])
    return ProxyGraph(c["pattern"], anchor=anchors_arg)


def _call(graph, node, pg, parser):
    """One replace_node call on an exact copy; returns (status, result | message, parent untouched?)."""
    g = cm.copy_exact(graph)
    try:
        out = ("ok", replace_node(g, node, pg, parser))
    except Exception as e:   # NetworkXError / IndexError from replace_node itself; SyntaxError / IndexError /
        out = (type(e).__name__, str(e))   # KeyError from the parser on a rejected sub-pattern; anything else
    return out + (cm.identical(g, graph),)


def _object_invariants(c, pg, anchors_arg, anchor_obj, parser, where, probe=True, exp=None):
    """What replace_node may NOT touch: the ProxyGraph (pattern, anchor list object and contents, name,
    properties), the caller's anchor list, the mutable default of ProxyGraph.__init__, and the parser's
    configuration; the parser must still parse. (It MAY reset the parser's working state: parse() does.)"""
    msgs = []
    # exp = (pattern, anchors, name) the caller left in the object before the call (defaults: as constructed)
    exp_pattern, exp_anchors, exp_name = exp if exp is not None else (c["pattern"], list(c["anchors"]), None)
    if pg.pattern != exp_pattern:
        msgs.append("%s: ProxyGraph.pattern changed to %r" % (where, pg.pattern))
    if pg.anchor is not anchor_obj:
        msgs.append("%s: ProxyGraph.anchor was rebound to another object" % where)
    if list(pg.anchor) != list(exp_anchors):
        msgs.append("%s: ProxyGraph.anchor changed from %r to %r" % (where, list(exp_anchors), list(pg.anchor)))
    if anchors_arg != list(exp_anchors):
        msgs.append("%s: the caller's anchor list changed from %r to %r" % (where, list(exp_anchors), anchors_arg))
    if pg.name != exp_name or pg.properties != {}:
        msgs.append("%s: ProxyGraph.name/properties changed" % where)
    if ProxyGraph.__init__.__defaults__[0] != [0]:
        msgs.append("%s: the default anchor list of ProxyGraph.__init__ is now %r" % (where, ProxyGraph.__init__.__defaults__[0]))
        ProxyGraph.__init__.__defaults__[0][:] = [0]      # do not poison the following cases
    if parser.use_multigraph != c["mg"]:
        msgs.append("%s: parser.use_multigraph changed" % where)
    if not probe:
        # inside a history the parser is NOT probed between the calls: a successful parse would repair a parser
        # that carries leftovers of a rejected pattern, and hide them from the next replace_node call
        return msgs
    try:
        probe = parser.parse(PROBE, idx_offset=2)
        if not cm.identical(probe, Parser(use_multigraph=c["mg"]).parse(PROBE, idx_offset=2)):
            msgs.append("%s: the parser object parses %r differently after the call" % (where, PROBE))
    except Exception as e:
        msgs.append("%s: the parser object is unusable after the call: %r" % (where, e))
    return msgs


def _pick_node(g, pick):
    labelled = [n for n in g.nodes if g.nodes[n].get("is_labeled")]
    pool = labelled or list(g.nodes)
    return pool[pick % len(pool)]


def run_impl(c):
    """replace: ("ok"|exception, result|msg, [invariant messages]); history: ("hist", [step outputs], [messages])."""
    if c["kind"] == "mtie":
        return ("tie", c["final"], [])
    anchors_arg = list(c["anchors"])
    pg = _make_proxy_graph(c, anchors_arg)
    anchor_obj = pg.anchor
    parser = Parser(use_multigraph=c["mg"])
    if c["kind"] == "replace":
        st, res, same = _call(c["graph"], c["node"], pg, parser)
        msgs = [] if same else ["replace_node mutated its graph argument"]
        msgs += _object_invariants(c, pg, anchors_arg, anchor_obj, parser, "after the call")
        return (st, res, msgs)
    outs, snaps, msgs = [], [], []
    prev = None
    last = len(c["steps"]) - 1
    states = step_states(c)
    exp_name = None
    for j, step in enumerate(c["steps"]):
        # the caller edits the ProxyGraph's public attributes before this call
        for e in step.get("edits") or []:
            edit_object(pg, e)
            if e[0] == "set_name":
                exp_name = e[1]
        anchor_obj = anchors_arg = pg.anchor          # the list object the caller left in place
        cur_pattern, cur_anchors = states[j]
        if step.get("chain"):
            # the parent of this step is the previous actual result (as in build_graphs); from now on a fixed input
            if prev is not None and prev.number_of_nodes() > 0 and not has_selfloop(prev):
                step["graph"] = cm.copy_exact(prev)
                step["node"] = _pick_node(prev, step["pick"])
                step["order"] = "chained"
            step["chain"] = False
        if step.get("bad") is not None:
            # same Parser object, a ProxyGraph of its own whose pattern the parser rejects: the call must raise what
            # a FRESH parser raises on that pattern (parse() comes first in replace_node: before the node lookup and
            # before the anchors are read), and must leave the parent and the ProxyGraph alone
            bad_anchors = list(cur_anchors)
            bad_pg = ProxyGraph(step["bad"], anchor=bad_anchors)
            expect = parser_rejects(c["mg"], step["bad"], len(step["graph"].nodes))
            st, res, same = _call(step["graph"], step["node"], bad_pg, parser)
            if st != expect:
                msgs.append("step %d: sub-pattern %r: a fresh parser raises %s, the call with the shared parser gave %s"
                            % (j, step["bad"], expect, st))
            if bad_pg.pattern != step["bad"] or bad_pg.anchor is not bad_anchors or bad_anchors != list(cur_anchors):
                msgs.append("step %d: the ProxyGraph of the rejected call was modified" % j)
            res = (expect, res)        # what the model side says, and the message
        else:
            st, res, same = _call(step["graph"], step["node"], pg, parser)
        if not same:
            msgs.append("step %d: replace_node mutated its graph argument" % j)
        msgs += _object_invariants(c, pg, anchors_arg, anchor_obj, parser, "after step %d" % j, probe=(j == last),
                                   exp=(cur_pattern, cur_anchors, exp_name))
        outs.append((st, res))
        snaps.append(cm.copy_exact(res) if st == "ok" else None)
        prev = res if st == "ok" else None
    for j, (st, res) in enumerate(outs):
        if st == "ok" and not cm.identical(res, snaps[j]):
            msgs.append("the result of step %d was modified by a later call" % j)
    return ("hist", outs, msgs)


def sub_graph(c, graph=None, pattern=None):
    graph = c["graph"] if graph is None else graph
    pattern = c["pattern"] if pattern is None else pattern
    return Parser(use_multigraph=c["mg"]).parse(pattern, idx_offset=len(graph.nodes))


def _step_terms(c, graph, node, out, sfx, pattern=None, anchors=None):
    """Definitions and check expressions of one replace_node call; names get the suffix sfx.
    pattern / anchors: what the ProxyGraph holds at call time (default: as constructed)."""
    mg = c["mg"]
    h = sub_graph(c, graph, pattern)
    ty = "mgraph" if mg else "graph"
    anchors = c["anchors"] if anchors is None else anchors
    defs = {"g" + sfx: cm.any_graph(graph), "h" + sfx: cm.any_graph(h),
            "anchors" + sfx: "(%s : list Z)" % ct.lst([ct.z(a) for a in anchors])}
    if out[0] == "ok":
        if out[1].is_multigraph() != mg:
            raise ct.Unrepresentable("result graph class differs from the parent's")
        defs["out" + sfx] = "(POk %s)" % cm.any_graph(out[1])
    elif out[0] == "NetworkXError":
        defs["out" + sfx] = "(@PErr %s ENoNode)" % ty
    elif out[0] == "IndexError":
        defs["out" + sfx] = "(@PErr %s EIndex)" % ty
    else:
        raise ct.Unrepresentable("replace_node raised %s: %s" % (out[0], out[1]))
    args = "$g%s %s $h%s $anchors%s" % (sfx, ct.z(node), sfx, sfx)
    if mg:
        model = "replace_node_multi " + args
        agree = "pres_eqb mgraph_eqb (%s) $out%s" % (model, sfx)
        spec = "replace_multi_okb %s $out%s" % (args, sfx)
    else:
        model = "replace_node " + args
        agree = "pres_eqb graph_eqb (%s) $out%s" % (model, sfx)
        spec = "replace_okb %s $out%s" % (args, sfx)
    return defs, agree, spec, model


def _conj(exprs):
    e = "true"
    for x in reversed(exprs):
        e = "(andb (%s) %s)" % (x, e)
    return e


def coq_case(c, out):
    if c["kind"] == "mtie":
        cc = nxtie_multi.coq_case(c["ops"], out[1])
        cc["checks"]["spec"] = "true"
        return cc
    defs = {}
    if c["kind"] == "replace":
        d, agree, spec, model = _step_terms(c, c["graph"], c["node"], out, "")
        defs.update(d)
        return {"defs": defs, "checks": {"agree": agree, "spec": spec}, "diag": [model]}
    # history: every call is compared with the model on ITS OWN inputs and the pattern / anchors the ProxyGraph
    # holds at call time (as constructed unless the CALLER edited them; never what an earlier call left behind)
    agrees, specs, models = [], [], []
    states = step_states(c)
    for j, (step, o) in enumerate(zip(c["steps"], out[1])):
        if step.get("bad") is not None:
            # outside the Gallina model (the parser is not modelled): "the call raises the class a fresh parser
            # raises", decided in Python; o = (class raised, (class expected, message))
            agrees.append("true" if o[0] == o[1][0] else "false")
            continue
        d, agree, spec, model = _step_terms(c, step["graph"], step["node"], o, "_%d" % j, states[j][0], states[j][1])
        defs.update(d)
        agrees.append(agree)
        specs.append(spec)
        models.append(model)
    return {"defs": defs, "checks": {"agree": _conj(agrees), "spec": _conj(specs)}, "diag": models}


def describe(c):
    if c["kind"] == "mtie":
        return {"kind": "mtie", "ops": [repr(o) for o in c["ops"]]}
    if c["kind"] == "history":
        return {"kind": "history", "mg": c["mg"], "pattern": c["pattern"], "anchors": list(c["anchors"]),
                "default_anchor": bool(c.get("default_anchor")),
                "steps": [{"graph": cm.graph_py(st["graph"]), "node": st["node"], "order": st["order"],
                           "src": st.get("src"), "chain": bool(st.get("chain")), "pick": st.get("pick", 0),
                           "bad": st.get("bad"), "edits": [list(e) for e in st.get("edits") or []]}
                          for st in c["steps"]]}
    return {"kind": "replace", "mg": c["mg"], "graph": cm.graph_py(c["graph"]), "node": c["node"],
            "pattern": c["pattern"], "anchors": list(c["anchors"]), "order": c["order"], "src": c.get("src"),
            "default_anchor": bool(c.get("default_anchor"))}


def from_json(d):
    if d["kind"] == "mtie":
        raise SystemExit("operation-sequence cases are replayed with harness/nxtie_multi.py")
    if d["kind"] == "history":
        steps = [{"graph": cm.graph_from_py(dict(st["graph"], multigraph=d["mg"])), "node": st["node"],
                  "order": st.get("order", "replay"), "src": st.get("src"), "chain": bool(st.get("chain")),
                  "pick": st.get("pick", 0), "bad": st.get("bad"),
                  "edits": [list(e) for e in st.get("edits") or []]} for st in d["steps"]]
        return {"kind": "history", "mg": d["mg"], "steps": steps, "pattern": d["pattern"],
                "anchors": list(d["anchors"]), "default_anchor": bool(d.get("default_anchor"))}
    g = cm.graph_from_py(dict(d["graph"], multigraph=d["mg"]))
    return {"kind": "replace", "mg": d["mg"], "graph": g, "node": d["node"], "pattern": d["pattern"],
            "anchors": list(d["anchors"]), "order": d.get("order", "replay"), "src": d.get("src"),
            "default_anchor": bool(d.get("default_anchor"))}


def describe_out(out):
    if out[0] == "hist":
        return {"status": "hist", "steps": [describe_out(o) for o in out[1]]}
    if out[0] in ("ok", "tie"):
        return {"status": out[0], "graph": cm.graph_py(out[1])}
    if isinstance(out[1], tuple):      # rejected sub-pattern: (class a fresh parser raises, message)
        return {"status": out[0], "expected": out[1][0], "msg": out[1][1]}
    return {"status": out[0], "msg": out[1]}


def key(c):
    if c["kind"] == "mtie":
        return ("mtie", tuple(repr(o) for o in c["ops"]))
    if c["kind"] == "history":
        return ("hist", c["mg"], tuple((cm.canon(st["graph"]), st["node"], st.get("bad"), repr(st.get("edits") or []))
                                       for st in c["steps"]),
                c["pattern"], tuple(c["anchors"]))
    return (c["mg"], cm.canon(c["graph"]), c["node"], c["pattern"], tuple(c["anchors"]))


def _deg(c, graph=None, node=None):
    g = c["graph"] if graph is None else graph
    node = c["node"] if graph is None else node
    return g.degree(node) if node in g else -1


def nontrivial(c, out):
    if c["kind"] == "mtie":
        return len(c["ops"]) >= 3
    if c["kind"] == "history":
        # at least two calls that actually re-attach a bond
        return sum(1 for st in c["steps"] if st.get("bad") is None and _deg(c, st["graph"], st["node"]) >= 1) >= 2 \
            or (any(st.get("bad") is not None for st in c["steps"])
                and any(st.get("bad") is None and _deg(c, st["graph"], st["node"]) >= 1 for st in c["steps"]))
    return _deg(c) >= 1


def _contig(g):
    return sorted(g.nodes) == list(range(g.number_of_nodes()))


def classes(c, out):
    if c["kind"] == "mtie":
        yield "kind=mtie"
        return
    if c["kind"] == "history":
        yield "kind=history"
        yield "history_class=" + ("multigraph" if c["mg"] else "graph")
        yield "history_steps=%d" % len(c["steps"])
        if any(st["order"] == "chained" for st in c["steps"]):
            yield "history_chained=yes"
        yield "history_anchors=%s" % ("1" if len(c["anchors"]) == 1 else "0" if not c["anchors"] else "2+")
        # calls after the first one in which the anchor ORDER matters (degree >= 2, >= 2 distinct anchors)
        late = sum(1 for st in c["steps"][1:] if st.get("bad") is None and _deg(c, st["graph"], st["node"]) >= 2)
        if late and len(set(c["anchors"])) >= 2:
            yield "history_late_call_order_sensitive=yes"
        if c.get("default_anchor"):
            yield "default_anchor=yes"
        states = step_states(c)
        pat_prev, anc_prev = c["pattern"], list(c["anchors"])
        for j, st in enumerate(c["steps"]):
            if st.get("edits"):
                yield "history_edited_before_call=%s" % ("first" if j == 0 else "later")
                for e in st["edits"]:
                    yield "history_edit=" + e[0]
                la, lb = len(anc_prev), len(states[j][1])
                d = _deg(c, st["graph"], st["node"])
                yield "history_edit_anchor_len=" + ("longer" if lb > la else "shorter" if lb < la else "same")
                if st.get("bad") is None and d > min(la, lb) and states[j][1] != anc_prev:
                    yield "history_edit_changes_attachment=likely"
            pat_prev, anc_prev = states[j]
        nbad = sum(1 for st in c["steps"] if st.get("bad") is not None)
        if nbad:
            yield "history_rejected_calls=%d" % nbad
            seen_bad = False
            for st, o in zip(c["steps"], out[1]):
                if st.get("bad") is not None:
                    seen_bad = True
                    yield "history_rejected_class=" + str(o[1][0])
                elif seen_bad and o[0] == "ok":
                    yield "history_valid_call_after_rejected=yes"
                    break
        for st, o in zip(c["steps"], out[1]):
            if st.get("bad") is None:
                yield "history_result=" + o[0]
        return
    g = c["graph"]
    d = _deg(c)
    yield "class=" + ("multigraph" if c["mg"] else "graph")
    yield "degree=" + (str(d) if d < 5 else "5+")
    yield "order=" + c["order"]
    yield "ids=" + ("contiguous" if _contig(g) else "other")
    yield "result=" + out[0]
    if c.get("default_anchor"):
        yield "default_anchor=yes"
    k = sub_graph(c).number_of_nodes()
    yield "pattern=" + ("empty" if k == 0 else "single" if k == 1 else "multi")
    if "{" in c["pattern"]:
        yield "pattern_has_label=yes"
    na = len(c["anchors"])
    if d >= 0 and k > 0:
        yield "anchors=" + ("empty" if na == 0 else "shorter" if na < d else "equal" if na == d else "longer")
        if na and (max(c["anchors"]) >= k or min(c["anchors"]) < 0):
            yield "anchors_out_of_range=yes"
        if len(set(c["anchors"])) < na:
            yield "anchors_repeated=yes"
        if any(a != 0 for a in c["anchors"]):
            yield "anchors_nonzero=yes"
    if any(isinstance(dd.get("bond"), tuple) for _, _, dd in g.edges(data=True)):
        yield "parent_its=yes"
    if c["mg"] and any(len(kd) > 1 for u in g._adj for kd in g._adj[u].values()):
        yield "parent_parallel=yes"
        if c["node"] in g and any(len(kd) > 1 for kd in g._adj[c["node"]].values()):
            yield "node_parallel=yes"
    if any(g.nodes[n].get("is_labeled") for n in g.nodes if n != c["node"]):
        yield "other_labelled=yes"
    if c["node"] in g:
        # adjacency order of the replaced node differs from what copy()/compose() would produce
        norm = [v for _, v, *_ in nx.compose(g, g.__class__()).edges(c["node"])]
        if norm != [v for _, v, *_ in g.edges(c["node"])]:
            yield "incident_order_not_normal=yes (D21 situation)"


def py_invariants(c, out):
    """Runtime facts a pure model cannot show (computed in run_impl, where the objects are at hand):
    the graph argument, the ProxyGraph (pattern, anchor list object and contents), the caller's anchor
    list and the default anchor list are unchanged, the Parser object still parses, and in a history no
    earlier result is modified by a later call."""
    return list(out[-1])


def repeat_ok(c):
    # the operation-sequence cases carry their operand graphs inside the case itself (returned as part of the
    # outcome), so the engine's "edit the first result in place, then repeat" probe would edit the inputs
    return c.get("kind") != "mtie"
