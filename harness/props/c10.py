"""C10 — ITS round trips. Correspondence: Model.Its.split_its ~ fgutils.its.split_its / ITS.split,
Model.Its.get_its ~ fgutils.its.get_its (compositions), Model.Its.ITS_init ~ ITS.__init__.
The SMILES leg (ITS.to_smiles / ITS.from_smiles) is validated against RDKit as an oracle only."""
import lib
import gens
import coqterm as ct
import networkx as nx
from fgutils.its import get_its, split_its, ITS
from fgutils.parse import parse
from fgutils.rdkit import graph_to_smiles, mol_smiles_to_graph
from props.c09 import (WIDE_SYMS, pick_syms, rand_valid_mol, edit_bonds, make_smiles_case, make_reaction, add_derivation, rand_deriv,
                       rand_aam_map, derive, graph_level_state, args_untouched)

import contextlib
import io
import fgutils
import fgutils.its
import fgutils.utils


def _discover_split_entries():
    """Every entry point that splits an ITS graph: fgutils.its.split_its, the deprecated copy fgutils.utils.split_its
    (prints a warning) and, if the package root exports the name, that alias too. ITS.split is exercised by the
    class_split / class_seq operations."""
    entries = {"its": fgutils.its.split_its}
    if hasattr(fgutils.utils, "split_its"):
        entries["utils"] = fgutils.utils.split_its
    if hasattr(fgutils, "split_its") and callable(getattr(fgutils, "split_its")):
        entries["package"] = fgutils.split_its
    return entries


SPLIT_ENTRIES = _discover_split_entries()


def do_split(its, entry="its"):
    """split through the chosen entry point; the deprecation warning printed on stdout is swallowed"""
    f = SPLIT_ENTRIES.get(entry, split_its)
    with contextlib.redirect_stdout(io.StringIO()):
        return f(its)


def pick_entry(rng):
    names = sorted(SPLIT_ENTRIES)
    return "its" if rng.random() < 0.5 or len(names) == 1 else rng.choice([n for n in names if n != "its"])


ID = "C10"
REPEAT_PROBE = True   # engine: repeat 1 call in 5 after editing its first result in place (purity / no shared state)
PROPS = "Props/C10.v"
MODEL_FILES = ["Model/Its.v", "Spec/ItsSpec.v", "Spec/ItsCheck.v"]
IMPORTS = "From FGV Require Import Model.Aam Model.Its Spec.ItsSpec Spec.ItsCheck."
CHECKS = ["agree", "spec"]
CORRESPONDENCE = ("Model.Its.split_its ~ fgutils.its.split_its (and ITS.split after Model.Its.ITS_init ~ ITS.__init__); "
                  "Model.Its.get_its ~ fgutils.its.get_its in the two compositions; compared as labelled graphs "
                  "(node -> attributes, edge -> label)")
RULE = ("op split / class_split: random ITS graphs = (a) fgutils.parse of generated ITS patterns (RC bonds <g,h> with g,h in 0..4, "
        "'<,h>' defaults, explicit and implicit bonds, aromatic atoms, branches, rings, node labels; with and without init_aam), "
        "(b) random molecules whose bonds are replaced by a mix of tuple (g,h), list [g,h] and scalar labels with orders in "
        "{0,1,1.5,2,3,4} incl. unchanged bonds, (0,0) and scalar 0, all id schemes and shuffled insertion orders, "
        "(c) ITS.from_smiles of RDKit-written mapped reactions (these also run the SMILES leg: string -> ITS -> to_smiles -> from_smiles, once more with every map number shifted by 995 / 9990 / 99990, "
        "from_smiles, and, started from the generating graphs without fgutils' reader, ITS(get_its(G,H)) -> to_smiles -> "
        "from_smiles and from_smiles(written reaction) = get_its(G,H)): C/N/O skeletons with orders 1-3, metal-metal "
        "quadruple bonds ('$', Mo/W/Re/Cr with halide/C/O ligands, order 4 <-> 3/2/1/none), benzene/pyridine rings "
        "(1.5) with substituent changes and side-chain triple bonds, biaryl systems with a SINGLE bond between two aromatic "
        "atoms (RDKit-checked: biphenyl, phenylpyridine, bipyridyl, N-phenylpyrrole, fluorene, biphenylene; inter-ring bond "
        "unchanged / formed (0,1) / broken (1,0), Suzuki-type, both as hand-written strings and written from source graphs), "
        "templates inside the known-finding class; every fully mapped string is also compared with the superposition RDKit "
        "itself reports (atoms by map number, Bond.GetBondTypeAsDouble), an oracle independent of fgutils' reader; "
        "op split_hist / its_split_hist: derivation histories -- the base graph OBJECTS first go through split_its (+ get_its) "
        "resp. get_its + split_its, the graphs under test are derived from those objects with Graph.copy / nx.relabel_nodes"
        "(copy=True|False) / subgraph(..).copy() / the same object, ids permuted, map numbers permuted / renumbered / dropped, "
        "and split_its resp. split_its(get_its(..)) on the derived objects is compared with the model on the derived contents "
        "(its_split_hist also runs its_checkb on the intermediate ITS); every call is checked to leave nodes, adjacency, all "
        "attribute dicts and the graph-level dict of its arguments unchanged; "
        "op resup also on ITS graphs that are OUTPUTS of get_its on graphs whose ids differ from the map numbers (ids re-assigned "
        "independently, or RDKit ids via ITS.from_smiles), so that every node carries an idx_map pointing at foreign ids which the "
        "halves of split_its inherit, and on ITS graphs with stale / arbitrary hand-set idx_map attributes; "
        "op resup: ITS graphs named by positive map numbers in any order, get_its(*split_its(its)) computed by the implementation; "
        "op its_split: fully mapped reactions (same atoms both sides, ids = map numbers, independent insertion orders), "
        "split_its(get_its(G,H)) computed by the implementation. non-trivial = at least one tuple/list label with differing "
        "components or a 0 component (split, resup) / at least one changed bond (its_split); distinct = distinct input graphs")
TRUSTED = ["model of the attribute dict as a record of the five keys FGUtils uses",
           "RDKit's SMILES writer and reader (graph_to_smiles / smiles_to_graph) are oracles, not modelled: the sentence "
           "'writing an ITS to reaction SMILES and reading it back yields the same ITS up to map-preserving isomorphism' is "
           "validated at run time on every generated valid mapped reaction (py_invariants), not proved"]
ASSUMPTIONS = ["node ids and map numbers are Python ints; bond labels are scalars, 2-tuples or 2-lists of multiples of 0.5",
               "round-trip theorems: ITS nodes are named by their positive map number (as ITS.from_smiles produces them)",
               "SMILES leg: every atom mapped; atoms and bond orders RDKit can represent and sanitise (C/N/O skeletons with "
               "integer orders, aromatic rings and hand-written templates); no isotope labels or radicals. Reactions with a "
               "charged atom or an aromatic hetero-atom bearing hydrogen are the known finding KF-C10-smiles-charge-arH "
               "(the graph stores neither charges nor hydrogen counts): a round-trip failure inside that class is announced "
               "as KNOWN-FINDING, not reported as a violation"]

ORD = [0, 1, 1, 1, 1.5, 2, 2, 3, 4]


def rand_label(rng, kinds=("tuple", "tuple", "tuple", "list", "scalar")):
    k = rng.choice(kinds)
    if k == "scalar":
        return rng.choice([1, 1, 2, 1.5, 3, 0])
    a, b = rng.choice(ORD), rng.choice(ORD)
    if rng.random() < 0.3:
        b = a
    return (a, b) if k == "tuple" else [a, b]


def rand_its_graph(rng, nmax=8):
    g = gens.rand_mol(rng, 1, nmax, syms=pick_syms(rng))
    kinds = rng.choice([("tuple",), ("tuple", "list"), ("tuple", "tuple", "list", "scalar"), ("list",), ("scalar", "tuple")])
    for u, v in g.edges:
        g[u][v]["bond"] = rand_label(rng, kinds)
    return g


ATOMS = ["C", "C", "C", "N", "O", "S", "Cl", "c", "c", "c", "n", "n", "o", "s", "b", "p", "H", "Si", "R", "Br", "Sn"]


def rand_pattern(rng, its=True):
    """A random pattern in the fgutils.parse language with reaction-centre bonds."""
    n = rng.randint(1, 7)
    out = []
    open_rings = []
    next_ring = 1
    depth = 0

    def bond():
        r = rng.random()
        if its and r < 0.4:
            a = rng.choice(["", "0", "1", "2", "3", "4"])
            b2 = rng.choice(["", "0", "1", "2", "3", "4"])
            return "<%s,%s>" % (a, b2)
        if r < 0.6:
            return ""
        return rng.choice(["-", "=", "#", "$", ":"])

    def atom():
        if rng.random() < 0.08:
            return "{" + rng.choice(["alkyl", "aryl,alkyl", "x_1"]) + "}"
        return rng.choice(ATOMS)

    out.append(atom())
    for i in range(1, n):
        r = rng.random()
        if r < 0.2:
            out.append("(" + bond() + atom() + ")")
            continue
        out.append(bond() + atom())
        if rng.random() < 0.2 and not open_rings:
            out.append(str(next_ring))
            open_rings.append((next_ring, i))
            next_ring += 1
        elif open_rings and i - open_rings[0][1] >= 2 and rng.random() < 0.6:
            rn, _ = open_rings.pop(0)
            out.append(bond() + str(rn))
    s = "".join(out)
    return s


def positive_ids(rng, n):
    scheme = rng.choice(["from1", "offset", "sparse", "shuffled"])
    if scheme == "from1":
        ids = list(range(1, n + 1))
    elif scheme == "offset":
        k = rng.randint(2, 20)
        ids = list(range(k, k + n))
    elif scheme == "sparse":
        ids = sorted(rng.sample(range(1, 5 * n + 5), n))
    else:
        ids = rng.sample(range(1, 3 * n + 2), n)
    return ids, scheme


def rebuild(rng, g, m, shuffle, aam=True):
    """g renamed by m with shuffled node / edge insertion order; nodes get aam = new id."""
    h = nx.Graph()
    order = list(g.nodes)
    es = list(g.edges(data=True))
    if shuffle:
        rng.shuffle(order)
        rng.shuffle(es)
    for u in order:
        d = dict(g.nodes[u])
        if aam:
            d["aam"] = m[u]
        h.add_node(m[u], **d)
    for u, v, d in es:
        if shuffle and rng.random() < 0.5:
            u, v = v, u
        bd = d["bond"]
        h.add_edge(m[u], m[v], bond=list(bd) if isinstance(bd, list) else bd)
    return h


METALS = ["Mo", "W", "Re", "Cr"]


def _written_case(g, h, src):
    """A SMILES-leg case written from the source graphs (g, h); the graphs stay with the case as an oracle that
    does not pass through fgutils' SMILES reader."""
    smi = graph_to_smiles(g) + ">>" + graph_to_smiles(h)
    return {"op": "smiles_split", "smiles": smi, "its": ITS.from_smiles(smi).graph, "src": src, "srcG": g, "srcH": h}


def rand_metal_case(rng):
    """Metal-metal quadruple bond (SMILES '$', order 4) on one side, order 3/2/1/none on the other; halide and
    carbon ligands; shuffled map numbers."""
    g = nx.Graph()
    m1, m2 = rng.choice(METALS), rng.choice(METALS)
    if rng.random() < 0.6:
        m2 = m1
    g.add_node(0, symbol=m1)
    g.add_node(1, symbol=m2)
    g.add_edge(0, 1, bond=4)
    nid = 2
    for m in (0, 1):
        for _ in range(rng.randint(0, 2)):
            g.add_node(nid, symbol=rng.choice(["Cl", "Cl", "Br", "C", "O"]))
            g.add_edge(m, nid, bond=1)
            nid += 1
    h = gens.copy_exact(g)
    other = rng.choice([3, 3, 2, 1, 0, 4])
    if other == 0:
        h.remove_edge(0, 1)
    else:
        h[0][1]["bond"] = other
    if nid > 2 and rng.random() < 0.4:
        lig = rng.randrange(2, nid)
        m = next(iter(h[lig]))
        h.remove_edge(m, lig)
        if rng.random() < 0.5:
            h.add_edge(1 - m, lig, bond=1)
    nums = list(range(1, nid + 1))
    rng.shuffle(nums)
    for i, k in zip(range(nid), nums):
        g.nodes[i]["aam"] = k
        h.nodes[i]["aam"] = k
    if rng.random() < 0.5:
        g, h = h, g
    return _written_case(g, h, "smiles_quad")


def rand_aromatic_case(rng):
    """Benzene / pyridine ring (order 1.5) whose substituents are cut off, moved or bound; also a triple bond
    in a side chain."""
    g = nx.Graph()
    ring = ["C"] * 6
    if rng.random() < 0.3:
        ring[0] = "N"
    for i, sy in enumerate(ring):
        g.add_node(i, symbol=sy)
    for i in range(6):
        g.add_edge(i, (i + 1) % 6, bond=1.5)
    nid = 6
    pos = rng.sample(range(1, 6), rng.randint(1, 3))
    subs = []
    for p in pos:
        sy = rng.choice(["Cl", "Br", "O", "N", "C", "C"])
        g.add_node(nid, symbol=sy)
        g.add_edge(p, nid, bond=1)
        subs.append((p, nid))
        nid += 1
        if sy == "C" and rng.random() < 0.5:
            g.add_node(nid, symbol=rng.choice(["C", "N"]))
            g.add_edge(nid - 1, nid, bond=3)
            nid += 1
    h = gens.copy_exact(g)
    p, x = rng.choice(subs)
    h.remove_edge(p, x)
    free = [q for q in range(1, 6) if q not in pos]
    if free and rng.random() < 0.5:
        h.add_edge(rng.choice(free), x, bond=1)
    nums = list(range(1, nid + 1))
    rng.shuffle(nums)
    for i, k in zip(range(nid), nums):
        g.nodes[i]["aam"] = k
        h.nodes[i]["aam"] = k
    if rng.random() < 0.5:
        g, h = h, g
    return _written_case(g, h, "smiles_arom")


# mapped reactions whose molecules contain a SINGLE bond between two aromatic atoms (checked with RDKit, see
# has_aromatic_single_bond): biaryl bond formed / broken / unchanged, in-ring single bonds of fluorene and biphenylene
BIARYL_TEMPLATES = [
    # Suzuki coupling: bromobenzene + phenylboronic acid -> biphenyl (inter-ring bond formed (0,1))
    "[cH:1]1[cH:2][cH:3][cH:4][cH:5][c:6]1[Br:7].[cH:8]1[cH:9][cH:10][cH:11][cH:12][c:13]1[B:14]([OH:15])[OH:16]>>"
    "[cH:1]1[cH:2][cH:3][cH:4][cH:5][c:6]1-[c:13]1[cH:8][cH:9][cH:10][cH:11][cH:12]1.[Br:7][B:14]([OH:15])[OH:16]",
    # the reverse: inter-ring bond broken (1,0)
    "[cH:1]1[cH:2][cH:3][cH:4][cH:5][c:6]1-[c:13]1[cH:8][cH:9][cH:10][cH:11][cH:12]1.[Br:7][B:14]([OH:15])[OH:16]>>"
    "[cH:1]1[cH:2][cH:3][cH:4][cH:5][c:6]1[Br:7].[cH:8]1[cH:9][cH:10][cH:11][cH:12][c:13]1[B:14]([OH:15])[OH:16]",
    # 2-phenylpyridine by Suzuki coupling
    "[cH:1]1[cH:2][cH:3][cH:4][n:5][c:6]1[Cl:7].[cH:8]1[cH:9][cH:10][cH:11][cH:12][c:13]1[B:14]([OH:15])[OH:16]>>"
    "[cH:1]1[cH:2][cH:3][cH:4][n:5][c:6]1-[c:13]1[cH:8][cH:9][cH:10][cH:11][cH:12]1.[Cl:7][B:14]([OH:15])[OH:16]",
    # biphenyl chlorination: inter-ring bond unchanged (1,1)
    "[cH:1]1[cH:2][cH:3][cH:4][cH:5][c:6]1-[c:7]1[cH:8][cH:9][cH:10][cH:11][cH:12]1.[Cl:13][Cl:14]>>"
    "[cH:1]1[cH:2][c:3]([Cl:13])[cH:4][cH:5][c:6]1-[c:7]1[cH:8][cH:9][cH:10][cH:11][cH:12]1.[ClH:14]",
    # 2,2'-bipyridyl and N-phenylpyrrole, unchanged inter-ring bond, substituent exchanged
    "[cH:1]1[cH:2][c:3]([Br:13])[cH:4][n:5][c:6]1-[c:7]1[n:8][cH:9][cH:10][cH:11][cH:12]1.[ClH:14]>>"
    "[cH:1]1[cH:2][c:3]([Cl:14])[cH:4][n:5][c:6]1-[c:7]1[n:8][cH:9][cH:10][cH:11][cH:12]1.[BrH:13]",
    "[cH:1]1[cH:2][c:3]([Br:12])[cH:4][cH:5][c:6]1-[n:7]1[cH:8][cH:9][cH:10][cH:11]1.[ClH:13]>>"
    "[cH:1]1[cH:2][c:3]([Cl:13])[cH:4][cH:5][c:6]1-[n:7]1[cH:8][cH:9][cH:10][cH:11]1.[BrH:12]",
    # fluorene by ring closure: the new bond is a single bond between aromatic atoms inside a five-ring
    "[cH:1]1[cH:2][cH:3][cH:4][c:5]([Br:14])[c:6]1[CH2:7][c:8]1[cH:9][cH:10][cH:11][cH:12][cH:13]1>>"
    "[cH:1]1[cH:2][cH:3][cH:4][c:5]2[c:6]1[CH2:7][c:8]1[cH:9][cH:10][cH:11][cH:12][c:13]-21.[BrH:14]",
    # biphenylene (two in-ring single bonds between aromatic atoms), bromination
    "[cH:1]1[cH:2][cH:3][cH:4][c:5]2[c:6]1-[c:7]1[cH:8][cH:9][cH:10][cH:11][c:12]-21.[Br:13][Br:14]>>"
    "[cH:1]1[cH:2][c:3]([Br:13])[cH:4][c:5]2[c:6]1-[c:7]1[cH:8][cH:9][cH:10][cH:11][c:12]-21.[BrH:14]",
]


def has_aromatic_single_bond(smiles):
    """RDKit reports a SINGLE bond between two aromatic atoms on some side (decided on the input)."""
    import rdkit.Chem as Chem
    for part in smiles.split(">>"):
        mol = Chem.MolFromSmiles(part)
        if mol is None:
            continue
        for b in mol.GetBonds():
            if b.GetBondType() == Chem.rdchem.BondType.SINGLE and b.GetBeginAtom().GetIsAromatic() \
                    and b.GetEndAtom().GetIsAromatic():
                return True
    return False


def _add_ring(g, start, syms):
    for i, sy in enumerate(syms):
        g.add_node(start + i, symbol=sy)
    for i in range(len(syms)):
        g.add_edge(start + i, start + (i + 1) % len(syms), bond=1.5)


def rand_biaryl_case(rng):
    """Two aromatic rings (benzene / pyridine / N-attached pyrrole) joined by a SINGLE bond between aromatic atoms:
    unchanged, formed (0,1) or broken (1,0) (Suzuki-type: halide + boronic acid); optionally a CH2 bridge (fluorene)
    or a second ortho-ortho bond (biphenylene), so that the single bond lies inside a ring."""
    r1 = rng.choice([["C"] * 6, ["C"] * 6, ["C", "N", "C", "C", "C", "C"], ["C", "C", "C", "N", "C", "C"]])
    r2 = rng.choice([["C"] * 6, ["C"] * 6, ["C", "N", "C", "C", "C", "C"], ["N", "C", "C", "C", "C"]])
    fused = rng.choice([None, None, None, "fluorene", "biphenylene"])
    if fused and (r1[1] != "C" or r2[1] != "C" or r2[0] == "N"):
        fused = None
    g = nx.Graph()
    _add_ring(g, 0, r1)
    n1 = len(r1)
    _add_ring(g, n1, r2)
    a, b = 0, n1
    nid = n1 + len(r2)
    g.add_edge(a, b, bond=1)
    if fused == "fluorene":
        g.add_node(nid, symbol="C")
        g.add_edge(1, nid, bond=1)
        g.add_edge(n1 + 1, nid, bond=1)
        nid += 1
    elif fused == "biphenylene":
        g.add_edge(1, n1 + 1, bond=1)
    # a substituent somewhere else, exchanged on the other side
    free = [i for i in list(range(2, n1)) + list(range(n1 + 2, n1 + len(r2))) if g.nodes[i]["symbol"] == "C"]
    sub_at = rng.choice(free)
    x, y = nid, nid + 1
    g.add_node(x, symbol=rng.choice(["Cl", "Br", "C"]))
    g.add_node(y, symbol=rng.choice(["Cl", "Br", "O"]))
    g.add_edge(sub_at, x, bond=1)
    nid += 2
    h = gens.copy_exact(g)
    mode = rng.choice(["unchanged", "formed", "formed", "broken"])
    if mode == "unchanged" or r2[0] == "N":
        mode = "unchanged"
        h.remove_edge(sub_at, x)
        h.add_edge(sub_at, y, bond=1)
    else:
        # the coupling partners: halide on a, boronic acid on b; they leave as X-B(O)(O)
        hal, bor, o1, o2 = nid, nid + 1, nid + 2, nid + 3
        for gr in (g, h):
            gr.add_node(hal, symbol=rng.choice(["Br", "Cl"]) if gr is g else g.nodes[hal]["symbol"])
            gr.add_node(bor, symbol="B")
            gr.add_node(o1, symbol="O")
            gr.add_node(o2, symbol="O")
            gr.add_edge(bor, o1, bond=1)
            gr.add_edge(bor, o2, bond=1)
        nid += 4
        g.remove_edge(a, b)             # the bond does not exist before the coupling
        g.add_edge(a, hal, bond=1)
        g.add_edge(b, bor, bond=1)
        h.add_edge(hal, bor, bond=1)
        if fused == "biphenylene":
            pass                        # the second ortho-ortho bond is present on both sides
    nums = list(range(1, nid + 1))
    rng.shuffle(nums)
    for i, k in zip(range(nid), nums):
        g.nodes[i]["aam"] = k
        h.nodes[i]["aam"] = k
    if mode == "broken":
        g, h = h, g
    c = _written_case(g, h, "smiles_biaryl")
    if not has_aromatic_single_bond(c["smiles"]):
        raise ValueError("RDKit does not report a single bond between aromatic atoms here")
    return c


def gen_split(rng):
    r = rng.random()
    if r < 0.35:
        for _ in range(20):
            pat = rand_pattern(rng, its=rng.random() < 0.85)
            try:
                g = parse(pat, init_aam=rng.random() < 0.5, idx_offset=rng.choice([0, 0, 1, 5]))
            except Exception:
                continue
            if rng.random() < 0.3:
                g, _, _ = gens.reid(rng, g)
            return {"op": rng.choice(["split", "split", "class_split"]), "its": g, "src": "parse", "pattern": pat}
    if r < 0.58:
        try:
            if r >= 0.55:
                smi = rng.choice(KF_TEMPLATES)
                return {"op": "smiles_split", "smiles": smi, "its": ITS.from_smiles(smi).graph, "src": "smiles_kf"}
            c = make_smiles_case(rng, full=True)
            return {"op": "smiles_split", "smiles": c["smiles"], "its": ITS.from_smiles(c["smiles"]).graph, "src": "smiles",
                    "srcG": c["srcG"], "srcH": c["srcH"]}
        except Exception:
            pass
    if r < 0.66:
        try:
            return rand_metal_case(rng) if r < 0.63 else rand_aromatic_case(rng)
        except Exception:
            pass
    if r < 0.72:
        try:
            if r < 0.68:
                smi = rng.choice(BIARYL_TEMPLATES)
                return {"op": "smiles_split", "smiles": smi, "its": ITS.from_smiles(smi).graph, "src": "smiles_biaryl_tpl"}
            return rand_biaryl_case(rng)
        except Exception:
            pass
    g = rand_its_graph(rng)
    if rng.random() < 0.5:
        k = rng.choice([0, 1, 3])
        for nd in g.nodes:
            if rng.random() < 0.7:
                g.nodes[nd]["aam"] = nd + k
    g, scheme, _ = gens.reid(rng, g)
    return {"op": rng.choice(["split", "split", "split", "class_split"]), "its": g, "src": "random/" + scheme}


def stale_idx_maps(rng, g):
    """idx_map attributes set by hand: other nodes' ids, swapped / equal / out-of-graph ids, on some or all nodes"""
    ns = list(g.nodes)
    how = rng.choice(["other_nodes", "constant", "outside", "mixed"])
    for n in ns:
        if rng.random() < 0.8:
            if how == "other_nodes":
                im = (rng.choice(ns), rng.choice(ns))
            elif how == "constant":
                im = (ns[0], ns[-1])
            elif how == "outside":
                im = (rng.randint(100, 120), rng.randint(-20, -1))
            else:
                im = (rng.choice(ns + [0, 77]), rng.choice(ns + [0, 77]))
            g.nodes[n]["idx_map"] = im
    return g


def gen_resup_from_get_its(rng):
    """An ITS that is itself an OUTPUT of get_its on graphs whose node ids differ from the map numbers (ids re-assigned
    independently on both sides, or supplied by RDKit): every node carries idx_map = (id in G, id in H), which the
    halves returned by split_its inherit."""
    if rng.random() < 0.3:
        try:
            c = make_smiles_case(rng, full=rng.random() < 0.7)
            return {"op": "resup", "its": ITS.from_smiles(c["smiles"]).graph, "src": "resup/from_smiles"}
        except Exception:
            pass
    for _ in range(10):
        c = make_reaction(rng, rng.choice(["identity", "shuffled", "partial", "onesided", "mixed"]))
        its = get_its(gens.copy_exact(c["G"]), gens.copy_exact(c["H"]))
        if its.number_of_nodes() >= 1 and all(n > 0 for n in its.nodes):
            break
    if rng.random() < 0.3:
        its, _, _ = gens.reid(rng, its, "shuffled")      # another insertion order; ids restored to the map numbers below
        its = nx.relabel_nodes(its, {n: d["aam"] for n, d in its.nodes(data=True)}, copy=True)
    return {"op": "resup", "its": its, "src": "resup/get_its_output"}


def gen_resup(rng):
    r = rng.random()
    if r < 0.3:
        return gen_resup_from_get_its(rng)
    r = rng.random()
    if r < 0.3:
        for _ in range(20):
            pat = rand_pattern(rng, its=True)
            try:
                g = parse(pat)
            except Exception:
                continue
            for nd in g.nodes:
                for key in ("labels", "is_labeled"):
                    if rng.random() < 0.7:
                        g.nodes[nd].pop(key, None)
            break
        else:
            g = rand_its_graph(rng)
    else:
        g = rand_its_graph(rng)
    ids, scheme = positive_ids(rng, g.number_of_nodes())
    m = dict(zip(list(g.nodes), ids))
    its = rebuild(rng, g, m, shuffle=scheme != "from1" or rng.random() < 0.5)
    if rng.random() < 0.3:
        return {"op": "resup", "its": stale_idx_maps(rng, its), "src": "resup/stale_idx_map"}
    return {"op": "resup", "its": its, "src": "resup/" + scheme}


def gen_its_split(rng):
    syms = pick_syms(rng)
    g = gens.rand_mol(rng, 1, 8, syms=syms)
    h = gens.copy_exact(g)
    edit_bonds(rng, h, rng.choice([0, 1, 2, 3, 4]))
    if rng.random() < 0.1:
        h.nodes[rng.choice(list(h.nodes))]["symbol"] = rng.choice(syms)
    ids, scheme = positive_ids(rng, g.number_of_nodes())
    m = dict(zip(list(g.nodes), ids))
    G = rebuild(rng, g, m, shuffle=True)
    H = rebuild(rng, h, m, shuffle=True)
    return {"op": "its_split", "G": G, "H": H, "src": "its_split/" + scheme}


def _generate(seed, tier, ncases=None):
    n = ncases or (800 if tier == "quick" else 30000)
    for i in range(n):
        rng = lib.rng_for(seed, ID, i)
        r = rng.random()
        if r < 0.5:
            c = gen_split(rng)
            if c["op"] == "class_split" and rng.random() < 0.6:
                # history on ONE ITS object: split / to_smiles, then prune, then split again; the last split
                # must describe the object's CURRENT graph
                c["op"] = "class_seq"
                c["radius"] = rng.choice([0, 0, 1, 2])
                c["ih"] = rng.random() < 0.5
                c["pre"] = rng.choice(["split", "smiles", "both"])
            if c["op"] == "split" and c["src"] != "corpus" and rng.random() < 0.12:
                # derivation history: the base ITS object is split (and re-superimposed) first, the ITS under test is
                # derived from that very object (copy / relabel_nodes / subgraph / same), then split
                its0 = c["its"]
                c["op"], c["its0"] = "split_hist", its0
                c["deriv"] = rand_deriv(rng, its0, rand_aam_map(rng, [its0]) if rng.random() < 0.6 else [])
                c["its"] = gens.copy_exact(derive(gens.copy_exact(its0), c["deriv"]))
            yield c
        elif r < 0.75:
            yield gen_resup(rng)
        elif r < 0.83:
            # derivation history through both functions: get_its + split_its on the base objects, derived graphs,
            # then get_its and split_its on the derived objects
            c = add_derivation(rng, make_reaction(rng, rng.choice(["identity", "shuffled", "partial", "onesided", "mixed"])))
            c["op"], c["src"] = "its_split_hist", "history/" + c["derivG"]["how"] + "/" + c["derivH"]["how"]
            yield c
        else:
            yield gen_its_split(rng)


def generate(seed, tier, ncases=None):
    n = ncases or (800 if tier == "quick" else 30000)
    for i, c in enumerate(_generate(seed, tier, n)):
        if c["op"] in ("split", "smiles_split", "split_hist", "resup", "its_split", "its_split_hist"):
            c["entry"] = pick_entry(lib.rng_for(seed, ID + "/entry", i))
        yield c


def corpus():
    # D11 witness: map numbers not ascending along the edge list
    its = nx.Graph()
    for k in (3, 1, 2):
        its.add_node(k, symbol="C", aam=k)
    its.add_edge(3, 1, bond=(1, 0))
    its.add_edge(1, 2, bond=(2, 2))
    its.add_edge(2, 3, bond=(0, 1))
    yield {"op": "resup", "its": its, "src": "corpus"}
    yield {"op": "split", "its": gens.copy_exact(its), "src": "corpus"}
    for name in sorted(SPLIT_ENTRIES):
        if name != "its":
            yield {"op": "split", "its": gens.copy_exact(its), "src": "corpus", "entry": name}
    g = parse("C<1,2>C(<0,1>O)=O")
    g[1][3]["bond"] = [2, 0]
    yield {"op": "split", "its": g, "src": "corpus"}
    for smi in ["[cH:1]1[cH:2][cH:3][cH:4][cH:5][cH:6]1.[Cl:7][Cl:8]>>[cH:1]1[cH:2][cH:3][cH:4][cH:5][c:6]1[Cl:7].[ClH:8]",
                "[CH3:1][CH:2]=[O:3].[OH2:4]>>[CH3:1][CH:2]([OH:4])[OH:3]",
                "[CH2:1]=[CH:2][CH:3]=[CH2:4].[CH2:5]=[CH2:6]>>[CH2:1]1[CH:2]=[CH:3][CH2:4][CH2:5][CH2:6]1"]:
        yield {"op": "smiles_split", "smiles": smi, "its": ITS.from_smiles(smi).graph, "src": "corpus"}


def run_impl(c):
    try:
        if c["op"] in ("split", "smiles_split"):
            its = gens.copy_exact(c["its"])
            st = graph_level_state(its)
            g, h = do_split(its, c.get("entry", "its"))
            return ("ok", g, h, args_untouched(its, c["its"], st))
        if c["op"] == "split_hist":
            its0 = gens.copy_exact(c["its0"])
            a, b = do_split(its0, c.get("entry", "its"))
            try:
                get_its(a, b)
            except Exception:   # noqa  (halves of an arbitrary labelled graph need not be valid get_its input)
                pass
            its = derive(its0, c["deriv"])
            if not gens.graphs_identical(its, c["its"]):
                return ("HarnessError", "derived graph differs from the recorded contents")
            st = graph_level_state(its)
            g, h = do_split(its, c.get("entry", "its"))
            return ("ok", g, h, args_untouched(its, c["its"], st))
        if c["op"] == "its_split_hist":
            g0, h0 = gens.copy_exact(c["G0"]), gens.copy_exact(c["H0"])
            do_split(get_its(g0, h0), c.get("entry", "its"))
            G, H = derive(g0, c["derivG"]), derive(h0, c["derivH"])
            if not (gens.graphs_identical(G, c["G"]) and gens.graphs_identical(H, c["H"])):
                return ("HarnessError", "derived graphs differ from the recorded contents")
            sg, sh = graph_level_state(G), graph_level_state(H)
            its = get_its(G, H)
            its_ref, si = gens.copy_exact(its), graph_level_state(its)
            g, h = do_split(its, c.get("entry", "its"))
            ok = args_untouched(G, c["G"], sg) and args_untouched(H, c["H"], sh) and args_untouched(its, its_ref, si)
            return ("ok", g, h, ok, its)
        if c["op"] == "class_split":
            its = gens.copy_exact(c["its"])
            obj = ITS(its)
            g, h = obj.split()
            return ("ok", g, h, True, obj.graph)
        if c["op"] == "class_seq":
            its = gens.copy_exact(c["its"])
            obj = ITS(its)
            if c["pre"] in ("split", "both"):
                obj.split()
            if c["pre"] in ("smiles", "both"):
                try:
                    obj.to_smiles()
                except Exception:   # noqa  (placeholder / wildcard atoms cannot be written)
                    pass
            try:
                obj.prune(radius=c["radius"], insert_hydrogens=c["ih"])
            except Exception:       # noqa  (scalar labels make get_rc raise; the object keeps its graph)
                pass
            g, h = obj.split()
            return ("ok", g, h, True, obj.graph)
        if c["op"] == "resup":
            its = gens.copy_exact(c["its"])
            st = graph_level_state(its)
            g, h = do_split(its, c.get("entry", "its"))
            g_ref, h_ref, sg, sh = gens.copy_exact(g), gens.copy_exact(h), graph_level_state(g), graph_level_state(h)
            out = get_its(g, h)
            ok = args_untouched(its, c["its"], st) and args_untouched(g, g_ref, sg) and args_untouched(h, h_ref, sh)
            return ("ok", out, None, ok)
        if c["op"] == "its_split":
            G, H = gens.copy_exact(c["G"]), gens.copy_exact(c["H"])
            sg, sh = graph_level_state(G), graph_level_state(H)
            its = get_its(G, H)
            its_ref, si = gens.copy_exact(its), graph_level_state(its)
            g, h = do_split(its, c.get("entry", "its"))
            ok = args_untouched(G, c["G"], sg) and args_untouched(H, c["H"], sh) and args_untouched(its, its_ref, si)
            return ("ok", g, h, ok)
    except Exception as e:
        return (type(e).__name__, str(e))
    raise ValueError(c["op"])


def coq_case(c, out):
    op = c["op"]
    if op in ("its_split", "its_split_hist"):
        defs = {"G": ct.graph(c["G"]), "H": ct.graph(c["H"])}
    else:
        defs = {"its": ct.graph(c["its"])}
    if out[0] != "ok":
        return {"defs": defs, "checks": {"agree": "false", "spec": "false"}, "diag": []}
    if op == "its_split_hist":
        defs["g"], defs["h"], defs["its"] = ct.graph(out[1]), ct.graph(out[2]), ct.graph(out[4])
        agree = ("graph_equivb (get_its $G $H) $its && graph_equivb (fst (split_its (get_its $G $H))) $g "
                 "&& graph_equivb (snd (split_its (get_its $G $H))) $h")
        spec = "its_checkb $G $H $its && split_okb $its ($g, $h)"
        diag = ["get_its $G $H", "split_its (get_its $G $H)"]
    elif op in ("split", "smiles_split", "split_hist"):
        defs["g"], defs["h"] = ct.graph(out[1]), ct.graph(out[2])
        agree = "graph_equivb (fst (split_its $its)) $g && graph_equivb (snd (split_its $its)) $h"
        spec = "split_okb $its ($g, $h)"
        diag = ["split_its $its", "graph_eqb (fst (split_its $its)) $g && graph_eqb (snd (split_its $its)) $h"]
    elif op == "class_split":
        defs["g"], defs["h"], defs["its2"] = ct.graph(out[1]), ct.graph(out[2]), ct.graph(out[4])
        agree = ("match ITS_init $its with Some i => graph_eqb i $its2 && graph_equivb (fst (ITS_split i)) $g "
                 "&& graph_equivb (snd (ITS_split i)) $h | None => false end")
        spec = "split_okb $its2 ($g, $h)"
        diag = ["ITS_init $its"]
    elif op == "class_seq":
        defs["g"], defs["h"], defs["its2"] = ct.graph(out[1]), ct.graph(out[2]), ct.graph(out[4])
        agree = "graph_equivb (fst (split_its $its2)) $g && graph_equivb (snd (split_its $its2)) $h"
        spec = "split_okb $its2 ($g, $h)"
        diag = ["split_its $its2"]
    elif op == "resup":
        defs["out"] = ct.graph(out[1])
        agree = "graph_equivb (get_its (fst (split_its $its)) (snd (split_its $its))) $out"
        spec = "ids_are_aamb $its && resuperimpose_okb $its $out"
        diag = ["get_its (fst (split_its $its)) (snd (split_its $its))"]
    else:
        defs["g"], defs["h"] = ct.graph(out[1]), ct.graph(out[2])
        agree = ("graph_equivb (fst (split_its (get_its $G $H))) $g && graph_equivb (snd (split_its (get_its $G $H))) $h")
        spec = "ids_are_aamb $G && ids_are_aamb $H && split_after_its_okb $G $H $g $h"
        diag = ["split_its (get_its $G $H)"]
    return {"defs": defs, "checks": {"agree": agree, "spec": spec}, "diag": diag}


def describe(c):
    d = {"op": c["op"], "src": c["src"]}
    for k in ("its", "G", "H", "srcG", "srcH", "its0", "G0", "H0"):
        if k in c:
            d[k] = ct.graph_py(c[k])
    for k in ("smiles", "pattern", "radius", "ih", "pre", "deriv", "derivG", "derivH", "entry"):
        if k in c:
            d[k] = c[k]
    return d


def from_json(d):
    c = {"op": d["op"], "src": d["src"]}
    for k in ("its", "G", "H", "srcG", "srcH", "its0", "G0", "H0"):
        if k in d:
            c[k] = ct.graph_from_py(d[k])
    for k in ("smiles", "pattern", "radius", "ih", "pre", "deriv", "derivG", "derivH", "entry"):
        if k in d:
            c[k] = d[k]
    return c


def describe_out(out):
    if out[0] != "ok":
        return {"status": out[0], "msg": out[1]}
    d = {"status": "ok", "first": ct.graph_py(out[1])}
    if out[2] is not None:
        d["second"] = ct.graph_py(out[2])
    return d


def _key(c):
    if c["op"] == "its_split":
        return (c["op"], ct.graph_canon(c["G"]), ct.graph_canon(c["H"]))
    if c["op"] == "its_split_hist":
        return (c["op"], repr(c["derivG"]), repr(c["derivH"]), ct.graph_canon(c["G0"]), ct.graph_canon(c["H0"]))
    if c["op"] == "split_hist":
        return (c["op"], repr(c["deriv"]), ct.graph_canon(c["its0"]))
    return (c["op"], ct.graph_canon(c["its"]))


def key(c):
    return (c.get("entry"),) + _key(c)


def _interesting_labels(g):
    n = 0
    for _, _, d in g.edges(data=True):
        bd = d["bond"]
        if isinstance(bd, (tuple, list)) and (bd[0] != bd[1] or bd[0] == 0):
            n += 1
    return n


def nontrivial(c, out):
    if out[0] != "ok":
        return False
    if c["op"] == "its_split_hist":
        return out[4].number_of_edges() >= 1
    if c["op"] == "its_split":
        G, H = c["G"], c["H"]
        eg = {frozenset(e[:2]): e[2]["bond"] for e in G.edges(data=True)}
        eh = {frozenset(e[:2]): e[2]["bond"] for e in H.edges(data=True)}
        return eg != eh
    return _interesting_labels(c["its"]) >= 1


def classes(c, out):
    yield "op=" + c["op"]
    if "entry" in c:
        yield "entry=" + {"its": "fgutils.its.split_its", "utils": "fgutils.utils.split_its(deprecated)",
                          "package": "fgutils.split_its"}.get(c["entry"], c["entry"])
    if "deriv" in c:
        yield "derived=" + c["deriv"]["how"]
    if "derivG" in c:
        yield "derivedG=" + c["derivG"]["how"]
        yield "derivedH=" + c["derivH"]["how"]
    yield "src=" + c["src"]
    if "its" in c and any("idx_map" in d and tuple(d["idx_map"]) != (n, n) for n, d in c["its"].nodes(data=True)):
        yield "its_nodes_carry_foreign_idx_map"
    yield "result=" + out[0]
    if "its" in c:
        kinds = set()
        for _, _, d in c["its"].edges(data=True):
            bd = d["bond"]
            if isinstance(bd, tuple):
                kinds.add("tuple")
            elif isinstance(bd, list):
                kinds.add("list")
            else:
                kinds.add("scalar")
            if isinstance(bd, (tuple, list)):
                if bd[0] == 0 and bd[1] == 0:
                    kinds.add("(0,0)")
                elif bd[0] == 0 or bd[1] == 0:
                    kinds.add("formed/broken")
                elif bd[0] == bd[1]:
                    kinds.add("unchanged")
                else:
                    kinds.add("changed")
        for k in sorted(kinds):
            yield "label=" + k
        yield "edges=" + ("0" if c["its"].number_of_edges() == 0 else "1+")
    if c["op"] == "smiles_split":
        comps = set()
        for _, _, d in c["its"].edges(data=True):
            comps.update(d["bond"])
        for o in (1.5, 3, 4):
            if o in comps:
                yield "smiles_leg_order=%s" % o
        if "srcG" in c:
            yield "smiles_leg_source_graphs"
        if has_aromatic_single_bond(c["smiles"]):
            yield "smiles_leg_single_bond_between_aromatic_atoms"
        yield "smiles_leg=" + ("checked" if smiles_leg_applicable(c["smiles"]) else "not_fully_mapped")
        if in_known_class(c["smiles"]):
            yield "smiles_leg_known_class=" + ("fails" if smiles_round_trip(c["smiles"]) else "survives")


def _its_view(g):
    nodes = {d.get("aam"): d.get("symbol") for _, d in g.nodes(data=True)}
    edges = {}
    for u, v, d in g.edges(data=True):
        bd = d["bond"]
        edges[frozenset((g.nodes[u].get("aam"), g.nodes[v].get("aam")))] = (bd[0], bd[1])
    return nodes, edges


KNOWN_CLASS = "charged-or-aromatic-heteroH"
KF_WITNESS = "[cH:1]1[cH:2][cH:3][cH:4][nH:5]1>>[cH:1]1[cH:2][cH:3][cH:4][nH:5]1"
# reactions inside the known-finding class, generated now and then (some survive the round trip, some do not)
KF_TEMPLATES = [
    KF_WITNESS,
    "[CH3:1][N+:2](=[O:3])[O-:4]>>[CH3:1][N+:2](=[O:3])[O-:4]",
    "[CH3:1][NH2:2].[CH3:3][Cl:4]>>[CH3:1][NH2+:2][CH3:3].[Cl-:4]",
    "[cH:1]1[cH:2][n:3][cH:4][nH:5]1.[CH3:6][Br:7]>>[cH:1]1[cH:2][n:3][cH:4][n:5]1[CH3:6].[BrH:7]",
    "[CH3:1][C:2](=[O:3])[O-:4].[CH3:5][I:6]>>[CH3:1][C:2](=[O:3])[O:4][CH3:5].[I-:6]",
    "[CH3:1][C:2](=[O:3])[OH:4].[NH3:5]>>[CH3:1][C:2](=[O:3])[O-:4].[NH4+:5]",
    "[cH:1]1[cH:2][cH:3][cH:4][o:5]1>>[cH:1]1[cH:2][cH:3][cH:4][o:5]1",
]


def smiles_leg_applicable(smiles):
    """The SMILES sentence is claimed for fully mapped reactions RDKit can read (no isotopes / radicals)."""
    import rdkit.Chem as Chem
    for part in smiles.split(">>"):
        mol = Chem.MolFromSmiles(part)
        if mol is None:
            return False
        for a in mol.GetAtoms():
            if a.GetNumRadicalElectrons() != 0 or a.GetIsotope() != 0 or a.GetAtomMapNum() <= 0:
                return False
    return True


def in_known_class(smiles):
    """Decided on the INPUT with RDKit: some atom is charged, or an aromatic non-carbon atom bears hydrogen.
    The molecular graph stores neither charges nor hydrogen counts (known finding KF-C10-smiles-charge-arH)."""
    import rdkit.Chem as Chem
    for part in smiles.split(">>"):
        mol = Chem.MolFromSmiles(part)
        if mol is None:
            continue
        for a in mol.GetAtoms():
            if a.GetFormalCharge() != 0:
                return True
            if a.GetIsAromatic() and a.GetSymbol() != "C" and a.GetTotalNumHs() > 0:
                return True
    return False


def smiles_round_trip(smiles):
    """None if ITS.from_smiles(its.to_smiles()) equals the ITS up to map-preserving isomorphism, else a message."""
    try:
        its = ITS.from_smiles(smiles)
        s2 = its.to_smiles()
        its2 = ITS.from_smiles(s2)
        if _its_view(its.graph) != _its_view(its2.graph):
            return "ITS.from_smiles(its.to_smiles()) differs from the ITS (via %s)" % s2
        if any(d.get("aam") != n for n, d in its2.graph.nodes(data=True)):
            return "ITS.from_smiles: node ids differ from map numbers"
    except Exception as e:
        return "SMILES round trip raised %s: %s" % (type(e).__name__, e)
    return None


def large_map_leg(smiles):
    """The same reaction with every map number (and node id) shifted across a decimal boundary (+995: 996..; +9990):
    the round trip ITS -> to_smiles -> from_smiles must keep every atom and bond, whatever the size of the numbers."""
    import zlib
    k = [995, 9990, 995, 99990][zlib.crc32(smiles.encode()) % 4]
    try:
        its = ITS.from_smiles(smiles)
        g = nx.relabel_nodes(its.graph, {n: n + k for n in its.graph.nodes}, copy=True)
        for n in g.nodes:
            g.nodes[n]["aam"] = n
        its_k = ITS(g)
        s3 = its_k.to_smiles()
        its3 = ITS.from_smiles(s3)
        if _its_view(its_k.graph) != _its_view(its3.graph):
            return ["with all map numbers shifted by %d: ITS.from_smiles(its.to_smiles()) differs from the ITS (via %s)" % (k, s3)]
    except Exception as e:
        return ["SMILES round trip with map numbers shifted by %d raised %s: %s" % (k, type(e).__name__, e)]
    return []


def ignore_aam_leg(c):
    """ITS.to_smiles(ignore_aam=True): the result carries no map number and describes the same atoms and bonds as the
    mapped result (RDKit as oracle: canonical SMILES after removing the map numbers from the mapped molecule) and as the
    halves ITS.split() returns (isomorphism of labelled graphs, when RDKit's aromaticity perception leaves them comparable)."""
    import rdkit.Chem as Chem
    msgs = []
    try:
        its = ITS.from_smiles(c["smiles"])
        s_un = its.to_smiles(ignore_aam=True)
        s_map = its.to_smiles(ignore_aam=False)
        s_def = its.to_smiles()
        halves = its.split()
    except Exception as e:
        return ["to_smiles(ignore_aam=True) leg raised %s: %s" % (type(e).__name__, e)]
    if s_def != s_map:
        msgs.append("to_smiles() differs from to_smiles(ignore_aam=False)")
    if s_un.count(">>") != 1:
        return msgs + ["to_smiles(ignore_aam=True) is not a reaction SMILES: %s" % s_un]
    for side_un, side_map, half in zip(s_un.split(">>"), s_map.split(">>"), halves):
        mu, mm = Chem.MolFromSmiles(side_un), Chem.MolFromSmiles(side_map)
        if mu is None or mm is None:
            msgs.append("RDKit rejects a side written by to_smiles: %r / %r" % (side_un, side_map))
            continue
        if any(a.GetAtomMapNum() != 0 for a in mu.GetAtoms()):
            msgs.append("to_smiles(ignore_aam=True) still carries map numbers: %s" % side_un)
        if mm.GetNumAtoms() > 0 and all(a.GetAtomMapNum() == 0 for a in mm.GetAtoms()):
            msgs.append("to_smiles(ignore_aam=False) lost the map numbers: %s" % side_map)
        for a in mm.GetAtoms():
            a.SetAtomMapNum(0)
        if Chem.MolToSmiles(mm) != Chem.MolToSmiles(mu):
            msgs.append("to_smiles(ignore_aam=True) describes another molecule than the mapped result: %s vs %s"
                        % (side_un, side_map))
        gu = mol_smiles_to_graph(side_un)
        if any("aam" in d for _, d in gu.nodes(data=True)):
            msgs.append("reading to_smiles(ignore_aam=True) back gives map numbers")
        arom_u = any(d["bond"] == 1.5 for _, _, d in gu.edges(data=True))
        arom_h = any(d["bond"] == 1.5 for _, _, d in half.edges(data=True))
        if arom_u == arom_h and not nx.is_isomorphic(
                half, gu, node_match=lambda a, b2: a["symbol"] == b2["symbol"],
                edge_match=lambda a, b2: a["bond"] == b2["bond"]):
            msgs.append("the molecule written by to_smiles(ignore_aam=True) is not the half ITS.split() returns: %s" % side_un)
    return msgs


def rdkit_view(smiles):
    """The ITS of a mapped reaction SMILES computed with RDKit alone (no fgutils reader, no get_its): atoms carrying
    a map number on both sides, and for each pair of them (order in reactants, order in products) from
    Bond.GetBondTypeAsDouble(), 0 for not bonded, present when some side bonds the pair."""
    import rdkit.Chem as Chem
    sides = []
    for part in smiles.split(">>"):
        mol = Chem.MolFromSmiles(part)
        atoms = {a.GetAtomMapNum(): a.GetSymbol() for a in mol.GetAtoms() if a.GetAtomMapNum() > 0}
        bonds = {}
        for b2 in mol.GetBonds():
            ka, kb = b2.GetBeginAtom().GetAtomMapNum(), b2.GetEndAtom().GetAtomMapNum()
            if ka > 0 and kb > 0:
                o = b2.GetBondTypeAsDouble()
                bonds[frozenset((ka, kb))] = int(o) if o == int(o) else o
        sides.append((atoms, bonds))
    (ag, bg), (ah, bh) = sides
    nodes = {k: ag[k] for k in ag if k in ah}
    edges = {}
    for pair in set(bg) | set(bh):
        if all(k in nodes for k in pair):
            edges[pair] = (bg.get(pair, 0), bh.get(pair, 0))
    return nodes, edges


def rdkit_view_leg(c):
    try:
        want = rdkit_view(c["smiles"])
        got = _its_view(ITS.from_smiles(c["smiles"]).graph)
    except Exception as e:
        return ["RDKit-view leg raised %s: %s" % (type(e).__name__, e)]
    if got != want:
        diff = sorted((sorted(k), got[1].get(k), want[1].get(k)) for k in set(got[1]) | set(want[1])
                      if got[1].get(k) != want[1].get(k))
        return ["ITS.from_smiles(%s) differs from the superposition RDKit itself reports (pair, fgutils, RDKit): %r; "
                "nodes equal: %s" % (c["smiles"], diff[:6], got[0] == want[0])]
    return []


def _has_aromatic(view):
    return any(1.5 in lab for lab in view[1].values())


def source_graph_leg(c):
    """The SMILES sentence started from GRAPHS (no fgutils reader on the way in): the ITS of the source graphs,
    written to reaction SMILES and read back, is the same ITS up to map-preserving isomorphism; and reading the
    reaction written from the source graphs gives their superposition."""
    msgs = []
    try:
        its0 = ITS(get_its(gens.copy_exact(c["srcG"]), gens.copy_exact(c["srcH"])))
        want = _its_view(its0.graph)
        got = _its_view(ITS.from_smiles(c["smiles"]).graph)
        back = _its_view(ITS.from_smiles(its0.to_smiles()).graph)
    except Exception as e:
        return ["SMILES leg from source graphs raised %s: %s" % (type(e).__name__, e)]
    # RDKit may perceive a ring of the written molecule as aromatic (orders become 1.5): not comparable then
    if _has_aromatic(got) == _has_aromatic(want) and got != want:
        msgs.append("ITS.from_smiles(%s) is not the superposition of the graphs the reaction was written from: "
                    "%r vs %r" % (c["smiles"], sorted(map(repr, got[1].items())), sorted(map(repr, want[1].items()))))
    if _has_aromatic(back) == _has_aromatic(want) and back != want:
        msgs.append("ITS(get_its(G,H)).to_smiles() read back differs from the ITS: %r vs %r"
                    % (sorted(map(repr, back[1].items())), sorted(map(repr, want[1].items()))))
    return msgs


def known_witness_fails(entry):
    return smiles_round_trip(KF_WITNESS) is not None


def py_invariants(c, out):
    msgs = []
    if out[0] != "ok":
        return ["%s raised %s: %s" % (c["op"], out[0], out[1])]
    if not out[3]:
        msgs.append("%s changed one of its arguments (nodes, adjacency, an attribute dict or the graph-level dict "
                    "G.graph)" % c["op"])
    if c["op"] == "smiles_split" and smiles_leg_applicable(c["smiles"]):
        # SMILES leg: RDKit writer / reader as oracles
        msg = smiles_round_trip(c["smiles"])
        if msg is not None:
            if in_known_class(c["smiles"]):
                msgs.append({"msg": msg, "known_class": KNOWN_CLASS})
            else:
                msgs.append(msg)
        elif not in_known_class(c["smiles"]):
            msgs.extend(large_map_leg(c["smiles"]))
        if "srcG" in c and not in_known_class(c["smiles"]):
            msgs.extend(source_graph_leg(c))
        msgs.extend(rdkit_view_leg(c))
        for m in ignore_aam_leg(c):
            msgs.append({"msg": m, "known_class": KNOWN_CLASS} if in_known_class(c["smiles"]) else m)
    return msgs
