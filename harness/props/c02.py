"""C02 - the parser agrees with RDKit on plain SMILES, atom index for atom index.

Theorem side (Props/C02.v): on the plain fragment the parser model yields `denote` (instance of C01).
This module (1) ties the model to the code on plain SMILES (check "agree", exact), (2) checks that each
string is inside the fragment the theorem speaks about (checks "print", "plain": the chain extracted by an
untrusted routine prints back to the string, is `plain` and `wf`), (3) checks implementation = denote
(check "spec"), and (4) VALIDATES THE ORACLE: implementation graph vs fgutils.rdkit.mol_smiles_to_graph
on the same string (check "rdkit": same atoms in the same order modulo the bridge's aromatic spelling
table, same bonded pairs, same orders)."""
import re

import lib
import coqterm as ct
import fgutils.parse as fp
from fgutils.rdkit import mol_smiles_to_graph, mol_to_graph
import rdkit.Chem as Chem
from rdkit import RDLogger

import props.c01 as c01

RDLogger.DisableLog("rdApp.*")

ID = "C02"
REPEAT_PROBE = True   # engine: repeat 1 call in 5 after editing its first result in place (purity / no shared state)
PROPS = "Props/C02.v"
USES_GEN = ["lexer"]
MODEL_FILES = ["Model/Parse.v", "Spec/ParseSpec.v", "Spec/SmilesCheck.v"]
IMPORTS = "From FGV Require Import Base.Str Model.NXMulti Model.GraphOps Model.Parse Spec.ParseSpec Spec.SmilesCheck."
CHECKS = ["agree", "print", "plain", "spec", "rdkit"]
CHUNK = 200
CORRESPONDENCE = ("Model.Parse.parse_simple false 0 ~ fgutils.parse.parse(smiles); oracle: "
                  "fgutils.rdkit.mol_smiles_to_graph(smiles) (RDKit SMILES reader), compared by Spec.SmilesCheck.smiles_agreeb")
RULE = ("random molecules built atom by atom with RDKit (valence-aware growth from aliphatic / aromatic seeds: chains, branches, "
        "double/triple bonds, aliphatic ring closures, fused and hetero-aromatic rings, ring systems joined by single bonds, "
        "heteroatoms N O S P B F Cl Br I, N-sulfenyl azoles so that 'S' directly precedes 'n' in some writings, optional second "
        "component) -> Chem.MolToSmiles(mol, doRandom=True) writings (aromatic form) and kekulised writings "
        "(Kekulize(clearAromaticFlags=True), kekuleSmiles=True), plus hand-style writings of the same fragment from the C01 chain "
        "generator restricted to plain constructs that RDKit accepts; kept only if inside the statement's fragment: no brackets "
        "(so no charges/isotopes/explicit H/stereo centres), no % ring labels, no / \\ stereo bonds, no two adjacent ring digits. "
        "a bond symbol in front of a ring-OPENING digit (C=1CCCC1; never written by RDKit, read by the parser as the bond to "
        "the next atom) is outside the fragment by DESIGN 5 and is not generated. Oracle comparison skipped (check 'rdkit' vacuous, class rdkit=excluded-*) when RDKit's molecule has a non-aromatic bond "
        "between two aromatic atoms (the statement's exclusion); when RDKit's sanitisation changes WHICH atoms are aromatic with "
        "respect to the text (Kekule-form rings become aromatic; lower-case atoms RDKit itself wrote are de-aromatised on "
        "re-reading) the sanitised molecule is a normalisation, not a reading, and the parser is compared with RDKit's reading of "
        "the string without sanitisation (class rdkit=reperceived-*). DOTTED stream (kind=dotted, about 1 case in 5; RDKit's writer only puts dots between "
        "top-level components): generated chains are rewritten with '.' moved / inserted wherever the plain grammar permits - a new branch "
        "with a dotted tail X(Y.frag), a dot inside an existing branch before its ')' X(Y.frag)Z (RDKit rejects a dot directly "
        "after '(': X(.frag) is kept in the corpus for the parser-side checks only), a tree bond cut into a dot, a bond "
        "rewritten as a ring closure across a dot A1.B1 / A1.C.B1, a dot at a ring-closing mark - kept only if RDKit accepts the "
        "text and the chain is plain and wf; judged by all checks. STATE LEAKS: before about 30% of the strings one or two "
        "state-disturbing texts (reaction bonds, rings / branches left open, pending bond symbols, texts aborted by an exception "
        "after opening rings) are parsed first, through the module-level parse() or on the SAME Parser object that then parses the "
        "SMILES. non-trivial = >= 4 atoms and a ring or branch; distinct = distinct strings")
TRUSTED = [
    "ORACLE VALIDATION, not proof: RDKit's SMILES reader (MolFromSmiles) is compared with the implementation on every generated "
    "string; its agreement with `denote` on the plain fragment cannot be proved because RDKit is not modelled",
    "untrusted text -> chain extraction (accepted only if Coq's print of the chain reproduces the string byte for byte)",
    "Base/Regex.v matcher read as Python `re`; Base/NX.v as networkx.Graph",
]
ASSUMPTIONS = ["SMILES text is ASCII", "RDKit 2026.03 default SMILES parser parameters (sanitize=True) as used by mol_smiles_to_graph"]
EXHAUSTIVE = {"quick": False, "thorough": False}

SEEDS_ALI = ["C", "CC", "CCC", "CN", "CO", "CS", "C=C", "C#C", "C=O", "C#N", "CCl", "CBr", "CF", "CI", "CP", "CB", "C1CC1",
             "C1CCCCC1", "C1=CCCCC1", "C1CCOC1", "C1CCNCC1", "C1CSC1", "OP(O)O", "CS(C)=O", "O=S(=O)(C)C", "NC=O", "N=C=O"]
SEEDS_ARO = ["c1ccccc1", "c1ccncc1", "c1ccsc1", "c1ccoc1", "c1cscn1", "c1ccsn1", "c1ccon1", "c1cncnc1", "c1cnccn1",
             "c1ccc2ccccc2c1", "c1ccc2ncccc2c1", "c1ccc2sccc2c1", "c1ccc2occc2c1", "c1ccc2scnc2c1", "Cn1cccc1", "Cn1ccnc1",
             "c1ccc2c(c1)CCC2", "c1ccc2c(c1)CCCC2", "c1ccc2c(c1)OCO2", "c1cnc2ccccc2n1", "c1ccc2cc3ccccc3cc2c1"]
SEEDS_SN = ["CSn1cccc1", "CSn1ccnc1", "Sn1cccc1", "CCSn1cccc1", "c1ccn(SC)c1", "CSn1cncn1", "ClSn1cccc1", "CSn1c(C)ccc1"]
NEW_ATOMS = [("C", 4)] * 8 + [("N", 3)] * 3 + [("O", 2)] * 3 + [("S", 2)] * 2 + [("F", 1), ("Cl", 1), ("Br", 1), ("I", 1), ("P", 3), ("B", 3)]
BT = {1: Chem.BondType.SINGLE, 2: Chem.BondType.DOUBLE, 3: Chem.BondType.TRIPLE}


def grow(rng, smi, steps):
    m = Chem.RWMol(Chem.MolFromSmiles(smi))
    for _ in range(steps):
        try:
            Chem.SanitizeMol(m)
        except Exception:
            return None
        cands = [a.GetIdx() for a in m.GetAtoms() if a.GetTotalNumHs() > 0]
        if not cands:
            break
        i = rng.choice(cands)
        a = m.GetAtomWithIdx(i)
        h = a.GetTotalNumHs()
        r = rng.random()
        if r < 0.18:
            frag = Chem.MolFromSmiles(rng.choice(SEEDS_ARO + SEEDS_ALI[:8]))
            js = [x.GetIdx() for x in frag.GetAtoms() if x.GetTotalNumHs() > 0]
            n0 = m.GetNumAtoms()
            m = Chem.RWMol(Chem.CombineMols(m, frag))
            m.AddBond(i, n0 + rng.choice(js), Chem.BondType.SINGLE)
        elif r < 0.3:
            others = [j for j in cands if j != i and not m.GetAtomWithIdx(j).GetIsAromatic() and not a.GetIsAromatic()
                      and m.GetBondBetweenAtoms(i, j) is None]
            others = [j for j in others if len(Chem.GetShortestPath(m, i, j)) >= 3]
            if others:
                m.AddBond(i, rng.choice(others), Chem.BondType.SINGLE)
        else:
            sym, val = rng.choice(NEW_ATOMS)
            mx = 1 if a.GetIsAromatic() else min(h, val, 3)
            order = rng.choice([1, 1, 1, 1, 2, 2, 3][:max(1, {1: 4, 2: 6, 3: 7}[mx])])
            idx = m.AddAtom(Chem.Atom(sym))
            m.AddBond(i, idx, BT[order])
    try:
        Chem.SanitizeMol(m)
    except Exception:
        return None
    return m.GetMol()


FRAG_BAD = re.compile(r"[\[\]%@/\\+*]|\d\d|H")


def in_fragment(s):
    return bool(s) and FRAG_BAD.search(s) is None and all(32 < ord(ch) < 127 for ch in s)


def writings(rng, mol):
    out = []
    for _ in range(3):
        try:
            out.append(("random", Chem.MolToSmiles(mol, doRandom=True)))
        except Exception:
            pass
    try:
        out.append(("canonical", Chem.MolToSmiles(mol)))
        k = Chem.Mol(mol)
        Chem.Kekulize(k, clearAromaticFlags=True)
        out.append(("kekule", Chem.MolToSmiles(k, kekuleSmiles=True, doRandom=True)))
    except Exception:
        pass
    rng.shuffle(out)
    return out


def plain_chain_text(rng):
    """A hand-style writing from the C01 chain generator, restricted to the plain constructs."""
    for _ in range(30):
        g = c01.Gen(rng, False, False, False)
        # aliphatic atoms only: RDKit's sanitisation re-decides the aromaticity of arbitrarily placed lower-case atoms
        g.atom = lambda: ["A", rng.choice(["C"] * 10 + ["N", "O", "S", "N", "O", "F", "Cl", "Br", "P", "B", "I"])]
        g.bond = lambda allow_dot=True, deep=False: (["I"] if rng.random() < 0.6 else ["D"] if (allow_dot and rng.random() < (0.25 if deep else 0.1))
                                         else ["S", rng.choice(["-", "=", "#", "-", "="])])
        g.new_label = lambda: str(rng.randint(1, 9))
        c = g.chain(0, [rng.choice([2, 3, 4, 6, 8, 10])])
        if g.open:
            node = c
            while node[2]:
                node = node[2][1]
            for l in list(g.open):
                node[1].append(["ring", ["S", rng.choice(["-", "-", "="])], l])
                g.open.pop(l)
        s = c01.p_chain(c)
        if in_fragment(s) and Chem.MolFromSmiles(s) is not None:
            return s
    return None


# ------------------------------------------------------------------ dots where RDKit's writer never puts them

def _nodes(c, depth=0, out=None):
    """all chain nodes with their branch depth, in textual order"""
    out = [] if out is None else out
    out.append((c, depth))
    for it in c[1]:
        if it[0] == "branch":
            _nodes(it[2], depth + 1, out)
    if c[2]:
        _nodes(c[2][1], depth, out)
    return out


def _copy(c):
    import copy
    return copy.deepcopy(c)


def _small_plain(rng):
    return c01.to_chain(rng.choice(["C", "O", "N", "CC", "CO", "CCO", "C=O", "C#N", "c1ccccc1", "C1CC1", "CC(C)C", "Cl", "CS", "c1ccncc1"]))


def dot_transform(rng, chain):
    """Move / insert "." at a position the plain grammar permits (RDKit itself only writes dots between top-level
    components). Returns a new chain or None. The caller keeps the text only if RDKit accepts it and it is plain + wf."""
    c = _copy(chain)
    nodes = _nodes(c)
    k = rng.choice(["branch-insert", "branch-insert", "append-in-branch", "append-in-branch", "bond-to-dot", "ring-across-dot",
                    "ring-across-dot", "dot-at-ring-close"])
    if k == "branch-insert":                      # X(Y.frag)...  a new branch whose tail is a dotted component
        node, _ = rng.choice(nodes)               # (RDKit rejects a dot directly after "(", so X(.frag) is corpus-only)
        node[1].insert(rng.randint(0, len(node[1])),
                       ["branch", rng.choice([["I"], ["I"], ["S", "-"], ["S", "="]]),
                        [["A", rng.choice(["C", "C", "N", "O"])], [], [["D"], _small_plain(rng)]]])
    elif k == "append-in-branch":                 # X(... .frag)Y  dot inside a branch, the ")" must still return to X
        inner = [n for n, d in nodes if d > 0 and n[2] is None]
        if not inner:                             # no branch yet: turn a tail into a branch first
            cand = [n for n, d in nodes if n[2] is not None]
            if not cand:
                return None
            node = rng.choice(cand)
            b, sub = node[2]
            node[1].append(["branch", b, sub])
            node[2] = [["I"], _small_plain(rng)] if rng.random() < 0.7 else None
            inner = [n for n, d in _nodes(c) if d > 0 and n[2] is None]
        rng.choice(inner)[2] = [["D"], _small_plain(rng)]
    elif k == "bond-to-dot":                      # cut a tree bond (changes the molecule; RDKit decides whether it is valid)
        slots = [(n, "next") for n, d in nodes if n[2]] + [(n, i) for n, d in nodes for i, it in enumerate(n[1]) if it[0] == "branch"]
        if not slots:
            return None
        n, where = rng.choice(slots)
        if where == "next":
            n[2][0] = ["D"]
        else:
            n[1][where][1] = ["D"]
    elif k == "ring-across-dot":                  # A b B  ->  A1.B b 1 : same bond, written as a ring closure over a dot
        used = set(ch for ch in c01.p_chain(c) if ch.isdigit())
        free = [d for d in "123456789" if d not in used]
        cand = [n for n, d in nodes if n[2] and n[2][0][0] != "D"]
        if not free or not cand:
            return None
        n = rng.choice(cand)
        b, sub = n[2]
        lab = rng.choice(free)
        n[1].insert(0 if rng.random() < 0.5 else len(n[1]), ["ring", ["I"], lab])
        sub[1].insert(0, ["ring", b if b[0] != "I" else ["I"], lab])
        n[2][0] = ["D"]
        if rng.random() < 0.5:                    # ... possibly with a further component in between: A1.C.B1
            n[2] = [["D"], [["A", "C"], [], [["D"], sub]]]
    else:                                         # dot-at-ring-close: C1CC.1 (pinned parser behaviour; RDKit mostly rejects)
        rings = [(n, i) for n, d in nodes for i, it in enumerate(n[1]) if it[0] == "ring" and it[1][0] != "I"]
        if not rings:
            return None
        n, i = rng.choice(rings)
        n[1][i][1] = ["D"]
    return c


def dotted_texts(rng, base_text):
    ch = c01.to_chain(base_text)
    if ch is None:
        return
    for _ in range(4):
        t = dot_transform(rng, ch)
        if t is not None and rng.random() < 0.35:
            t = dot_transform(rng, t) or t
        if t is None:
            continue
        s = c01.p_chain(t)
        if not in_fragment(s) or not c01.py_wf(t, False) or c01.to_chain(s) is None:
            continue
        if Chem.MolFromSmiles(s) is None:
            continue
        yield s


def mk_case(kind, text, pre=None, via="fresh"):
    """pre: state-disturbing texts (c01.DISTURB: reaction bonds, rings/branches left open, aborted texts, ...) parsed first,
    exceptions ignored; via = "module": pre-calls and the real call all go through the module-level parse();
    via = "object": ONE Parser() object parses the pre texts and then the SMILES (its result is what is checked)."""
    return {"kind": kind, "text": text, "pre": list(pre or []), "via": via if pre else "fresh"}


def generate(seed, tier, ncases=None):
    n = ncases or (500 if tier == "quick" else 30000)
    produced = 0
    i = 0
    seen = set()
    while produced < n and i < 20 * n:
        rng = lib.rng_for(seed, ID, i)
        i += 1
        r = rng.random()
        if r < 0.12:
            s = plain_chain_text(rng)
            cands = [("hand", s)] if s else []
        else:
            seed_smi = rng.choice(SEEDS_SN) if r < 0.2 else rng.choice(SEEDS_ARO) if r < 0.65 else rng.choice(SEEDS_ALI)
            mol = grow(rng, seed_smi, rng.choice([0, 1, 2, 3, 4, 6, 8, 10]))
            if mol is None:
                continue
            if rng.random() < 0.1:
                other = grow(rng, rng.choice(SEEDS_ALI + SEEDS_ARO), rng.choice([0, 1, 2]))
                if other is not None:
                    mol = Chem.CombineMols(mol, other)
            cands = writings(rng, mol)
        if cands and rng.random() < 0.7:          # the dotted stream: about 1 case in 5
            base = rng.choice(cands)[1]
            if in_fragment(base):
                cands = cands + [("dotted", d) for d in list(dotted_texts(rng, base))[:2]]
        for kind, s in cands:
            if produced >= n:
                break
            if s in seen or not in_fragment(s):
                continue
            seen.add(s)
            produced += 1
            if rng.random() < 0.3:
                yield mk_case(kind, s, c01.rand_pre(rng), "module" if rng.random() < 0.6 else "object")
            else:
                yield mk_case(kind, s)


CORPUS = ["C(C.C)C", "CC(=O.N)O", "C(.C)C", "C(C)(.C)C", "C1.C1", "C1CC.O1", "C1.CC1", "C1(.C)CC1", "C(C.C)(C.C)C", "C(C(C.C)C)C",
          "C1.C.C1", "C(C1.C)C1", "c1ccccc1.C(C.O)C", "C(.C.C)C", "c1ccc(C.O)cc1", "c1cc(.C)ccc1", "c1.c1", "CC(=O.N)(.O)C","C1CCCc2c1cccc2", "C1CC=c1", "c1ccccc1", "Cc1c(C)c(=C)ccc1", "CC(O)=O", "C1CC2C=1C2", "C.O", "c1ccc(-c2ccccc2)cc1",
          "CSn1cccc1", "c1ccsn1", "s1nccc1", "C1=CC=CC=C1", "OC(=O)c1ccccc1OC(C)=O", "C1CC1", "N#CC=C", "ClCCl", "BrC(F)I",
          "c1ccc2ccccc2c1", "C1=CSN=C1", "Cn1ccnc1", "O=S(C)(=O)n1cccc1", "C:C", "c:c", "c1cc:ccc1",
          "c1:c:c:c:c:c1", "c1:c:c:c:c:c:1", "c1ccccc1-c1ccccc1", "c1ccccc1c1ccccc1", "c1ccc(cc1)c1ccccn1", "c1cc(C)ccc1C(=O)O", "n1ccccc1",
          "c1(C)c(C)c(C)c(C)c(C)c1C", "c1cc2c(cc1)cccc2", "c1cc2c(cc1)CC2", "C1CCCC=1", "C1CCCC=1C", "c1ccc(cc1)C#N",
          "S1C=CC=C1", "O1C=CC=C1", "N1C=CC=C1", "C1=CC=CC=C1C1=CC=CC=C1", "C1CC1C1CC1", "C1CC1.C1CC1", "CC.CC", "C.C.C"]


def corpus():
    for s in CORPUS:
        yield mk_case("corpus", s)
    # state must not leak between calls (same Parser object / module-level parse())
    for pre, s in ((["C<1,2>C"], "CCO"), (["CC1CC"], "C1CC1"), (["C1CX"], "CC1CC1"), (["C(C"], "CC(C)C"),
                   (["C1C2C3CC", "C="], "c1ccc2ccccc2c1"), (["C<,>", "C12C"], "C1CC2CC2C1"), (["C/C"], "c1ccccc1")):
        yield mk_case("corpus", s, pre, "module")
        yield mk_case("corpus", s, pre, "object")


# ------------------------------------------------------------------ implementation + oracle

def implied_aromatic_pairs(ch):
    """pairs of atom positions joined by an IMPLIED bond between two lower-case atoms (untrusted chain walk;
    only used to decide whether the statement's exclusion applies to a bond the text leaves implicit)"""
    pairs = set()
    open_ = {}
    cnt = [0]

    def rec(c, parent, pb):
        a, items, nxt = c
        me = cnt[0]
        cnt[0] += 1
        sym = a[1] if a[0] == "A" else "R"
        if parent is not None and pb[0] == "I" and parent[1].islower() and sym.islower():
            pairs.add(frozenset((parent[0], me)))
        for it in items:
            if it[0] == "ring":
                if it[2] in open_:
                    at = open_.pop(it[2])
                    if it[1][0] == "I" and at[1].islower() and sym.islower():
                        pairs.add(frozenset((at[0], me)))
                else:
                    open_[it[2]] = (me, sym)
            else:
                rec(it[2], (me, sym), it[1])
        if nxt:
            rec(nxt[1], (me, sym), nxt[0])

    rec(ch, None, None)
    return pairs


def rdkit_side(text):
    """("ok"|"excluded"|"reperceived"|"reject", graph or None).
    ok          : compared with mol_smiles_to_graph(text) (RDKit's sanitised molecule), the statement's oracle
    reperceived : RDKit's sanitisation changed WHICH atoms are aromatic with respect to what is written (a Kekule-form
                  ring becomes aromatic, or lower-case atoms are de-aromatised): the sanitised molecule is a normalised
                  molecule, not a reading of the string; the parser is compared with RDKit's reading without sanitisation
    excluded    : the statement's own exclusion: RDKit has a non-aromatic bond between two aromatic atoms that the text
                  leaves IMPLICIT (e.g. c1ccccc1c1ccccc1). When every such bond is written explicitly (c1ccccc1-c1ccccc1,
                  what RDKit itself writes) the string is compared like any other ("ok").
    reject      : RDKit does not accept the string"""
    mol = Chem.MolFromSmiles(text)
    if mol is None:
        return ("reject", None)
    raw = Chem.MolFromSmiles(text, sanitize=False)

    def _view(m):
        return ([a.GetIsAromatic() for a in m.GetAtoms()], [a.GetFormalCharge() for a in m.GetAtoms()],
                sorted((min(b.GetBeginAtomIdx(), b.GetEndAtomIdx()), max(b.GetBeginAtomIdx(), b.GetEndAtomIdx()),
                        str(b.GetBondType())) for b in m.GetBonds()))

    # RDKit's sanitisation rewrote the molecule with respect to what is written: aromaticity re-perceived
    # (Kekule-form ring, de-aromatised lower-case atoms) or a clean-up rule applied (hypervalent N: "n(=O)" /
    # "N(=O)=O" become charge-separated with an N-O single bond)
    if _view(raw) != _view(mol):
        # the statement's oracle is the sanitised molecule; the unsanitised reading is kept to attribute a
        # disagreement to the known finding KF-C02-aromaticity (the parser reads the text literally)
        return ("reperceived", mol_smiles_to_graph(text), mol_to_graph(raw))
    bad = [frozenset((b.GetBeginAtomIdx(), b.GetEndAtomIdx())) for b in mol.GetBonds()
           if b.GetBeginAtom().GetIsAromatic() and b.GetEndAtom().GetIsAromatic() and not b.GetIsAromatic()]
    if bad:
        ch = c01.to_chain(text)
        implied = implied_aromatic_pairs(ch) if ch is not None else None
        if implied is None or any(p in implied for p in bad):
            return ("excluded", mol_to_graph(mol))
    return ("ok", mol_smiles_to_graph(text))


def run_impl(c):
    if c.get("via") == "object":
        parser = fp.Parser()
        f = parser.parse
    else:
        f = fp.parse
    for t in c.get("pre", []):
        try:
            f(t)
        except Exception:
            pass
    try:
        g = f(c["text"])
        res = ("ok", g)
    except Exception as e:
        res = (type(e).__name__, str(e)[:200])
    return res + (rdkit_side(c["text"]),)


def agrees_py(g, h):
    from fgutils.rdkit import _get_rdkit_atom_sym
    if list(g.nodes) != list(h.nodes):
        return False
    if any(_get_rdkit_atom_sym(g.nodes[n]["symbol"]) != h.nodes[n]["symbol"] for n in g.nodes):
        return False
    eg = {frozenset((u, v)): d["bond"] for u, v, d in g.edges(data=True)}
    eh = {frozenset((u, v)): d["bond"] for u, v, d in h.edges(data=True)}
    return eg == eh


def coq_case(c, out):
    text = c["text"]
    status, rk = out[0], out[2]
    defs = {"text": c01.cstr(text)}
    if status == "ok":
        defs["out"] = "(Ok %s : result graph)" % ct.graph(out[1])
    elif status in c01.ERRS:
        defs["out"] = "(@Err graph %s)" % c01.ERRS[status]
    else:
        raise ct.Unrepresentable("exception class %s (%s)" % (status, out[1]))
    model = "parse_simple false 0 $text"
    checks = {"agree": "result_eqb graph_eqb (%s) $out" % model, "print": "false", "plain": "false", "spec": "false",
              "rdkit": "true"}
    diag = [model]
    ch = c01.to_chain(text)
    if ch is not None:
        defs["t"] = c01.q_chain(ch)
        checks["print"] = "String.eqb (print $t) $text"
        checks["plain"] = "plain $t && wf false $t"
        checks["spec"] = "result_eqb same_graphb (Ok (denote_simple 0 false $t)) $out"
        diag += ["plain $t", "wf false $t", "print $t"]
    if rk[0] in ("ok", "reperceived"):
        if status == "ok":
            defs["rd"] = ct.graph(rk[1])
            checks["rdkit"] = "match $out with Ok g => smiles_agreeb g $rd | Err _ => false end"
        else:
            checks["rdkit"] = "false"       # RDKit accepts, the parser raises
    return {"defs": defs, "checks": checks, "diag": diag}


def known_class(c, out, which=None):
    # D6: the ATOM alternation contains "Sn", so "S" directly followed by "n" is read as tin
    if "Sn" in c["text"]:
        return "S-then-n"
    # RDKit's sanitisation re-perceives aromaticity (Kekule-form ring -> 1.5 everywhere, or lower-case atoms
    # de-aromatised); the parser has no aromaticity perception. Attributed only when the RDKit comparison is the
    # ONLY failing check and the parser agrees with RDKit's unsanitised reading of the same string.
    rk = out[2]
    if rk[0] == "reperceived" and out[0] == "ok" and (which is None or list(which) == ["rdkit"]) \
            and agrees_py(out[1], rk[2]):
        return "rdkit-reperceives-aromaticity"
    return None


def known_witness_fails(entry):
    s = "C1=CC=CC=C1" if entry.get("id") == "KF-C02-aromaticity" else "CSn1cccc1"
    try:
        g = fp.parse(s)
    except Exception:
        return True
    return not agrees_py(g, mol_smiles_to_graph(s))


def describe(c):
    return {"kind": c["kind"], "text": c["text"], "pre": c.get("pre", []), "via": c.get("via", "fresh")}


def from_json(d):
    return {"kind": d["kind"], "text": d["text"], "pre": d.get("pre", []), "via": d.get("via", "fresh")}


def describe_out(out):
    d = {"status": out[0], "rdkit": out[2][0]}
    if out[0] == "ok":
        d["graph"] = ct.graph_py(out[1])
    else:
        d["msg"] = out[1]
    if out[2][1] is not None:
        d["rdkit_graph"] = ct.graph_py(out[2][1])
    return d


def key(c):
    return (c["text"], tuple(c.get("pre", [])), c.get("via"))


def nontrivial(c, out):
    t = c["text"]
    return out[0] == "ok" and out[1].number_of_nodes() >= 4 and any(ch in t for ch in "(123456789")


def classes(c, out):
    t = c["text"]
    yield "kind=" + c["kind"]
    yield "via=" + c.get("via", "fresh")
    yield "result=" + out[0]
    if "." in t:
        ch = c01.to_chain(t)
        for tag in sorted(c01.dot_shapes(ch)) if ch is not None else []:
            yield tag
    rk = out[2]
    if rk[0] == "excluded" and out[0] == "ok":
        yield "rdkit=excluded-" + ("agrees-anyway" if agrees_py(out[1], rk[1]) else "differs")
    elif rk[0] == "reperceived":
        yield "rdkit=reperceived-" + ("kekule-form" if not any(ch in t for ch in "bcnops") else "dearomatised")
    else:
        yield "rdkit=" + rk[0]
    if "Sn" in t:
        yield "S-then-n"
    for name, chars in (("branch", "("), ("ring", "123456789"), ("dot", "."), ("aromatic", "bcnops"), ("double", "="),
                        ("triple", "#"), ("explicit-single", "-"), ("explicit-aromatic", ":")):
        if any(ch in t for ch in chars):
            yield "has_" + name
    n = out[1].number_of_nodes() if out[0] == "ok" else 0
    yield "atoms=" + ("1-3" if n <= 3 else "4-8" if n <= 8 else "9-16" if n <= 16 else "17+")
