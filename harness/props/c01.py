"""C01 - the pattern parser is faithful.

Correspondence: Model.Parse.{tokenize, parse_simple, parse_multi} ~ fgutils.parse.{tokenize, parse,
Parser(use_multigraph, init_aam).parse}: EXACT comparison of the whole result (node order, ids,
every attribute, adjacency order, edge keys of the MultiGraph, bond labels) or of the exception class.
Specification: for generated abstract linearisations (chains) the Coq `print` must reproduce the text
the Python printer produced (check "print"), and the implementation's graph must be exactly the graph
`denote` assigns to the chain (check "spec"); theorem C01 proves the same for the model, for all chains.
"""
import lib
import coqterm as ct
import fgutils.parse as fp

ID = "C01"
REPEAT_PROBE = True   # engine: repeat 1 call in 5 after editing its first result in place (purity / no shared state)
PROPS = "Props/C01.v"
USES_GEN = ["lexer"]
MODEL_FILES = ["Model/Parse.v", "Spec/ParseSpec.v"]
IMPORTS = "From FGV Require Import Base.Str Model.NXMulti Model.GraphOps Model.Parse Spec.ParseSpec."
CHECKS = ["agree", "tok", "print", "spec"]
CHUNK = 200
CORRESPONDENCE = ("Model.Parse.tokenize ~ fgutils.parse.tokenize; Model.Parse.parse_simple ~ fgutils.parse.parse / "
                  "Parser(use_multigraph=False); Model.Parse.parse_multi ~ Parser(use_multigraph=True); tables "
                  "Gen/Lexer.v regenerated from token_specification / bond_to_order_map")
RULE = ("stream 1 (about 3/4): random abstract linearisations (1-14 atoms; branches nested to depth 3; ring marks with 1-3 digit "
        "labels incl. leading zeros and label reuse; bond symbols implied - = # $ : . and <g,h> with omitted / multi-digit "
        "numbers mixed with everything; atoms from the full 22-symbol alphabet incl. aromatic lower case, wildcard R, "
        "{label,..} nodes; idx_offset in {0,1,3,17,-2}; init_aam; use_multigraph), printed to text; a small share is made "
        "ill-formed on purpose (bond symbol before a ring-opening digit, adjacent ring digits, S followed by n, doubly bonded "
        "pair, ring closed on its own atom, unclosed ring); stream 2 (about 1/4): malformed texts (token soup over the whole "
        "vocabulary incl. / \\ unknown characters, blanks and newlines, unbalanced parentheses, leading digits; single-character "
        "edits of well-formed texts). Corpus: the D1-D5 witnesses, every string pinned in test/test_parse.py, KeyError/IndexError "
        "witnesses, dots in every position the grammar permits. Dots are drawn for every bond slot (next atom, branch start, "
        "ring-closing mark; a little more often inside branches; classes dot-in-branch, dot-after-paren-open, dot-after-paren-close, "
        "dot-after-ring-mark, dot-at-ring-close, ring-across-dot). STATE LEAKS: before about 30% of the ordinary cases one or two state-disturbing texts (reaction bonds, rings / "
        "branches left open, pending bond symbols, texts aborted by SyntaxError/IndexError/KeyError after opening rings) are "
        "parsed first, either through the module-level parse() or on the SAME Parser object as the real call; plus HISTORY cases "
        "(n/8; kind=history): one Parser object (both graph classes, init_aam both, parse() and __call__) parses 2-4 such texts "
        "mixed with random well-formed and malformed texts at varying offsets and EVERY result (serialised after the whole "
        "sequence) is compared with the model's fresh parse of that text alone. thorough adds the exhaustive set of all 2- and 3-atom chains/branches over 6 atom kinds x 8 bond symbols and "
        "all 3-ring closures over {C,c}. non-trivial = parses to >= 2 nodes and uses a branch, ring mark, dot or <g,h> bond, or is "
        "rejected; distinct = distinct (text, offset, init_aam, multigraph)")
TRUSTED = [
    "Base/Regex.v matcher read as Python `re` on the regex subset of token_specification (bt_free proved for the table; "
    "tokenisation of every explored text is compared with the real tokenizer, check 'tok')",
    "Base/NX.v and Model/NXMulti.v as models of networkx.Graph / MultiGraph (exact dict orders compared on every case)",
    "ASCII text; exception messages are not modelled, only the class",
]
ASSUMPTIONS = ["pattern text is ASCII (Python's \\d and str.islower are Unicode-aware; the model reads bytes)",
               "idx_offset is a Python int"]
EXHAUSTIVE = {"quick": False, "thorough": False}

ATOMS = ["H", "Br", "Cl", "Se", "Sn", "Si", "Mg", "Li", "C", "N", "O", "P", "S", "F", "B", "I", "b", "c", "n", "o", "p", "s"]
ATOM_WEIGHTED = ["C"] * 8 + ["c"] * 6 + ["N", "O", "S", "n", "o", "s", "N", "O"] + ATOMS
BSYM = ["-", "=", "#", "$", ":"]
BOND_ORDERS = {"-": 1, "=": 2, "#": 3, "$": 4, ":": 1.5, ".": 0}
LABEL_WORDS = ["g", "grp_1", "a-b", "x2", "", "A", "0", "_", "alkyl", "n"]


# ------------------------------------------------------------------ chains (Python side, untrusted)
# atom  ["A", sym] | ["W"] | ["L", [labels]]
# bsym  ["I"] | ["D"] | ["S", c] | ["R", g, h]       (g, h digit strings, possibly "")
# chain [atom, items, nxt]; item ["ring", bsym, label] | ["branch", bsym, chain]; nxt None | [bsym, chain]

def p_bsym(b):
    if b[0] == "I":
        return ""
    if b[0] == "D":
        return "."
    if b[0] == "S":
        return b[1]
    return "<%s,%s>" % (b[1], b[2])


def p_atom(a):
    return "R" if a[0] == "W" else ("{" + ",".join(a[1]) + "}" if a[0] == "L" else a[1])


def p_chain(c):
    a, items, nxt = c
    s = p_atom(a)
    for it in items:
        if it[0] == "ring":
            s += p_bsym(it[1]) + it[2]
        else:
            s += "(" + p_bsym(it[1]) + p_chain(it[2]) + ")"
    if nxt:
        s += p_bsym(nxt[0]) + p_chain(nxt[1])
    return s


def bsym_tokens(b):
    if b[0] == "I":
        return []
    if b[0] == "R":
        return [("RC_BOND", p_bsym(b))]
    return [("BOND", p_bsym(b))]


def chain_tokens(c):
    a, items, nxt = c
    out = [("WILDCARD", "R") if a[0] == "W" else ("NODE_LABEL", p_atom(a)) if a[0] == "L" else ("ATOM", a[1])]
    for it in items:
        if it[0] == "ring":
            out += bsym_tokens(it[1]) + [("RING_NUM", it[2])]
        else:
            out += [("BRANCH_START", "(")] + bsym_tokens(it[1]) + chain_tokens(it[2]) + [("BRANCH_END", ")")]
    if nxt:
        out += bsym_tokens(nxt[0]) + chain_tokens(nxt[1])
    return out


def q_bsym(b):
    if b[0] == "I":
        return "Implied"
    if b[0] == "D":
        return "Dot"
    if b[0] == "S":
        return "(Sym %s)" % cstr(b[1])
    return "(Rc %s %s)" % (cstr(b[1]), cstr(b[2]))


def q_atom(a):
    if a[0] == "W":
        return "Wild"
    if a[0] == "L":
        return "(Lbl %s)" % ct.lst([cstr(x) for x in a[1]])
    return "(At %s)" % cstr(a[1])


def q_chain(c):
    a, items, nxt = c
    rest = "RNil" if not nxt else "(RNext %s %s)" % (q_bsym(nxt[0]), q_chain(nxt[1]))
    for it in reversed(items):
        if it[0] == "ring":
            rest = "(RRing %s %s %s)" % (q_bsym(it[1]), cstr(it[2]), rest)
        else:
            rest = "(RBranch %s %s %s)" % (q_bsym(it[1]), q_chain(it[2]), rest)
    return "(Chain %s %s)" % (q_atom(a), rest)


def chain_has_rc(c):
    a, items, nxt = c
    for it in items:
        if it[1][0] == "R" or (it[0] == "branch" and chain_has_rc(it[2])):
            return True
    return bool(nxt) and (nxt[0][0] == "R" or chain_has_rc(nxt[1]))


def chain_natoms(c):
    a, items, nxt = c
    return 1 + sum(chain_natoms(it[2]) for it in items if it[0] == "branch") + (chain_natoms(nxt[1]) if nxt else 0)


def dot_shapes(c):
    """Where the dots of a chain sit (histogram classes; also used by C02): inside a branch, directly after "(", at a
    ring-closing mark, after a ring mark / after ")", and whether a ring is opened before a dot and closed after it."""
    tags = set()
    open_ = {}
    dotted = set()

    def is_dot(b):
        return b[0] == "D" or (b[0] == "S" and b[1] == ".")

    def tree_dot(depth):
        for l in open_:
            dotted.add(l)
        if depth > 0:
            tags.add("dot-in-branch")

    def rec(c, depth):
        a, items, nxt = c
        for it in items:
            if it[0] == "ring":
                if it[2] in open_:
                    open_.pop(it[2])
                    if is_dot(it[1]):
                        tags.add("dot-at-ring-close")
                    if it[2] in dotted:
                        dotted.discard(it[2])
                        tags.add("ring-across-dot")
                else:
                    open_[it[2]] = True
            else:
                if is_dot(it[1]):
                    tags.add("dot-after-paren-open")
                    tree_dot(depth + 1)
                rec(it[2], depth + 1)
        if nxt:
            if is_dot(nxt[0]):
                tree_dot(depth)
                if items:
                    tags.add("dot-after-ring-mark" if items[-1][0] == "ring" else "dot-after-paren-close")
            rec(nxt[1], depth)
        elif depth > 0 and False:
            pass

    rec(c, 0)
    return tags


def py_wf(c, multi):
    """Untrusted mirror of Spec.ParseSpec.wf (only used to choose the form of check 'spec' and for the histogram)."""
    ok = [True]
    open_ = {}
    pairs = []
    cnt = [0]

    def digits(s):
        return all(ch in "0123456789" for ch in s)

    def bsym_ok(b):
        if b[0] == "S":
            return b[1] in BOND_ORDERS
        if b[0] == "R":
            return digits(b[1]) and digits(b[2])
        return True

    def has_edge(b):
        return not (b[0] == "D" or (b[0] == "S" and BOND_ORDERS.get(b[1], 0) == 0))

    def atom_ok(a):
        if a[0] == "A":
            return a[1] in ATOMS
        if a[0] == "L":
            okc = "abcdefghijklmnopqrstuvwxyzABCDEFGHIJKLMNOPQRSTUVWXYZ0123456789_-"
            return len(a[1]) > 0 and all(all(ch in okc for ch in l) for l in a[1]) and ",".join(a[1]) != ""
        return True

    def rec(c, parent, pb):
        a, items, nxt = c
        me = cnt[0]
        cnt[0] += 1
        if not atom_ok(a):
            ok[0] = False
        if parent is not None and has_edge(pb):
            pairs.append((parent, me))
        for it in items:
            if not bsym_ok(it[1]):
                ok[0] = False
            if it[0] == "ring":
                l = it[2]
                if not (digits(l) and l != ""):
                    ok[0] = False
                if l in open_:
                    at = open_.pop(l)
                    if has_edge(it[1]):
                        pairs.append((me, at))
                else:
                    if it[1][0] != "I":
                        ok[0] = False
                    open_[l] = me
            else:
                rec(it[2], me, it[1])
        if nxt:
            if not bsym_ok(nxt[0]):
                ok[0] = False
            rec(nxt[1], me, nxt[0])

    rec(c, None, None)
    if not ok[0] or open_:
        return False
    if any(u == v for u, v in pairs):
        return False
    if not multi and len(set(frozenset(p) for p in pairs)) != len(pairs):
        return False
    toks = chain_tokens(c)
    for (k1, w1), (k2, w2) in zip(toks, toks[1:]):
        if w2 == "":
            return False
        if k1 == "ATOM" and (w1 + w2[0]) in ATOMS:
            return False
        if k1 == "RING_NUM" and w2[0] in "0123456789":
            return False
    return True


def to_chain(text):
    """Untrusted text -> chain (used for corpus strings and by C02); None if the text is outside the grammar.
    Accepted only together with check 'print' (Coq's print of the chain must give back the text)."""
    toks = [(t, v) for t, v, _ in fp.tokenize(text)]
    pos = [0]

    def peek(k=0):
        return toks[pos[0] + k] if pos[0] + k < len(toks) else (None, None)

    def bsym():
        t, v = peek()
        if t == "BOND":
            pos[0] += 1
            return ["D"] if v == "." else ["S", v]
        if t == "RC_BOND":
            pos[0] += 1
            g, h = v[1:-1].split(",")
            return ["R", g, h]
        return ["I"]

    def atom():
        t, v = peek()
        if t == "ATOM":
            pos[0] += 1
            return ["A", v]
        if t == "WILDCARD":
            pos[0] += 1
            return ["W"]
        if t == "NODE_LABEL":
            pos[0] += 1
            return ["L", v[1:-1].split(",")]
        raise ValueError("atom expected")

    def chain():
        a = atom()
        items = []
        while True:
            t, v = peek()
            if t == "BRANCH_START":
                pos[0] += 1
                b = bsym()
                sub = chain()
                if peek()[0] != "BRANCH_END":
                    raise ValueError(") expected")
                pos[0] += 1
                items.append(["branch", b, sub])
                continue
            save = pos[0]
            b = bsym()
            t, v = peek()
            if t == "RING_NUM":
                pos[0] += 1
                items.append(["ring", b, v])
                continue
            if t in ("ATOM", "WILDCARD", "NODE_LABEL"):
                return [a, items, [b, chain()]]
            pos[0] = save
            return [a, items, None]

    try:
        c = chain()
    except (ValueError, IndexError):
        return None
    if pos[0] != len(toks) or p_chain(c) != text:
        return None
    return c


# ------------------------------------------------------------------ generators

class Gen:
    def __init__(self, rng, its, multi, sloppy):
        self.rng, self.its, self.multi, self.sloppy = rng, its, multi, sloppy
        self.open = {}
        self.natoms = 0
        self.pairs = set()
        self.free_labels = []

    def atom(self):
        r = self.rng.random()
        if r < 0.07:
            return ["W"]
        if r < 0.14:
            return ["L", [self.rng.choice(LABEL_WORDS) for _ in range(self.rng.randint(1, 3))]]
        return ["A", self.rng.choice(ATOM_WEIGHTED)]

    def num(self):
        return self.rng.choice(["", "", "0", "1", "2", "3", "1", "2", "10", "007", "12"])

    def bond(self, allow_dot=True, deep=False):
        r = self.rng.random()
        if r < 0.45:
            return ["I"]
        if allow_dot and r < (0.6 if deep else 0.53):     # dots are a little more frequent inside / at the start of branches
            return ["D"]
        if self.its and r < 0.8:
            return ["R", self.num(), self.num()]
        return ["S", self.rng.choice(BSYM)]

    def new_label(self):
        rng = self.rng
        if self.free_labels and rng.random() < 0.5:
            return self.free_labels.pop()
        r = rng.random()
        if r < 0.7:
            return str(rng.randint(1, 9))
        if r < 0.85:
            return str(rng.randint(10, 120))
        return rng.choice(["0", "01", "00", "007", "10"])

    def ring_item(self, my, last_ring):
        """one ring mark on atom `my` (closing an open ring or opening a new one), or None"""
        rng = self.rng
        if rng.random() < 0.55 and self.open:
            cands = [l for l, at in self.open.items()
                     if self.sloppy or (at != my and (self.multi or frozenset((at, my)) not in self.pairs))]
            if cands:
                l = rng.choice(cands)
                b = self.bond()
                if last_ring and b[0] == "I" and not self.sloppy:
                    return None
                at = self.open.pop(l)
                self.free_labels.append(l)
                self.pairs.add(frozenset((at, my)))
                return ["ring", b, l]
        if rng.random() < 0.6 and (not last_ring or self.sloppy):
            l = self.new_label()
            if l in self.open:
                return None
            self.open[l] = my
            return ["ring", self.bond() if (self.sloppy and rng.random() < 0.5) else ["I"], l]
        return None

    def chain(self, depth, budget):
        rng = self.rng
        a = self.atom()
        my = self.natoms
        self.natoms += 1
        budget[0] -= 1
        items = []
        last_ring = False
        for _ in range(rng.choice([0, 0, 1, 1, 2, 3, 4])):
            if rng.random() < 0.7:
                it = self.ring_item(my, last_ring)
                if it is not None:
                    items.append(it)
                    last_ring = True
            elif budget[0] > 0 and depth < 3:
                b = self.bond(deep=True)
                self.pairs.add(frozenset((my, self.natoms)))
                items.append(["branch", b, self.chain(depth + 1, budget)])
                last_ring = False
        nxt = None
        if budget[0] > 0 and rng.random() < 0.8:
            b = self.bond(deep=depth > 0)
            self.pairs.add(frozenset((my, self.natoms)))
            nxt = [b, self.chain(depth, budget)]
        return [a, items, nxt]


def close_open_rings(c, gen, rng):
    """Append closing marks for rings still open to the last atom of the main chain (keeps most texts balanced)."""
    if not gen.open:
        return
    node = c
    while node[2]:
        node = node[2][1]
    for l in list(gen.open):
        node[1].append(["ring", ["S", rng.choice(BSYM)], l])
        gen.open.pop(l)


def gen_wellformed(rng):
    its = rng.random() < 0.35
    multi = rng.random() < 0.3
    sloppy = rng.random() < 0.12
    for _ in range(20):
        g = Gen(rng, its, multi, sloppy)
        c = g.chain(0, [rng.choice([1, 2, 3, 4, 5, 6, 8, 10, 14])])
        if g.open and rng.random() < 0.9:
            close_open_rings(c, g, rng)
        if sloppy or py_wf(c, multi) or rng.random() < 0.05:
            break
    return c, multi


SOUP = ATOMS + ["C", "c", "C", "c", "N", "O"] + list(".-=#$:/\\") + ["(", ")", "(", ")"] + list("0123456789") + \
    ["R", "<1,2>", "<,>", "<2,>", "<,0>", "{a}", "{a,b}", "{}", "{", "}", "<", ">", ",", "X", "*", "[", "]", "@", "+", " ",
     "\n", "\t", "l", "r", "e", "i", "g", "M", "L", "Zn", "%", "~", "'", '"', "a"]


def gen_malformed(rng):
    r = rng.random()
    if r < 0.55:
        n = rng.choice([0, 1, 2, 3, 4, 5, 6, 8, 12])
        return "".join(rng.choice(SOUP) for _ in range(n))
    c, _ = gen_wellformed(rng)
    s = p_chain(c)
    for _ in range(rng.choice([1, 1, 2])):
        k = rng.random()
        if s and k < 0.35:
            i = rng.randrange(len(s))
            s = s[:i] + s[i + 1:]
        elif k < 0.75:
            i = rng.randint(0, len(s))
            s = s[:i] + rng.choice(SOUP) + s[i:]
        elif s:
            i = rng.randrange(len(s))
            s = s[:i] + s[i] + s[i:]
    return s


OFFSETS = [0, 0, 0, 0, 1, 3, 17, -2]


# Texts that leave something behind in a Parser object if its state is not reset between calls: reaction bonds (is_its),
# rings left open (tolerated input), branches left open, a pending bond symbol, texts aborted by an exception after
# opening rings / branches, labelled nodes. Used (a) as members of HISTORY cases (one Parser object parses a sequence of
# texts, every result is compared) and (b) as pre-calls before ordinary cases.
DISTURB = [
    "C<1,2>C", "C1<2,>C<,2>C1", "c1cc<0,1>ccc1", "C<,>", "C<2,1>",                         # reaction bonds (+ pending pair)
    "CC1CC", "C1C2C3CC", "c1ccccc", "C1CC2", "C12C", "C01C", "C10CC", "C3CC4",                # rings left open
    "C(C", "C((C", "CC(C(=O", "C(", "C1(CC",                                               # branches left open
    "C=", "CC#", "C.", "c:", "C$",                                                        # pending bond symbol
    "C1CX", "C1C2C3(C?", "C2(C<1,2>C!", "1CC", "C1CC1[", "c1cc(C*",                       # SyntaxError, mid-way
    "C)C", "CC1)", "C1(C))",                                                               # IndexError
    "C/C", "C1C\\C", "C1(C/",                                                              # KeyError
    "C{a,b}C", "{g}1CC1", "{x}({y})1", "R1RR",                                             # labels / wildcards
    "CCO", "c1ccccc1", "CC(=O)O", "C1CC1", "C1CCC1C1CC1", "c1ccc2ccccc2c1", "Cl", "", "C",  # plain
]


def rand_pre(rng):
    return [rng.choice(DISTURB) for _ in range(rng.choice([1, 1, 2]))]


def mk_case(kind, text, chain, rng=None, multi=False, off=None, aam=None, pre=None, via=None):
    """via = "fresh": a fresh call (module-level parse() for Graph, a new Parser object for MultiGraph);
             "module": `pre` texts are first parsed with the module-level parse() (exceptions ignored), then the real call;
             "object": ONE Parser object parses the `pre` texts (exceptions ignored) and then the real text."""
    if rng is not None:
        off = rng.choice(OFFSETS) if off is None else off
        aam = (rng.random() < 0.25) if aam is None else aam
        if pre is None and rng.random() < 0.3:
            pre = rand_pre(rng)
            via = "object" if (multi or rng.random() < 0.4) else "module"
    return {"kind": kind, "text": text, "chain": chain, "offset": off or 0, "aam": bool(aam), "multi": bool(multi),
            "pre": list(pre or []), "via": (via or ("object" if multi else "module")) if pre else "fresh"}


def mk_history(rng):
    """One Parser object, 2-4 texts; EVERY result must be what a fresh parse of that text alone gives."""
    multi = rng.random() < 0.4
    aam = rng.random() < 0.3
    k = rng.choice([2, 3, 3, 4])
    texts = []
    for j in range(k):
        r = rng.random()
        if r < 0.55:
            texts.append(rng.choice(DISTURB))
        elif r < 0.85:
            c, _ = gen_wellformed(rng)
            texts.append(p_chain(c))
        else:
            texts.append(gen_malformed(rng))
    texts = [t for t in texts if all(ord(ch) < 127 for ch in t)] or ["C<1,2>C", "CCO"]
    if len(texts) < 2:
        texts.append("CC1CC")
    if rng.random() < 0.5:                      # make sure plain texts follow the disturbing ones
        texts.append(rng.choice(["CCO", "C1CC1", "c1ccccc1", "CC(C)=O", "C1CC2C1C2", "C=C", "CC"]))
    return {"kind": "history", "texts": texts, "offsets": [rng.choice(OFFSETS) for _ in texts],
            "chains": [to_chain(t) for t in texts], "aam": aam, "multi": multi,
            "text": " | ".join(texts), "chain": None, "offset": 0, "pre": [], "via": "object",
            "call": [rng.random() < 0.5 for _ in texts]}


def exhaustive_cases():
    atoms = [["A", "C"], ["A", "c"], ["A", "O"], ["W"], ["L", ["g"]], ["A", "Cl"]]
    bonds = [["I"], ["D"], ["S", "-"], ["S", "="], ["S", "#"], ["S", "$"], ["S", ":"], ["R", "1", "2"]]
    for a in atoms:
        for b in atoms:
            for x in bonds:
                c = [a, [], [x, [b, [], None]]]
                yield mk_case("exh", p_chain(c), c)
    for a in atoms:
        for b in atoms:
            for cc in atoms:
                for x in bonds:
                    for y in bonds:
                        c = [a, [], [x, [b, [], [y, [cc, [], None]]]]]
                        yield mk_case("exh", p_chain(c), c)
                        c = [a, [["branch", x, [b, [], None]]], [y, [cc, [], None]]]
                        yield mk_case("exh", p_chain(c), c)
    ring_atoms = [["A", "C"], ["A", "c"]]
    for a in ring_atoms:
        for b in ring_atoms:
            for cc in ring_atoms:
                for x in bonds:
                    for y in bonds:
                        for z in bonds:
                            c = [a, [["ring", ["I"], "1"]], [x, [b, [], [y, [cc, [["ring", z, "1"]], None]]]]]
                            yield mk_case("exh", p_chain(c), c, multi=(z[0] == "R"))


def generate(seed, tier, ncases=None):
    n = ncases or (800 if tier == "quick" else 20000)
    if tier != "quick" and ncases is None:
        for c in exhaustive_cases():
            yield c
    for i in range(n):
        rng = lib.rng_for(seed, ID, i)
        if i % 4 == 3:
            text = gen_malformed(rng)
            if any(ord(ch) > 126 for ch in text):
                continue
            yield mk_case("malformed", text, to_chain(text) if rng.random() < 0.5 else None, rng, multi=rng.random() < 0.25)
        else:
            c, multi = gen_wellformed(rng)
            yield mk_case("chain", p_chain(c), c, rng, multi=multi)
    for i in range(max(1, n // 8)):
        yield mk_history(lib.rng_for(seed, ID + "-history", i))


CORPUS_TEXTS = [
    # D1-D5 witnesses
    "C$C", "C.C<1,2>C", "C1CCCc2c1cccc2", "C1CC=c1", "c-c", "cc<1,2>C", "c1ccccc1<1,2>C", "c:c", "C$1CC$1",
    # pinned in test/test_parse.py
    "RC(=O)OR", "RClR", "C<1,2>C", "C<,1>C", "C<1,>C", "C{group}C", "CR{pattern_1}C", "CC(=C(O)O)C", "C1CC1", "C1CCC1",
    "C1C2C1C2", "c1ccccc1", "Cc1c(C)c(=C)ccc1", "C.O", "C1CC.1", "X", "1CCC1", "HO",
    "C1<2,>C<,2>C<2,>C<0,1>C<2,>C<0,1>1", "C{group}", "{group1,group2}", "C1CC2C=1C2", "C1=C1", "CC(O)=O", "CCC", "CC<2,1>C",
    # dots wherever the grammar permits: inside a branch, right after "(", after ")" / after a ring mark, at a ring-closing
    # mark, a ring opened before a dot and closed after it
    "C(C.C)C", "CC(=O.N)O", "C(.C)C", "C(C)(.C)C", "C(C).C", "C1.C1", "C1CC.O1", "C1.CC1", "C1(.C)CC1", "C(C.C)(C.C)C",
    "C(C(C.C)C)C", "C(C(.C))C", "C1.C.C1", "C(C1.C)C1", "c1ccccc1.C(C.c)C", "C(.C.C)C", "C<1,2>(C.C)C", "C(C.{g})R", "C(C.1",
    # other documented / odd behaviours
    "CSn1cccc1", "C/C", "C\\C", "C)", "(C1)1", "(C)C", "", "C(", "C12", "C1CC1C1CC1", "C=1CC1", "C<0,0>C", "C<007,10>C",
    "{,}", "{}", "C{a,,b}", "C\nC", "C C", "[C]", "C%10", "C1-1", "C(.C)C", "C.(C)", "C..C", "c1ccccc1-c2ccccc2",
    "SnCl", "SeC", "SiC", "MgLi", "Cl", "CLi", "pO", "bB", "C:C", "c=c", "Rc", "cR", "{a}c", "c{a}c", "C01CC01", "C1CC01",
]


def corpus():
    for t in CORPUS_TEXTS:
        ch = to_chain(t)
        yield mk_case("corpus", t, ch, off=0, aam=False, multi=False)
    for t in ["C1=C1", "C1CC1", "C1-1", "C1CC=1", "C=1CC1", "C1C1=1", "C<1,2>1C1", "c1c1", "C.C<1,2>C"]:
        yield mk_case("corpus", t, to_chain(t), off=0, aam=False, multi=True)
    # state must not leak between calls (review findings): same Parser object / module-level parse()
    for multi in (False, True):
        for texts in (["C<1,2>C", "CCO"], ["CC1CC", "C1CC1"], ["C(C", "C)C", "CC"], ["C1CX", "C1CC1"], ["C=", "CC"],
                      ["C/C", "C{a}C", "c1ccccc1"], ["C<,>", "cc", "C1C1"]):
            yield {"kind": "history", "texts": texts, "offsets": [0] * len(texts), "chains": [to_chain(t) for t in texts],
                   "aam": False, "multi": multi, "text": " | ".join(texts), "chain": None, "offset": 0, "pre": [],
                   "via": "object", "call": [False] * len(texts)}
    for pre, t in ((["C<1,2>C"], "CCO"), (["CC1CC"], "C1CC1"), (["C1CX"], "CC1CC1"), (["C(C"], "C)C"), (["C1C2C3CC", "C="], "C1CC2CC2C1")):
        yield mk_case("corpus", t, to_chain(t), off=0, aam=False, multi=False, pre=pre, via="module")
        yield mk_case("corpus", t, to_chain(t), off=0, aam=False, multi=False, pre=pre, via="object")
        yield mk_case("corpus", t, to_chain(t), off=0, aam=False, multi=True, pre=pre, via="object")
    yield mk_case("corpus", "CO", to_chain("CO"), off=1, aam=True, multi=False)
    yield mk_case("corpus", "C1CC1", to_chain("C1CC1"), off=5, aam=True, multi=True)


# ------------------------------------------------------------------ implementation

ERRS = {"SyntaxError": "ESyntax", "IndexError": "EIndex", "KeyError": "EKey", "ValueError": "EValue"}


def _call(f, *a, **kw):
    try:
        return ("ok", f(*a, **kw))
    except Exception as e:       # the class is the observable result
        return (type(e).__name__, str(e)[:200])


def _toks(text):
    return [(t, v) for t, v, _ in fp.tokenize(text)]


def run_impl(c):
    if c["kind"] == "history":
        parser = fp.Parser(use_multigraph=c["multi"], init_aam=c["aam"])
        outs = []
        for text, off, use_call in zip(c["texts"], c["offsets"], c["call"]):
            r = _call(parser, text, off) if use_call else _call(parser.parse, text, idx_offset=off)
            if r[0] == "ok" and r[1].is_multigraph() != c["multi"]:
                r = ("WrongClass", "graph class %s" % type(r[1]).__name__)
            outs.append(r + (_toks(text),))
        # results are serialised only after the whole sequence: a later call must not alter an earlier result either
        return ("history", outs, None)
    toks = _toks(c["text"])
    if c["via"] == "object" or c["multi"]:
        parser = fp.Parser(use_multigraph=c["multi"], init_aam=c["aam"])
        for t in c["pre"]:
            _call(parser.parse, t)
        r = _call(parser.parse, c["text"], idx_offset=c["offset"])
    else:
        for t in c["pre"]:
            _call(fp.parse, t)
        r = _call(fp.parse, c["text"], idx_offset=c["offset"], init_aam=c["aam"])
    if r[0] == "ok" and r[1].is_multigraph() != c["multi"]:
        r = ("WrongClass", "graph class %s" % type(r[1]).__name__)
    return r + (toks,)


# ------------------------------------------------------------------ Coq terms

def cstr(x):
    """Coq string term for any ASCII text (control characters via ascii_of_nat)."""
    if not isinstance(x, str):
        raise ct.Unrepresentable("not a string: %r" % (x,))
    if any(ord(ch) > 127 for ch in x):
        raise ct.Unrepresentable("non-ASCII text %r" % x)
    if all(32 <= ord(ch) <= 126 for ch in x):
        return ct.s(x)
    parts, cur = [], ""
    for ch in x:
        if 32 <= ord(ch) <= 126:
            cur += ch
        else:
            if cur:
                parts.append(ct.s(cur))
                cur = ""
            parts.append('(String (Coq.Strings.Ascii.ascii_of_nat %d%%nat) "")' % ord(ch))
    if cur:
        parts.append(ct.s(cur))
    return "(" + " ++ ".join(parts) + ")%string"


def mgraph(g):
    if not g.is_multigraph() or g.is_directed():
        raise ct.Unrepresentable("not an undirected multigraph")
    entries = []
    for n in g._node:
        ad = []
        for v, kd in g._adj[n].items():
            ks = []
            for k, dd in kd.items():
                if set(dd.keys()) != {"bond"}:
                    raise ct.Unrepresentable("edge attribute keys %r" % (sorted(dd.keys()),))
                ks.append("(%s, %s)" % (ct.z(k), ct.label(dd["bond"])))
            ad.append("(%s, %s)" % (ct.z(v), ct.lst(ks)))
        entries.append("(%s, (%s, %s))" % (ct.z(n), ct.nattr(g._node[n]), ct.lst(ad)))
    return "(%s : mgraph)" % ct.lst(entries)


def out_term(multi, out):
    ty = "mgraph" if multi else "graph"
    if out[0] == "ok":
        return "(Ok %s : result %s)" % (mgraph(out[1]) if multi else ct.graph(out[1]), ty)
    if out[0] not in ERRS:
        raise ct.Unrepresentable("exception class %s (%s)" % (out[0], out[1]))
    return "(@Err %s %s)" % (ty, ERRS[out[0]])


def one_text(text, chain, out, off, aam, multi, sfx=""):
    """defs / checks / diag for ONE parsed text; sfx distinguishes the members of a history case."""
    T, K, O, C = "$text" + sfx, "$toks" + sfx, "$out" + sfx, "$t" + sfx
    defs = {"text" + sfx: cstr(text),
            "toks" + sfx: "(%s : list (string * string))" % ct.lst(["(%s, %s)" % (cstr(t), cstr(v)) for t, v in out[2]]),
            "out" + sfx: out_term(multi, out)}
    aam, off = ct.b(aam), ct.z(off)
    if multi:
        model = "parse_multi %s %s %s" % (aam, off, T)
        agree = "result_eqb mgraph_eqb (%s) %s" % (model, O)
    else:
        model = "parse_simple %s %s %s" % (aam, off, T)
        agree = "result_eqb graph_eqb (%s) %s" % (model, O)
    checks = {"agree": agree,
              "tok": "option_eqb (list_eqb token_eqb) (tokenize %s) (Some %s)" % (T, K),
              "print": "true", "spec": "true"}
    diag = [model, "tokenize " + T]
    if chain is not None:
        defs["t" + sfx] = q_chain(chain)
        checks["print"] = "String.eqb (print %s) %s" % (C, T)
        if multi:
            eq = "match denote_multi %s %s %s with Some g => result_eqb same_mgraphb (Ok g) %s | None => false end" % (off, aam, C, O)
        else:
            eq = "result_eqb same_graphb (Ok (denote_simple %s %s %s)) %s" % (off, aam, C, O)
        if py_wf(chain, multi):
            checks["spec"] = "wf %s %s && %s" % (ct.b(multi), C, eq)
        else:
            checks["spec"] = "implb (wf_core %s && wf_lex %s) (%s)" % (C, C, eq)
        diag += ["wf %s %s" % (ct.b(multi), C), "print " + C,
                 ("denote_multi %s %s %s" if multi else "denote_simple %s %s %s") % (off, aam, C)]
    return defs, checks, diag


def coq_case(c, out):
    if c["kind"] != "history":
        defs, checks, diag = one_text(c["text"], c["chain"], out, c["offset"], c["aam"], c["multi"])
        return {"defs": defs, "checks": checks, "diag": diag}
    defs, diag = {}, []
    checks = {cn: [] for cn in CHECKS}
    for j, (text, chain, off, o) in enumerate(zip(c["texts"], c["chains"], c["offsets"], out[1])):
        d, ch, dg = one_text(text, chain, o, off, c["aam"], c["multi"], sfx="_%d" % j)
        defs.update(d)
        diag += dg
        for cn in CHECKS:
            checks[cn].append("(%s)" % ch[cn])
    return {"defs": defs, "checks": {cn: " && ".join(v) for cn, v in checks.items()}, "diag": diag}


# ------------------------------------------------------------------ bookkeeping

def describe(c):
    d = {"kind": c["kind"], "text": c["text"], "chain": c["chain"], "offset": c["offset"], "aam": c["aam"], "multi": c["multi"],
         "pre": c.get("pre", []), "via": c.get("via", "fresh")}
    if c["kind"] == "history":
        d.update({"texts": c["texts"], "offsets": c["offsets"], "chains": c["chains"], "call": c["call"]})
    return d


def from_json(d):
    c = {"kind": d["kind"], "text": d["text"], "chain": d.get("chain"), "offset": d["offset"], "aam": d["aam"], "multi": d["multi"],
         "pre": d.get("pre", []), "via": d.get("via", "fresh")}
    if d["kind"] == "history":
        c.update({"texts": d["texts"], "offsets": d["offsets"], "chains": d["chains"], "call": d.get("call", [False] * len(d["texts"]))})
    return c


def _describe_one(out):
    if out[0] == "ok":
        g = out[1]
        if g.is_multigraph():
            return {"status": "ok", "nodes": [[n, dict(d)] for n, d in g.nodes(data=True)],
                    "edges": [[u, v, k, repr(d.get("bond"))] for u, v, k, d in g.edges(keys=True, data=True)]}
        return {"status": "ok", "graph": ct.graph_py(g)}
    return {"status": out[0], "msg": out[1]}


def describe_out(out):
    if out[0] == "history":
        return {"status": "history", "results": [_describe_one(o) for o in out[1]]}
    return _describe_one(out)


def key(c):
    if c["kind"] == "history":
        return ("history", tuple(c["texts"]), tuple(c["offsets"]), c["aam"], c["multi"])
    return (c["text"], c["offset"], c["aam"], c["multi"], tuple(c.get("pre", [])), c.get("via"))


def nontrivial(c, out):
    if out[0] != "ok":
        return True         # rejected texts and histories
    t = c["text"]
    return out[1].number_of_nodes() >= 2 and any(ch in t for ch in "(.<0123456789")


def classes(c, out):
    yield "kind=" + c["kind"]
    yield "via=" + c.get("via", "fresh")
    if c["kind"] == "history":
        yield "history_len=%d" % len(c["texts"])
        for o in out[1]:
            yield "history_result=" + o[0]
        yield "multi=%s" % c["multi"]
        yield "aam=%s" % c["aam"]
        return
    yield "result=" + out[0]
    yield "multi=%s" % c["multi"]
    yield "aam=%s" % c["aam"]
    yield "offset=%s" % ("0" if c["offset"] == 0 else "nonzero")
    if c["chain"] is not None:
        yield "chain=yes"
        yield "wf=%s" % py_wf(c["chain"], c["multi"])
        yield "its=%s" % chain_has_rc(c["chain"])
        n = chain_natoms(c["chain"])
        yield "atoms=" + ("1" if n == 1 else "2-4" if n <= 4 else "5-8" if n <= 8 else "9+")
        for tag in sorted(dot_shapes(c["chain"])):
            yield tag
    else:
        yield "chain=no"
    t = c["text"]
    for name, chars in (("branch", "("), ("ring", "0123456789"), ("dot", "."), ("label", "{"), ("wild", "R"), ("quad", "$"),
                        ("aromatic", "bcnops")):
        if any(ch in t for ch in chars):
            yield "has_" + name
