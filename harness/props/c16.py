"""C16 - rule application. Correspondence:
  Model.Rule.{split_its, reaction_rule, its_of, is_connected, apply_rule}  ~
      fgutils.its.split_its, fgutils.synthesis.rule_application.{ReactionRule, apply_rule}
  Model.Rule.{parse_graph, parse_gml_dpo_rule, to_rc_graph, from_gml}  ~
      rule_application.{_parse_graph, parse_gml_dpo_rule, DPORule.to_rc_graph, ReactionRule.from_gml}
networkx' VF2 enumeration and the Weisfeiler-Lehman digest are oracles. VF2's answer list is recorded
from the real call and validated against the proved reference enumerator on every case (check "vf2").
The digests handed to the model and to the checker are computed BY THE HARNESS with networkx'
weisfeiler_lehman_graph_hash(result, edge_attr="bond", node_attr="symbol", iterations=3) on the result
graphs of the call unique=False / no filter / no limit (one per VF2 mapping, in VF2 order; those graphs are
judged against the property by check "spec") - they do not depend on which graph the implementation hashes
internally; check "wlcalls" (and a per-call runtime invariant) requires the digests computed inside
apply_rule to be these."""
import signal

import networkx as nx

import lib
import gens
import coqterm as ct
from fgutils.its import ITS
from fgutils.synthesis import rule_application as RA
from fgutils.synthesis.rule_application import ReactionRule, apply_rule

ID = "C16"
REPEAT_PROBE = True   # engine: repeat 1 call in 5 after editing its first result in place (purity / no shared state)
PROPS = "Props/C16.v"
MODEL_FILES = ["Gen/RuleMap.v", "Model/Rule.v", "Spec/RuleSpec.v", "Spec/RuleCheck.v"]
IMPORTS = "From FGV Require Import Model.Aam Gen.RuleMap Model.Rule Spec.RuleSpec Spec.RuleCheck."
CHECKS = ["agree", "vf2", "spec", "lex", "wlcalls"]
USES_GEN = ["rulemap"]
CHUNK = 40
CORRESPONDENCE = ("Model.Rule.{split_its,reaction_rule,its_of,is_connected,apply_rule} ~ fgutils.its.split_its, "
                  "fgutils.synthesis.rule_application.{ReactionRule,apply_rule} (result lists compared exactly, in order, "
                  "graphs with all dict orders, for every option combination); "
                  "Model.Rule.{parse_graph,parse_gml_dpo_rule,to_rc_graph,from_gml} ~ rule_application.{_parse_graph,"
                  "parse_gml_dpo_rule,DPORule.to_rc_graph,ReactionRule.from_gml} over lines classified by the real regex functions")
RULE = ("apply stream: random reactant molecules/forests/unions of molecules (1-8 atoms, symbols C O N H Cl, orders 1 2 1.5 3, "
        "all id schemes) and symmetric reactants (rings, stars, K4); reaction-centre rules derived from a random connected "
        "(or two-piece) subgraph of the reactant with random bond changes (form, break, change, unchanged context as number "
        "or pair, bonds between matched atoms left unmentioned = D17 situation), tuple or list labels, arbitrary rule ids; "
        "asymmetric single-bonded reactants (hetero-terminated chains, branched skeletons, substituted rings) with rules on a "
        "carbon path that only change/break existing bonds (broken bond next to a changed bond), so that non-equivalent "
        "embeddings give results differing only in which existing bond is changed; "
        "rules that match nowhere; dimer family: 2-3 copies of a chain X-(C)k-Y with a rule of two separate components X<0,1>Y, where results that close each chain onto itself (disconnected) and results that join the chains into one macrocycle (connected) share a WL digest, so unique and connected_only interact; every case is run for unique x connected_only x n in {None,0,1,2,large,-1}; "
        "gml stream: random DPO rules printed in the MOD GML format and malformed variants (missing/reordered/renamed sections, "
        "bad labels, nodes outside the context, context edges, trailing lines); non-trivial = at least one embedding and one "
        "changed bond, or a GML text that parses; distinct = distinct (reactant, rule) / distinct text")
TRUSTED = ["networkx VF2 (GraphMatcher.subgraph_monomorphisms_iter): its answer list is an input of the model; validated "
           "on every case against the proved reference enumerator all_monos (check vf2), its order is taken as given",
           "networkx weisfeiler_lehman_graph_hash as a function: the digests (inputs of the model and of the checker) are "
           "computed by the harness on the expected result graphs, one per embedding; the digests computed inside "
           "apply_rule are compared with them (check wlcalls)",
           "the regular expressions of the six GML line classifiers (the model starts from their answers per line)",
           "model of the attribute dict as a record of the five keys FGUtils uses"]
ASSUMPTIONS = ["bond attributes of the reactant graph are numbers (multiples of 0.5); node ids are Python ints",
               "unique is the object True or False; n is None or an int",
               "from_gml is given GML text, not a path ending in .gml"]

SYMS = ["C", "C", "C", "O", "N", "H", "Cl"]
ORDERS = (1, 1, 1, 2, 1.5, 3)
N_VALUES = [None, 0, 1, 2, 1000, -1]
MAX_MONOS = 64


# ----------------------------------------------------------------------------------------------
# generators
# ----------------------------------------------------------------------------------------------

def _union(rng, a, b):
    g = nx.Graph()
    off = a.number_of_nodes()
    for n, d in a.nodes(data=True):
        g.add_node(n, **dict(d))
    for n, d in b.nodes(data=True):
        g.add_node(n + off, **dict(d))
    for u, v, d in a.edges(data=True):
        g.add_edge(u, v, **dict(d))
    for u, v, d in b.edges(data=True):
        g.add_edge(u + off, v + off, **dict(d))
    return g


def _symmetric(rng):
    kind = rng.choice(["ring", "ring", "star", "k4", "path", "ring2"])
    g = nx.Graph()
    if kind in ("ring", "ring2"):
        n = rng.choice([3, 3, 4, 5, 6])
        o = rng.choice([1, 1, 1.5, 2])
        for i in range(n):
            g.add_node(i, symbol="C")
        for i in range(n):
            g.add_edge(i, (i + 1) % n, bond=o if kind == "ring" else (o if i % 2 == 0 else 1))
    elif kind == "star":
        k = rng.choice([2, 3, 4])
        g.add_node(0, symbol=rng.choice(["C", "N"]))
        for i in range(1, k + 1):
            g.add_node(i, symbol="H")
            g.add_edge(0, i, bond=1)
    elif kind == "k4":
        for i in range(4):
            g.add_node(i, symbol="C")
        for i in range(4):
            for j in range(i + 1, 4):
                g.add_edge(i, j, bond=1)
    else:
        n = rng.choice([2, 3, 4, 5])
        for i in range(n):
            g.add_node(i, symbol="C")
        for i in range(n - 1):
            g.add_edge(i, i + 1, bond=1)
    return g, kind


def _rand_reactant(rng):
    r = rng.random()
    if r < 0.22:
        g, kind = _symmetric(rng)
        if rng.random() < 0.3:
            g = _union(rng, g, gens.rand_mol(rng, 1, 3, syms=SYMS, orders=ORDERS))
            kind += "+mol"
        return g, "sym:" + kind
    if r < 0.55:
        return gens.rand_mol(rng, 1, 8, syms=SYMS, orders=ORDERS, ring_p=0.5), "mol"
    if r < 0.75:
        return gens.rand_forest(rng, 2, 8, syms=SYMS, orders=ORDERS), "forest"
    a = gens.rand_mol(rng, 1, 4, syms=SYMS, orders=ORDERS)
    b = gens.rand_mol(rng, 1, 4, syms=SYMS, orders=ORDERS)
    return _union(rng, a, b), "union"


def _asym_case(rng):
    """Asymmetric single-bonded reactant + a rule on a carbon path that only changes / breaks EXISTING bonds
    (a broken bond next to a changed bond, a lone broken or changed bond, ...). The embeddings are then
    non-equivalent and their results differ only in WHICH existing bond is changed or broken: the plain
    reactant graph is the same for all of them, only the [reactant, product] labels tell them apart."""
    kind = rng.choice(["chain", "chain", "branched", "ringsub"])
    het = rng.choice(["O", "N", "Cl"])
    g = nx.Graph()
    if kind == "chain":                       # C-C-...-C-X      (CCCO)
        n = rng.randint(3, 6)
        for i in range(n):
            g.add_node(i, symbol="C")
        for i in range(n - 1):
            g.add_edge(i, i + 1, bond=1)
        g.add_node(n, symbol=het)
        g.add_edge(n - 1, n, bond=1)
    elif kind == "branched":                  # CC(C)CN and relatives: arms of different length off one carbon
        g.add_node(0, symbol="C")
        nxt = 1
        arms = rng.sample([1, 1, 2, 3], rng.choice([2, 3]))
        for k, ln in enumerate(arms):
            prev = 0
            for _ in range(ln):
                g.add_node(nxt, symbol="C")
                g.add_edge(prev, nxt, bond=1)
                prev = nxt
                nxt += 1
            if k == 0:
                g.add_node(nxt, symbol=het)
                g.add_edge(prev, nxt, bond=1)
                nxt += 1
    else:                                     # C1CC1O: carbon ring with one substituent
        n = rng.choice([3, 4, 5])
        for i in range(n):
            g.add_node(i, symbol="C")
        for i in range(n):
            g.add_edge(i, (i + 1) % n, bond=1)
        g.add_node(n, symbol=het)
        g.add_edge(0, n, bond=1)
    k = rng.choice([2, 3, 3, 3, 4])
    style = rng.choice(["tuple", "tuple", "list"])
    rc = nx.Graph()
    for i in range(k):
        rc.add_node(i, symbol="C")
    kinds = [rng.choice(["break", "change", "keep"]) for _ in range(k - 1)]
    if k == 3 and rng.random() < 0.5:
        kinds = ["change", "break"]           # C<1,2>C<1,0>C
    if all(x == "keep" for x in kinds):
        kinds[rng.randrange(len(kinds))] = rng.choice(["break", "change"])
    for i, kd in enumerate(kinds):
        if kd == "break":
            rc.add_edge(i, i + 1, bond=_mk_label(rng, 1, 0, style))
        elif kd == "change":
            rc.add_edge(i, i + 1, bond=_mk_label(rng, 1, rng.choice([2, 2, 1.5, 3]), style))
        elif rng.random() < 0.5:
            rc.add_edge(i, i + 1, bond=_mk_label(rng, 1, 1, style))
        else:
            rc.add_edge(i, i + 1, bond=1)
    return g, rc, "asym:" + kind


def _connected_piece(rng, g, size, avoid=()):
    cand = [n for n in g.nodes if n not in avoid]
    if not cand:
        return []
    s = [rng.choice(cand)]
    while len(s) < size:
        fr = sorted(set(w for v in s for w in g.neighbors(v)) - set(s) - set(avoid))
        if not fr:
            break
        s.append(rng.choice(fr))
    return s


def _mk_label(rng, a, b, style):
    if style == "list":
        return [a, b]
    if style == "tuple":
        return (a, b)
    return [a, b] if rng.random() < 0.5 else (a, b)


def _derive_rule(rng, g, nowhere=False):
    """A reaction-centre graph whose left side embeds into g (unless nowhere)."""
    k = rng.choice([1, 2, 2, 3, 3, 3, 4, 4, 5])
    piece = _connected_piece(rng, g, k)
    if rng.random() < 0.3 and len(piece) < 5:
        piece = piece + _connected_piece(rng, g, rng.choice([1, 2]), avoid=piece)
    scheme = rng.choice(["same", "contig", "shuffled", "sparse"])
    if scheme == "same":
        ids = list(piece)
    elif scheme == "contig":
        ids = list(range(len(piece)))
    elif scheme == "shuffled":
        ids = rng.sample(range(len(piece) + 2), len(piece))
    else:
        ids = rng.sample(range(0, 40), len(piece))
    rid = dict(zip(piece, ids))
    order = list(piece)
    rng.shuffle(order)
    style = rng.choice(["tuple", "tuple", "list", "mixed"])
    rc = nx.Graph()
    extra_attrs = rng.random() < 0.3
    for p in order:
        d = {"symbol": g.nodes[p]["symbol"]}
        if extra_attrs:
            d.update({"labels": [], "is_labeled": False})
        rc.add_node(rid[p], **d)
    pairs = [(piece[i], piece[j]) for i in range(len(piece)) for j in range(i + 1, len(piece))]
    rng.shuffle(pairs)
    changed = 0
    for u, v in pairs:
        if rng.random() < 0.5:
            u, v = v, u
        if g.has_edge(u, v):
            o = g[u][v]["bond"]
            r = rng.random()
            if r < 0.22:
                continue                       # bond between matched atoms the rule does not mention
            if r < 0.40:
                rc.add_edge(rid[u], rid[v], bond=_mk_label(rng, o, 0, style)); changed += 1      # break
            elif r < 0.62:
                o2 = rng.choice([x for x in (1, 2, 1.5, 3) if x != o])
                rc.add_edge(rid[u], rid[v], bond=_mk_label(rng, o, o2, style)); changed += 1     # change
            elif r < 0.80:
                rc.add_edge(rid[u], rid[v], bond=_mk_label(rng, o, o, style))                    # context as pair
            elif r < 0.92:
                rc.add_edge(rid[u], rid[v], bond=o)                                              # context as number
            else:
                rc.add_edge(rid[u], rid[v], bond=_mk_label(rng, 0, rng.choice([1, 2]), style)); changed += 1
        else:
            r = rng.random()
            if r < 0.35:
                rc.add_edge(rid[u], rid[v], bond=_mk_label(rng, 0, rng.choice([1, 1, 2, 1.5]), style)); changed += 1
            elif r < 0.40:
                rc.add_edge(rid[u], rid[v], bond=_mk_label(rng, 0, 0, style))
    if nowhere:
        how = rng.choice(["symbol", "order", "extra"])
        if how == "symbol" or rc.number_of_edges() == 0:
            n0 = rng.choice(list(rc.nodes))
            rc.nodes[n0]["symbol"] = rng.choice(["S", "Br", "c", "Xx"])
        elif how == "order":
            u, v = rng.choice(list(rc.edges))
            rc[u][v]["bond"] = _mk_label(rng, 2.5, 1, style)
        else:
            new = max(rc.nodes) + 1
            rc.add_node(new, symbol="Si")
            rc.add_edge(rng.choice([n for n in rc.nodes if n != new]), new, bond=_mk_label(rng, 1, 2, style))
    return rc, changed


def _gml_rule(rng):
    k = rng.randint(0, 5)
    ids = rng.sample(range(0, 30), k) if rng.random() < 0.5 else list(range(1, k + 1))
    rng.shuffle(ids)
    ctx = [(i, rng.choice(["C", "O", "N", "H", "Cl", "C+", "O-", "R1"])) for i in ids]
    pairs = [(a, b) for a in ids for b in ids if a < b]
    rng.shuffle(pairs)
    left, right = [], []
    for a, b in pairs[:rng.randint(0, 6)]:
        if rng.random() < 0.5:
            a, b = b, a
        r = rng.random()
        if r < 0.35:
            left.append((a, b, rng.choice("-=:")))
        elif r < 0.7:
            right.append((a, b, rng.choice("-=:")))
        else:
            left.append((a, b, rng.choice("-=:")))
            x, y = (a, b) if rng.random() < 0.5 else (b, a)
            right.append((x, y, rng.choice("-=:")))
    rng.shuffle(right)
    name = "".join(rng.choice("abcXYZ019") for _ in range(rng.randint(1, 6)))
    return {"id": name, "ctx": ctx, "left": left, "right": right, "left_nodes": [], "right_nodes": []}


def _gml_text(r, ind="\t"):
    def edge(e):
        return '%sedge [ source %d target %d label "%s" ]' % (ind * 2, e[0], e[1], e[2])

    def node(nd):
        return '%snode [ id %d label "%s" ]' % (ind * 2, nd[0], nd[1])
    lines = ["rule [", '%sruleID "%s"' % (ind, r["id"]), "%sleft [" % ind]
    lines += [node(x) for x in r["left_nodes"]] + [edge(e) for e in r["left"]]
    lines += ["%s]" % ind, "%scontext [" % ind]
    lines += [node(x) for x in r["ctx"]]
    lines += ["%s]" % ind, "%sright [" % ind]
    lines += [node(x) for x in r["right_nodes"]] + [edge(e) for e in r["right"]]
    lines += ["%s]" % ind, "]"]
    return lines


def _gml_mutate(rng, r, lines):
    """Returns (lines, tag): malformed or unusual variants of a printed rule."""
    how = rng.choice(["drop", "dup", "swap", "rename", "badlabel", "leftnode", "foreign", "undeclared", "ctxedge",
                      "trailing", "junk", "noindent", "truncate", "rightforeign", "selfloop", "empty", "dupedge",
                      "startline", "idline"])
    L = list(lines)
    if how == "drop" and L:
        del L[rng.randrange(len(L))]
    elif how == "dup" and L:
        i = rng.randrange(len(L)); L.insert(i, L[i])
    elif how == "swap" and len(L) > 2:
        i = rng.randrange(len(L) - 1); L[i], L[i + 1] = L[i + 1], L[i]
    elif how == "rename":
        i = rng.choice([k for k, x in enumerate(L) if x.strip() in ("left [", "context [", "right [")])
        L[i] = L[i].replace(L[i].strip()[:-2], rng.choice(["left", "right", "context", "rule", "lhs", "Left"]))
    elif how == "badlabel":
        idx = [k for k, x in enumerate(L) if "label" in x]
        if idx:
            i = rng.choice(idx)
            L[i] = L[i].replace('label "', 'label "' + rng.choice(["#", " ", "$", "~"]))
    elif how == "leftnode":
        r = dict(r); r["left_nodes"] = [rng.choice(r["ctx"])] if r["ctx"] else [(3, "C")]
        L = _gml_text(r)
    elif how == "foreign":
        r = dict(r); r["left_nodes"] = [(77, "C")]
        L = _gml_text(r)
    elif how == "undeclared":
        r = dict(r); r["left"] = list(r["left"]) + [(78, r["ctx"][0][0] if r["ctx"] else 79, "-")]
        L = _gml_text(r)
    elif how == "rightforeign":
        r = dict(r); r["right"] = list(r["right"]) + [(88, r["ctx"][0][0] if r["ctx"] else 89, "=")]
        L = _gml_text(r)
    elif how == "ctxedge":
        i = L.index("\tcontext [")
        a = r["ctx"][0][0] if r["ctx"] else 1
        b = r["ctx"][-1][0] if r["ctx"] else 2
        L.insert(i + 1, '\t\tedge [ source %d target %d label "-" ]' % (a, b))
    elif how == "trailing":
        L.append(rng.choice(["", " ", "]", "x"]))
    elif how == "junk":
        L.insert(rng.randrange(len(L) + 1), rng.choice(["", "# comment", "\tlabelType \"term\"", "  ]", "]"]))
    elif how == "noindent":
        L = [x.lstrip() if rng.random() < 0.5 else x for x in L]
    elif how == "truncate":
        L = L[:rng.randrange(len(L) + 1)]
    elif how == "selfloop":
        r = dict(r)
        a = r["ctx"][0][0] if r["ctx"] else 5
        side = rng.choice(["left", "right"])
        r[side] = list(r[side]) + [(a, a, "-")]
        L = _gml_text(r)
    elif how == "empty":
        L = rng.choice([[], [""], ["rule ["]])
    elif how == "dupedge":
        r = dict(r)
        side = rng.choice(["left", "right"])
        if r[side]:
            e = rng.choice(r[side])
            r[side] = list(r[side]) + [(e[1], e[0], rng.choice("-=:"))]
        L = _gml_text(r)
    elif how == "startline":
        if L:
            L[0] = rng.choice(["rule[", " rule [", "Rule [", "rule [ "])
    elif how == "idline":
        if len(L) > 1:
            L[1] = rng.choice(['\truleID "a b"', '\truleID ""', '\truleId "x"', 'ruleID "ok1"', '\truleID "r_1"'])
    return L, how


def generate(seed, tier, ncases=None):
    n = ncases or (400 if tier == "quick" else 8000)
    for i in range(n):
        rng = lib.rng_for(seed, ID, i)
        if i % 5 == 4:
            r = _gml_rule(rng)
            lines = _gml_text(r, ind=rng.choice(["\t", "\t", "  ", " "]))
            tag, desc = "wellformed", r
            if rng.random() < 0.55:
                lines, tag = _gml_mutate(rng, r, _gml_text(r))
                desc = None
            text = "\n".join(lines)
            if text.endswith(".gml"):
                text += " "
            yield {"kind": "gml", "text": text, "tag": tag, "desc": desc}
            continue
        if rng.random() < 0.06:
            g, rc, gk = _dimer_case(rng)
            g, scheme, _ = gens.reid(rng, g)
            yield {"kind": "apply", "g": g, "rc": rc, "gk": gk, "scheme": scheme, "nowhere": False}
            continue
        if rng.random() < 0.16:
            g, rc, gk = _asym_case(rng)
            g, scheme, _ = gens.reid(rng, g)
            yield {"kind": "apply", "g": g, "rc": rc, "gk": gk, "scheme": scheme, "nowhere": False}
            continue
        for _ in range(20):
            g, gk = _rand_reactant(rng)
            g, scheme, _ = gens.reid(rng, g)
            nowhere = rng.random() < 0.12
            rc, changed = _derive_rule(rng, g, nowhere)
            if _count_monos(g, rc) <= MAX_MONOS:
                break
        yield {"kind": "apply", "g": g, "rc": rc, "gk": gk, "scheme": scheme, "nowhere": nowhere}


def _dimer_case(rng):
    """Two (or three) copies of a short chain X-(C)k-Y with X != Y as ONE reactant graph and a rule made of as many
    separate components X<0,1>Y: some embeddings close every chain onto itself (a DISCONNECTED result: small rings),
    others join the chains head to tail (a CONNECTED macrocycle). Rings of 3+k and of 2(3+k) atoms with the same
    local neighbourhoods have the same 3-round WL digest, so `unique` and `connected_only` interact: the class must be
    represented by a result that passes the filter, whichever embedding VF2 reports first."""
    x, y = rng.sample(["N", "O", "S", "Cl", "C"], 2)
    if "C" in (x, y):
        x, y = ("N", "O")
    k = rng.choice([1, 1, 2, 3])
    copies = rng.choice([2, 2, 2, 3]) if k == 1 else 2
    g = nx.Graph()
    nid = 0
    for _ in range(copies):
        chain = [x] + ["C"] * k + [y]
        for j, sym in enumerate(chain):
            g.add_node(nid + j, symbol=sym)
            if j:
                g.add_edge(nid + j - 1, nid + j, bond=1)
        nid += len(chain)
    rc = nx.Graph()
    for c in range(2):
        rc.add_node(2 * c, symbol=x)
        rc.add_node(2 * c + 1, symbol=y)
        rc.add_edge(2 * c, 2 * c + 1, bond=(0, 1))
    return g, rc, "dimer:%s%s%s x%d" % (x, "C" * k, y, copies)


def _count_monos(g, rc):
    rule = ReactionRule(gens.copy_exact(rc))
    m = nx.algorithms.isomorphism.GraphMatcher(
        g, rule.l, node_match=lambda a, b: a["symbol"] == b["symbol"], edge_match=lambda a, b: a["bond"] == b["bond"])
    k = 0
    for _ in m.subgraph_monomorphisms_iter():
        k += 1
        if k > MAX_MONOS:
            break
    return k


def _g(nodes, edges):
    g = nx.Graph()
    for n, s in nodes:
        g.add_node(n, symbol=s)
    for u, v, b in edges:
        g.add_edge(u, v, bond=b)
    return g


def corpus():
    # D17: rule C<1,2>C<0,1>C on cyclopropane must leave the third ring bond alone
    cp = _g([(0, "C"), (1, "C"), (2, "C")], [(0, 1, 1), (1, 2, 1), (2, 0, 1)])
    rc = _g([(0, "C"), (1, "C"), (2, "C")], [(0, 1, (1, 2)), (1, 2, (0, 1))])
    yield {"kind": "apply", "g": cp, "rc": rc, "gk": "corpus:D17", "scheme": "corpus", "nowhere": False}
    # D18 / the repository's own tests
    g = _g([(0, "C"), (1, "C"), (2, "C")], [(0, 1, 2)])
    rc = _g([(0, "C"), (1, "C"), (2, "C")], [(0, 1, (2, 1)), (1, 2, (0, 1))])
    yield {"kind": "apply", "g": g, "rc": rc, "gk": "corpus:reduce_form", "scheme": "corpus", "nowhere": False}
    g = _g([(0, "C"), (1, "C"), (2, "C")], [(0, 1, 1), (1, 2, 1)])
    rc = _g([(0, "C"), (1, "C"), (2, "C")], [(0, 1, (1, 2)), (1, 2, (1, 0))])
    yield {"kind": "apply", "g": g, "rc": rc, "gk": "corpus:increase_break", "scheme": "corpus", "nowhere": False}
    # amide formation, two reactant molecules; connected_only drops nothing, unique collapses nothing
    g = _g([(0, "C"), (1, "C"), (2, "O"), (3, "O"), (4, "N")], [(0, 1, 1), (1, 2, 2), (1, 3, 1)])
    rc = _g([(0, "C"), (1, "N"), (2, "O")], [(0, 1, (0, 1)), (0, 2, (1, 0))])
    yield {"kind": "apply", "g": g, "rc": rc, "gk": "corpus:form_break", "scheme": "corpus", "nowhere": False}
    # results that differ only in WHICH existing bond is changed / broken must not be merged by unique=True
    # (the WL digest is the digest of the RESULT, i.e. of the graph with its [reactant, product] labels)
    cbr = _g([(0, "C"), (1, "C"), (2, "C")], [(0, 1, (1, 2)), (1, 2, (1, 0))])          # C<1,2>C<1,0>C
    ccco = _g([(0, "C"), (1, "C"), (2, "C"), (3, "O")], [(0, 1, 1), (1, 2, 1), (2, 3, 1)])
    yield {"kind": "apply", "g": ccco, "rc": cbr, "gk": "corpus:wl_CCCO", "scheme": "corpus", "nowhere": False}
    ccccn = _g([(0, "C"), (1, "C"), (2, "C"), (3, "C"), (4, "N")], [(0, 1, 1), (1, 2, 1), (1, 3, 1), (3, 4, 1)])   # CC(C)CN
    yield {"kind": "apply", "g": ccccn, "rc": cbr, "gk": "corpus:wl_CC(C)CN", "scheme": "corpus", "nowhere": False}
    ringo = _g([(0, "C"), (1, "C"), (2, "C"), (3, "O")], [(0, 1, 1), (1, 2, 1), (2, 0, 1), (2, 3, 1)])             # C1CC1O
    ropen = _g([(0, "C"), (1, "C")], [(0, 1, (1, 0))])                                                            # C<1,0>C
    yield {"kind": "apply", "g": ringo, "rc": ropen, "gk": "corpus:wl_C1CC1O", "scheme": "corpus", "nowhere": False}
    # NCO.NCO with N<0,1>O.N<0,1>O: two 3-rings (disconnected) and one 6-ring (connected) share a WL digest
    dim = _g([(0, "N"), (1, "C"), (2, "O"), (3, "N"), (4, "C"), (5, "O")], [(0, 1, 1), (1, 2, 1), (3, 4, 1), (4, 5, 1)])
    rdim = _g([(0, "N"), (1, "O"), (2, "N"), (3, "O")], [(0, 1, (0, 1)), (2, 3, (0, 1))])
    yield {"kind": "apply", "g": dim, "rc": rdim, "gk": "corpus:wl_dimer_NCO", "scheme": "corpus", "nowhere": False}
    # empty rule / empty reactant (null graph: nx.is_connected raises)
    yield {"kind": "apply", "g": nx.Graph(), "rc": nx.Graph(), "gk": "corpus:null", "scheme": "corpus", "nowhere": False}
    yield {"kind": "apply", "g": cp, "rc": nx.Graph(), "gk": "corpus:emptyrule", "scheme": "corpus", "nowhere": False}
    yield {"kind": "apply", "g": nx.Graph(), "rc": rc, "gk": "corpus:emptyg", "scheme": "corpus", "nowhere": True}
    r = {"id": "r1", "ctx": [(1, "C"), (2, "O"), (3, "N")], "left": [(1, 2, "-")], "right": [(1, 3, "="), (2, 1, ":")],
         "left_nodes": [], "right_nodes": []}
    yield {"kind": "gml", "text": "\n".join(_gml_text(r)), "tag": "corpus", "desc": r}
    # one text per error path of the parser / of to_rc_graph
    base = _gml_text(r)

    def variant(f):
        L = list(base)
        L = f(L) or L
        return {"kind": "gml", "text": "\n".join(L), "tag": "corpus-error", "desc": None}
    yield variant(lambda L: [])                                              # "" -> EStart
    yield variant(lambda L: L[:1])                                           # EIndex (no id line)
    yield variant(lambda L: [L[0], '\truleId "r1"'] + L[2:])                 # ERuleId
    yield variant(lambda L: L[:2] + ["\tlhs ["] + L[3:])                     # EGraphLeft
    yield variant(lambda L: [x.replace("context [", "ctx [") for x in L])    # EGraphContext
    yield variant(lambda L: [x.replace("right [", "rule [") for x in L])     # EGraphRight
    yield variant(lambda L: L[:3] + ['\t\tedge [ source 1 target 2 label "#" ]'] + L[4:])   # ENodeOrEdge
    yield variant(lambda L: L[:-1] + ["x"])                                  # EEndLine
    yield variant(lambda L: L + [""])                                        # EMoreLines (trailing newline)
    yield variant(lambda L: L[:-1])                                          # EIndex (no closing line)
    yield variant(lambda L: L[:3] + ['\t\tnode [ id 9 label "C" ]'] + L[3:])                # ENotInContext
    yield variant(lambda L: L[:3] + ['\t\tedge [ source 9 target 1 label "-" ]'] + L[3:])   # ESymbolKey
    i = base.index("\tcontext [")
    yield variant(lambda L: L[:i + 1] + ['\t\tedge [ source 1 target 2 label "-" ]'] + L[i + 1:])   # EAssertContext


# ----------------------------------------------------------------------------------------------
# running the implementation, recording the oracles
# ----------------------------------------------------------------------------------------------

class _Recorder:
    """Records what VF2 yields and what the WL hash returns during one apply_rule call."""

    def __init__(self):
        self.monos = []
        self.wls = []
        self.wl_idx = []      # (index of the mono being processed, digest) per internal WL call

    def __enter__(self):
        GM = nx.algorithms.isomorphism.GraphMatcher
        self._GM = GM
        self._orig_iter = GM.subgraph_monomorphisms_iter
        self._orig_wl = nx.weisfeiler_lehman_graph_hash
        rec = self

        def it(matcher):
            for m in rec._orig_iter(matcher):
                rec.monos.append(list(m.items()))
                yield m

        def wl(*a, **k):
            h = rec._orig_wl(*a, **k)
            rec.wls.append(h)
            rec.wl_idx.append((len(rec.monos) - 1, h))
            return h
        GM.subgraph_monomorphisms_iter = it
        nx.weisfeiler_lehman_graph_hash = wl
        return self

    def __exit__(self, *a):
        self._GM.subgraph_monomorphisms_iter = self._orig_iter
        nx.weisfeiler_lehman_graph_hash = self._orig_wl


class _Timeout(Exception):
    pass


def _alarm(signum, frame):
    raise _Timeout()


CALL_TIMEOUT_S = 5
_TIMEOUTS = [0]          # after 10 calls that did not return, later calls get 0.5 s


def _call(g, rc, n, unique, conn):
    """One call on fresh copies, under a wall-clock limit (an implementation that does not return
    must not hang the check). Returns (result, recorder, g_after, g_before, rule, rc_copy)."""
    g1 = gens.copy_exact(g)
    g0 = gens.copy_exact(g)
    rule = ReactionRule(gens.copy_exact(rc))
    snap = (gens.copy_exact(rule.rc), gens.copy_exact(rule.l), gens.copy_exact(rule.r))
    old = signal.signal(signal.SIGALRM, _alarm)
    limit = CALL_TIMEOUT_S if _TIMEOUTS[0] < 10 else 0.5
    signal.setitimer(signal.ITIMER_REAL, limit)
    try:
        with _Recorder() as rec:
            try:
                res = apply_rule(g1, rule, n=n, unique=unique, connected_only=conn)
                out = ("ok", res)
            except nx.NetworkXPointlessConcept as e:
                out = ("NullGraph", str(e))
            except KeyError as e:
                out = ("KeyError", repr(e))
            except _Timeout:
                _TIMEOUTS[0] += 1
                out = ("Timeout", "apply_rule did not return within %s s" % limit)
            except Exception as e:          # anything else is outside the modelled outcomes
                out = ("Exception", "%s: %s" % (type(e).__name__, e))
    finally:
        signal.setitimer(signal.ITIMER_REAL, 0)
        signal.signal(signal.SIGALRM, old)
    return out, rec, g1, g0, rule, snap


def _lex(line):
    return (RA._is_start(line), RA._match_id(line), RA._match_graph(line), RA._match_edge(line),
            RA._match_node(line), RA._is_end(line))


_VE = [("Expected GML start", "EStart"), ("Expected ruleID", "ERuleId"), ("Expected node or edge", "ENodeOrEdge"),
       ("Expected graph 'left'", "EGraphLeft"), ("Expected graph 'context'", "EGraphContext"),
       ("Expected graph 'right'", "EGraphRight"), ("Expected end line", "EEndLine"),
       ("Expected no more lines", "EMoreLines")]


def run_impl(c):
    if c["kind"] == "gml":
        try:
            rule = ReactionRule.from_gml(c["text"])
            return ("ok", rule.name, rule.rc, rule.l, rule.r)
        except IndexError:
            return ("err", "EIndex")
        except ValueError as e:
            msg = str(e)
            for pre, code in _VE:
                if msg.startswith(pre):
                    return ("err", code)
            if msg.startswith("Node ") and msg.endswith("is not in context."):
                return ("err", "ENotInContext")
            return ("err", "ValueError:" + msg)
        except KeyError as e:
            return ("err", "ESymbolKey" if e.args == ("symbol",) else "EBondKey")
        except AssertionError:
            return ("err", "EAssertContext")
        except TypeError:
            return ("err", "ETypeError")
    g, rc = c["g"], c["rc"]
    inv = []
    # Reference call A (unique=False, no filter, no limit): VF2 is exhausted, one result per mono in VF2
    # order. The digests handed to the model and to the checker are computed HERE, by networkx, on these
    # result graphs (which check "spec" judges against the property) - NOT taken from whatever graph the
    # implementation chose to hash internally.
    refa_out, refa, g1, g0, rule, snap = _call(g, rc, None, False, False)
    if refa_out[0] in ("Timeout", "Exception"):
        inv.append("apply_rule(unique=False) failed: %s" % (refa_out[1],))
        return {"monos": refa.monos[:MAX_MONOS], "wls": [], "wls_impl": [], "runs": [((None, False, False), refa_out)],
                "l": rule.l, "r": rule.r, "inv": inv, "ref": refa_out[0]}
    wls = []
    if refa_out[0] == "ok" and isinstance(refa_out[1], list) and all(isinstance(x, ITS) for x in refa_out[1]):
        wls = [_result_digest(x.graph) for x in refa_out[1]]
    # Reference call B (unique=True): the digests the implementation computes internally, one per mono.
    ref_out, ref, g1, g0, rule, snap = _call(g, rc, None, True, False)
    if ref_out[0] in ("Timeout", "Exception"):
        inv.append("apply_rule(unique=True) failed: %s" % (ref_out[1],))
        return {"monos": refa.monos[:MAX_MONOS], "wls": wls[:MAX_MONOS], "wls_impl": ref.wls[:MAX_MONOS],
                "runs": [((None, True, False), ref_out)], "l": rule.l, "r": rule.r, "inv": inv, "ref": ref_out[0]}
    if ref.monos != refa.monos:
        inv.append("VF2 yielded a different sequence in two calls on the same input")
    runs = []
    for unique in (True, False):
        for conn in (False, True):
            for n in N_VALUES:
                out, rec, g1, g0, rl, snap = _call(g, rc, n, unique, conn)
                if not gens.graphs_identical(g1, g0):
                    inv.append("apply_rule(n=%r, unique=%r, connected_only=%r) modified the reactant graph" % (n, unique, conn))
                if not (gens.graphs_identical(rl.rc, snap[0]) and gens.graphs_identical(rl.l, snap[1])
                        and gens.graphs_identical(rl.r, snap[2])):
                    inv.append("apply_rule modified the rule's graphs")
                if out[0] == "ok":
                    if not isinstance(out[1], list) or not all(isinstance(x, ITS) for x in out[1]):
                        inv.append("apply_rule returned something that is not a list of ITS objects")
                        out = ("bad", repr(out[1])[:200])
                    else:
                        out = ("ok", [x.graph for x in out[1]])
                # the oracles are deterministic: what this call saw is a prefix of the reference answers
                if rec.monos != refa.monos[:len(rec.monos)]:
                    inv.append("VF2 yielded a different sequence in two calls on the same input")
                # every digest computed inside the call is the digest of the expected result for that mono
                for i, h in rec.wl_idx:
                    if 0 <= i < len(wls) and h != wls[i]:
                        inv.append("apply_rule(n=%r, unique=%r, connected_only=%r) hashed a graph whose WL digest differs "
                                   "from the digest of the result for the same embedding" % (n, unique, conn))
                        break
                runs.append(((n, unique, conn), out))
    return {"monos": refa.monos, "wls": wls, "wls_impl": ref.wls, "runs": runs, "l": rule.l, "r": rule.r, "inv": inv,
            "ref": ref_out[0]}


def _result_digest(graph):
    """The 3-round WL digest of a result graph, computed independently of apply_rule's internals
    (same call as the library makes: edge_attr=bond, node_attr=symbol, iterations=3)."""
    return nx.weisfeiler_lehman_graph_hash(graph, edge_attr="bond", node_attr="symbol", iterations=3)


# ----------------------------------------------------------------------------------------------
# Coq terms
# ----------------------------------------------------------------------------------------------

def _mapping(m):
    return "(%s : mapping)" % ct.lst(["(%s, %s)" % (ct.z(u), ct.z(a)) for u, a in m])


def _opts(o):
    n, unique, conn = o
    return "(mkOpts %s %s %s)" % (ct.opt(n, ct.z), ct.b(unique), ct.b(conn))


def _ar(out):
    if out[0] == "ok":
        return "(AROk %s)" % ct.lst([ct.graph(x) for x in out[1]])
    if out[0] == "NullGraph":
        return "ARNullGraph"
    if out[0] == "KeyError":
        return "ARKeyError"
    raise ct.Unrepresentable("apply_rule outcome %r" % (out,))


def _line(rec):
    st, rid, gname, edge, node, en = rec
    e = "None" if edge is None else "(Some (%s, %s, %s))" % (ct.z(edge[0]), ct.z(edge[1]), ct.s(edge[2]))
    nd = "None" if node is None else "(Some (%s, %s))" % (ct.z(node[0]), ct.s(node[1]))
    return "(mkLine %s %s %s %s %s %s)" % (ct.b(st), ct.opt(rid, ct.s), ct.opt(gname, ct.s), e, nd, ct.b(en))


def _desc(r):
    ctx = ct.lst(["(%s, %s)" % (ct.z(n), ct.s(x)) for n, x in r["ctx"]])
    def edges(es):
        return ct.lst(["(%s, %s, %s)" % (ct.z(a), ct.z(b), ct.s(x)) for a, b, x in es])
    if r["left_nodes"] or r["right_nodes"]:
        raise ct.Unrepresentable("description with nodes outside the context section")
    return "(mkDesc %s (%s : list (Z * string)) (%s : list (Z * Z * string)) (%s : list (Z * Z * string)))" % (
        ct.s(r["id"]), ctx, edges(r["left"]), edges(r["right"]))


def coq_case(c, out):
    if c["kind"] == "gml":
        lines = c["text"].split("\n")
        defs = {"lines": "(%s : list lline)" % ct.lst([_line(_lex(x)) for x in lines])}
        if out[0] == "ok":
            defs["out"] = "(GOk (%s, (%s, %s, %s)) : gres (string * (graph * graph * graph)))" % (
                ct.s(out[1]), ct.graph(out[2]), ct.graph(out[3]), ct.graph(out[4]))
        else:
            if not out[1].startswith("E") or ":" in out[1]:
                raise ct.Unrepresentable("from_gml raised %s" % out[1])
            defs["out"] = "(GErr %s : gres (string * (graph * graph * graph)))" % out[1]
        model = "from_gml bond_map $lines"
        spec, lex = "true", "true"
        if c.get("desc") is not None:
            defs["desc"] = _desc(c["desc"])
            spec, lex = "gml_okb $desc $out", "lex_okb $desc $lines"
        return {"defs": defs,
                "checks": {"agree": "gml_eqb (%s) $out" % model, "vf2": "true", "spec": spec, "lex": lex,
                           "wlcalls": "true"},
                "diag": [model]}
    defs = {"g": ct.graph(c["g"]), "rc": ct.graph(c["rc"]),
            "monos": "(%s : list mapping)" % ct.lst([_mapping(m) for m in out["monos"]]),
            "wls": "(%s : list string)" % ct.lst([ct.s(x) for x in out["wls"]]),
            "wlsimpl": "(%s : list string)" % ct.lst([ct.s(x) for x in out["wls_impl"]]),
            "lpy": ct.graph(out["l"]), "rpy": ct.graph(out["r"]),
            "outs": "(%s : list (opts * ar_result))" % ct.lst(["(%s, %s)" % (_opts(o), _ar(r)) for o, r in out["runs"]])}
    return {"defs": defs,
            "checks": {"agree": "agree_allb $g $rc $monos $wls $lpy $rpy $outs",
                       "vf2": "vf2_okb (rl (reaction_rule $rc)) $g $monos $wls",
                       "spec": "apply_all_okb $g $rc $monos $wls $outs",
                       "lex": "true",
                       # the digests computed inside apply_rule (unique=True, one per mono) are the digests
                       # networkx gives for the expected result graphs
                       "wlcalls": "list_eqb String.eqb $wlsimpl $wls"},
            "diag": ["all_monos (rl (reaction_rule $rc)) $g", "$monos",
                     "apply_rule $g (reaction_rule $rc) $monos $wls None false false"]}


# ----------------------------------------------------------------------------------------------
# bookkeeping
# ----------------------------------------------------------------------------------------------

def describe(c):
    if c["kind"] == "gml":
        return {"kind": "gml", "text": c["text"], "tag": c["tag"], "desc": c.get("desc")}
    return {"kind": "apply", "g": ct.graph_py(c["g"]), "rc": ct.graph_py(c["rc"]), "gk": c["gk"],
            "scheme": c["scheme"], "nowhere": c["nowhere"]}


def from_json(d):
    if d["kind"] == "gml":
        desc = d.get("desc")
        if desc is not None:
            desc = {"id": desc["id"], "ctx": [tuple(x) for x in desc["ctx"]], "left": [tuple(x) for x in desc["left"]],
                    "right": [tuple(x) for x in desc["right"]], "left_nodes": [], "right_nodes": []}
        return {"kind": "gml", "text": d["text"], "tag": d["tag"], "desc": desc}
    return {"kind": "apply", "g": ct.graph_from_py(d["g"]), "rc": ct.graph_from_py(d["rc"]), "gk": d["gk"],
            "scheme": d["scheme"], "nowhere": d["nowhere"]}


def describe_out(out):
    if isinstance(out, tuple):
        if out[0] == "ok":
            return {"status": "ok", "name": out[1], "rc": ct.graph_py(out[2])}
        return {"status": out[1]}
    runs = []
    for o, r in out["runs"]:
        runs.append({"n": o[0], "unique": o[1], "connected_only": o[2], "status": r[0],
                     "results": [ct.graph_py(x) for x in r[1]] if r[0] == "ok" else r[1]})
    return {"monos": out["monos"], "wls_of_expected_results": out["wls"], "wls_computed_inside_apply_rule": out["wls_impl"],
            "runs": runs[:6], "n_runs": len(runs)}


def key(c):
    if c["kind"] == "gml":
        return ("gml", c["text"])
    return ("apply", ct.graph_canon(c["g"]), ct.graph_canon(c["rc"]))


def _changed(rc):
    k = 0
    for u, v, d in rc.edges(data=True):
        b = d["bond"]
        if isinstance(b, (tuple, list)) and b[0] != b[1]:
            k += 1
    return k


def nontrivial(c, out):
    if c["kind"] == "gml":
        return out[0] == "ok"
    return len(out["monos"]) >= 1 and _changed(c["rc"]) >= 1


def classes(c, out):
    if c["kind"] == "gml":
        yield "gml:" + c["tag"]
        yield "gml_result=" + (out[0] if out[0] == "ok" else out[1])
        return
    k = len(out["monos"])
    yield "reactant=" + c["gk"].split(":")[0]
    yield "scheme=" + c["scheme"]
    yield "monos=" + ("0" if k == 0 else "1" if k == 1 else "2-5" if k <= 5 else "6-20" if k <= 20 else ">20")
    yield "rule_changed_bonds=%d" % min(_changed(c["rc"]), 4)
    full = [r for o, r in out["runs"] if o == (None, False, False)][0]
    uniq = [r for o, r in out["runs"] if o == (None, True, False)][0]
    conn = [r for o, r in out["runs"] if o == (None, False, True)][0]
    if full[0] == "ok" and uniq[0] == "ok":
        yield "unique_collapses=" + ("yes" if len(uniq[1]) < len(full[1]) else "no")
    if full[0] == "ok" and conn[0] == "ok":
        yield "connected_only_drops=" + ("yes" if len(conn[1]) < len(full[1]) else "no")
    if conn[0] != "ok":
        yield "exception=" + conn[0]
    # D17 situation: some embedding has a reactant bond between matched atoms that the rule does not mention
    g, rc = c["g"], c["rc"]
    d17 = False
    for m in out["monos"]:
        mm = dict(m)
        for u, v in g.edges:
            if u in mm and v in mm and not rc.has_edge(mm[u], mm[v]):
                d17 = True
    yield "unmentioned_bond_between_matched_atoms=" + ("yes" if d17 else "no")
    # results that differ only in which EXISTING bond is changed / broken: the rule forms no bond, yet the
    # result graphs fall into several WL classes
    forms = any(isinstance(d["bond"], (tuple, list)) and d["bond"][0] == 0 for _, _, d in rc.edges(data=True))
    if k >= 2:
        yield "results_differ_only_in_existing_bonds=" + ("yes" if (not forms and len(set(out["wls"])) >= 2) else "no")
    if c["nowhere"]:
        yield "rule_built_to_match_nowhere"


def py_invariants(c, out):
    if c["kind"] == "gml":
        return []
    return sorted(set(out["inv"]))
