"""C07 — the group hierarchy is the specificity order, however the list is given.
Correspondence: Model.FGTree.build_config_tree_from_list ~ fgutils.fgconfig.build_config_tree_from_list /
FGConfigProvider.get_tree (root names in order, per node its children names in order and its parent SET)."""
import lib
import coqterm as ct
from props import _fg_common as fc

ID = "C07"
PROPS = "Props/C07.v"
USES_GEN = ["fgdefault"]
MODEL_FILES = fc.MODEL_FILES + ["Spec/FGSpec.v"]
IMPORTS = fc.IMPORTS[:-1] + " Spec.FGSpec."
CHECKS = ["agree", "spec"]
CHUNK = 12
CORRESPONDENCE = ("Model.FGTree.{sort_by_pattern_len,is_subgroup,search_parents,add_child,build_config_tree_from_list} ~ "
                  "fgutils.fgconfig.{sort_by_pattern_len,is_subgroup,search_parents,FGTreeNode.add_child,"
                  "build_config_tree_from_list}, FGConfigProvider.get_tree (roots as ordered list of names, every node's "
                  "children as ordered list of names, its parents as a set, exception class)")
RULE = ("every hierarchy is read AFTER a second hierarchy was built from every second of the same FGConfig objects (a held tree must not be rewired); (a) random permutations of the default 32-group list (the model side permutes the GENERATED list Gen/FGDefault.v), built "
        "through build_config_tree_from_list / FGConfigProvider(list of FGConfig) / FGConfigProvider(list of dicts); "
        "(a') the same construction routes plus FGConfigProvider(list, mapper=...) and the provider of FGQuery(config=list); "
        "(b') the systematic family of R-prefixed chains over {C,O} with up to 4 heavy atoms (30 patterns): the whole pool and random 5-8-element subsets "
        "(half of them seeded with a group that has two covering parents sharing an ancestor), each in 2-3 orders; (b'') lists mixing lower-case aromatic and "
        "upper-case symbols, mostly built WITHOUT a mapper argument (the provider's fallback mapper must be wildcard R / ignore_case=True), each list then built "
        "once more in the same process under a caller-chosen CASE-SENSITIVE mapper (model and checker instantiated with ignore_case=false); "
        "(b3) stars: a carbon centre with 2-3 equally labelled arms that end in different hetero atoms, together with sub-patterns (one arm "
        "shortened / its end a wildcard / dropped), every pattern written with its arms in its own order; (b4) lists containing patterns with "
        "reaction-centre bonds <g,h> among ordinary related patterns, mostly passed as dicts, in 3 orders (the model gets every pattern as parsed by a "
        "fresh parser, which is what FGConfig(**dict) does); "
        "about a quarter of the generated / chain lists give two groups the SAME name (groups are identified by position, "
        "object identity on the Python side, and handed to the model under unique labels); "
        "(b) generated lists of 3-8 patterns drawn from a pool of 80 patterns (chains, branched, ring-closed super-patterns such "
        "as CCC / C1CC1 / C1=CC1, wildcards R, multi-bonds, aromatic bonds, hetero atoms, a few isomorphic pairs that make "
        "is_subgroup assert), random group_atoms, ~20% of the lists with anti-patterns, each list in 4 orders. Every case is "
        "additionally rebuilt in fresh interpreters under PYTHONHASHSEED in {0,1,2,3,4,7,random} (batched) and all orders of one "
        "list must give one and the same tree. non-trivial = the tree has at least one parent/child link; distinct = distinct "
        "(ordered list of (name, pattern, group_atoms, anti-patterns), construction route)")
TRUSTED = ["the parser: pattern / anti-pattern GRAPHS are produced by the real fgutils parser (in harness/gen/fgdefault.py for the "
           "default list, in the harness for generated lists) and handed to the model as data; FGConfig.__init__ after the parser call is modelled",
           "Model/Match.v + Model/Permute.v as the model of the sub-graph matcher (tied by C03/C04/C08)",
           "hash-seed independence of the IMPLEMENTATION is a runtime fact: validated by rebuilding every case under 7 hash seeds"]
ASSUMPTIONS = ["configurations are FGConfig objects (or dicts) whose patterns the parser accepts; names are distinct ASCII strings; "
               "the mapper is the default PermutationMapper(wildcard='R', ignore_case=True)",
               "abstract theorems (C07_hasse_insert, C07_ancestors): is_subgroup abstracted to a relation that does not raise on the list, "
               "is transitive there and increases the sort key; keys pairwise distinct. C07_order_independent / C07_configs_order_independent / "
               "C07_default_all_orders need only pairwise distinct keys",
               "concrete theorem C07_concrete: anti-pattern-free configurations as the parser produces them (non-empty, well-formed, connected, "
               "ids 0..n-1, default len_exclude_nodes, no lower-case 'r' symbol), is_subgroup does not raise on the list; premises MatcherComplete / "
               "MatcherSound = theorems C03 / C04_sound of the matcher's owners",
               "default list (with its anti-patterns): closed kernel computation over Gen/FGDefault.v (C07_default_tree_is_hasse)"]

VIAS = ["build", "provider", "dicts", "provider-mapper", "query"]
CS_VIAS = ["provider-mapper-cs", "build-cs"]   # case-sensitive mapper PermutationMapper(wildcard="R", ignore_case=False)
NOMAPPER = ["provider", "dicts"]     # construction paths that rely on the provider's fallback mapper


def _mk(kind, specs, via, fam, order=None):
    return {"kind": kind, "specs": specs, "via": via, "fam": fam, "order": order}


def generate(seed, tier, ncases=None):
    quick = tier == "quick"
    n_perm = 28 if quick else 300
    n_lists = 90 if quick else 3000
    n_chain = 36 if quick else 1200       # subsets of the R-chain pool (shapes with two covering parents, shared ancestors)
    n_ic = 24 if quick else 600           # mixed-case lists, mostly through the no-mapper construction paths
    n_star = 30 if quick else 800         # stars with equally labelled arms written in different orders
    n_its = 24 if quick else 600          # lists containing patterns with <g,h> bonds, mostly as dicts
    if ncases:
        n_perm = max(2, ncases // 10)
        n_lists = max(2, ncases // 5)
        n_chain = max(2, ncases // 10)
        n_ic = max(2, ncases // 10)
        n_star = max(2, ncases // 10)
        n_its = max(2, ncases // 10)
    cases = []
    dspecs = fc.default_specs()
    for i in range(n_perm):
        rng = lib.rng_for(seed, ID, i)
        order = list(range(len(dspecs)))
        if i == 0:
            pass
        elif i == 1:
            order.reverse()
        else:
            rng.shuffle(order)
        cases.append(_mk("default-perm", [dspecs[k] for k in order], rng.choice(VIAS), "default", order))
    for j in range(n_lists):
        rng = lib.rng_for(seed, ID, 100000 + j)
        specs = fc.rand_config_list(rng, anti_list_p=0.2)
        if rng.random() < 0.5:
            for i, sp0 in enumerate(specs):
                sp0["name"] = "g%d" % i         # the same tuple of names for different lists of the stream
        if rng.random() < 0.2:
            fc.dup_names(rng, specs)            # two groups with the same name
        for o in range(4):
            sp = list(specs)
            if o == 1:
                sp.reverse()
            elif o > 1:
                rng.shuffle(sp)
            cases.append(_mk("generated", sp, rng.choice(VIAS), "L%d" % j))
    # systematic family: R-prefixed chains over {C, O} with up to 4 heavy atoms (30 patterns): the whole pool and
    # random 5-8-element subsets, each in 2-3 orders
    pool = fc.chain_pool(4, "CO")
    rng = lib.rng_for(seed, ID, 200000)
    for o in range(2):
        sp = fc.named(pool, "c")
        if o:
            rng.shuffle(sp)
        cases.append(_mk("chain-pool", sp, VIAS[o], "chain-all"))
    for j in range(n_chain):
        rng = lib.rng_for(seed, ID, 200001 + j)
        sub = rng.sample(pool, rng.randint(5, 8))
        if rng.random() < 0.5:
            # bias towards the shape X with two covering parents P, Q that share an ancestor
            core = rng.choice([["RC", "RO", "RCO", "ROO", "RCOO"], ["RC", "RO", "ROC", "RCC", "RCCO"],
                               ["RO", "RC", "ROC", "ROO", "ROOC"], ["RC", "RO", "RCO", "RCC", "RCCO", "RCOC"]])
            sub = list(dict.fromkeys(core + sub))[:8]
        specs = fc.named(sub, "c")
        if rng.random() < 0.35:
            # two groups sharing a name, preferably two covering parents of one child
            fc.dup_names(rng, specs, rng.choice([["RCO", "ROO"], ["ROC", "RCC"], ["RCC", "RCO"], None]))
        for o in range(rng.choice([2, 3])):
            sp = list(specs)
            if o == 1:
                sp.reverse()
            elif o > 1:
                rng.shuffle(sp)
            cases.append(_mk("chain-subset", sp, rng.choice(VIAS), "K%d" % j))
    for j in range(n_ic):
        rng = lib.rng_for(seed, ID, 300000 + j)
        sub = rng.sample(fc.IC_POOL, rng.randint(3, 6)) + rng.sample(["RC", "CC", "CO", "CN", "C=C", "RO"], rng.randint(0, 2))
        specs = fc.named(sub, "m")
        for o in range(2):
            sp = list(specs)
            if o:
                rng.shuffle(sp)
            cases.append(_mk("mixed-case", sp, rng.choice(NOMAPPER + NOMAPPER + VIAS), "M%d" % j))
        # the SAME list again (same process, same pattern strings) under a caller-chosen case-sensitive mapper:
        # the tree must be the embedding order under that mapper (nothing keyed by pattern text may carry over)
        sp = list(specs)
        rng.shuffle(sp)
        cases.append(_mk("mixed-case-cs", sp, rng.choice(CS_VIAS), "M%d-cs" % j))
    for j in range(n_star):
        rng = lib.rng_for(seed, ID, 400000 + j)
        specs = fc.star_family(rng)
        for o in range(2):
            sp = list(specs)
            if o:
                rng.shuffle(sp)
            cases.append(_mk("star", sp, rng.choice(VIAS), "S%d" % j))
    for j in range(n_its):
        rng = lib.rng_for(seed, ID, 450000 + j)
        pats = rng.sample(fc.ITS_POOL, rng.randint(1, 4)) + rng.sample(fc.ITS_ORDINARY, rng.randint(2, 5))
        rng.shuffle(pats)
        specs = fc.named(pats, "r")
        for o in range(3):
            sp = list(specs)
            if o == 1:
                sp.reverse()
            elif o == 2:
                rng.shuffle(sp)
            cases.append(_mk("its-patterns", sp, rng.choice(["dicts", "dicts", "provider", "query", "build"]), "R%d" % j))
    attach_seed_views(cases, fc.SEEDS if quick else fc.SEEDS + ["11", "12345", "random"])
    for c in cases:
        yield c


def attach_seed_views(cases, seeds):
    jobs = [{"kind": "tree", "specs": c["specs"], "via": c["via"]} for c in cases]
    res = fc.run_all_seeds(jobs, seeds, parallel=14, pieces=2)
    for k, c in enumerate(cases):
        c["_seed_views"] = {s: res[s][k] for s in res}


def corpus():
    cases = list(_corpus())
    attach_seed_views(cases, fc.SEEDS[:4])      # one batch per seed instead of four interpreters per corpus case
    for c in cases:
        yield c


def _corpus():
    def L(pats, fam, **kw):
        return _mk("corpus", [dict({"name": "n%d" % i, "pattern": p}, **kw) for i, p in enumerate(pats)], "build", fam)
    # D10: a pattern and its ring-closed super-pattern tie on (pattern_len, size)
    yield L(["C1=CC1", "CC=C", "CCC", "C1CC1"], "corpus-D10a")
    yield L(["C1CC1", "C1=CC1", "CCC", "CC=C"], "corpus-D10a")
    yield L(["C1CCC1", "CCCC", "C"], "corpus-D10b")
    # D9: equal (pattern_len, size, edges): the tie is broken by the pattern string
    yield L(["RC(=O)H", "RC(=O)Cl", "RC(=O)R", "C=O"], "corpus-D9")
    yield L(["RC(=O)Cl", "C=O", "RC(=O)R", "RC(=O)H"], "corpus-D9")
    # the lists of test/test_fgconfig.py
    yield L(["RC", "RCOH", "RCR"], "corpus-t1")
    yield L(["RCR", "RCOH", "RC"], "corpus-t1")
    yield L(["RC", "RCOH", "RC=O", "RCOR"], "corpus-t2")
    yield L(["RCR", "RCRCR", "RCCCR", "RCOCR", "RCCCCR"], "corpus-t3")
    # two covering parents P = RCO, Q = ROO of X = RCOO; the only other way to Q goes through RO, an ancestor of P too
    for via in VIAS:
        c = L(["RC", "RO", "RCO", "ROO", "RCOO"], "corpus-twoparents")
        c["via"] = via
        yield c
    yield L(["RCOO", "ROO", "RCO", "RO", "RC"], "corpus-twoparents")
    # a three-way tie at the centre: the same star written with its arms in different orders, one arm shortened
    for via in ("build", "dicts"):
        c = L(["C(CO)(CN)CS", "C(CS)(C)CN", "C(CN)(CR)CO", "CC"], "corpus-star")
        c["via"] = via
        yield c
    yield L(["C(CS)(CO)(CN)CCl", "C(CO)(CN)CS", "C(C)(C)C"], "corpus-star")
    # a pattern with reaction-centre bonds that is NOT last, ordinary related groups on both sides, passed as dicts
    for pats in (["C=O", "C(=O)(<0,1>R)<1,0>R", "RC(=O)R", "RC=O"], ["RC(=O)R", "RC=O", "C(=O)(<0,1>R)<1,0>R", "C=O", "C<1,2>C", "CC"],
                 ["C<1,2>C", "CC", "CCC", "C<1,2>CC"]):
        for via in ("dicts", "provider", "build"):
            c = L(pats, "corpus-its-%d" % len(pats))
            c["via"] = via
            yield c
    # one class name for two groups that are both covering parents of a third (ester and amide, child carbamate)
    dup = [{"name": "carbonyl", "pattern": "C=O"}, {"name": "acyl_derivative", "pattern": "RC(=O)OR", "group_atoms": [1, 2, 3]},
           {"name": "acyl_derivative", "pattern": "RC(=O)N(R)R", "group_atoms": [1, 2, 3]},
           {"name": "carbamate", "pattern": "ROC(=O)N(R)R", "group_atoms": [1, 2, 3, 4]}]
    for via in VIAS:
        yield _mk("corpus", [dict(x) for x in dup], via, "corpus-dupnames")
    yield _mk("corpus", [dict(x) for x in reversed(dup)], "build", "corpus-dupnames")
    c = L(["RC", "RO", "RCO", "ROO", "RCOO"], "corpus-dupnames2")
    c["specs"][2]["name"] = c["specs"][3]["name"] = "cls"
    yield c
    # upper-case aromatic-bond patterns below lower-case ones: needs ignore_case=True, also without a mapper argument
    for via in VIAS:
        c = L(["C:C", "ccc", "C:CO", "c1ccccc1O", "ccN"], "corpus-mixedcase")
        c["via"] = via
        yield c
    # isomorphic patterns: AssertionError
    yield L(["CC=C", "C=CC", "C"], "corpus-assert")
    yield L(["RO", "RO"], "corpus-assert2")
    # anti-pattern veto
    c = _mk("corpus", [{"name": "a", "pattern": "CO", "anti_pattern": ["CC(O)O"]}, {"name": "b", "pattern": "CC(O)O"},
                       {"name": "c", "pattern": "CCO"}], "build", "corpus-anti")
    yield c
    for c2 in [_mk("corpus", fc.default_specs(), "dicts", "default", list(range(32)))]:
        yield c2


_FAMILY = {}


def run_impl(c):
    return fc.run_tree(c["specs"], c["via"])


def py_invariants(c, out):
    msgs = []
    mine = fc.norm_view(out)
    views = c.get("_seed_views")
    if views is None:
        views = {s: fc.run_worker([{"kind": "tree", "specs": c["specs"], "via": c["via"]}], s)[0] for s in fc.SEEDS[:4]}
    for s, v in views.items():
        if v != mine:
            msgs.append("the tree built under PYTHONHASHSEED=%s differs from the tree built under PYTHONHASHSEED=0" % s)
            break
    # every order of one list gives the same tree
    fam = c["fam"]
    if not fam.startswith("corpus-assert"):
        key = (fam, tuple(sorted(json_key(s) for s in c["specs"])))
        first = _FAMILY.setdefault(key, mine)
        if first != mine:
            msgs.append("two orders of the same configuration list give different trees")
    return msgs


json_key = fc.spec_key


def coq_case(c, out):
    if c["order"] is not None:
        cfgs = "(pick default_configs %s)" % ("(%s : list nat)" % ct.lst([ct.nat(i) for i in c["order"]]))
    else:
        # groups are identified by position: the model gets them under unique labels (names may repeat)
        cfgs = fc.cfgs_term(c["specs"], labelled=True)
    defs = {"cfgs": cfgs, "out": fc.view_term(out)}
    if c["via"] in CS_VIAS:
        model = 'build_config_tree_from_list (mk_mapper (Some "R"%string) false []) $cfgs'
        strict = (not fc.has_anti(c["specs"])) and fc.default_excl(c["specs"])
        return {"defs": defs, "checks": {"agree": "tree_agreeb (%s) $out" % model,
                                         "spec": 'C07_gen_okb (Some "R"%%string) false %s $cfgs $out' % ("true" if strict else "false")},
                "diag": ["res_map tree_view (%s)" % model]}
    model = "build_config_tree_from_list default_mapper $cfgs"
    # the Hasse-diagram checker is applied wherever the statement applies: anti-pattern-free lists with the
    # default len_exclude_nodes, and the default list (whose anti-patterns are part of the reference relation)
    if c["kind"] == "default-perm" or (not fc.has_anti(c["specs"]) and fc.default_excl(c["specs"])) or c["fam"] == "default":
        spec = "C07_okb $cfgs $out"
    else:
        spec = "C07_weak_okb $cfgs $out"
    return {"defs": defs, "checks": {"agree": "tree_agreeb (%s) $out" % model, "spec": spec},
            "diag": ["res_map tree_view (%s)" % model]}


def describe(c):
    return {"kind": c["kind"], "specs": c["specs"], "via": c["via"], "fam": c["fam"], "order": c["order"]}


def from_json(d):
    return _mk(d["kind"], d["specs"], d["via"], d["fam"], d.get("order"))


def describe_out(out):
    if out[0] != "ok":
        return {"status": out[0], "msg": out[1]}
    return {"status": "ok", "roots": out[1][0], "nodes": {k: {"children": v[0], "parents": v[1]} for k, v in out[1][1].items()}}


def key(c):
    return (c["via"], tuple(json_key(s) for s in c["specs"]))


def nontrivial(c, out):
    return out[0] == "ok" and any(ch for ch, _ in out[1][1].values())


def classes(c, out):
    yield "kind=" + c["kind"]
    yield "dup_names=" + ("yes" if fc.has_dup_names(c["specs"]) else "no")
    yield "via=" + c["via"]
    yield "result=" + out[0]
    yield "anti=" + ("yes" if fc.has_anti(c["specs"]) else "no")
    yield "configs=%d" % len(c["specs"])
    if out[0] == "ok":
        nodes = out[1][1]
        links = sum(len(ch) for ch, _ in nodes.values())
        yield "links=" + ("0" if links == 0 else "1-3" if links <= 3 else "4-9" if links <= 9 else "10+")
        yield "multi-parent=" + ("yes" if any(len(pa) > 1 for _, pa in nodes.values()) else "no")
        depth = {}

        def d(n):
            if n not in depth:
                depth[n] = 1 + max([d(x) for x in nodes[n][0]] or [0])
            return depth[n]
        yield "depth=%d" % max([d(r) for r in out[1][0]] or [0])
