"""Runs in a fresh interpreter (own PYTHONHASHSEED): executes a batch of tree / query jobs on the
implementation and prints one line  RESULT <json>.
job = {"kind": "steps", "steps": [{specs, req_h, via, graph}, ...]}   (one fresh FGQuery per step, same interpreter)
    | {"kind": "tree", "specs": [...], "via": "build"|"provider"|"dicts"}
    | {"kind": "query", "specs": [...]|null, "req_h": bool, "graph": <coqterm.graph_py dump>}
A query job is answered twice on one FGQuery object and once on a fresh one; the argument graph
is compared (node order, attributes, adjacency order) with an untouched copy afterwards."""
import json
import os
import sys

sys.path.insert(0, os.path.dirname(os.path.dirname(os.path.abspath(__file__))))
import coqterm as ct      # noqa: E402
import gens               # noqa: E402
import lib                # noqa: E402
from props import _fg_common as fc   # noqa: E402


def main():
    lib.assert_repo()
    jobs = json.loads(sys.stdin.read())
    res = []
    for j in jobs:
        if j["kind"] == "strings":
            outs = fc.run_strings(j["specs"], j["req_h"], j["texts"])
            res.append({"answers": [fc.norm_answer(x) for x in outs], "mutated": False})
        elif j["kind"] == "editseq":
            outs = fc.run_editseq(j["specs"], j["req_h"], ct.graph_from_py(j["graph"]), j["events"])
            res.append({"answers": [x if x[0] == "MUTATED" else fc.norm_answer(x) for x in outs], "mutated": any(x[0] == "MUTATED" for x in outs)})
        elif j["kind"] == "steps":
            steps = [{"specs": st["specs"], "req_h": st["req_h"], "via": st["via"], "graph": ct.graph_from_py(st["graph"])}
                     for st in j["steps"]]
            outs, mutated = fc.run_steps(steps)
            res.append({"answers": [fc.norm_answer(x) for x in outs], "mutated": mutated})
        elif j["kind"] == "tree":
            res.append(fc.norm_view(fc.run_tree(j["specs"], j.get("via", "build"))))
        else:
            g = ct.graph_from_py(j["graph"])
            keep = gens.copy_exact(g)
            a = fc.run_query(j["specs"], j["req_h"], g, repeats=2)
            b = fc.run_query(j["specs"], j["req_h"], g, repeats=1)
            res.append({"answers": [fc.norm_answer(x) for x in a + b],
                        "mutated": not gens.graphs_identical(g, keep)})
    print("RESULT " + json.dumps(res))


if __name__ == "__main__":
    main()
