"""C08 — the permutation mapper returns each admissible assignment exactly once.
Correspondence: Model.Permute.permute (mk_mapper w ic cmtn) ~ fgutils.permutation.PermutationMapper(w, ic, cmtn).permute,
Model.MapMatrix.{mm_init,is_mapping} ~ fgutils.permutation.MappingMatrix.{__init__,is_mapping}.
Result lists are compared exactly, including their order."""
import contextlib
import zlib
import copy
import io
import itertools

import networkx as nx

import gens
import lib
import coqterm as ct
from props import _match_common as mc
from fgutils.permutation import PermutationMapper, MappingMatrix
from fgutils.algorithm.subgraph import map_subgraph2

ID = "C08"
REPEAT_PROBE = True   # engine: repeat 1 call in 5 after editing its first result in place (purity / no shared state)
PROPS = "Props/C08.v"
MODEL_FILES = ["Model/Permute.v", "Model/MapMatrix.v", "Model/MapSubgraph2.v", "Spec/PermuteSpec.v", "Spec/PermuteCheck.v",
               "Spec/MinMappingSpec.v"]
IMPORTS = ("From FGV Require Import Base.Sym Model.Permute Model.MapMatrix Model.Match Model.MapSubgraph2 Spec.Embedding "
           "Spec.PermuteSpec Spec.PermuteCheck Spec.MinMappingSpec.")
CHECKS = ["agree", "spec"]
CHUNK = 24
CORRESPONDENCE = ("Model.Permute.permute (mk_mapper wildcard ignore_case can_map_to_nothing) ~ "
                  "fgutils.permutation.PermutationMapper(...).permute (exact list equality incl. order; the model's "
                  "de-duplication compares lists where Python compares set(mapping): identical because every mapping "
                  "lists the pattern positions 0..k-1 in order); Model.MapMatrix.{mm_init,is_mapping} ~ "
                  "MappingMatrix.{__init__,is_mapping} (the private symbol->index dict is abstracted); "
                  "Model.MapMatrix.min_mapping_symbol ord ~ MappingMatrix.min_mapping_symbol and Model.MapSubgraph2.map_subgraph2 ord ~ "
                  "fgutils.algorithm.subgraph.map_subgraph2 (stdout suppressed), where ord = the row numbering of the private dict "
                  "__s2i (enumeration of a Python set, PYTHONHASHSEED dependent) READ FROM THE IMPLEMENTATION for each case: with it the "
                  "reported pair / the result list incl. order and the exception class are compared exactly; integers for numpy float64")
RULE = ("one case in three with an empty can_map_to_nothing list uses a mapper that was built with another wildcard / ignore_case setting, used once and then re-configured through its public attributes; batch cases: one pattern list x ALL structure lists of length 0..n over the alphabet {C,c,H,R,O}; mapper settings = "
        "wildcard in {None,'R'} x ignore_case x can_map_to_nothing in {[],[H],[R],[H,R],[R,H],'H' (bare string),[H,H],"
        "[C,c],[H,O],[R,H,R]} (40 settings). quick: every pattern of length 0..3 x n=3 for 16 settings ([],[H],[H,R],[R,H]) and "
        "length 0..2 x n=3 for the other 24; thorough: length 0..3 x n=3 for all 40, length 0..4 x n=4 for 6 settings, and "
        "over {C,H,R} patterns of length 0..4 x n=5 and length 5 x n=4 for 3 settings. single cases: random lists (length <= 7, "
        "padded structure <= 8) over alphabets with multi-letter symbols (Cl, Br, Si, cl), multi-letter wildcards whose "
        "substrings are listed in can_map_to_nothing, the empty symbol; matrix cases: MappingMatrix over random symbol "
        "lists, full is_mapping table incl. a symbol that is not registered (KeyError). One batch case stands for "
        "(5^(n+1)-1)/4 evaluations of permute. non-trivial = non-empty pattern and at least one non-empty result "
        "(matrix: at least one True and one False cell); distinct = distinct (kind, mapper setting, lists). "
        "minmap cases: MappingMatrix(psyms, ssyms).min_mapping_symbol(ps, ss) over random symbol lists (70% the lists the matrix "
        "was built from, 20% a matrix over more symbols, 10% an unregistered symbol; occasionally pattern longer than structure); "
        "sub2 cases: map_subgraph2(host, pattern, mapper) with the matcher generators of C03/C04 (random hosts <= 7 nodes, planted / "
        "decorated / near-miss / random patterns, arbitrary ids and dict orders; 6% disconnected, 3% empty pattern, 4% host smaller "
        "than pattern; can_map_to_nothing [] in 80%), each run with matrix=None and with the matrix it would build (answers must be equal); "
        "check spec = the order-free specification (some minimal pair) and, for can_map_to_nothing = [], is_embedding of every reported mapping")
TRUSTED = ["ASCII symbols (str.lower modelled on ASCII)", "the symbol->index dict of MappingMatrix is abstracted to the symbols themselves",
           "min_mapping_symbol: numpy float64 arithmetic modelled by integers (all values are products of list lengths); the row numbering "
           "of the matrix is read from the private attribute _MappingMatrix__s2i",
           "map_subgraph2: Model/Match.v as the model of map_anchored_subgraph (tied separately by C03/C04), Model/Rule.is_connected for "
           "the nx.connected_components test; print() not modelled"]
ASSUMPTIONS = ["pattern/structure/can_map_to_nothing entries are Python str (printable ASCII); wildcard is None or a str"]
EXHAUSTIVE = {"quick": True, "thorough": True}

ALPHA = ["C", "c", "H", "R", "O"]
CMTNS_MAIN = [[], ["H"], ["H", "R"], ["R", "H"]]
CMTNS_MORE = [["R"], "H", ["H", "H"], ["C", "c"], ["H", "O"], ["R", "H", "R"]]
FULL_LIMIT = 20000


def lists_upto(alpha, n):
    for k in range(n + 1):
        for t in itertools.product(alpha, repeat=k):
            yield list(t)


def settings(cmtns):
    for w in (None, "R"):
        for ic in (False, True):
            for cm in cmtns:
                yield w, ic, cm


def batch(w, ic, cm, p, alpha, n, fast=False):
    return {"kind": "batch", "w": w, "ic": ic, "cmtn": copy.deepcopy(cm), "p": list(p), "alpha": list(alpha), "n": n, "fast": fast}


def cmtn_list(cm):
    return cm if isinstance(cm, list) else [cm]


def padded_len(w, ic, cm, p, s):
    """size of the padded structure (generator-side bound for the factorial cost only)"""
    f = (lambda x: x.lower()) if ic else (lambda x: x)
    cml = sorted(cmtn_list(cm), key=lambda x: 1 if w is not None and x in w else 0)
    w = None if w is None else f(w)
    p = [f(x) for x in p]
    s = [f(x) for x in s]
    for c in [f(x) for x in cml]:
        k = (len(p) - len(s)) if c == w else (p.count(c) - s.count(c))
        s = s + [c] * max(0, k)
    return len(s)


def n_candidates(w, ic, cm, p, s):
    f = (lambda x: x.lower()) if ic else (lambda x: x)
    w = None if w is None else f(w)
    p = [f(x) for x in p]
    s = [f(x) for x in s]
    cml = [f(x) for x in cmtn_list(cm)]
    n = 1
    for x in p:
        n *= (1 if x in cml else 0) + (len(s) if x == w else s.count(x))
        if n > 10 ** 9:
            break
    return n


RAND_ALPHAS = [
    (["C", "c", "H", "R", "O"], [None, "R", "r"]),
    (["C", "Cl", "cl", "Br", "Si", "H", "R"], [None, "R", "Cl"]),
    (["Cl", "C", "l", "X", ""], ["Cl", "Cl", None, "X"]),
    (["C", "N", "O", "H", "*", "Si", "S", "i"], ["*", "Si", None]),
    (["A", "a", "B", "b"], [None, "A", "a", "Ab"]),
]


def rand_single(rng, big):
    alpha, ws = rng.choice(RAND_ALPHAS)
    w = rng.choice(ws)
    ic = rng.random() < 0.4
    k = rng.choice([0, 1, 1, 2, 2, 3, 4])
    cm = [rng.choice(alpha + ([w] if w else [])) for _ in range(k)]
    if w and rng.random() < 0.3:
        cm.insert(rng.randrange(len(cm) + 1), w)
    if len(cm) == 1 and rng.random() < 0.3:
        cm = cm[0]
    hi = 7 if big else 5
    cml = cmtn_list(cm)
    for _ in range(50):
        ls = rng.randint(0, hi)
        s = [rng.choice(alpha) for _ in range(ls)]
        # a pattern that mostly finds partners: a sample of the structure, some entries replaced by the
        # wildcard, some can_map_to_nothing symbols added, occasionally a random symbol (usually no match)
        p = rng.sample(s, rng.randint(0, len(s)))
        if w:
            p = [w if rng.random() < 0.25 else x for x in p]
        for _k in range(rng.choice([0, 0, 1, 1, 2, 3])):
            pool = (cml if cml and rng.random() < 0.8 else ([w] if w and rng.random() < 0.5 else alpha))
            p.insert(rng.randrange(len(p) + 1), rng.choice(pool))
        if rng.random() < 0.12:
            p.insert(rng.randrange(len(p) + 1), rng.choice(alpha))
        if ic:
            p = [x.swapcase() if rng.random() < 0.3 else x for x in p]
        p = p[:hi]
        if not p and rng.random() < 0.9:
            continue
        if padded_len(w, ic, cm, p, s) <= 8:
            return {"kind": "one", "w": w, "ic": ic, "cmtn": cm, "p": p, "s": s}
    return {"kind": "one", "w": w, "ic": ic, "cmtn": cm, "p": p[:3], "s": s[:3]}


def rand_matrix(rng):
    alpha, ws = rng.choice(RAND_ALPHAS[1:])
    w = rng.choice(ws)
    ic = rng.random() < 0.4
    cm = [rng.choice(alpha) for _ in range(rng.choice([0, 1, 2]))]
    if w and rng.random() < 0.3:
        cm.append(w)
    psyms = [rng.choice(alpha + ([w] if w else [])) for _ in range(rng.randint(0, 5))]
    ssyms = [rng.choice(alpha) for _ in range(rng.randint(0, 5))]
    extra = ["Zz"] if rng.random() < 0.5 else []
    return {"kind": "matrix", "w": w, "ic": ic, "cmtn": cm, "psyms": psyms, "ssyms": ssyms, "extra": extra}


SMALL3 = ["C", "H", "R"]


def matrix_order(mm):
    """row numbering of a MappingMatrix: the symbols in the order of the private dict __s2i (hash dependent)"""
    s2i = mm._MappingMatrix__s2i
    return [s for s, _ in sorted(s2i.items(), key=lambda kv: kv[1])]


def rand_minmap(rng):
    """MappingMatrix(psyms, ssyms).min_mapping_symbol(ps, ss): mostly the lists the matrix was built from
    (what map_subgraph2 does), sometimes other lists over the registered symbols, rarely an unknown symbol or
    a pattern longer than the structure"""
    alpha, ws = rng.choice(RAND_ALPHAS[:2] + [(["C", "O", "N", "H", "R", "c"], [None, "R", "R"])])
    w = rng.choice(ws)
    ic = rng.random() < 0.4
    cm = [rng.choice(alpha) for _ in range(rng.choice([0, 0, 0, 1, 2]))]
    sub = alpha[:rng.randint(1, len(alpha))]
    ss = [rng.choice(sub) for _ in range(rng.randint(0 if rng.random() < 0.05 else 1, 7))]
    k = rng.randint(0 if rng.random() < 0.1 else 1, max(1, len(ss))) if rng.random() < 0.9 else rng.randint(0, 8)
    ps = [rng.choice(ss + ([w] if w else []) + alpha[:2]) for _ in range(k)]
    r = rng.random()
    if r < 0.7:
        psyms, ssyms = list(ps), list(ss)
    elif r < 0.9:      # matrix over more symbols than the query
        psyms = ps + [rng.choice(alpha + ([w] if w else [])) for _ in range(rng.randint(1, 3))]
        ssyms = ss + [rng.choice(alpha) for _ in range(rng.randint(0, 2))]
    else:              # some query symbol unknown to the matrix
        psyms, ssyms = ps[:-1] if ps else [], ss[1:]
    return {"kind": "minmap", "w": w, "ic": ic, "cmtn": cm, "psyms": psyms, "ssyms": ssyms, "ps": ps, "ss": ss}


def rand_sub2(rng):
    """map_subgraph2(host, pattern, mapper): planted / decorated / near-miss / random patterns from the matcher
    generators, arbitrary ids and dict orders; sometimes a disconnected or empty pattern, a pattern larger
    than the host, symbols without any partner"""
    host = mc.rand_host(rng, 7)
    r = rng.random()
    kind = "planted"
    if r < 0.6:
        p, _ = mc.plant(rng, host, 4)
        w, ic = rng.choice(mc.MAPPERS)
        if w == "R" and ic and rng.random() < 0.6:
            mc.decorate(rng, p, w)
            kind = "decorated"
        if rng.random() < 0.2:
            kind = "miss-" + mc.near_miss(rng, p, False)
    else:
        p = mc.rand_pattern(rng, False)
        w, ic = rng.choice(mc.MAPPERS)
        kind = "random"
    r = rng.random()
    if r < 0.06 and p.number_of_nodes() >= 1:          # second component
        n = max(p.nodes) + 1
        p.add_node(n, symbol=rng.choice(["C", "O"]))
        kind = "disconnected"
    elif r < 0.09:
        p = nx.Graph()
        kind = "empty"
    elif r < 0.13:
        host = host.subgraph(list(host.nodes)[:max(1, p.number_of_nodes() - 1)]).copy()
        kind = "host-smaller"
    cm = [] if rng.random() < 0.8 else rng.choice([["H"], ["H", "R"]])
    host, hs, _ = gens.reid(rng, host)
    p, ps_, _ = gens.reid(rng, p) if p.number_of_nodes() else (p, "contig", {})
    return {"kind": "sub2", "w": w, "ic": ic, "cmtn": cm, "G": host, "P": p, "gkind": kind, "scheme": hs + "/" + ps_}




def generate(seed, tier, ncases=None):
    quick = tier == "quick"
    # --- exhaustive batches -------------------------------------------------------------
    if ncases is None or ncases > 2000:
        if quick:
            for w, ic, cm in settings(CMTNS_MAIN):
                for p in lists_upto(ALPHA, 3):
                    yield batch(w, ic, cm, p, ALPHA, 3)
            for w, ic, cm in settings(CMTNS_MORE):
                for p in lists_upto(ALPHA, 2):
                    yield batch(w, ic, cm, p, ALPHA, 3)
        else:
            for w, ic, cm in settings(CMTNS_MAIN + CMTNS_MORE):
                for p in lists_upto(ALPHA, 3):
                    yield batch(w, ic, cm, p, ALPHA, 3)
            deep = [(w, ic, cm) for w, ic, cm in settings([["H", "R"]])]
            deep += [(None, False, []), ("R", True, ["R", "H"])]
            for w, ic, cm in deep:
                for p in lists_upto(ALPHA, 4):
                    yield batch(w, ic, cm, p, ALPHA, 4, fast=True)
            for w, ic, cm in [("R", False, ["H", "R"]), ("R", True, ["R", "H"]), (None, False, ["H"])]:
                for p in lists_upto(SMALL3, 5):
                    yield batch(w, ic, cm, p, SMALL3, 5 if len(p) <= 4 else 4, fast=True)
    # --- random single and matrix cases ----------------------------------------------------
    n = ncases if ncases is not None else (500 if quick else 6000)
    for i in range(n):
        rng = lib.rng_for(seed, ID, i)
        if i % 5 == 4:
            yield rand_matrix(rng)
        else:
            yield rand_single(rng, big=(i % 5 == 3))
    # --- min_mapping_symbol and map_subgraph2 ------------------------------------------------
    n2 = (ncases // 2) if ncases is not None else (300 if quick else 4000)
    for i in range(n2):
        rng = lib.rng_for(seed, ID + "x", i)
        yield rand_minmap(rng) if i % 2 == 0 else rand_sub2(rng)


def corpus():
    # wildcard not last in can_map_to_nothing (substring sort key): wildcard positions may or may not map to nothing
    yield {"kind": "one", "w": "Cl", "ic": False, "cmtn": ["Cl", "C"], "p": ["Cl", "C"], "s": ["X"]}
    yield {"kind": "one", "w": "R", "ic": False, "cmtn": ["R", ""], "p": ["R", "", "R"], "s": ["H"]}
    # lower-casing creates a duplicate can_map_to_nothing entry
    yield {"kind": "one", "w": "R", "ic": True, "cmtn": ["H", "h", "r"], "p": ["H", "h", "R", "C"], "s": ["c", "H"]}
    # ignore_case + wildcard listed in another case: the constructor's sort does not move it last (order matters)
    yield {"kind": "one", "w": "R", "ic": True, "cmtn": ["r", "H"], "p": ["R", "H"], "s": ["X"]}
    yield {"kind": "one", "w": "R", "ic": True, "cmtn": ["H", "r"], "p": ["R", "H"], "s": ["X"]}
    # structure-side wildcard must not match a concrete pattern symbol
    yield {"kind": "one", "w": "R", "ic": False, "cmtn": [], "p": ["C"], "s": ["R"]}
    # D8: multi-letter symbols in the matrix
    yield {"kind": "matrix", "w": "R", "ic": False, "cmtn": ["H"], "psyms": ["Cl", "C", "R", "H"], "ssyms": ["Cl", "C", "Br"], "extra": ["Zz"]}
    yield {"kind": "matrix", "w": None, "ic": True, "cmtn": [], "psyms": ["Cl", "cl", "C"], "ssyms": ["CL", "c", "Si"], "extra": []}
    yield from corpus_ext()


def _path(syms, bonds=None):
    g = nx.Graph()
    for i, s in enumerate(syms):
        g.add_node(i, symbol=s)
    for i in range(len(syms) - 1):
        g.add_edge(i, i + 1, bond=(bonds[i] if bonds else 1))
    return g


def corpus_ext():
    # tie between (C,C) and (O,O): the reported pair (and map_subgraph2's result list) depends on PYTHONHASHSEED
    yield {"kind": "minmap", "w": "R", "ic": True, "cmtn": [], "psyms": ["C", "O"], "ssyms": ["C", "O", "O", "C"],
           "ps": ["C", "O"], "ss": ["C", "O", "O", "C"]}
    yield {"kind": "sub2", "w": "R", "ic": True, "cmtn": [], "G": _path(["C", "O", "C", "O"]), "P": _path(["C", "O"]),
           "gkind": "corpus-tie", "scheme": "contig/contig"}
    # a matrix over more symbols than the query: the minimal pair may name a symbol that is not in the query
    yield {"kind": "minmap", "w": "R", "ic": True, "cmtn": [], "psyms": ["C", "R"], "ssyms": ["C"], "ps": ["C"], "ss": ["C"]}
    # errors
    yield {"kind": "minmap", "w": None, "ic": False, "cmtn": [], "psyms": ["C", "O"], "ssyms": ["C"], "ps": ["C", "O"], "ss": ["C"]}
    yield {"kind": "minmap", "w": None, "ic": False, "cmtn": [], "psyms": ["C"], "ssyms": ["C"], "ps": ["N"], "ss": ["C", "C"]}
    yield {"kind": "minmap", "w": None, "ic": False, "cmtn": [], "psyms": ["C"], "ssyms": ["O"], "ps": ["C"], "ss": ["O"]}
    yield {"kind": "sub2", "w": None, "ic": False, "cmtn": [], "G": _path(["C", "C"]), "P": _path(["O"]),
           "gkind": "corpus-assert", "scheme": "contig/contig"}


def mk(c):
    """The mapper for the case. One case in three with an empty can_map_to_nothing list (whose order the constructor
    fixes from the wildcard) gets a mapper that was built with ANOTHER wildcard / ignore_case setting, used once, and then
    re-configured through its public attributes: permute reads wildcard and ignore_case at call time."""
    if not c["_cm"] and zlib.crc32(repr((c["kind"], c["w"], c["ic"], c.get("p"), c.get("s"), c.get("psyms"), c.get("ssyms"))).encode()) % 3 == 0:
        m = PermutationMapper(wildcard=None if c["w"] else "R", ignore_case=not c["ic"], can_map_to_nothing=c["_cm"])
        m.permute(["R", "c"], ["C", "r", "O"])
        m.wildcard = c["w"]
        m.ignore_case = c["ic"]
        return m
    return PermutationMapper(wildcard=c["w"], ignore_case=c["ic"], can_map_to_nothing=c["_cm"])


def matrix_syms(c):
    syms = []
    for x in c["psyms"] + c["ssyms"] + c["extra"]:
        if x not in syms:
            syms.append(x)
    return syms


def run_impl(c):
    c = dict(c)
    cm0 = copy.deepcopy(c["cmtn"])
    c["_cm"] = copy.deepcopy(c["cmtn"])
    mutated = []
    try:
        m = mk(c)
        if c["_cm"] != cm0:
            mutated.append("can_map_to_nothing was modified by the constructor")
        if c["kind"] == "one":
            p, s = list(c["p"]), list(c["s"])
            res = m.permute(p, s)
            if p != c["p"] or s != c["s"]:
                mutated.append("permute modified its arguments: pattern %r -> %r, structure %r -> %r" % (c["p"], p, c["s"], s))
            if c["_cm"] != cm0:
                mutated.append("can_map_to_nothing was modified by permute")
            return ("ok", res, mutated)
        if c["kind"] == "batch":
            outs = []
            for s0 in lists_upto(c["alpha"], c["n"]):
                p, s = list(c["p"]), list(s0)
                outs.append(m.permute(p, s))
                if p != c["p"] or s != s0:
                    mutated.append("permute modified its arguments: pattern %r -> %r, structure %r -> %r" % (c["p"], p, s0, s))
            if c["_cm"] != cm0:
                mutated.append("can_map_to_nothing was modified by permute")
            return ("ok", outs, mutated[:3])
        if c["kind"] == "minmap":
            mm = MappingMatrix(list(c["psyms"]), list(c["ssyms"]), m)
            order = matrix_order(mm)
            ps, ss = list(c["ps"]), list(c["ss"])
            try:
                r = ("ok", mm.min_mapping_symbol(ps, ss))
            except (ValueError, KeyError) as e:
                r = (type(e).__name__, str(e)[:100])
            if ps != c["ps"] or ss != c["ss"]:
                mutated.append("min_mapping_symbol modified its arguments")
            return ("ok", r, mutated, order)
        if c["kind"] == "sub2":
            G, P = gens.copy_exact(c["G"]), gens.copy_exact(c["P"])
            gl = [d.get("symbol") for _, d in G.nodes(data=True)]
            sl = [d.get("symbol") for _, d in P.nodes(data=True)]
            mm = MappingMatrix(sl, gl, m)
            order = matrix_order(mm)
            runs = []
            for matrix in (None, mm):
                try:
                    with contextlib.redirect_stdout(io.StringIO()):
                        runs.append(("ok", map_subgraph2(G, P, m, matrix=matrix)))
                except (ValueError, KeyError, AssertionError, IndexError) as e:
                    runs.append((type(e).__name__, str(e)[:100]))
            if runs[0] != runs[1]:
                mutated.append("map_subgraph2 with the matrix it would build itself gives another answer: %r vs %r" % (runs[0], runs[1]))
            if ct.graph_canon(G) != ct.graph_canon(c["G"]) or ct.graph_canon(P) != ct.graph_canon(c["P"]):
                mutated.append("map_subgraph2 modified its graphs")
            return ("ok", runs[0], mutated, order)
        ps, ss = list(c["psyms"]), list(c["ssyms"])
        mm = MappingMatrix(ps, ss, m)
        if ps != c["psyms"] or ss != c["ssyms"]:
            mutated.append("MappingMatrix modified its symbol lists")
        table = []
        for a in matrix_syms(c):
            row = []
            for b in matrix_syms(c):
                try:
                    row.append(bool(mm.is_mapping(a, b)))
                except KeyError:
                    row.append(None)
            table.append(row)
        direct = [[len(m.permute([a], [b])) > 0 for b in c["ssyms"]] for a in c["psyms"]]
        return ("ok", table, mutated, direct)
    except Exception as e:      # the modelled domain never raises: any exception is reported as a failing output
        return (type(e).__name__, str(e)[:300], mutated)


def mapper_term(c):
    return "(mk_mapper %s %s %s)" % (ct.opt(c["w"], ct.s), ct.b(c["ic"]), strs(cmtn_list(c["cmtn"])))


def strs(l):
    return "(%s : list string)" % ct.lst([ct.s(x) for x in l])


def mapping_term(m):
    if not isinstance(m, list) or any(not (isinstance(x, tuple) and len(x) == 2) for x in m):
        raise ct.Unrepresentable("mapping %r" % (m,))
    if [x[0] for x in m] == list(range(len(m))):
        return "(enumerate %s)" % ct.lst([ct.z(x[1]) for x in m])
    return ct.lst(["(%s, %s)" % (ct.z(x[0]), ct.z(x[1])) for x in m])


def maps_term(res):
    if not isinstance(res, list):
        raise ct.Unrepresentable("result %r" % (res,))
    return "(%s : list (list (Z * Z)))" % ct.lst([mapping_term(m) for m in res])


def coq_case(c, out):
    mp = mapper_term(c)
    if c["kind"] in ("one", "batch") and out[0] != "ok":
        # permute raised: no output to compare, both checks fail on this input
        return {"defs": {"p": strs(c["p"])}, "checks": {"agree": "false", "spec": "false"},
                "diag": ["permute %s $p []" % mp]}
    if c["kind"] == "one":
        defs = {"p": strs(c["p"]), "s": strs(c["s"]), "out": maps_term(out[1])}
        full = n_candidates(c["w"], c["ic"], c["cmtn"], c["p"], c["s"]) <= FULL_LIMIT
        chk = "permute_okb" if full else "permute_sound_okb"
        return {"defs": defs,
                "checks": {"agree": "maps_eqb (permute %s $p $s) $out" % mp,
                           "spec": "%s %s $p $s $out" % (chk, mp)},
                "diag": ["permute %s $p $s" % mp]}
    if c["kind"] == "batch":
        defs = {"p": strs(c["p"]), "al": strs(c["alpha"]),
                "outs": "(%s : list (list (list (Z * Z))))" % ct.lst([maps_term(r) for r in out[1]])}
        args = "%s $p $al %s $outs" % (mp, ct.nat(c["n"]))
        return {"defs": defs,
                "checks": {"agree": "batch_agree " + args,
                           "spec": ("batch_sound_okb " if c["fast"] else "batch_okb ") + args},
                "diag": ["batch_bad " + args]}
    if c["kind"] in ("minmap", "sub2") and out[0] != "ok":
        return {"defs": {"w": ct.b(True)}, "checks": {"agree": "false", "spec": "false"}, "diag": []}
    if c["kind"] == "minmap":
        r = out[1]
        if r[0] == "ok":
            if r[1] is None:
                rt = "(MMSOk None)"
            else:
                if not (isinstance(r[1], tuple) and len(r[1]) == 2):
                    raise ct.Unrepresentable("min_mapping_symbol returned %r" % (r[1],))
                rt = "(MMSOk (Some (%s, %s)))" % (ct.s(r[1][0]), ct.s(r[1][1]))
        else:
            rt = {"ValueError": "MMSValueError", "KeyError": "MMSKeyError"}[r[0]]
        defs = {"ord": strs(out[3]), "psyms": strs(c["psyms"]), "ssyms": strs(c["ssyms"]),
                "ps": strs(c["ps"]), "ss": strs(c["ss"]), "out": rt}
        args = "%s $psyms $ssyms $ps $ss" % mp
        return {"defs": defs,
                "checks": {"agree": "option_eqb mms_eqb (minmap_run $ord %s) (Some $out)" % args,
                           "spec": "minmap_okb %s $out" % args},
                "diag": ["minmap_run $ord %s" % args]}
    if c["kind"] == "sub2":
        r = out[1]
        if r[0] == "ok":
            rows = []
            for x in r[1]:
                if not (isinstance(x, tuple) and len(x) == 2 and isinstance(x[0], bool)):
                    raise ct.Unrepresentable("map_subgraph2 entry %r" % (x,))
                rows.append("(%s, %s)" % (ct.b(x[0]), mc.pairs(x[1])))
            rt = "(MS2Ok (%s : list (bool * list (Z * Z))))" % ct.lst(rows)
        elif r[0] == "ValueError":
            rt = "MS2Disconnected" if "disconnected" in r[1] else "MS2TooLarge" if "more symbols" in r[1] else None
            if rt is None:
                raise ct.Unrepresentable("ValueError %r" % (r[1],))
        else:
            rt = {"KeyError": "MS2KeyError", "AssertionError": "MS2AssertionError", "IndexError": "(MS2Raise IndexError)"}[r[0]]
        defs = {"ord": strs(out[3]), "G": ct.graph(c["G"]), "P": ct.graph(c["P"]), "out": rt}
        spec = "map_subgraph2_okb $G $P %s $out" % mp
        if cmtn_list(c["cmtn"]) == []:
            spec += " && all_embeddingsb %s %s $G $P $out" % (ct.opt(c["w"], ct.s), ct.b(c["ic"]))
        return {"defs": defs,
                "checks": {"agree": "ms2_eqb (map_subgraph2 $ord $G $P %s None) $out" % mp, "spec": spec},
                "diag": ["map_subgraph2 $ord $G $P %s None" % mp]}
    syms = matrix_syms(c)
    defs = {"ps": strs(c["psyms"]), "ss": strs(c["ssyms"]), "syms": strs(syms)}
    if out[0] == "ok":
        rows = [ct.lst([ct.opt(x, ct.b) for x in row]) for row in out[1]]
        defs["out"] = "(Some (%s : list (list (option bool))))" % ct.lst(rows)
    else:
        defs["out"] = "(@None (list (list (option bool))))"
    return {"defs": defs,
            "checks": {"agree": "option_eqb table_eqb (option_map (fun m => matrix_table m $syms) (mm_init %s $ps $ss)) $out" % mp,
                       "spec": "option_eqb table_eqb (Some (matrix_spec_table %s $ps $ss $syms)) $out" % mp},
            "diag": ["option_map (fun m => matrix_table m $syms) (mm_init %s $ps $ss)" % mp]}


def describe(c):
    d = {k: v for k, v in c.items() if not k.startswith("_")}
    if c["kind"] == "sub2":
        d["G"], d["P"] = ct.graph_py(c["G"]), ct.graph_py(c["P"])
    return d


def from_json(d):
    d = dict(d)
    if d["kind"] == "sub2":
        d["G"], d["P"] = ct.graph_from_py(d["G"]), ct.graph_from_py(d["P"])
    return d


def describe_out(out):
    if out[0] != "ok":
        return {"status": out[0], "msg": out[1]}
    r = out[1]
    if len(out) > 3 and isinstance(r, tuple):        # minmap / sub2: (status, value) + the observed matrix row order
        v = r[1]
        if r[0] == "ok" and isinstance(v, list):
            v = [[x[0], [list(t) for t in x[1]]] for x in v]
        elif isinstance(v, tuple):
            v = list(v)
        return {"status": r[0], "value": v, "matrix_row_order": out[3]}
    if len(repr(r)) > 4000:
        return {"status": "ok", "result_sizes": [len(x) for x in r][:400], "note": "batch; use --replay for details"}
    return {"status": "ok", "result": [[list(t) if isinstance(t, tuple) else t for t in m] if isinstance(m, list) else m for m in r]}


def _h(x):
    return tuple(x) if isinstance(x, list) else x


def key(c):
    base = (c["kind"], c["w"], c["ic"], ("L",) + tuple(c["cmtn"]) if isinstance(c["cmtn"], list) else ("S", c["cmtn"]))
    if c["kind"] == "one":
        return base + (tuple(c["p"]), tuple(c["s"]))
    if c["kind"] == "batch":
        return base + (tuple(c["p"]), tuple(c["alpha"]), c["n"])
    if c["kind"] == "minmap":
        return base + (tuple(c["psyms"]), tuple(c["ssyms"]), tuple(c["ps"]), tuple(c["ss"]))
    if c["kind"] == "sub2":
        return base + (ct.graph_canon(c["G"]), ct.graph_canon(c["P"]))
    return base + (tuple(c["psyms"]), tuple(c["ssyms"]), tuple(c["extra"]))


def nontrivial(c, out):
    if out[0] != "ok":
        return False
    if c["kind"] == "one":
        return len(c["p"]) > 0 and len(out[1]) > 0
    if c["kind"] == "batch":
        return len(c["p"]) > 0 and any(len(r) > 0 for r in out[1])
    if c["kind"] == "minmap":
        return out[1][0] == "ok" and out[1][1] is not None and len(set(c["ps"])) >= 2
    if c["kind"] == "sub2":
        return out[1][0] == "ok" and len(out[1][1]) > 0 and c["P"].number_of_nodes() >= 2
    cells = [x for row in out[1] for x in row]
    return True in cells and False in cells


def classes(c, out):
    yield "kind=" + c["kind"]
    yield "wildcard=%s" % c["w"]
    yield "ignore_case=%s" % c["ic"]
    cm = c["cmtn"]
    yield "cmtn=" + ("bare-string" if not isinstance(cm, list) else "empty" if not cm else
                     "dup" if len(set(cm)) < len(cm) else "%d" % len(cm))
    yield "result=" + out[0]
    if out[0] == "ok" and c["kind"] == "one":
        n = len(out[1])
        yield "one:|p|=%d" % len(c["p"])
        yield "one:results=" + ("0" if n == 0 else "1" if n == 1 else "2-9" if n < 10 else "10+")
        if any(t[1] == -1 for m in out[1] for t in m):
            yield "one:uses-nothing"
    if out[0] == "ok" and c["kind"] == "batch":
        yield "batch:|p|=%d,n=%d" % (len(c["p"]), c["n"])
    if out[0] == "ok" and c["kind"] == "minmap":
        r = out[1]
        yield "minmap:" + (r[0] if r[0] != "ok" else "None" if r[1] is None else "pair")
        if r[0] == "ok" and r[1] is not None and (r[1][0] not in c["ps"] or r[1][1] not in c["ss"]):
            yield "minmap:pair-not-in-query"
    if out[0] == "ok" and c["kind"] == "sub2":
        r = out[1]
        yield "sub2:" + c["gkind"].split("-")[0]
        yield "sub2:result=" + (r[0] if r[0] != "ok" else "0" if not r[1] else "1" if len(r[1]) == 1 else "2+")


def py_invariants(c, out):
    msgs = list(out[2])
    if c["kind"] == "matrix" and out[0] == "ok":
        syms = matrix_syms(c)
        for i, a in enumerate(c["psyms"]):
            for j, b in enumerate(c["ssyms"]):
                got = out[1][syms.index(a)][syms.index(b)]
                if got is not out[3][i][j]:
                    msgs.append("is_mapping(%r,%r)=%r but permute([%r],[%r]) is %s" % (a, b, got, a, b, "non-empty" if out[3][i][j] else "empty"))
    return msgs[:3]
