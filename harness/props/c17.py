"""C17 — connected induced subgraph enumeration is exact.
Correspondence: Model.Cis.node_induced_connected_subgraphs ~
fgutils.algorithm.subgraph_enumeration.node_induced_connected_subgraphs (list(generator) as a family of node sets)."""
import itertools
import random

import networkx as nx

import lib
import gens
import coqterm as ct
from fgutils.algorithm.subgraph_enumeration import node_induced_connected_subgraphs

ID = "C17"
REPEAT_PROBE = True   # engine: repeat 1 call in 5 after editing its first result in place (purity / no shared state)
PROPS = "Props/C17.v"
MODEL_FILES = ["Model/Cis.v", "Spec/CisSpec.v", "Spec/CisCheck.v"]
IMPORTS = "From FGV Require Import Model.Cis Spec.CisSpec Spec.CisCheck."
CHECKS = ["agree", "spec"]
CORRESPONDENCE = ("Model.Cis.{node_induced_connected_subgraphs,nics_inner,enumerateCIS,is_valid_extension,"
                  "is_existing_extension} ~ fgutils.algorithm.subgraph_enumeration.{node_induced_connected_subgraphs,"
                  "_node_induced_connected_subgraphs,enumerateCIS,is_valid_extension,is_existing_extension}. The model ignores the optional "
                  "DAG argument (pure bookkeeping that must not influence what is yielded): ~30% of the cases are ALSO run with "
                  "DAG=nx.DiGraph(), both runs must pass the same checks and yield identical lists (runtime invariant); the contents "
                  "of the DAG itself are not checked. A yielded list is read at the moment it is yielded. The graph handed to the code "
                  "is rebuilt with a fresh object for every occurrence of an id (node key, adjacency key), and in ~85% of the cases "
                  "the anchor argument is a further fresh object: equal to the node but not identical with it wherever CPython "
                  "allows (ints outside the small-int cache, strings of length >= 2, tuples); the harness asserts this. In half of the "
                  "cases the consumer is adversarial: right after copying a yielded list it edits the ORIGINAL in place (reverse / "
                  "sort descending / clear / append or insert a foreign id / overwrite or delete elements) before asking for the next "
                  "item, in the run with a DAG as well; the copies are what is judged. For adversarial cases with a DAG a third run "
                  "additionally edits every `U` list stored in the DAG's node attributes between items and must yield what the "
                  "polite run yields (runtime invariant, class dag_u_alias). In ~20% of the cases 2-3 enumerations are ALIVE AT ONCE: the case's "
                  "call plus one or two companions (same graph object with another anchor / the same call once more / another graph "
                  "with the same number of nodes), consumed interleaved (round-robin, nested, nested from the middle, staggered); the "
                  "case's generator must yield exactly what it yields when consumed alone (runtime invariant) and every "
                  "companion's collected output is judged by agree/spec against the model for its own (graph, anchor). "
                  "compared: list(generator) as a family of node sets with multiplicities (yields_equivb: the property does not fix the "
                  "order of the yields nor the order inside a yielded list), or the exception class. With the pinned code the "
                  "model also reproduces the exact order (yields_eqb held on all 31564 thorough-tier cases)")
RULE = ("quick: EVERY labelled simple graph on 1-4 nodes (all edge subsets, ids 0..n-1) x every anchor; every graph of the "
        "networkx atlas with <= 5 nodes x every anchor x {integer re-identification (contiguous/offset/sparse/negative/"
        "shuffled/negshift [ids -k..n-k-1, k>=1: all below n, some negative, 0 present]/belown [distinct ints below n, some "
        "negative, 0 present] ids, shuffled node and edge insertion order; in about half of these the anchor's id is forced to "
        "be 0 or n-1), non-integer ids (strings/tuples) with shuffled insertion order}; every atlas graph with 2-4 (thorough: 2-6) "
        "nodes x every anchor under negshift/belown ids with the anchor's id exactly 0; random sparse graphs (tree + 0-3 extra edges, possibly disconnected, 2-10 nodes) with random id scheme and "
        "anchor, 8% of them with one self-loop added; a few anchors that are not nodes. thorough: every labelled graph on 1-5 nodes x every anchor; every atlas "
        "graph with <= 7 nodes x every anchor x {as given, integer re-identification, non-integer ids}; random sparse graphs "
        "up to 14 nodes (at most 400 connected sets per case). Non-integer ids are mapped to distinct integers by the harness "
        "before the graph is handed to the model (the code uses ids only as dict keys and compares them with ==). "
        "About 30% of all cases (chosen by the case index) are run both without and with DAG=nx.DiGraph(). "
        "Further integer id schemes with |id| > 1000 (big: 1001..10^6, bigneg: -10^6..-1001, bigmixed, huge: around 2^70) are used "
        "by ~40% of the integer re-identifications and by one extra variant of every atlas graph with <= 4 (thorough: <= 6) nodes "
        "x every anchor, so that equal ints are distinct objects; non-integer names have length >= 2. The anchor argument is a "
        "fresh equal object in ~85% of the cases and the graph's own node object in the rest (histogram class anchor_obj). "
        "Half of the cases (chosen by the case index) are consumed adversarially (yielded lists edited in place between items). "
        "About 20% of the cases get 1-2 companion enumerations that are alive at the same time and consumed interleaved "
        "(histogram classes interleave=, companions=). Name style mixed / mixed3 put strings, ints and tuples into ONE graph. "
        "non-trivial = anchor is a node and at least 2 sets are yielded; distinct = distinct (node order, adjacency "
        "order, anchor, id naming)")
TRUSTED = ["model of networkx.Graph (Base/NX.v: node and adjacency dict order; relabel_nodes, neighbors) - validated by the exact comparison",
           "harness mapping of non-integer node ids to integers by position"]
ASSUMPTIONS = ["the optional DAG argument is not modelled: the theorems are about the DAG=None code path; runs with a DAG are only "
               "required to yield exactly what the run without DAG yields (and to pass the same checks)",
               "the graph is an undirected networkx.Graph (not a multigraph); theorems assume Base.NX.wfb (unique ids, symmetric "
               "adjacency without repeated neighbours), which every such graph satisfies; self-loops are allowed",
               "node ids are Python ints in the model; other hashable ids are covered only through the harness renaming",
               "Python's recursion limit is not modelled: enumerateCIS recurses once per member of the yielded set, so a connected "
               "set of roughly 1000 nodes or more would raise RecursionError in CPython although the theorem has no size bound",
               "ints are unbounded on both sides; np.inf is modelled as a distinguished value larger than every int"]
CHUNK = 200
EXHAUSTIVE = {"quick": True, "thorough": True}

EXC = {"AssertionError": "EAssert", "IndexError": "EIndex", "KeyError": "EKey", "NetworkXError": "ENode"}
MAX_SETS = 400


# ----------------------------------------------------------------------------- generators
def labelled_graphs(n):
    """Every simple graph on nodes 0..n-1 (all edge subsets)."""
    pairs = list(itertools.combinations(range(n), 2))
    for mask in range(1 << len(pairs)):
        g = nx.Graph()
        g.add_nodes_from(range(n))
        for k, (u, v) in enumerate(pairs):
            if mask >> k & 1:
                g.add_edge(u, v, bond=1)
        yield g


def atlas(nmax):
    from networkx.generators.atlas import graph_atlas_g
    for a in graph_atlas_g():
        if 1 <= a.number_of_nodes() <= nmax:
            g = nx.Graph()
            g.add_nodes_from(a.nodes)
            for u, v in a.edges:
                g.add_edge(u, v, bond=1)
            yield g


NAME_STYLES = ["str", "strnum", "tuple", "mixed", "mixed3"]


def make_names(rng, nodes):
    """An injective naming of the integer ids by non-integer hashables."""
    style = rng.choice(NAME_STYLES)
    pool = list("abcdefghijklmnopqrstuvwxyz")
    rng.shuffle(pool)
    names = {}
    nums = rng.sample(range(100), len(nodes))
    for k, n in enumerate(nodes):
        if style == "str":
            names[n] = pool[k % 26] * 2 + ("" if k < 26 else str(k))   # length >= 2: run-time copies are new objects
        elif style == "strnum":
            names[n] = "n%d" % nums[k]
        elif style == "tuple":
            names[n] = ("C", nums[k] % 7, n)
        elif style == "mixed":
            # strings, tuples and ints within one graph
            names[n] = [pool[k % 26] + str(k), (k, "x"), 1000 + nums[k], "N%d" % n][k % 4]
        else:
            # mixed3: like 'a', 3, (1, 2) (one-letter strings and small ints on purpose: cached objects)
            names[n] = [pool[k % 26] if k < 26 else pool[k % 26] + str(k), nums[k], (k, nums[k])][(k + nums[0]) % 3]
    return names, style


def count_connected_sets(g, anchor, cap):
    """Number of connected node sets containing the anchor (stops above cap). Only used to keep
    the generated cases small enough for the in-Coq reference enumeration."""
    if anchor not in g:
        return 0
    seen = set()
    stack = [frozenset([anchor])]
    seen.add(stack[0])
    while stack:
        s = stack.pop()
        for u in s:
            for v in g._adj[u]:
                if v not in s:
                    t = s | {v}
                    if t not in seen:
                        seen.add(t)
                        if len(seen) > cap:
                            return len(seen)
                        stack.append(t)
    return len(seen)


def rand_sparse(rng, nmin, nmax):
    n = rng.randint(nmin, nmax)
    g = nx.Graph()
    g.add_nodes_from(range(n))
    for u, v in gens.rand_tree_edges(rng, n):
        g.add_edge(u, v, bond=1)
    for _ in range(rng.choice([0, 0, 1, 1, 2, 3])):
        if n >= 3:
            u, v = rng.sample(range(n), 2)
            g.add_edge(u, v, bond=1)
    for _ in range(rng.choice([0, 0, 0, 1, 2])):
        if g.number_of_edges() > 0:
            g.remove_edge(*rng.choice(list(g.edges)))
    if rng.random() < 0.08:
        # not a simple graph any more: a self-loop (the theorems only need Base.NX.wfb, which allows it)
        u = rng.randrange(n)
        g.add_edge(u, u, bond=1)
    return g


def mk(g, anchor, scheme, src, names=None, style=None):
    return {"graph": g, "anchor": anchor, "names": names, "scheme": scheme, "src": src, "style": style}


INT_SCHEMES = gens.ID_SCHEMES + ["negshift", "belown"]
BIG_SCHEMES = ["big", "bigneg", "bigmixed", "huge"]      # every |id| > 1000: outside CPython's small-int cache


def reid2(rng, g, anchor, scheme=None, anchor_id=None):
    """Like gens.reid (new integer ids, node / edge insertion order shuffled) with two more id schemes and the
    option to force the id the anchor gets.
      negshift: ids -k .. n-k-1 for some 1 <= k <= n-1 (all below n, some negative, 0 present)
      belown  : distinct ints below n, 0 present, at least one negative, not contiguous in general
    anchor_id: None (whatever the scheme gives), 0 or "n-1": that value is made one of the ids and given to the anchor."""
    scheme = scheme or rng.choice(INT_SCHEMES)
    n = g.number_of_nodes()
    old = list(g.nodes)
    if scheme == "negshift":
        k = rng.randint(1, max(1, n - 1))
        new = [i - k for i in range(n)]
    elif scheme == "belown":
        pool = [x for x in range(-2 * n - 2, n) if x != 0]
        new = [0] + rng.sample(pool, n - 1)
        if n >= 2 and all(x >= 0 for x in new):
            new[1] = -rng.randint(1, n + 1)
        rng.shuffle(new)
    elif scheme == "big":
        new = sorted(rng.sample(range(1001, 10 ** 6), n))
    elif scheme == "bigneg":
        new = sorted(rng.sample(range(-10 ** 6, -1000), n))
    elif scheme == "bigmixed":
        new = sorted(rng.choice([-1, 1]) * x for x in rng.sample(range(1001, 5000), n))
    elif scheme == "huge":
        base = 2 ** 70 + rng.randint(0, 1000)
        new = sorted(rng.choice([-1, 1]) * (base + x) for x in rng.sample(range(0, 4 * n + 4), n))
    elif scheme == "contig":
        new = list(range(n))
    elif scheme == "offset":
        k = rng.randint(1, 20)
        new = [i + k for i in range(n)]
    elif scheme == "sparse":
        new = sorted(rng.sample(range(0, 5 * n + 5), n))
    elif scheme == "negative":
        new = sorted(rng.sample(range(-n - 3, 2 * n + 3), n))
    else:
        new = rng.sample(range(0, 3 * n + 2), n)
    if scheme in ("negshift", "shuffled") or rng.random() < 0.5:
        rng.shuffle(new)                      # which node gets which id is random
    m = dict(zip(old, new))
    if anchor_id is not None:
        t = n - 1 if anchor_id == "n-1" else anchor_id
        if t in new:
            other = [u for u in old if m[u] == t][0]
            m[other], m[anchor] = m[anchor], t
        else:
            m[anchor] = t
    h = nx.Graph()
    order = list(old)
    if scheme != "contig" or rng.random() < 0.3:
        rng.shuffle(order)
    for u in order:
        h.add_node(m[u], **dict(g.nodes[u]))
    es = list(g.edges(data=True))
    rng.shuffle(es)
    for u, v, d in es:
        if rng.random() < 0.5:
            u, v = v, u
        h.add_edge(m[u], m[v], **dict(d))
    return h, scheme, m


def variants(rng, g, a, src, kinds):
    for kind in kinds:
        if kind == "plain":
            yield mk(g, a, "asgiven", src)
        elif kind == "reid":
            if rng.random() < 0.4:
                h, scheme, m = reid2(rng, g, a, scheme=rng.choice(BIG_SCHEMES))
            else:
                h, scheme, m = reid2(rng, g, a, anchor_id=rng.choice([None, None, 0, "n-1"]))
            yield mk(h, m[a], scheme, src)
        elif kind == "big":
            h, scheme, m = reid2(rng, g, a, scheme=rng.choice(BIG_SCHEMES))
            yield mk(h, m[a], scheme, src)
        elif kind == "zero":
            # all ids below n, some negative, the anchor's id is exactly 0
            if g.number_of_nodes() >= 2:
                h, scheme, m = reid2(rng, g, a, scheme=rng.choice(["negshift", "negshift", "belown"]), anchor_id=0)
                yield mk(h, m[a], scheme, src)
        else:
            h, scheme, m = gens.reid(rng, g, scheme=rng.choice(["shuffled", "contig", "sparse"]))
            names, style = make_names(rng, list(h.nodes))
            yield mk(h, m[a], scheme, src, names, style)


def generate(seed, tier, ncases=None):
    it = itertools.islice(_generate(seed, tier), ncases) if ncases else _generate(seed, tier)
    for i, c in enumerate(it):
        yield _with_interleave(seed, i, _with_consumer(seed, i, _with_anchor_obj(seed, i, _with_dag(seed, i, _with_history(seed, i, c)))))


SCHEDULES = ["roundrobin", "nested", "nested_mid", "staggered"]


def _with_interleave(seed, i, c):
    """About 20% of the cases get 1-2 companion enumerations that are alive at the same time as the case's own:
    same graph object with another anchor, the same call once more, or another graph with the same number of nodes."""
    rng = lib.rng_for(seed, ID + ":interleave", i)
    g = c["graph"]
    if rng.random() >= 0.2 or c["anchor"] not in g:
        return c
    n = g.number_of_nodes()
    others = [x for x in g.nodes if x != c["anchor"]]
    co = []
    for _ in range(rng.choice([1, 1, 2])):
        kind = rng.choice(["anchor", "anchor", "twice", "other", "other"])
        if kind == "anchor" and others:
            co.append({"same": True, "anchor": rng.choice(others)})
        elif kind == "twice" or n > 12:
            co.append({"same": True, "anchor": c["anchor"]})
        else:
            while True:
                g2 = rand_sparse(rng, n, n)
                a2 = rng.choice(list(g2.nodes))
                if count_connected_sets(g2, a2, MAX_SETS) <= MAX_SETS:
                    break
            h2, scheme, m = reid2(rng, g2, a2, scheme=rng.choice(["contig", "contig", "shuffled", "negshift", "big"]))
            sub = mk(h2, m[a2], scheme, "companion")
            if c["names"] is not None:
                sub["names"], sub["style"] = make_names(rng, list(h2.nodes))
            co.append({"same": False, "case": sub})
    c = dict(c)
    c["inter"] = {"sched": rng.choice(SCHEDULES), "k": rng.randint(1, 3), "first": rng.random() < 0.7, "co": co}
    return c


def _with_consumer(seed, i, c):
    """Half of the cases are consumed adversarially; c["adv"] seeds the edits."""
    rng = lib.rng_for(seed, ID + ":consumer", i)
    if rng.random() < 0.5:
        c = dict(c)
        c["adv"] = rng.getrandbits(32)
    return c


def _with_anchor_obj(seed, i, c):
    """In ~15% of the cases the anchor argument is the very object that is the graph's node key; otherwise
    (default) it is a fresh object that is equal to it."""
    if lib.rng_for(seed, ID + ":anchorobj", i).random() < 0.15:
        c = dict(c)
        c["same_obj"] = True
    return c


def _with_dag(seed, i, c):
    """About 30% of the cases are additionally run with DAG=nx.DiGraph()."""
    if lib.rng_for(seed, ID + ":dag", i).random() < 0.3:
        c = dict(c)
        c["dag"] = True
    return c


def _with_history(seed, i, c):
    """For some cases the SAME graph object is enumerated first in an earlier state (one bond moved, node and
    edge counts equal) and then edited in place into the case's graph: the answer must describe the current graph."""
    rng = lib.rng_for(seed, ID + ":hist", i)
    g = c["graph"]
    if rng.random() < 0.2 and g.number_of_edges() >= 1:
        nodes = list(g.nodes)
        non = [(u, v) for k, u in enumerate(nodes) for v in nodes[k + 1:] if not g.has_edge(u, v)]
        if non:
            c = dict(c)
            c["hist"] = [list(rng.choice(list(g.edges))), list(rng.choice(non))]
    return c


def _generate(seed, tier):
    quick = tier != "thorough"
    i = 0
    # (1) every labelled graph on few nodes x every anchor
    for n in range(1, (4 if quick else 5) + 1):
        for g in labelled_graphs(n):
            for a in range(n):
                yield mk(g, a, "contig", "labelled%d" % n)
    # (2) the atlas x every anchor x id / order variants
    for g in atlas(5 if quick else 7):
        for a in list(g.nodes):
            rng = lib.rng_for(seed, ID, i)
            i += 1
            kinds = ["reid", "names"] if quick else ["plain", "reid", "names"]
            if g.number_of_nodes() <= (4 if quick else 6):
                kinds = kinds + ["zero", "big"]
            yield from variants(rng, g, a, "atlas%d" % g.number_of_nodes(), kinds)
    # (3) random sparse graphs
    nrand = 120 if quick else 700
    for _ in range(nrand):
        rng = lib.rng_for(seed, ID, i)
        i += 1
        while True:
            g = rand_sparse(rng, 2, 10 if quick else 14)
            a = rng.choice(list(g.nodes))
            if count_connected_sets(g, a, MAX_SETS) <= MAX_SETS:
                break
        yield from variants(rng, g, a, "random", [rng.choice(["reid", "reid", "names", "zero", "big"])])
    # (4) anchors that are not nodes of the graph
    for _ in range(6 if quick else 30):
        rng = lib.rng_for(seed, ID, i)
        i += 1
        g = rand_sparse(rng, 1, 6)
        h, scheme, m = gens.reid(rng, g)
        a = rng.choice([x for x in range(-3, 40) if x not in h])
        yield mk(h, a, scheme, "noanchor")


def corpus():
    # triangle with a pendant node, anchor in the middle of the node order, sparse ids
    g = nx.Graph()
    g.add_nodes_from([5, 7, 9, 11])
    for u, v in [(5, 7), (5, 9), (7, 9), (9, 11)]:
        g.add_edge(u, v, bond=1)
    yield mk(g, 7, "corpus", "corpus")
    # two components: nothing outside the anchor's component may be reached
    g = nx.Graph()
    g.add_nodes_from([3, 1, 2, 0, 4])
    for u, v in [(3, 1), (2, 0), (0, 4)]:
        g.add_edge(u, v, bond=1)
    yield mk(g, 0, "corpus", "corpus")
    yield mk(gens.copy_exact(g), 1, "corpus", "corpus", {3: "c", 1: "a", 2: "zz", 0: ("t", 1), 4: "b"}, "mixed")
    # the 4-cycle: two shortest paths to the far node (duplicate hazard)
    g = nx.Graph()
    g.add_nodes_from([0, 1, 2, 3])
    for u, v in [(0, 1), (1, 2), (2, 3), (3, 0)]:
        g.add_edge(u, v, bond=1)
    yield mk(g, 2, "corpus", "corpus")
    # with the optional DAG bookkeeping: star K1,3 anchored at a leaf, paw, ring with a chord
    for nodes, edges, a in [([0, 1, 2, 3], [(0, 1), (0, 2), (0, 3)], 3),
                            ([0, 1, 2, 3], [(0, 1), (1, 2), (2, 0), (2, 3)], 3),
                            ([0, 1, 2, 3], [(0, 1), (1, 2), (2, 0), (2, 3)], 0),
                            ([0, 1, 2, 3, 4], [(0, 1), (1, 2), (2, 3), (3, 4), (4, 0), (1, 3)], 2)]:
        g = nx.Graph()
        g.add_nodes_from(nodes)
        for u, v in edges:
            g.add_edge(u, v, bond=1)
        c = mk(g, a, "corpus", "corpus")
        c["dag"] = True
        yield c
        c = dict(c)
        c["adv"] = 17 + a          # the same with an adversarial consumer
        yield c
    # ids 0..n-1 in node order, anchor 0 (the relabelling is the identity), adversarial consumers
    for nodes, edges, a, adv in [([0, 1, 2], [(0, 1), (1, 2)], 0, 1), ([0, 1, 2, 3], [(0, 1), (0, 2), (0, 3), (1, 2), (1, 3), (2, 3)], 0, 2),
                                 ([0, 1, 2, 3], [(0, 1), (1, 2), (2, 3), (3, 0)], 0, 3), ([0, 1, 2, 3, 4], [(0, 1), (0, 2), (1, 3), (2, 4), (3, 4)], 0, 4)]:
        g = nx.Graph()
        g.add_nodes_from(nodes)
        for u, v in edges:
            g.add_edge(u, v, bond=1)
        c = mk(g, a, "corpus", "corpus")
        c["adv"] = adv
        yield c
    # enumerations alive at once: two anchors of one graph, the same call twice, two graphs of equal size
    g = nx.Graph()
    g.add_nodes_from([0, 1, 2, 3])
    for u, v in [(0, 1), (0, 2), (0, 3), (1, 2)]:
        g.add_edge(u, v, bond=1)
    g2 = nx.Graph()
    g2.add_nodes_from([0, 1, 2, 3])
    for u, v in [(0, 1), (1, 2), (2, 3)]:
        g2.add_edge(u, v, bond=1)
    for sched, co in [("roundrobin", [{"same": True, "anchor": 2}]), ("nested", [{"same": True, "anchor": 3}, {"same": True, "anchor": 0}]),
                      ("nested_mid", [{"same": False, "case": mk(g2, 1, "corpus", "companion")}]),
                      ("staggered", [{"same": False, "case": mk(gens.copy_exact(g2), 0, "corpus", "companion")}, {"same": True, "anchor": 1}])]:
        c = mk(g, 0, "corpus", "corpus")
        c["inter"] = {"sched": sched, "k": 2, "first": True, "co": co}
        yield c
    # ids below n with a negative one, anchor 0: the path -1 - 0 - 1, and 0 as the largest id
    for nodes, edges, a in [([-1, 0, 1], [(-1, 0), (0, 1)], 0), ([0, -2, -1], [(-2, -1), (-1, 0)], 0),
                            ([1, -1, 0, 2], [(-1, 0), (0, 1), (1, 2), (2, -1)], 0)]:
        g = nx.Graph()
        g.add_nodes_from(nodes)
        for u, v in edges:
            g.add_edge(u, v, bond=1)
        yield mk(g, a, "corpus", "corpus")


# ----------------------------------------------------------------------------- implementation
def fresh(x):
    """An object equal to x and, wherever CPython allows it, identical with no other object: ints are re-parsed
    (new object outside the small-int cache -5..256), strings are re-joined from their characters (new object for
    length >= 2), tuples are rebuilt."""
    if isinstance(x, bool):
        return x
    if isinstance(x, int):
        return int(str(x))
    if isinstance(x, str):
        return "".join(list(x))
    if isinstance(x, tuple):
        return tuple(fresh(y) for y in list(x))
    return x


def can_be_distinct(x):
    """Can an equal object that is not identical be built (see fresh)?"""
    if isinstance(x, bool):
        return False
    if isinstance(x, int):
        return not -5 <= x <= 256
    if isinstance(x, str):
        return len(x) >= 2
    return isinstance(x, tuple) and len(x) >= 1


def named_graph(c):
    """The graph handed to the implementation: same node / adjacency dict orders, ids renamed; every occurrence of
    an id (node key, each adjacency key) is an object of its own."""
    g = c["graph"]
    names = c["names"]
    if names is None:
        fwd, back = (lambda x: x), (lambda x: x)
    else:
        inv = {}
        for k, v in names.items():
            inv[v] = k
        fwd, back = (lambda x: names.get(x, ("?", x))), (lambda x: inv[x])
    h = nx.Graph()
    for n in g._node:
        h.add_node(fresh(fwd(n)), **dict(g._node[n]))
    shared = {}
    for n in g._node:
        for v in g._adj[n]:
            key = frozenset((n, v))
            if key not in shared:
                shared[key] = dict(g._adj[n][v])
            h._adj[fwd(n)][fresh(fwd(v))] = shared[key]
    return h, fwd, back


def anchor_object(c, h, fwd):
    """The anchor argument and its relation to the graph's node object."""
    value = fwd(c["anchor"])
    node = next((k for k in h._node if k == value), None)
    if node is None:
        return fresh(value), "not_a_node"
    if c.get("same_obj"):
        return node, "the_node_object_itself"
    anchor = fresh(value)
    if can_be_distinct(value):
        assert anchor == node and anchor is not node and hash(anchor) == hash(node), (anchor, node)
        for u in h._adj:
            for v in h._adj[u]:
                assert v is not anchor and (v is not node)
        return anchor, "equal_not_identical"
    return anchor, "identical(cached_by_CPython)"


def snapshot(h):
    return ([(n, dict(h._node[n])) for n in h._node],
            [(n, [(v, dict(dd)) for v, dd in h._adj[n].items()]) for n in h._adj])


EDIT_DAG_U_LISTS = True    # third run for adversarial cases with a DAG: also edit the U lists stored in the DAG


def edit_list(rng, l, foreign):
    """Destructively edit a list the generator handed out (or stored in the DAG)."""
    if not isinstance(l, list):
        return
    k = rng.randrange(8)
    if k == 0:
        l.reverse()
    elif k == 1:
        l.sort(key=repr, reverse=True)
    elif k == 2:
        l.clear()
    elif k == 3:
        l.append(foreign)
    elif k == 4:
        l.insert(0, foreign)
    elif k == 5:
        for j in range(len(l)):
            if rng.random() < 0.6:
                l[j] = foreign if rng.random() < 0.5 else l[rng.randrange(len(l))]
    elif k == 6:
        if l:
            del l[rng.randrange(len(l))]
    else:
        l.extend(list(l))
        rng.shuffle(l)


def consume(gen, rng, foreign, dag):
    """list(gen), every item copied at the moment it is yielded. With an rng the consumer is adversarial: the original
    of each item is edited in place before the next item is requested; with a dag as well, so is every `U` list the
    generator stored in the DAG's node attributes."""
    res = []
    for sub in gen:
        res.append(list(sub))
        if rng is not None:
            edit_list(rng, sub, foreign)
            if dag is not None:
                for _, d in list(dag.nodes(data=True)):
                    edit_list(rng, d.get("U"), foreign)
    return res


def prepare(c):
    """The graph object handed to the code (after the optional history), the renaming, the anchor argument."""
    h, fwd, back = named_graph(c)
    anchor, aclass = anchor_object(c, h, fwd)
    if c.get("hist"):
        (a1, a2), (b1, b2) = c["hist"]
        lab = dict(h[fwd(a1)][fwd(a2)])
        h.remove_edge(fresh(fwd(a1)), fresh(fwd(a2)))
        h.add_edge(fresh(fwd(b1)), fresh(fwd(b2)), **lab)
        try:
            list(node_induced_connected_subgraphs(h, anchor))
        except Exception:  # noqa
            pass
        h.remove_edge(fresh(fwd(b1)), fresh(fwd(b2)))
        h.add_edge(fresh(fwd(a1)), fresh(fwd(a2)), **lab)
    return h, fwd, back, anchor, aclass


def foreign_id(c, fwd):
    return fwd(max([x for x in c["graph"].nodes] + [0]) + 1000) if c["names"] is None else ("foreign", "id")


def run_interleaved(c):
    """The case's enumeration and its companions alive at once, consumed by the case's schedule. Returns the list of
    results [(status, yields | message, False)], the case's own generator first."""
    it = c["inter"]
    h, fwd, back, anchor, _ = prepare(c)
    rng = random.Random(c["adv"]) if c.get("adv") is not None else None
    specs = [(h, anchor, back, foreign_id(c, fwd))]
    for co in it["co"]:
        if co["same"]:
            specs.append((h, fresh(fwd(co["anchor"])), back, foreign_id(c, fwd)))
        else:
            h2, fwd2, back2, anchor2, _ = prepare(co["case"])
            specs.append((h2, anchor2, back2, foreign_id(co["case"], fwd2)))
    order = list(range(len(specs))) if it.get("first", True) else list(range(1, len(specs))) + [0]
    gens_ = {j: node_induced_connected_subgraphs(specs[j][0], specs[j][1]) for j in order}   # created in this order
    got = {j: [] for j in order}
    err = {}
    alive = list(order)

    def step(j):
        """one item from generator j; False when it is exhausted or has raised"""
        try:
            sub = next(gens_[j])
        except StopIteration:
            alive.remove(j)
            return False
        except Exception as e:  # noqa
            err[j] = (type(e).__name__, str(e)[:200], False)
            alive.remove(j)
            return False
        got[j].append(list(sub))
        if rng is not None:
            edit_list(rng, sub, specs[j][3])
        return True

    def finish(j):
        while j in alive and step(j):
            pass

    sched, a = it["sched"], order[0]
    if sched == "roundrobin":
        while alive:
            for j in list(alive):
                step(j)
    elif sched in ("nested", "nested_mid"):
        for _ in range(1 if sched == "nested" else 1 + it.get("k", 1)):
            if a in alive:
                step(a)
        for j in order[1:]:
            finish(j)
        finish(a)
    else:  # staggered: one item from each, last created first; then complete them in creation order
        for j in reversed(order):
            step(j)
        for j in order:
            finish(j)
    res = []
    for j in range(len(specs)):
        if j in err:
            res.append(err[j])
            continue
        try:
            res.append(("ok", [[specs[j][2](u) for u in sub] for sub in got[j]], False))
        except Exception:  # noqa
            res.append(("BadIds", repr(got[j])[:300], False))
    return res


def run_once(c, mode):
    """One call on a fresh copy of the case's graph. mode: "plain" (no DAG), "dag" (DAG=nx.DiGraph()), "dagu" (with a DAG
    whose stored U lists are edited too). The consumer is adversarial iff the case has c["adv"]."""
    h, fwd, back, anchor, aclass = prepare(c)
    before = snapshot(h)
    rng = random.Random(c["adv"]) if c.get("adv") is not None else None
    foreign = foreign_id(c, fwd)
    try:
        if mode == "plain":
            res = consume(node_induced_connected_subgraphs(h, anchor), rng, foreign, None)
        else:
            dag = nx.DiGraph()
            res = consume(node_induced_connected_subgraphs(h, anchor, DAG=dag), rng, foreign,
                          dag if mode == "dagu" else None)
    except Exception as e:  # noqa
        return (type(e).__name__, str(e)[:200], snapshot(h) != before, aclass)
    mutated = snapshot(h) != before
    try:
        out = [[back(u) for u in sub] for sub in res]
    except Exception as e:  # an id that is not a node of the graph
        return ("BadIds", repr(res)[:300], mutated, aclass)
    return ("ok", out, mutated, aclass)


def run_impl(c):
    """(status, yields | message, input mutated?, result of the additional run with DAG=nx.DiGraph() | None,
    relation between the anchor argument and the graph's node object,
    result of the run with a DAG whose stored U lists are edited between items | None,
    results of the interleaved run [the case's own generator, companion 1, ...] | None)"""
    plain = run_once(c, "plain")
    dag = run_once(c, "dag")[:3] if c.get("dag") else None
    dagu = run_once(c, "dagu")[:3] if c.get("dag") and c.get("adv") is not None and EDIT_DAG_U_LISTS else None
    inter = run_interleaved(c) if c.get("inter") else None
    return plain[:3] + (dag, plain[3], dagu, inter)


def known_witness_fails(k):
    """Is a registered known finding still present? (class dag_u_alias: paw graph anchored at the pendant node, the U lists
    stored in the DAG reversed after every item)"""
    if k.get("class") != "dag_u_alias":
        return False
    g = nx.Graph()
    g.add_edges_from([(0, 1), (1, 2), (2, 0), (2, 3)])
    ref = [list(x) for x in node_induced_connected_subgraphs(g, 3)]
    dag, got = nx.DiGraph(), []
    try:
        for x in node_induced_connected_subgraphs(g, 3, DAG=dag):
            got.append(list(x))
            for _, d in list(dag.nodes(data=True)):
                if isinstance(d.get("U"), list):
                    d["U"].reverse()
    except Exception:  # noqa
        return True
    return got != ref


def same_outcome(a, b):
    return a[0] == b[0] and (a[0] != "ok" or a[1] == b[1])


def py_invariants(c, out):
    msgs = []
    if out[2] or (out[3] is not None and out[3][2]):
        msgs.append("the input graph was modified by node_induced_connected_subgraphs")
    if out[3] is not None and not same_outcome(out, out[3]):
        msgs.append("the yields with DAG=nx.DiGraph() differ from the yields without DAG: %s"
                    % repr(out[3][1])[:300])
    if len(out) > 6 and out[6] is not None and not same_outcome(out, out[6][0]):
        msgs.append("consumed interleaved with %d other live enumeration(s) (schedule %s) the generator yields something else "
                    "than when it is consumed alone: %s %s"
                    % (len(out[6]) - 1, c["inter"]["sched"], out[6][0][0], repr(out[6][0][1])[:300]))
    if len(out) > 5 and out[5] is not None and not same_outcome(out, out[5]):
        msgs.append({"msg": "editing, between two items, the `U` lists that the generator stored in the node attributes of the "
                            "DAG argument changes what is enumerated: %s %s" % (out[5][0], repr(out[5][1])[:300]),
                     "known_class": "dag_u_alias"})
    return msgs


def out_term(out):
    if out[0] == "ok":
        return "(Ok %s : res (list (list Z)))" % ct.lst([ct.lst([ct.z(u) for u in sub]) for sub in out[1]])
    if out[0] in EXC:
        return "(Err %s : res (list (list Z)))" % EXC[out[0]]
    return None


def coq_case(c, out):
    defs = {"g": ct.graph(c["graph"])}
    a = ct.z(c["anchor"])
    model = "node_induced_connected_subgraphs $g %s" % a
    # (graph definition, anchor term, name of the output definition, output): the runs with a DAG / interleaved are
    # checked separately only when they differ from the plain run; every companion is checked for its own input
    runs = [("g", a, "out", out)]
    if out[3] is not None and not same_outcome(out, out[3]):
        runs.append(("g", a, "outd", out[3]))
    if len(out) > 6 and out[6] is not None:
        if not same_outcome(out, out[6][0]):
            runs.append(("g", a, "outi", out[6][0]))
        for j, (co, o) in enumerate(zip(c["inter"]["co"], out[6][1:]), 1):
            if co["same"]:
                if co["anchor"] == c["anchor"] and same_outcome(out, o):
                    continue
                runs.append(("g", ct.z(co["anchor"]), "outc%d" % j, o))
            else:
                defs["g%d" % j] = ct.graph(co["case"]["graph"])
                runs.append(("g%d" % j, ct.z(co["case"]["anchor"]), "outc%d" % j, o))
    agree, spec = [], []
    for gname, an, name, o in runs:
        t = out_term(o)
        if t is None:
            # an exception class the model cannot produce (or ids that are not nodes): the call failed on a
            # valid input, which the specification never allows
            return {"defs": {"g": defs["g"]}, "checks": {"agree": "false", "spec": "false"}, "diag": [model]}
        defs[name] = t
        agree.append("yields_equivb (node_induced_connected_subgraphs $%s %s) $%s" % (gname, an, name))
        spec.append("cis_okb $%s %s $%s" % (gname, an, name))
    return {"defs": defs,
            "checks": {"agree": " && ".join(agree), "spec": " && ".join(spec)},
            "diag": [model, "connected_sets $g %s" % a]}


# ----------------------------------------------------------------------------- reporting
def _jname(x):
    return list(x) if isinstance(x, tuple) else x


def _describe_base(c):
    return {"graph": ct.graph_py(c["graph"]), "anchor": c["anchor"], "scheme": c["scheme"], "src": c["src"],
            "style": c["style"], "hist": c.get("hist"), "dag": bool(c.get("dag")), "same_obj": bool(c.get("same_obj")), "adv": c.get("adv"),
            "names": None if c["names"] is None else [[k, _jname(v)] for k, v in c["names"].items()]}


def describe(c):
    d = _describe_base(c)
    it = c.get("inter")
    if it:
        d["inter"] = {"sched": it["sched"], "k": it.get("k", 1), "first": it.get("first", True),
                      "co": [co if co["same"] else {"same": False, "case": _describe_base(co["case"])} for co in it["co"]]}
    return d


def _from_json_base(d):
    names = None
    if d.get("names") is not None:
        names = {k: (tuple(v) if isinstance(v, list) else v) for k, v in d["names"]}
    return {"graph": ct.graph_from_py(d["graph"]), "anchor": d["anchor"], "scheme": d["scheme"], "src": d["src"],
            "style": d.get("style"), "names": names, "hist": d.get("hist"), "dag": bool(d.get("dag")),
            "same_obj": bool(d.get("same_obj")), "adv": d.get("adv")}


def from_json(d):
    c = _from_json_base(d)
    it = d.get("inter")
    if it:
        c["inter"] = {"sched": it["sched"], "k": it.get("k", 1), "first": it.get("first", True),
                      "co": [co if co["same"] else {"same": False, "case": _from_json_base(co["case"])} for co in it["co"]]}
    return c


def describe_out(out):
    d = {"status": "ok", "yields": out[1]} if out[0] == "ok" else {"status": out[0], "msg": out[1]}
    d["input_mutated"] = out[2]
    if len(out) > 3 and out[3] is not None:
        d["with_DAG"] = describe_out(out[3])
    if len(out) > 4:
        d["anchor_object"] = out[4]
    if len(out) > 5 and out[5] is not None:
        d["with_DAG_U_lists_edited"] = describe_out(out[5][:3])
    if len(out) > 6 and out[6] is not None:
        d["interleaved"] = [describe_out(o) for o in out[6]]
    return d


def key(c):
    g = c["graph"]
    names = None if c["names"] is None else tuple(repr(c["names"][n]) for n in g._node)
    return (tuple((n, tuple(g._adj[n])) for n in g._node), c["anchor"], names, repr(c.get("hist")), bool(c.get("dag")),
            bool(c.get("same_obj")), c.get("adv"), repr(describe(c).get("inter")))


def nontrivial(c, out):
    return out[0] == "ok" and len(out[1]) >= 2 and c["anchor"] in c["graph"]


def classes(c, out):
    g = c["graph"]
    n = g.number_of_nodes()
    yield "nodes=%d" % n if n <= 7 else "nodes=8-14"
    yield "src=" + c["src"]
    yield "ids=" + ("nonint:" + c["style"] if c["names"] is not None else c["scheme"])
    yield "result=" + out[0]
    yield "dag=" + ("yes" if c.get("dag") else "no")
    yield "anchor_obj=" + out[4]
    yield "consumer=" + ("adversarial" if c.get("adv") is not None else "polite")
    if c.get("inter"):
        yield "interleave=" + c["inter"]["sched"]
        for co in c["inter"]["co"]:
            yield "companions=" + ("other_graph_same_size" if not co["same"] else
                                   "same_call_twice" if co["anchor"] == c["anchor"] else "same_graph_other_anchor")
    else:
        yield "interleave=none"
    if len(out) > 5 and out[5] is not None:
        yield "dag_U_lists_edited=" + ("same_yields" if same_outcome(out, out[5]) else "different_yields")
    if c["names"] is None and c["anchor"] in g:
        yield "anchorid=" + ("0" if c["anchor"] == 0 else "n-1" if c["anchor"] == n - 1 else "other")
        if all(x < n for x in g.nodes) and any(x < 0 for x in g.nodes):
            yield "ids_all_below_n_some_negative=yes"
    if any(g.has_edge(u, u) for u in g.nodes):
        yield "selfloop=yes"
    if out[0] == "ok":
        k = len(out[1])
        yield "yields=" + ("1" if k == 1 else "2-7" if k < 8 else "8-63" if k < 64 else "64+")
    if c["anchor"] in g:
        pos = list(g.nodes).index(c["anchor"])
        yield "anchorpos=" + ("first" if pos == 0 else "last" if pos == n - 1 else "middle")
        yield "connected=" + str(nx.is_connected(g))
