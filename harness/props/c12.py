"""C12 — hydrogen completion. Correspondence: Model.Hydrogens.add_implicit_hydrogens ~
fgutils.utils.add_implicit_hydrogens (exact graph equality: node order, attributes, adjacency order)."""
import copy
import itertools
import random

import networkx as nx

import lib
import gens
import coqterm as ct
from fgutils.utils import add_implicit_hydrogens
from fgutils.parse import parse

ID = "C12"
REPEAT_PROBE = True   # engine: repeat 1 call in 5 after editing its first result in place (purity / no shared state)
PROPS = "Props/C12.v"
USES_GEN = ["tables"]
MODEL_FILES = ["Gen/Tables.v", "Spec/TablesRef.v", "Model/Hydrogens.v", "Spec/HydrogensSpec.v", "Spec/HydrogensCheck.v"]
IMPORTS = "From FGV Require Import Gen.Tables Model.Hydrogens Spec.HydrogensSpec Spec.HydrogensCheck."
CHECKS = ["agree", "spec"]
CORRESPONDENCE = ("Model.Hydrogens.add_implicit_hydrogens (with Gen/Tables.v regenerated from the source) ~ "
                  "fgutils.utils.add_implicit_hydrogens; compared with graph_eqb (exact: node order, attribute "
                  "dicts, adjacency order, labels); None ~ TypeError raised by sum() over a tuple/list bond label")
RULE = ("random molecules/forests (0-12 atoms) over C N O S P B Si Sn Cl Br F Se + R, H, lower-case c/n, unknown Xx, "
        "occasionally a node without symbol; bond orders {1,1.5,2,3} incl. deliberately over-valent atoms; explicit "
        "hydrogens; already completed graphs; a few graphs with a self-loop or with one tuple/list (ITS) label; all id "
        "schemes of gens.reid (contiguous/offset/sparse/shuffled/negative) with independent node and adjacency "
        "orders; thorough adds every labelled graph on <= 2 atoms over a 9-symbol alphabet. "
        "One case in four is a HISTORY on one graph object: complete; edit the completed object in place (lower a bond "
        "order, delete a bond, relabel an atom, turn an explicit H into a heavy atom, remove one atom and add another "
        "-- all keeping the atom count -- or remove an H / remove a heavy atom / add an atom, or no edit); complete "
        "again on the same object or on its .copy() / copy.deepcopy(); optionally a third round. EVERY completion of "
        "a history is compared with the model applied to the object's contents at that moment (graph_eqb) and judged "
        "by addh_okb; some objects carry graph-level attributes. "
        "non-trivial = at least one hydrogen added and at least two input atoms; distinct = distinct (input graph "
        "(ids, symbols, node order, adjacency order), script)")
TRUSTED = ["model of the attribute dict as a record of the five keys FGUtils uses",
           "bond orders are multiples of 0.5 kept in half units (float sums of such values are exact)"]
ASSUMPTIONS = ["node ids are Python ints; bond labels are ints/floats that are multiples of 0.5 for the theorems "
               "(a tuple/list label on a tabulated atom makes the function raise TypeError, modelled as None)",
               "symbols are printable-ASCII strings or absent"]

SYMS = ["C", "C", "C", "C", "N", "N", "O", "O", "S", "P", "B", "Si", "Sn", "Cl", "Br", "F", "Se",
        "R", "H", "H", "c", "n", "Xx"]
HEAVY = ["C", "C", "C", "N", "O", "S", "P", "B", "Si", "Cl", "Br", "F"]
ORDERS = (1, 1, 1, 2, 1.5, 3)
SMALL_ALPHABET = ["C", "N", "O", "B", "Cl", "H", "R", "c", "Xx"]


def _gen_one(rng):
    kind = rng.choice(["mol", "mol", "mol", "forest", "forest", "heavy", "overvalent", "hrich", "completed",
                       "nosym", "selfloop", "its", "empty"])
    if kind == "empty":
        if rng.random() < 0.8:
            kind = "mol"
        else:
            return nx.Graph(), "empty", "contig"
    nmax = 9 if rng.random() < 0.9 else 12
    if kind == "heavy":
        g = gens.rand_mol(rng, 1, nmax, syms=HEAVY, orders=ORDERS)
    elif kind == "overvalent":
        g = gens.rand_mol(rng, 2, nmax, syms=HEAVY + ["H", "R"], orders=(2, 3, 3, 1.5, 1), ring_p=0.7, extra_max=4)
    elif kind == "hrich":
        g = gens.rand_forest(rng, 1, nmax, syms=["C", "N", "O", "H", "H", "H", "H"], orders=(1, 1, 1, 2))
    elif kind == "forest":
        g = gens.rand_forest(rng, 1, nmax, syms=SYMS, orders=ORDERS)
    else:
        g = gens.rand_mol(rng, 1, nmax, syms=SYMS, orders=ORDERS)
    if kind == "nosym" or rng.random() < 0.05:
        for n in list(g.nodes):
            if rng.random() < 0.3:
                del g.nodes[n]["symbol"]
    if kind == "selfloop":
        n = rng.choice(list(g.nodes))
        g.add_edge(n, n, bond=rng.choice(ORDERS))
    if kind == "its" and g.number_of_edges() > 0:
        u, v = rng.choice(list(g.edges))
        a, b = rng.choice([0, 1, 2]), rng.choice([0, 1, 2])
        g[u][v]["bond"] = (a, b) if rng.random() < 0.5 else [a, b]
    g, scheme, _ = gens.reid(rng, g)
    if kind == "completed":
        try:
            g = add_implicit_hydrogens(gens.copy_exact(g))
        except Exception:
            pass        # preparing an input must not depend on the implementation behaving: keep the graph as it is
        if rng.random() < 0.5:
            # remove one hydrogen again / or make it a partial completion
            hs = [n for n in g.nodes if g.nodes[n].get("symbol") == "H"]
            if hs:
                g.remove_node(rng.choice(hs))
    return g, kind, scheme


def _exhaustive_small():
    orders = [None, 1, 1.5, 2, 3]
    for a in SMALL_ALPHABET:
        g = nx.Graph()
        g.add_node(3, symbol=a)
        yield g
    for a, b in itertools.product(SMALL_ALPHABET, repeat=2):
        for o in orders:
            for ids in ((0, 1), (7, 2)):
                g = nx.Graph()
                g.add_node(ids[0], symbol=a)
                g.add_node(ids[1], symbol=b)
                if o is not None:
                    g.add_edge(ids[0], ids[1], bond=o)
                yield g



# ----------------------------------------------------------------------------- histories

EDIT_KINDS = ["lower_bond", "remove_edge", "relabel", "swap_h", "remove_add",      # keep the atom count
              "remove_h", "remove_heavy", "add_atom", "none"]                      # change it / no edit
HOWS = ["same", "same", "copy", "deepcopy"]
SINGLE = [["complete", "same"]]


def _gen_script(rng):
    script = [["complete", rng.choice(["same", "same", "same", "copy", "deepcopy"])]]
    for _ in range(1 if rng.random() < 0.7 else 2):
        script.append(["edit", rng.choice(EDIT_KINDS), rng.randrange(10 ** 6)])
        if rng.random() < 0.15:
            script.append(["edit", rng.choice(EDIT_KINDS), rng.randrange(10 ** 6)])
        script.append(["complete", rng.choice(HOWS)])
    return script


def _gen_gattr(rng):
    r = rng.random()
    if r < 0.5:
        return {}
    if r < 0.8:
        return {"name": "mol%d" % rng.randrange(100)}
    return {"name": "m", "tags": ["a", "b"], "n_atoms": rng.randrange(1, 12)}


def _apply_edit(g, kind, seed):
    """Edit the graph object in place through the public networkx API; deterministic in (contents, kind, seed).
    Returns the kind actually applied (a kind that is not applicable falls through to the next one)."""
    rng = random.Random("c12edit:%s:%s" % (kind, seed))
    nodes = list(g.nodes)
    if kind == "none":
        return "none"
    if not nodes:
        g.add_node(rng.randrange(0, 5), symbol=rng.choice(HEAVY))
        return "add_atom"
    sym = lambda n: g.nodes[n].get("symbol")
    heavy = [n for n in nodes if sym(n) not in (None, "H", "R")]
    hs = [n for n in nodes if sym(n) == "H"]
    if kind == "lower_bond":
        es = [(u, v) for u, v, b in g.edges(data="bond") if isinstance(b, (int, float)) and b > 1]
        if es:
            u, v = rng.choice(es)
            g[u][v]["bond"] = 1
            return kind
        kind = "remove_edge"
    if kind == "remove_edge":
        es = [(u, v) for u, v in g.edges if sym(u) != "H" and sym(v) != "H"]
        if es:
            g.remove_edge(*rng.choice(es))
            return kind
        kind = "relabel"
    if kind == "relabel":
        if heavy:
            n = rng.choice(heavy)
            g.nodes[n]["symbol"] = rng.choice([x for x in ["C", "N", "O", "B", "Si", "S", "Cl"] if x != sym(n)])
            return kind
        kind = "swap_h"
    if kind == "swap_h":
        if hs:
            g.nodes[rng.choice(hs)]["symbol"] = rng.choice(["C", "C", "N", "O"])
            return kind
        kind = "add_atom"
    if kind == "remove_h":
        if hs:
            g.remove_node(rng.choice(hs))
            return kind
        kind = "remove_heavy"
    if kind == "remove_heavy":
        if heavy and len(nodes) > 1:
            g.remove_node(rng.choice(heavy))
            return kind
        kind = "add_atom"
    if kind == "remove_add":
        victim = rng.choice(hs) if hs and rng.random() < 0.6 else rng.choice(nodes)
        g.remove_node(victim)
        rest = list(g.nodes)
        new_id = rng.choice([victim, max(nodes) + 1, min(nodes) - 1, max(nodes) + 7])
        g.add_node(new_id, symbol=rng.choice(["C", "N", "O", "H", "Cl"]))
        if rest:
            g.add_edge(rng.choice(rest), new_id, bond=rng.choice([1, 1, 2]))
        return kind
    # add_atom
    new_id = rng.choice([max(nodes) + 1, min(nodes) - 1, max(nodes) + 5])
    g.add_node(new_id, symbol=rng.choice(["C", "N", "O", "H", "F"]))
    g.add_edge(rng.choice(nodes), new_id, bond=rng.choice([1, 1, 2]))
    return "add_atom"


def generate(seed, tier, ncases=None):
    n = ncases or (600 if tier == "quick" else 14000)
    for i in range(n):
        rng = lib.rng_for(seed, ID, i)
        g, kind, scheme = _gen_one(rng)
        if i % 4 == 3 and kind not in ("its", "empty"):
            yield {"graph": g, "kind": kind, "scheme": scheme, "script": _gen_script(rng), "gattr": _gen_gattr(rng)}
        else:
            yield {"graph": g, "kind": kind, "scheme": scheme, "script": SINGLE,
                   "gattr": _gen_gattr(rng) if rng.random() < 0.2 else {}}
    if tier == "thorough" and not ncases:
        for g in _exhaustive_small():
            yield {"graph": g, "kind": "small-exhaustive", "scheme": "fixed", "script": SINGLE, "gattr": {}}


CORPUS_SMILES = ["C=O", "CO", "HC(H)(H)OH", "C", "C:1N:C:S:C:1", "C:1C:N(H):C:C:1", "C:1C:C:N:C:C:1", "OB(O)O",
                 "O=Se=O", "CC(=O)O", "C(=O)N", "CC(=O)Cl", "COOC", "c1ccccc1", "RC(=O)OR", "C#N", "CSi(C)(C)C",
                 "FS(F)(F)(F)(F)F"]


def _corpus_graphs():
    # D16 witness: ids 1..2, the first hydrogen id used to be len(graph) = 2 = the oxygen
    yield {"graph": parse("CO", idx_offset=1), "kind": "corpus-D16", "scheme": "offset"}
    yield {"graph": parse("CCO", idx_offset=5), "kind": "corpus-D16", "scheme": "offset"}
    for s in CORPUS_SMILES:
        yield {"graph": parse(s), "kind": "corpus", "scheme": "contig"}
    # sparse ids, node order different from id order, max id in the middle
    g = nx.Graph()
    g.add_node(10, symbol="O")
    g.add_node(-4, symbol="C")
    g.add_node(3, symbol="N")
    g.add_edge(3, -4, bond=1)
    g.add_edge(-4, 10, bond=2)
    yield {"graph": g, "kind": "corpus", "scheme": "negative"}
    yield {"graph": nx.Graph(), "kind": "empty", "scheme": "contig"}
    # 1.5 + 1.5 + 1 on carbon -> int(0.0); 1.5 on carbon -> int(2.5) = 2; over-valent -> negative
    for s, orders in (("C", [1.5]), ("N", [1.5, 1.5, 1.5]), ("C", [3, 3]), ("O", [1.5]), ("B", [1.5, 1.5, 1.5])):
        g = nx.Graph()
        g.add_node(0, symbol=s)
        for k, o in enumerate(orders):
            g.add_node(k + 1, symbol="C")
            g.add_edge(0, k + 1, bond=o)
        yield {"graph": g, "kind": "corpus", "scheme": "contig"}




def corpus():
    for c in _corpus_graphs():
        c.setdefault("script", SINGLE)
        c.setdefault("gattr", {})
        yield c
    # histories that defeat a "this object is already complete" record kept on the object (graph.graph, a node
    # attribute, ...) or beside it: the atom count is the same before the second completion, valences are not
    for smi, edits in (("C=O", [["edit", "lower_bond", 1]]), ("CC(=O)O", [["edit", "lower_bond", 2]]),
                       ("HC(H)(H)OH", [["edit", "swap_h", 3]]), ("CO", [["edit", "relabel", 4]]),
                       ("CCO", [["edit", "remove_add", 5]]), ("C#N", [["edit", "remove_edge", 6]]),
                       ("CO", [["edit", "none", 7]]), ("CCN", [["edit", "remove_h", 8]])):
        for how in ("same", "copy", "deepcopy"):
            yield {"graph": parse(smi, idx_offset=2 if how == "copy" else 0), "kind": "corpus-history",
                   "scheme": "offset" if how == "copy" else "contig",
                   "script": [["complete", "same"]] + edits + [["complete", how]], "gattr": {"name": smi}}


# ----------------------------------------------------------------------------- running the implementation

def _diff_attrs(before, after, gattr_before, obj):
    """Runtime facts the Coq comparison cannot see (it reads the five node keys and 'bond' only): the graph-level
    attribute dict is untouched, and nothing but the documented attributes appears on nodes / edges.
    Returns (messages, cleaned copy of `after` with undocumented keys stripped so that the Coq checks still run)."""
    msgs = []
    if obj.graph != gattr_before or list(obj.graph) != list(gattr_before):
        msgs.append("the call changed the graph-level attribute dict graph.graph: %r -> %r" % (gattr_before, dict(obj.graph)))
    clean = gens.copy_exact(after)
    for n in after.nodes:
        keys = set(after.nodes[n])
        allowed = set(before.nodes[n]) if n in before.nodes else {"symbol"}
        extra = keys - allowed
        if extra:
            msgs.append("undocumented attribute(s) %r appeared on %s node %r" % (sorted(extra), "old" if n in before.nodes else "new", n))
            for k in extra:
                del clean.nodes[n][k]
    for u, v, dd in after.edges(data=True):
        allowed = set(before.edges[u, v]) if before.has_edge(u, v) else {"bond"}
        extra = set(dd) - allowed
        if extra:
            msgs.append("undocumented attribute(s) %r appeared on %s edge %r" % (sorted(extra), "old" if before.has_edge(u, v) else "new", (u, v)))
            for k in extra:
                del clean.edges[u, v][k]
    return msgs, clean


def run_impl(c):
    """Plays the script on ONE graph object. Returns ("hist", steps, idem) with one record per completion:
    dict(how, before, status, after, msgs, edits=[kinds applied since the previous completion])."""
    obj = gens.copy_exact(c["graph"])
    obj.graph.update(copy.deepcopy(c.get("gattr") or {}))
    steps, edits = [], []
    for op in c.get("script") or SINGLE:
        if op[0] == "edit":
            edits.append(_apply_edit(obj, op[1], op[2]))
            continue
        how = op[1]
        if how == "copy":
            obj = obj.copy()
        elif how == "deepcopy":
            obj = copy.deepcopy(obj)
        before = gens.copy_exact(obj)
        gattr_before = copy.deepcopy(dict(obj.graph))
        rec = {"how": how, "before": before, "edits": edits, "msgs": []}
        edits = []
        steps.append(rec)
        try:
            ret = add_implicit_hydrogens(obj)
        except (TypeError, ValueError) as e:
            rec.update(status=type(e).__name__, after=None, err=str(e))
            break   # the object is left half-edited by the exception; the history ends here
        rec["status"] = "ok"
        if ret is not obj:
            rec["msgs"].append("add_implicit_hydrogens did not return the graph object it was given")
            if not isinstance(ret, nx.Graph):
                rec.update(status="BadReturn", after=None, err=repr(ret)[:200])
                break
        msgs, clean = _diff_attrs(before, gens.copy_exact(ret), gattr_before, obj)
        rec["msgs"].extend(msgs)
        rec["after"] = clean
        obj = ret
    # idempotence of the implementation itself on a FRESH object with the final contents
    idem = True
    if steps and steps[-1]["status"] == "ok":
        again = gens.copy_exact(steps[-1]["after"])
        try:
            idem = gens.graphs_identical(add_implicit_hydrogens(again), steps[-1]["after"])
        except Exception:   # noqa
            idem = False
    return ("hist", steps, idem)


def out_term(rec):
    return "(@None graph)" if rec["status"] != "ok" else "(Some %s)" % ct.graph(rec["after"])


def coq_case(c, out):
    defs, agree, spec, diag = {}, [], [], []
    for k, rec in enumerate(out[1]):
        if rec["status"] not in ("ok", "TypeError", "ValueError"):
            raise ct.Unrepresentable("the function returned %s instead of a graph" % rec.get("err"))
        defs["g%d" % k] = ct.graph(rec["before"])
        defs["out%d" % k] = out_term(rec)
        model = "add_implicit_hydrogens $g%d" % k
        agree.append("option_eqb graph_eqb (%s) $out%d" % (model, k))
        # wfb $g: the hypothesis of every theorem (well-formed input) is checked on each case as well
        spec.append("wfb $g%d && addh_okb $g%d $out%d" % (k, k, k))
        diag += [model, "addh_report $g%d $out%d" % (k, k)]
    return {"defs": defs,
            "checks": {"agree": " && ".join("(%s)" % x for x in agree) or "true",
                       "spec": " && ".join("(%s)" % x for x in spec) or "true"},
            "diag": diag[:6]}


def describe(c):
    return {"kind": c["kind"], "scheme": c["scheme"], "graph": ct.graph_py(c["graph"]),
            "script": c.get("script") or SINGLE, "gattr": c.get("gattr") or {}}


def from_json(d):
    return {"kind": d["kind"], "scheme": d["scheme"], "graph": ct.graph_from_py(d["graph"]),
            "script": d.get("script") or SINGLE, "gattr": d.get("gattr") or {}}


def describe_out(out):
    res = []
    for rec in out[1]:
        r = {"completion_on": rec["how"], "edits_before": rec["edits"], "contents_before": ct.graph_py(rec["before"]),
             "status": rec["status"], "runtime_messages": rec["msgs"]}
        if rec["status"] == "ok":
            r["graph"] = ct.graph_py(rec["after"])
        else:
            r["msg"] = rec.get("err")
        res.append(r)
    return {"completions": res, "fresh_rerun_same": out[2]}


def key(c):
    return (ct.graph_canon(c["graph"]), repr(c.get("script") or SINGLE))


def _added(rec):
    return rec["after"].number_of_nodes() - rec["before"].number_of_nodes() if rec["status"] == "ok" else 0


def nontrivial(c, out):
    steps = out[1]
    return bool(steps) and steps[0]["status"] == "ok" and c["graph"].number_of_nodes() >= 2 and _added(steps[0]) > 0


def classes(c, out):
    steps = out[1]
    yield "kind=" + c["kind"]
    yield "scheme=" + c["scheme"]
    yield "result=" + (steps[0]["status"] if steps else "none")
    a = _added(steps[0]) if steps else 0
    yield "added=" + ("0" if a == 0 else "1-3" if a <= 3 else "4-9" if a <= 9 else "10+")
    n = c["graph"].number_of_nodes()
    yield "atoms=" + ("0" if n == 0 else "1-3" if n <= 3 else "4-6" if n <= 6 else "7+")
    yield "completions=%d" % len(steps)
    if c.get("gattr"):
        yield "graph_attrs=yes"
    for rec in steps[1:]:
        same_count = rec["before"].number_of_nodes() == steps[steps.index(rec) - 1]["after"].number_of_nodes()
        yield "recompletion:on=%s" % rec["how"]
        for e in rec["edits"]:
            yield "recompletion:edit=" + e
        yield "recompletion:atom_count_%s,adds_%s" % ("same" if same_count else "changed", "H" if _added(rec) > 0 else "nothing")


def py_invariants(c, out):
    msgs = []
    for k, rec in enumerate(out[1]):
        for m in rec["msgs"]:
            msgs.append("completion #%d (on %s): %s" % (k + 1, rec["how"], m))
    if not out[2]:
        msgs.append("applying add_implicit_hydrogens once more to a fresh copy of the final result changed the graph (not idempotent)")
    return msgs
