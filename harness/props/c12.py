"""C12 — hydrogen completion. Correspondence: Model.Hydrogens.add_implicit_hydrogens ~
fgutils.utils.add_implicit_hydrogens (exact graph equality: node order, attributes, adjacency order)."""
import itertools

import networkx as nx

import lib
import gens
import coqterm as ct
from fgutils.utils import add_implicit_hydrogens
from fgutils.parse import parse

ID = "C12"
REPEAT_PROBE = True   # engine: repeat 1 call in 5 after editing its first result in place (purity / no shared state)
PROPS = "Props/C12.v"
USES_GEN = ["tables"]
MODEL_FILES = ["Gen/Tables.v", "Spec/TablesRef.v", "Model/Hydrogens.v", "Spec/HydrogensSpec.v", "Spec/HydrogensCheck.v"]
IMPORTS = "From FGV Require Import Gen.Tables Model.Hydrogens Spec.HydrogensSpec Spec.HydrogensCheck."
CHECKS = ["agree", "spec"]
CORRESPONDENCE = ("Model.Hydrogens.add_implicit_hydrogens (with Gen/Tables.v regenerated from the source) ~ "
                  "fgutils.utils.add_implicit_hydrogens; compared with graph_eqb (exact: node order, attribute "
                  "dicts, adjacency order, labels); None ~ TypeError raised by sum() over a tuple/list bond label")
RULE = ("random molecules/forests (0-12 atoms) over C N O S P B Si Sn Cl Br F Se + R, H, lower-case c/n, unknown Xx, "
        "occasionally a node without symbol; bond orders {1,1.5,2,3} incl. deliberately over-valent atoms; explicit "
        "hydrogens; already completed graphs; a few graphs with a self-loop or with one tuple/list (ITS) label; all id "
        "schemes of gens.reid (contiguous/offset/sparse/shuffled/negative) with independent node and adjacency "
        "orders; thorough adds every labelled graph on <= 2 atoms over a 9-symbol alphabet. "
        "non-trivial = at least one hydrogen added and at least two input atoms; distinct = distinct input graph "
        "(ids, symbols, node order, adjacency order)")
TRUSTED = ["model of the attribute dict as a record of the five keys FGUtils uses",
           "bond orders are multiples of 0.5 kept in half units (float sums of such values are exact)"]
ASSUMPTIONS = ["node ids are Python ints; bond labels are ints/floats that are multiples of 0.5 for the theorems "
               "(a tuple/list label on a tabulated atom makes the function raise TypeError, modelled as None)",
               "symbols are printable-ASCII strings or absent"]

SYMS = ["C", "C", "C", "C", "N", "N", "O", "O", "S", "P", "B", "Si", "Sn", "Cl", "Br", "F", "Se",
        "R", "H", "H", "c", "n", "Xx"]
HEAVY = ["C", "C", "C", "N", "O", "S", "P", "B", "Si", "Cl", "Br", "F"]
ORDERS = (1, 1, 1, 2, 1.5, 3)
SMALL_ALPHABET = ["C", "N", "O", "B", "Cl", "H", "R", "c", "Xx"]


def _gen_one(rng):
    kind = rng.choice(["mol", "mol", "mol", "forest", "forest", "heavy", "overvalent", "hrich", "completed",
                       "nosym", "selfloop", "its", "empty"])
    if kind == "empty":
        if rng.random() < 0.8:
            kind = "mol"
        else:
            return nx.Graph(), "empty", "contig"
    nmax = 9 if rng.random() < 0.9 else 12
    if kind == "heavy":
        g = gens.rand_mol(rng, 1, nmax, syms=HEAVY, orders=ORDERS)
    elif kind == "overvalent":
        g = gens.rand_mol(rng, 2, nmax, syms=HEAVY + ["H", "R"], orders=(2, 3, 3, 1.5, 1), ring_p=0.7, extra_max=4)
    elif kind == "hrich":
        g = gens.rand_forest(rng, 1, nmax, syms=["C", "N", "O", "H", "H", "H", "H"], orders=(1, 1, 1, 2))
    elif kind == "forest":
        g = gens.rand_forest(rng, 1, nmax, syms=SYMS, orders=ORDERS)
    else:
        g = gens.rand_mol(rng, 1, nmax, syms=SYMS, orders=ORDERS)
    if kind == "nosym" or rng.random() < 0.05:
        for n in list(g.nodes):
            if rng.random() < 0.3:
                del g.nodes[n]["symbol"]
    if kind == "selfloop":
        n = rng.choice(list(g.nodes))
        g.add_edge(n, n, bond=rng.choice(ORDERS))
    if kind == "its" and g.number_of_edges() > 0:
        u, v = rng.choice(list(g.edges))
        a, b = rng.choice([0, 1, 2]), rng.choice([0, 1, 2])
        g[u][v]["bond"] = (a, b) if rng.random() < 0.5 else [a, b]
    g, scheme, _ = gens.reid(rng, g)
    if kind == "completed":
        g = add_implicit_hydrogens(gens.copy_exact(g))
        if rng.random() < 0.5:
            # remove one hydrogen again / or make it a partial completion
            hs = [n for n in g.nodes if g.nodes[n].get("symbol") == "H"]
            if hs:
                g.remove_node(rng.choice(hs))
    return g, kind, scheme


def _exhaustive_small():
    orders = [None, 1, 1.5, 2, 3]
    for a in SMALL_ALPHABET:
        g = nx.Graph()
        g.add_node(3, symbol=a)
        yield g
    for a, b in itertools.product(SMALL_ALPHABET, repeat=2):
        for o in orders:
            for ids in ((0, 1), (7, 2)):
                g = nx.Graph()
                g.add_node(ids[0], symbol=a)
                g.add_node(ids[1], symbol=b)
                if o is not None:
                    g.add_edge(ids[0], ids[1], bond=o)
                yield g


def generate(seed, tier, ncases=None):
    n = ncases or (600 if tier == "quick" else 14000)
    for i in range(n):
        rng = lib.rng_for(seed, ID, i)
        g, kind, scheme = _gen_one(rng)
        yield {"graph": g, "kind": kind, "scheme": scheme}
    if tier == "thorough" and not ncases:
        for g in _exhaustive_small():
            yield {"graph": g, "kind": "small-exhaustive", "scheme": "fixed"}


CORPUS_SMILES = ["C=O", "CO", "HC(H)(H)OH", "C", "C:1N:C:S:C:1", "C:1C:N(H):C:C:1", "C:1C:C:N:C:C:1", "OB(O)O",
                 "O=Se=O", "CC(=O)O", "C(=O)N", "CC(=O)Cl", "COOC", "c1ccccc1", "RC(=O)OR", "C#N", "CSi(C)(C)C",
                 "FS(F)(F)(F)(F)F"]


def corpus():
    # D16 witness: ids 1..2, the first hydrogen id used to be len(graph) = 2 = the oxygen
    yield {"graph": parse("CO", idx_offset=1), "kind": "corpus-D16", "scheme": "offset"}
    yield {"graph": parse("CCO", idx_offset=5), "kind": "corpus-D16", "scheme": "offset"}
    for s in CORPUS_SMILES:
        yield {"graph": parse(s), "kind": "corpus", "scheme": "contig"}
    # sparse ids, node order different from id order, max id in the middle
    g = nx.Graph()
    g.add_node(10, symbol="O")
    g.add_node(-4, symbol="C")
    g.add_node(3, symbol="N")
    g.add_edge(3, -4, bond=1)
    g.add_edge(-4, 10, bond=2)
    yield {"graph": g, "kind": "corpus", "scheme": "negative"}
    yield {"graph": nx.Graph(), "kind": "empty", "scheme": "contig"}
    # 1.5 + 1.5 + 1 on carbon -> int(0.0); 1.5 on carbon -> int(2.5) = 2; over-valent -> negative
    for s, orders in (("C", [1.5]), ("N", [1.5, 1.5, 1.5]), ("C", [3, 3]), ("O", [1.5]), ("B", [1.5, 1.5, 1.5])):
        g = nx.Graph()
        g.add_node(0, symbol=s)
        for k, o in enumerate(orders):
            g.add_node(k + 1, symbol="C")
            g.add_edge(0, k + 1, bond=o)
        yield {"graph": g, "kind": "corpus", "scheme": "contig"}


def run_impl(c):
    g = gens.copy_exact(c["graph"])
    try:
        ret = add_implicit_hydrogens(g)
    except TypeError as e:
        return ("TypeError", str(e))
    except ValueError as e:
        return ("ValueError", str(e))
    same_obj = ret is g
    # idempotence of the implementation itself: a second application changes nothing
    again = gens.copy_exact(ret)
    try:
        again = add_implicit_hydrogens(again)
        idem = gens.graphs_identical(again, ret)
    except Exception as e:
        idem = False
    return ("ok", ret, same_obj, idem)


def out_term(out):
    return "(@None graph)" if out[0] != "ok" else "(Some %s)" % ct.graph(out[1])


def coq_case(c, out):
    defs = {"g": ct.graph(c["graph"]), "out": out_term(out)}
    model = "add_implicit_hydrogens $g"
    return {"defs": defs,
            "checks": {"agree": "option_eqb graph_eqb (%s) $out" % model,
                       # wfb $g: the hypothesis of every theorem (well-formed input) is checked on each case as well
                       "spec": "wfb $g && addh_okb $g $out"},
            "diag": [model, "addh_report $g $out"]}


def describe(c):
    return {"kind": c["kind"], "scheme": c["scheme"], "graph": ct.graph_py(c["graph"])}


def from_json(d):
    return {"kind": d["kind"], "scheme": d["scheme"], "graph": ct.graph_from_py(d["graph"])}


def describe_out(out):
    if out[0] == "ok":
        return {"status": "ok", "graph": ct.graph_py(out[1]), "returned_argument": out[2], "second_run_same": out[3]}
    return {"status": out[0], "msg": out[1]}


def key(c):
    return ct.graph_canon(c["graph"])


def _added(c, out):
    return out[1].number_of_nodes() - c["graph"].number_of_nodes() if out[0] == "ok" else 0


def nontrivial(c, out):
    return out[0] == "ok" and c["graph"].number_of_nodes() >= 2 and _added(c, out) > 0


def classes(c, out):
    yield "kind=" + c["kind"]
    yield "scheme=" + c["scheme"]
    yield "result=" + out[0]
    a = _added(c, out)
    yield "added=" + ("0" if a == 0 else "1-3" if a <= 3 else "4-9" if a <= 9 else "10+")
    n = c["graph"].number_of_nodes()
    yield "atoms=" + ("0" if n == 0 else "1-3" if n <= 3 else "4-6" if n <= 6 else "7+")


def py_invariants(c, out):
    msgs = []
    if out[0] == "ok":
        if not out[2]:
            msgs.append("add_implicit_hydrogens did not return the graph object it was given")
        if not out[3]:
            msgs.append("applying add_implicit_hydrogens a second time changed the graph (not idempotent)")
    return msgs
