"""C06 — functional-group queries are deterministic and pure.
Correspondence: Model.Query.{get, query} ~ fgutils.query.FGQuery.get on one object after a history of earlier
get() calls, in fresh interpreters under several PYTHONHASHSEED values (the answer list exactly)."""
import lib
import gens
import coqterm as ct
from props import _fg_common as fc
from props import c05

ID = "C06"
PROPS = "Props/C06.v"
USES_GEN = ["fgdefault", "tables"]
MODEL_FILES = fc.MODEL_FILES + ["Proofs/FGDefaultTree.v"]
IMPORTS = fc.IMPORTS[:-1] + " Proofs.FGDefaultTree."
CHECKS = ["agree", "history"]
MAX_STEPS = 3
CHUNK = 10
AGREE_IS_PROPERTY = True
CORRESPONDENCE = ("Model.Query.{fresh_query,get_tree,get,query} ~ fgutils.query.FGQuery.{__init__,get}, "
                  "fgutils.fgconfig.FGConfigProvider.get_tree (answer list exactly; the same object after a history of "
                  "earlier get() calls; fresh interpreters under PYTHONHASHSEED in {0,1,2,3,4,7,random})")
RULE = ("(0) one FGQuery asked about two molecules with the same node ids in the same order and the same element on every id but the bonds on other atoms (ids exchanged among equal atoms); (i) molecules as for C05 (FG-rich fragments, 1-14 heavy atoms, all id schemes, explicit hydrogens none/some/all), default "
        "configuration (75%) or a generated list; each case = a history of 0-2 earlier molecules queried on the SAME FGQuery "
        "object, then the molecule of interest. In process (PYTHONHASHSEED=0): the answer after the history must equal the "
        "model's answer of a fresh object ('agree') and the model's answer after the same history ('history'). In fresh "
        "interpreters under 7 hash seeds (batched): the molecule is asked twice on one new object and once on another new "
        "object; all 21 answers must equal the in-process answer; the argument graph is deep-compared (node order, attributes, "
        "adjacency order) before/after every get. (ii) same-names sequences: two configuration lists A, B with the "
        "same group names in the same order but different patterns / group_atoms / anti-patterns, asked within ONE interpreter in the order A,B | A,B,A | "
        "B,A,B, every time on a fresh FGQuery built through a random public construction path (FGQuery(config=list), FGQuery(mapper=..., config=list), "
        "FGQuery(config=FGConfigProvider(list)) with and without an explicit mapper): every answer must equal the model's answer for that "
        "(configuration, molecule) alone; the same sequences are repeated in fresh interpreters under the other hash seeds. "
        "(iv) edit-in-place sequences: one FGQuery object and one graph object: get(g), the caller edits g IN PLACE (symbol or bond-order change keeping "
        "the node and edge counts, atom / bond added or removed), get(g) again, also with a second object h of the same new contents asked in between: every "
        "answer must equal the model's answer for the contents at that moment, and the last one the answer of a fresh FGQuery. "
        "(v) SMILES string inputs: get(text) with the same string 2-3 times on one object, interleaved with other strings (sometimes a reaction SMILES), "
        "and once more on a fresh object; the model gets the graph built directly from RDKit for the string. (vi) hydrocarbons / molecules on which nothing "
        "matches, several in a row. In ALL runs the consumer is adversarial: every returned list is copied and then edited in place (bogus entry appended, atom "
        "lists extended) before the next call. "
        "(iii) colliding symbols: pairs of molecules built directly whose neighbour lists around a hetero "
        "centre differ (a two-letter element such as Sn, Si, Co, Cs, No, Os, Sc, Hf, In, Cn, Nb, Pb vs the two one-letter atoms) but read the same when "
        "concatenated, asked one after the other (both orders, and m1,m2,m1) on ONE FGQuery object: the last answer must equal the model's answer for that "
        "molecule alone and the answers of fresh objects in fresh interpreters. "
        "non-trivial = at least one group reported; distinct = distinct (history / step sequence, molecule, configuration, flag, construction path)")
TRUSTED = c05.TRUSTED + [
    "hash-seed independence and non-mutation of the argument are runtime facts of CPython objects (a pure Gallina model has "
    "neither hash randomisation nor aliasing): they are validated by the multi-seed runs and the before/after comparison, not proved"]
ASSUMPTIONS = c05.ASSUMPTIONS + [
    "between two get() calls nobody mutates the FGQuery object, its provider, its configurations or the cached tree"]


def generate(seed, tier, ncases=None):
    n = ncases or (90 if tier == "quick" else 1000)
    n_steps = max(2, n // 2)
    cases = []
    for i in range(n):
        rng = lib.rng_for(seed, ID, i)
        c = c05.gen_case(rng, default_p=0.75)
        k = rng.choice([0, 0, 1, 2])
        c["history"] = [gens.reid(rng, fc.rand_molecule(rng, max_heavy=8)[0])[0] for _ in range(k)]
        cases.append(c)
    for i in range(n_steps):
        cases.append(gen_steps_case(lib.rng_for(seed, ID, 500000 + i)))
    # sequences of get() calls on ONE FGQuery over molecules whose neighbour symbol lists differ but read the same when
    # concatenated (['Sn', ...] vs ['S', 'N', ...]): any per-object memo keyed by joined symbols would answer from a stale entry
    for i in range(max(2, n // 6)):
        cases.extend(gen_collision_cases(lib.rng_for(seed, ID, 650000 + i)))
    # one FGQuery object: get(g), edit g IN PLACE, get(g) again (also with an equal-content object h asked in between)
    for i in range(max(2, n // 4)):
        cases.append(gen_edit_case(lib.rng_for(seed, ID, 670000 + i)))
    # SMILES STRING inputs: the same string two or three times on one object and once more on a fresh object, interleaved
    for i in range(max(2, n // 6)):
        cases.append(gen_strings_case(lib.rng_for(seed, ID, 680000 + i)))
    # molecules without hetero atoms / without any matching group, several in a row (returned lists are edited by the caller)
    for i in range(max(2, n // 9)):
        cases.append(gen_nothing_case(lib.rng_for(seed, ID, 690000 + i)))
    # small hetero rings in several writings with chain-pattern configurations (see c05.gen_ring_cases): the answer must
    # not depend on the writing-induced adjacency order beyond what the model says
    for i in range(max(2, n // 9)):
        for c in c05.gen_ring_cases(lib.rng_for(seed, ID, 600000 + i), k=2):
            c["history"] = []
            cases.append(c)
    # one FGQuery object asked about two molecules with the SAME node ids in the same order and the same element on every id,
    # but the bonds attached to other atoms (ids exchanged among atoms of one element): a memo keyed by ids / elements /
    # an isomorphism-invariant digest would answer the second from the first
    for i in range(max(2, n // 3)):
        cases.append(gen_permuted_case(lib.rng_for(seed, ID, 695000 + i)))
    attach_seed_answers(cases, fc.SEEDS if tier == "quick" else fc.SEEDS + ["11", "12345", "random"])
    for c in cases:
        yield c


def gen_permuted_case(rng):
    import networkx as nx
    for _ in range(20):
        c = c05.gen_case(rng, default_p=0.8)
        g = c["graph"]
        groups = {}
        for n, d in g.nodes(data=True):
            groups.setdefault(repr(sorted(d.items(), key=repr)), []).append(n)
        pools = [v for v in groups.values() if len(v) >= 2]
        if pools and g.number_of_edges() >= 2:
            break
    pi = {n: n for n in g.nodes}
    for _ in range(rng.randint(1, 3)):
        if not pools:
            break
        a, b = rng.sample(rng.choice(pools), 2)
        pi[a], pi[b] = pi[b], pi[a]
    g2 = nx.Graph()
    for n, d in g.nodes(data=True):
        g2.add_node(n, **{k: (list(v) if isinstance(v, list) else v) for k, v in d.items()})
    for u, v, d in g.edges(data=True):
        g2.add_edge(pi[u], pi[v], **dict(d))
    c["history"] = [g2]
    c["kind"] = "same-ids-other-bonds"
    return c


COLLISION_CONFIGS = [None, None,
                     [{"name": "ether", "pattern": "ROR", "group_atoms": [1]}, {"name": "amine", "pattern": "RN(R)R", "group_atoms": [1]},
                      {"name": "sulfide", "pattern": "RSR", "group_atoms": [1]}, {"name": "oxy", "pattern": "RO"}, {"name": "aza", "pattern": "RN"}],
                     [{"name": "X2", "pattern": "RPR"}, {"name": "B2", "pattern": "RBR"}, {"name": "SN", "pattern": "SN"},
                      {"name": "any2", "pattern": "RO"}, {"name": "SO", "pattern": "SO"}, {"name": "NO", "pattern": "NO"}],
                     [{"name": "tin", "pattern": "SnO"}, {"name": "sil", "pattern": "SiO"}, {"name": "SOR", "pattern": "SOR"},
                      {"name": "NOR", "pattern": "NOR"}, {"name": "ROR", "pattern": "ROR"}]]


def gen_collision_cases(rng):
    """m1 contains a two-letter element next to a hetero centre, m2 the two one-letter atoms instead (fc.colliding_pair):
    both orders as history / final molecule on the same FGQuery object, and m1, m2, m1"""
    m1, m2, (xy, x, y, z) = fc.colliding_pair(rng)
    # ids may move, but the adjacency ORDER around the centre is what makes the concatenations coincide: keep it
    k1, k2 = rng.choice([0, 0, 3, 11]), rng.choice([0, 0, 5, 20])
    m1, m2 = fc.shift_ids(m1, lambda n: n + k1), fc.shift_ids(m2, lambda n: n + k2)
    specs = fc.colliding_config(rng, xy, x, y, z) if rng.random() < 0.75 else rng.choice(COLLISION_CONFIGS)
    req_h = rng.random() < 0.4
    out = []
    for hist, final in [([m2], m1), ([m1], m2), ([m1, m2], m1)]:
        out.append({"graph": final, "history": list(hist), "specs": None if specs is None else [dict(x) for x in specs],
                    "req_h": req_h, "scheme": "direct", "hmode": "none", "kind": "colliding-symbols"})
    return out


def gen_strings_case(rng):
    """get(text) with SMILES strings: a string whose group lists a hydrogen, asked 2-3 times on ONE FGQuery interleaved with
    other strings (sometimes a reaction SMILES), and once more on a fresh object; the model's input for a string is the graph
    built directly from RDKit for that string (fc.smiles_input_graph)"""
    s1 = rng.choice(fc.SMILES_H)
    others = rng.sample(fc.SMILES_OTHER + fc.SMILES_H, 2) + ([rng.choice(fc.SMILES_RXN)] if rng.random() < 0.25 else [])
    texts = [s1]
    for _ in range(rng.choice([1, 2])):
        if rng.random() < 0.7:
            texts.append(rng.choice(others))
        texts.append(s1)
    specs = None if rng.random() < 0.8 else [{"name": "hydroxy", "pattern": "OH"}, {"name": "oxy", "pattern": "RO", "group_atoms": [1]},
                                             {"name": "CH", "pattern": "CO"}]
    return {"kind": "smiles-strings", "texts": texts, "specs": specs, "req_h": rng.random() < 0.85, "graph": fc.smiles_input_graph(s1),
            "scheme": "rdkit", "hmode": "none", "history": []}


def gen_nothing_case(rng):
    """hydrocarbons (no hetero atom at all) and molecules on which no configured group matches, asked one after the other on
    the same object; together with the adversarial consumer (fc.record) a shared result object would be poisoned"""
    from fgutils.parse import parse
    mols = [parse(t) for t in rng.sample(fc.HYDROCARBONS, 3)]
    if rng.random() < 0.4:
        mols[rng.randrange(3)] = parse(rng.choice(["CCl", "CF", "CBr", "ClCCl"]))      # hetero atoms, but no default group
    specs = None if rng.random() < 0.7 else [{"name": "oxy", "pattern": "RO"}, {"name": "aza", "pattern": "RN"}]
    return {"kind": "nothing-matches", "graph": mols[-1], "history": mols[:-1], "specs": specs, "req_h": rng.random() < 0.6,
            "scheme": "contig", "hmode": "none"}


def gen_edit_case(rng):
    """the caller keeps ONE graph object, modifies it in place between two get() calls on ONE FGQuery (symbol / bond order
    changes that keep node and edge counts, added / removed atoms and bonds): every answer must be the answer for the
    contents the object has at that moment"""
    c = c05.gen_case(rng, default_p=0.7)
    if len(c["graph"]) == 0:
        c = c05.gen_case(rng, default_p=0.7)
    c["kind"] = "edit-in-place"
    c["history"] = []
    c["events"] = fc.rand_editseq(rng, c["graph"])
    return c


def gen_steps_case(rng):
    """configuration lists A and B with the same names (in the same order) but different patterns / group_atoms /
    anti-patterns, asked in ONE interpreter in the order A,B | A,B,A | B,A,B, each time on a fresh FGQuery built
    through a random public construction path: every answer must be the answer for that configuration alone"""
    mixed = rng.random() < 0.3
    if mixed:
        # lower-case aromatic and upper-case ':' patterns: the specificity order needs ignore_case=True on every path
        a = fc.named(rng.sample(fc.IC_POOL, rng.randint(2, 5)) + rng.sample(["RO", "RN", "CO", "CN"], rng.randint(0, 2)), "m")
    else:
        a = fc.rand_config_list(rng, kmin=2, kmax=6, anti_list_p=0.3, ga_p=0.5)
    if rng.random() < 0.5:
        for i, s in enumerate(a):
            s["name"] = "g%d" % i
    b = fc.same_names_variant(rng, a)
    order = rng.choice([[a, b], [a, b, a], [b, a, b]])
    same_mol = rng.random() < 0.5
    def molecule():
        first = rng.choice(fc.AROMATIC_FRAGMENTS) if mixed else None
        return gens.reid(rng, fc.rand_molecule(rng, max_heavy=10, first=first)[0])[0]
    mol = molecule()
    steps = []
    req_h = rng.random() < 0.5
    for specs in order:
        g = mol if same_mol else molecule()
        steps.append({"specs": specs, "req_h": req_h, "via": rng.choice(fc.QUERY_VIAS), "graph": g})
    last = steps[-1]
    return {"kind": "same-names", "steps": steps, "graph": last["graph"], "specs": last["specs"], "req_h": last["req_h"],
            "scheme": "steps", "hmode": "?", "history": []}


def job_of(c):
    if "texts" in c:
        return {"kind": "strings", "specs": c["specs"], "req_h": c["req_h"], "texts": c["texts"]}
    if "events" in c:
        return {"kind": "editseq", "specs": c["specs"], "req_h": c["req_h"], "graph": ct.graph_py(c["graph"]), "events": c["events"]}
    if "steps" in c:
        return {"kind": "steps", "steps": [{"specs": st["specs"], "req_h": st["req_h"], "via": st["via"],
                                            "graph": ct.graph_py(st["graph"])} for st in c["steps"]]}
    return {"kind": "query", "specs": c["specs"], "req_h": c["req_h"], "graph": ct.graph_py(c["graph"])}


def attach_seed_answers(cases, seeds):
    res = fc.run_all_seeds([job_of(c) for c in cases], seeds, parallel=14, pieces=2 if len(cases) >= 40 else 1)
    for k, c in enumerate(cases):
        c["_seed_answers"] = {s: res[s][k] for s in res}


def corpus():
    cases = list(_corpus())
    attach_seed_answers(cases, fc.SEEDS[:4])
    for c in cases:
        yield c


def _corpus():
    for c in c05._corpus():
        if c["kind"] in ("corpus-D9", "corpus-D7", "corpus-D16", "corpus-typeerror"):
            c["history"] = []
            yield c
    from fgutils.parse import parse
    # D9: aldehyde / acyl_chloride tie; with a history
    yield {"graph": parse("O=CCl"), "specs": None, "req_h": True, "scheme": "corpus", "hmode": "none", "kind": "corpus-D9",
           "history": [parse("CCOCC"), parse("CC(=O)O")]}
    # a generated configuration with a tie on (pattern_len, size, edges)
    yield {"graph": parse("O=CCl"), "req_h": True, "scheme": "corpus", "hmode": "none", "kind": "corpus-D9",
           "specs": [{"name": "co", "pattern": "C=O"}, {"name": "ald", "pattern": "RC(=O)H", "group_atoms": [1, 2]},
                     {"name": "acl", "pattern": "RC(=O)Cl", "group_atoms": [1, 2, 3]}], "history": [parse("C=O")]}
    # same names, other patterns, one interpreter: A, B, A through different construction paths
    a = [{"name": "x", "pattern": "C=O"}, {"name": "y", "pattern": "RC(=O)O", "group_atoms": [1, 2, 3]}]
    b = [{"name": "x", "pattern": "CO"}, {"name": "y", "pattern": "RN"}]
    mol = parse("NCC(=O)O")
    steps = [{"specs": sp, "req_h": True, "via": via, "graph": mol}
             for sp, via in [(a, "query-list"), (b, "query-provider"), (a, "query-provider-mapper"), (b, "query-mapper")]]
    yield {"kind": "same-names", "steps": steps, "graph": mol, "specs": b, "req_h": True, "scheme": "steps", "hmode": "?", "history": []}
    # lower-case aromatic atoms vs upper-case ':' patterns through the provider WITHOUT a mapper argument
    ar = [{"name": "ar", "pattern": "C:C"}, {"name": "phen", "pattern": "C:COH", "group_atoms": [2, 3]}, {"name": "ani", "pattern": "ccN", "group_atoms": [2]}]
    mol2 = parse("Nc1ccccc1O")
    steps = [{"specs": ar, "req_h": True, "via": via, "graph": mol2} for via in fc.QUERY_VIAS]
    yield {"kind": "same-names", "steps": steps, "graph": mol2, "specs": ar, "req_h": True, "scheme": "steps", "hmode": "?", "history": []}


def run_impl(c):
    if "texts" in c:
        c["_mutated"] = False
        return ("strings", fc.run_strings(c["specs"], c["req_h"], c["texts"]))
    if "events" in c:
        outs = fc.run_editseq(c["specs"], c["req_h"], c["graph"], c["events"])
        c["_mutated"] = any(o[0] == "MUTATED" for o in outs)
        return ("seq", [o[1] if o[0] == "MUTATED" else o for o in outs])
    if "steps" in c:
        outs, mutated = fc.run_steps(c["steps"])
        c["_mutated"] = mutated
        return ("steps", outs)
    from fgutils.query import FGQuery
    g = gens.copy_exact(c["graph"])
    hist = [gens.copy_exact(h) for h in c["history"]]
    mutated = False
    try:
        q = FGQuery(require_implicit_hydrogen=c["req_h"]) if c["specs"] is None \
            else FGQuery(config=fc.make_configs(c["specs"]), require_implicit_hydrogen=c["req_h"])
    except (AssertionError, KeyError, IndexError, ValueError, TypeError) as e:
        return fc._exc(e)
    for h, h0 in zip(hist, c["history"]):
        try:
            fc.record(q.get(h))          # the caller edits every returned list in place
        except (AssertionError, KeyError, IndexError, ValueError, TypeError):
            pass
        mutated = mutated or not gens.graphs_identical(h, h0)
    try:
        out = fc.record(q.get(g))
    except (AssertionError, KeyError, IndexError, ValueError, TypeError) as e:
        out = fc._exc(e)
    c["_mutated"] = mutated or not gens.graphs_identical(g, c["graph"])
    return out


def py_invariants(c, out):
    msgs = []
    if c.get("_mutated"):
        msgs.append("FGQuery.get modified the graph it was given")
    if "texts" in c:
        mine = [fc.norm_answer(x) for x in out[1]]
        # model-independent: the same string always gets the same answer, on this object and on the fresh one
        first = {}
        for t, a in zip(c["texts"] + [c["texts"][-1]], mine):
            if t in first and first[t] != a:
                msgs.append("get(%r) answered %r earlier and %r later in the same interpreter" % (t, first[t], a))
                break
            first.setdefault(t, a)
        ans = c.get("_seed_answers")
        if ans is None:
            ans = {s: fc.run_worker([job_of(c)], s)[0] for s in fc.SEEDS[:3]}
        for s, r in ans.items():
            if r["answers"] != mine and not msgs:
                msgs.append("under PYTHONHASHSEED=%s the answers for the strings %r are %r, under PYTHONHASHSEED=0 they are %r"
                            % (s, c["texts"], r["answers"], mine))
        return msgs[:2]
    if "events" in c:
        mine = [fc.norm_answer(x) for x in out[1]]
        snaps = [g for g, _ in fc.play(c["events"], c["graph"])]
        # model-independent: a FRESH object asked about the contents the graph has at the last get()
        fresh = fc.norm_answer(fc.run_query(c["specs"], c["req_h"], gens.copy_exact(snaps[-1]), repeats=1)[0])
        if fresh != mine[-1]:
            msgs.append("after the graph object was edited in place the same FGQuery answers %r, a fresh FGQuery answers %r"
                        % (mine[-1], fresh))
        ans = c.get("_seed_answers")
        if ans is None:
            ans = {s: fc.run_worker([job_of(c)], s)[0] for s in fc.SEEDS[:3]}
        for s, r in ans.items():
            if r["answers"] != mine and not msgs:
                msgs.append("under PYTHONHASHSEED=%s the answers of the get/edit sequence are %r, under PYTHONHASHSEED=0 they are %r"
                            % (s, r["answers"], mine))
        return msgs[:2]
    if "steps" in c:
        mine = [fc.norm_answer(x) for x in out[1]]
        # model-independent: steps with the same (configuration, molecule, flag) must give the same answer, whatever
        # was asked in between and whichever construction path was used
        first = {}
        for st, a in zip(c["steps"], mine):
            k = (tuple(fc.spec_key(x) for x in st["specs"]), ct.graph_canon(st["graph"]), st["req_h"])
            if k in first and first[k][1] != a:
                msgs.append("the same configuration and molecule give %r via %s and %r via %s within one interpreter "
                            "(the answer depends on earlier queries or on the construction path)"
                            % (first[k][1], first[k][0], a, st["via"]))
                break
            first.setdefault(k, (st["via"], a))
        ans = c.get("_seed_answers")
        if ans is None:
            ans = {s: fc.run_worker([job_of(c)], s)[0] for s in fc.SEEDS[:4]}
        for s, r in ans.items():
            if r["mutated"]:
                msgs.append("FGQuery.get modified the graph it was given (PYTHONHASHSEED=%s)" % s)
            if r["answers"] != mine:
                msgs.append("under PYTHONHASHSEED=%s the answers of the step sequence are %r, under PYTHONHASHSEED=0 they are %r"
                            % (s, r["answers"], mine))
            if msgs:
                break
        return msgs[:2]
    mine = fc.norm_answer(out)
    ans = c.get("_seed_answers")
    if ans is None:
        ans = {s: fc.run_worker([job_of(c)], s)[0] for s in fc.SEEDS}
    for s, r in ans.items():
        if r["mutated"]:
            msgs.append("FGQuery.get modified the graph it was given (PYTHONHASHSEED=%s)" % s)
        labels = ["first call", "second call on the same object", "a fresh object"]
        for lab, a in zip(labels, r["answers"]):
            if a != mine:
                msgs.append("under PYTHONHASHSEED=%s the answer of %s is %r, under PYTHONHASHSEED=0 (after the history) it is %r"
                            % (s, lab, a, mine))
                break
        if msgs:
            break
    return msgs[:2]


def coq_case(c, out):
    if "texts" in c:
        defs, parts, diag = {}, [], []
        rq = ct.b(c["req_h"])
        if c["specs"] is not None:
            defs["cfgs"] = fc.cfgs_term(c["specs"])
        uniq = {}
        for t in c["texts"]:
            if t not in uniq:
                uniq[t] = len(uniq)
                defs["g%d" % uniq[t]] = ct.graph(fc.smiles_input_graph(t))
        for k, (t, o) in enumerate(zip(c["texts"] + [c["texts"][-1]], out[1])):
            defs["out%d" % k] = fc.answer_term(o)
            gi = uniq[t]
            m = ("default_query_fast %s $g%d" % (rq, gi)) if c["specs"] is None else ("query default_mapper $cfgs %s $g%d" % (rq, gi))
            parts.append("answer_agreeb (%s) $out%d" % (m, k))
            diag.append(m)
        return {"defs": defs, "checks": {"agree": " && ".join(parts), "history": "true"}, "diag": diag[:3]}
    if "events" in c:
        snaps = [g for g, _ in fc.play(c["events"], c["graph"])]
        defs, parts, diag = {}, [], []
        rq = ct.b(c["req_h"])
        if c["specs"] is not None:
            defs["cfgs"] = fc.cfgs_term(c["specs"])
        for k, (g, o) in enumerate(zip(snaps, out[1])):
            defs["g%d" % k] = ct.graph(g)
            defs["out%d" % k] = fc.answer_term(o)
            m = ("default_query_fast %s $g%d" % (rq, k)) if c["specs"] is None else ("query default_mapper $cfgs %s $g%d" % (rq, k))
            parts.append("answer_agreeb (%s) $out%d" % (m, k))
            diag.append(m)
        return {"defs": defs, "checks": {"agree": " && ".join(parts), "history": "true"}, "diag": diag}
    if "steps" in c:
        defs, parts = {}, []
        for k, (st, o) in enumerate(zip(c["steps"], out[1])):
            defs["g%d" % k] = ct.graph(st["graph"])
            defs["cfgs%d" % k] = fc.cfgs_term(st["specs"])
            defs["out%d" % k] = fc.answer_term(o)
            parts.append("answer_agreeb (query default_mapper $cfgs%d %s $g%d) $out%d" % (k, ct.b(st["req_h"]), k, k))
        return {"defs": defs, "checks": {"agree": " && ".join(parts), "history": "true"},
                "diag": ["query default_mapper $cfgs%d %s $g%d" % (k, ct.b(st["req_h"]), k) for k in range(len(c["steps"]))]}
    defs = {"g": ct.graph(c["graph"]), "out": fc.answer_term(out),
            "hist": "(%s : list graph)" % ct.lst([ct.graph(h) for h in c["history"]])}
    rq = ct.b(c["req_h"])
    if c["specs"] is None:
        fresh = "default_query_fast %s $g" % rq
        # the object after its first get(): the cached tree is default_tree_val (default_tree_ok)
        q0 = "fresh_query default_mapper default_configs %s" % rq
    else:
        defs["cfgs"] = fc.cfgs_term(c["specs"])
        fresh = "query default_mapper $cfgs %s $g" % rq
        q0 = "fresh_query default_mapper $cfgs %s" % rq
    hist = "fst (get (fold_left (fun q h => snd (get q h)) $hist (%s)) $g)" % q0
    return {"defs": defs,
            "checks": {"agree": "answer_agreeb (%s) $out" % fresh,
                       "history": "answer_agreeb (%s) $out" % hist if c["history"] else "true"},
            "diag": [fresh]}


def describe(c):
    if "texts" in c:
        return {"kind": c["kind"], "texts": c["texts"], "specs": c["specs"], "req_h": c["req_h"]}
    if "events" in c:
        d = c05.describe(c)
        d["events"] = c["events"]
        return d
    if "steps" in c:
        return {"kind": c["kind"], "steps": [{"specs": st["specs"], "req_h": st["req_h"], "via": st["via"],
                                              "graph": ct.graph_py(st["graph"])} for st in c["steps"]]}
    d = c05.describe(c)
    d["history"] = [ct.graph_py(h) for h in c["history"]]
    return d


def from_json(d):
    if "texts" in d:
        return {"kind": d.get("kind", "smiles-strings"), "texts": d["texts"], "specs": d["specs"], "req_h": d["req_h"],
                "graph": fc.smiles_input_graph(d["texts"][0]), "scheme": "rdkit", "hmode": "none", "history": []}
    if "events" in d:
        c = c05.from_json(d)
        c["events"] = d["events"]
        c["history"] = []
        return c
    if "steps" in d:
        steps = [{"specs": st["specs"], "req_h": st["req_h"], "via": st["via"], "graph": ct.graph_from_py(st["graph"])}
                 for st in d["steps"]]
        last = steps[-1]
        return {"kind": d.get("kind", "same-names"), "steps": steps, "graph": last["graph"], "specs": last["specs"],
                "req_h": last["req_h"], "scheme": "steps", "hmode": "?", "history": []}
    c = c05.from_json(d)
    c["history"] = [ct.graph_from_py(h) for h in d.get("history", [])]
    return c


def describe_out(out):
    if out[0] == "strings":
        return {"status": "strings", "answers": [c05.describe_out(o) for o in out[1]]}
    if out[0] == "seq":
        return {"status": "seq", "answers": [c05.describe_out(o) for o in out[1]]}
    if out[0] == "steps":
        return {"status": "steps", "answers": [c05.describe_out(o) for o in out[1]]}
    return c05.describe_out(out)


def key(c):
    if "texts" in c:
        return ("strings", tuple(c["texts"]), c["req_h"], None if c["specs"] is None else tuple(fc.spec_key(x) for x in c["specs"]))
    if "events" in c:
        return c05.key(c) + (json_dumps(c["events"]),)
    if "steps" in c:
        return ("steps",) + tuple((ct.graph_canon(st["graph"]), tuple(fc.spec_key(x) for x in st["specs"]), st["req_h"], st["via"])
                                  for st in c["steps"])
    return c05.key(c) + (tuple(ct.graph_canon(h) for h in c["history"]),)


def json_dumps(x):
    import json
    return json.dumps(x, sort_keys=True)


def nontrivial(c, out):
    if out[0] == "strings":
        return any(o[0] == "ok" and len(o[1]) > 0 for o in out[1])
    if out[0] == "seq":
        return any(o[0] == "ok" and len(o[1]) > 0 for o in out[1])
    if out[0] == "steps":
        return any(o[0] == "ok" and len(o[1]) > 0 for o in out[1])
    return c05.nontrivial(c, out)


def classes(c, out):
    if out[0] == "strings":
        yield "kind=smiles-strings"
        yield "calls=%d" % len(out[1])
        yield "reaction=" + ("yes" if any(">>" in t for t in c["texts"]) else "no")
        for o in out[1]:
            yield "result=" + o[0]
        return
    if out[0] == "seq":
        yield "kind=edit-in-place"
        yield "gets=%d" % len(out[1])
        for ev in c["events"]:
            if ev["op"] == "edit":
                for e in ev["edits"]:
                    yield "edit=" + e[0]
        yield "config=" + ("default" if c["specs"] is None else "user")
        for o in out[1]:
            yield "result=" + o[0]
        return
    if out[0] == "steps":
        yield "kind=same-names"
        yield "steps=%d" % len(c["steps"])
        for st in c["steps"]:
            yield "via=" + st["via"]
        for o in out[1]:
            yield "result=" + o[0]
        return
    for x in c05.classes(c, out):
        if not x.startswith("fg="):
            yield x
    yield "history=%d" % len(c["history"])
