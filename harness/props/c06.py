"""C06 — functional-group queries are deterministic and pure.
Correspondence: Model.Query.{get, query} ~ fgutils.query.FGQuery.get on one object after a history of earlier
get() calls, in fresh interpreters under several PYTHONHASHSEED values (the answer list exactly)."""
import lib
import gens
import coqterm as ct
from props import _fg_common as fc
from props import c05

ID = "C06"
PROPS = "Props/C06.v"
USES_GEN = ["fgdefault", "tables"]
MODEL_FILES = fc.MODEL_FILES + ["Proofs/FGDefaultTree.v"]
IMPORTS = fc.IMPORTS[:-1] + " Proofs.FGDefaultTree."
CHECKS = ["agree", "history"]
CHUNK = 10
AGREE_IS_PROPERTY = True
CORRESPONDENCE = ("Model.Query.{fresh_query,get_tree,get,query} ~ fgutils.query.FGQuery.{__init__,get}, "
                  "fgutils.fgconfig.FGConfigProvider.get_tree (answer list exactly; the same object after a history of "
                  "earlier get() calls; fresh interpreters under PYTHONHASHSEED in {0,1,2,3,4,7,random})")
RULE = ("molecules as for C05 (FG-rich fragments, 1-14 heavy atoms, all id schemes, explicit hydrogens none/some/all), default "
        "configuration (75%) or a generated list; each case = a history of 0-2 earlier molecules queried on the SAME FGQuery "
        "object, then the molecule of interest. In process (PYTHONHASHSEED=0): the answer after the history must equal the "
        "model's answer of a fresh object ('agree') and the model's answer after the same history ('history'). In fresh "
        "interpreters under 7 hash seeds (batched): the molecule is asked twice on one new object and once on another new "
        "object; all 21 answers must equal the in-process answer; the argument graph is deep-compared (node order, attributes, "
        "adjacency order) before/after every get. non-trivial = at least one group reported; distinct = distinct "
        "(history, molecule, configuration, flag)")
TRUSTED = c05.TRUSTED + [
    "hash-seed independence and non-mutation of the argument are runtime facts of CPython objects (a pure Gallina model has "
    "neither hash randomisation nor aliasing): they are validated by the multi-seed runs and the before/after comparison, not proved"]
ASSUMPTIONS = c05.ASSUMPTIONS + [
    "between two get() calls nobody mutates the FGQuery object, its provider, its configurations or the cached tree"]


def generate(seed, tier, ncases=None):
    n = ncases or (90 if tier == "quick" else 1200)
    cases = []
    for i in range(n):
        rng = lib.rng_for(seed, ID, i)
        c = c05.gen_case(rng, default_p=0.75)
        k = rng.choice([0, 0, 1, 2])
        c["history"] = [gens.reid(rng, fc.rand_molecule(rng, max_heavy=8)[0])[0] for _ in range(k)]
        cases.append(c)
    attach_seed_answers(cases, fc.SEEDS if tier == "quick" else fc.SEEDS + ["11", "12345", "random"])
    for c in cases:
        yield c


def job_of(c):
    return {"kind": "query", "specs": c["specs"], "req_h": c["req_h"], "graph": ct.graph_py(c["graph"])}


def attach_seed_answers(cases, seeds):
    res = fc.run_all_seeds([job_of(c) for c in cases], seeds, parallel=14, pieces=2 if len(cases) >= 40 else 1)
    for k, c in enumerate(cases):
        c["_seed_answers"] = {s: res[s][k] for s in res}


def corpus():
    for c in c05.corpus():
        if c["kind"] in ("corpus-D9", "corpus-D7", "corpus-D16", "corpus-typeerror"):
            c["history"] = []
            yield c
    from fgutils.parse import parse
    # D9: aldehyde / acyl_chloride tie; with a history
    yield {"graph": parse("O=CCl"), "specs": None, "req_h": True, "scheme": "corpus", "hmode": "none", "kind": "corpus-D9",
           "history": [parse("CCOCC"), parse("CC(=O)O")]}
    # a generated configuration with a tie on (pattern_len, size, edges)
    yield {"graph": parse("O=CCl"), "req_h": True, "scheme": "corpus", "hmode": "none", "kind": "corpus-D9",
           "specs": [{"name": "co", "pattern": "C=O"}, {"name": "ald", "pattern": "RC(=O)H", "group_atoms": [1, 2]},
                     {"name": "acl", "pattern": "RC(=O)Cl", "group_atoms": [1, 2, 3]}], "history": [parse("C=O")]}


def run_impl(c):
    from fgutils.query import FGQuery
    g = gens.copy_exact(c["graph"])
    hist = [gens.copy_exact(h) for h in c["history"]]
    mutated = False
    try:
        q = FGQuery(require_implicit_hydrogen=c["req_h"]) if c["specs"] is None \
            else FGQuery(config=fc.make_configs(c["specs"]), require_implicit_hydrogen=c["req_h"])
    except (AssertionError, KeyError, IndexError, ValueError, TypeError) as e:
        return fc._exc(e)
    for h, h0 in zip(hist, c["history"]):
        try:
            q.get(h)
        except (AssertionError, KeyError, IndexError, ValueError, TypeError):
            pass
        mutated = mutated or not gens.graphs_identical(h, h0)
    try:
        r = q.get(g)
        out = ("ok", [(n, [int(i) for i in ids]) for n, ids in r])
    except (AssertionError, KeyError, IndexError, ValueError, TypeError) as e:
        out = fc._exc(e)
    c["_mutated"] = mutated or not gens.graphs_identical(g, c["graph"])
    return out


def py_invariants(c, out):
    msgs = []
    if c.get("_mutated"):
        msgs.append("FGQuery.get modified the graph it was given")
    mine = fc.norm_answer(out)
    ans = c.get("_seed_answers")
    if ans is None:
        ans = {s: fc.run_worker([job_of(c)], s)[0] for s in fc.SEEDS}
    for s, r in ans.items():
        if r["mutated"]:
            msgs.append("FGQuery.get modified the graph it was given (PYTHONHASHSEED=%s)" % s)
        labels = ["first call", "second call on the same object", "a fresh object"]
        for lab, a in zip(labels, r["answers"]):
            if a != mine:
                msgs.append("under PYTHONHASHSEED=%s the answer of %s is %r, under PYTHONHASHSEED=0 (after the history) it is %r"
                            % (s, lab, a, mine))
                break
        if msgs:
            break
    return msgs[:2]


def coq_case(c, out):
    defs = {"g": ct.graph(c["graph"]), "out": fc.answer_term(out),
            "hist": "(%s : list graph)" % ct.lst([ct.graph(h) for h in c["history"]])}
    rq = ct.b(c["req_h"])
    if c["specs"] is None:
        fresh = "default_query_fast %s $g" % rq
        # the object after its first get(): the cached tree is default_tree_val (default_tree_ok)
        q0 = "fresh_query default_mapper default_configs %s" % rq
    else:
        defs["cfgs"] = fc.cfgs_term(c["specs"])
        fresh = "query default_mapper $cfgs %s $g" % rq
        q0 = "fresh_query default_mapper $cfgs %s" % rq
    hist = "fst (get (fold_left (fun q h => snd (get q h)) $hist (%s)) $g)" % q0
    return {"defs": defs,
            "checks": {"agree": "answer_agreeb (%s) $out" % fresh,
                       "history": "answer_agreeb (%s) $out" % hist if c["history"] else "true"},
            "diag": [fresh]}


def describe(c):
    d = c05.describe(c)
    d["history"] = [ct.graph_py(h) for h in c["history"]]
    return d


def from_json(d):
    c = c05.from_json(d)
    c["history"] = [ct.graph_from_py(h) for h in d.get("history", [])]
    return c


describe_out = c05.describe_out


def key(c):
    return c05.key(c) + (tuple(ct.graph_canon(h) for h in c["history"]),)


nontrivial = c05.nontrivial


def classes(c, out):
    for x in c05.classes(c, out):
        if not x.startswith("fg="):
            yield x
    yield "history=%d" % len(c["history"])
