"""C11 — reaction centre and radius pruning are exact.
Correspondence: Model.Prune.{get_rc, get_unreachable_nodes, prune_its_to_rc} ~
fgutils.its.get_rc / fgutils.utils.get_unreachable_nodes / fgutils.its.prune_its_to_rc
(and ITS(g).prune(...) = complete_aam(g, 'min') followed by prune_its_to_rc)."""
import itertools

import zlib
import networkx as nx

import lib
import gens
import coqterm as ct
from fgutils.its import get_rc, prune_its_to_rc, ITS
from fgutils.utils import get_unreachable_nodes

ID = "C11"
REPEAT_PROBE = True   # engine: repeat 1 call in 5 after editing its first result in place (purity / no shared state)
PROPS = "Props/C11.v"
MODEL_FILES = ["Model/Prune.v", "Spec/PruneCheck.v"]
IMPORTS = "From FGV Require Import Model.Aam Model.Prune Spec.PruneCheck."
CHECKS = ["agree", "spec"]
CORRESPONDENCE = ("Model.Prune.{get_rc,get_unreachable_nodes,prune_its_to_rc} ~ fgutils.its.get_rc, "
                  "fgutils.utils.get_unreachable_nodes, fgutils.its.prune_its_to_rc, fgutils.its.ITS.prune "
                  "(get_rc compared as labelled graphs, unreachable lists and pruned graphs compared exactly, "
                  "including node and adjacency order; exceptions compared by class)")
RULE = ("every ITS(g).prune case is followed by a SECOND prune on the same ITS object (same radius / +1 / -1, hydrogens on or off) compared with prune_its_to_rc on a copy of the object's graph; operations get_rc / get_unreachable_nodes / prune_its_to_rc / ITS(g).prune on: random ITS graphs "
        "(trees, rings, disconnected; 1-12 atoms; tuple labels, sometimes list labels; bond orders 0..3 incl. 1.5; "
        "0-3 reaction-centre edges; rarely a scalar label or a symbol-less atom so that the TypeError/KeyError "
        "paths are exercised), ITS graphs built like the library does (ids = map numbers from 1, idx_map/aam attributes), "
        "plain graphs (paths, stars, rings, random forests, isolated nodes) with single/multiple/isolated/duplicated/"
        "absent start nodes; all id schemes of gens.reid (contiguous/offset/sparse/negative/shuffled insertion order); "
        "radius 0..diameter+1; insert_hydrogens both. Family 'big' (quick: 40 cases, thorough: ~910) for "
        "get_unreachable_nodes / prune_its_to_rc / ITS.prune: ladders, linearly fused six-rings, grids, hexagonal patches, "
        "a 28-atom steroid skeleton and variations, branched skeletons with ring closures (12-30 atoms, max degree 3-4), "
        "radius diameter-2..diameter+1, single and multiple start nodes, walk counts 10^3..10^12; three cases in four "
        "SEARCH a (start set / reaction-centre bond, radius) such that some reachable column has every selected D_sum entry a "
        "positive multiple of 256 (a pendant reaction-centre bond is added when no bond of the graph qualifies); layered "
        "complete-bipartite blocks are CONSTRUCTED so that a D_sum entry is exactly 2^8, 2^16, 2^32 (or 27*2^8), so that "
        "any narrower integer type (uint8/int16/int32) holds 0 where the exact count is positive. thorough additionally enumerates get_unreachable_nodes "
        "EXHAUSTIVELY on every graph up to isomorphism with <= 6 nodes (graph atlas, 208 graphs, re-labelled with a "
        "random id scheme) and every labelled graph on <= 4 nodes, x every non-empty start set x radius 0..4. "
        "non-trivial = the result is neither empty nor everything (unreachable list / pruned graph strictly between), or "
        "a reaction centre with >= 1 edge for get_rc; distinct = distinct (operation, graph, start set, radius, flag)")
TRUSTED = ["model of the attribute dict as a record of the five keys FGUtils uses",
           "numpy matrix arithmetic modelled over mathematical integers (Z)",
           "Base.NX model of networkx.Graph copy/add_node/add_edge/remove_node iteration orders (tied separately by nxtie)"]
ASSUMPTIONS = ["walk counts < 2^63: numpy's int64 wrap-around is not modelled; every generated input satisfies "
               "max(|start|,|nodes|) * (radius+1) * maxdeg^radius < 2^62 (int64_safe), which bounds every entry of D, D_sum "
               "and every column sum; within that bound counts up to ~2.7e18 are exercised (family 'big')",
               "node ids are Python ints, radius is a non-negative int, the graph is a simple undirected nx.Graph "
               "whose edges all carry a 'bond' attribute (number, 2-tuple or 2-list)",
               "no self-loops are generated (the model nevertheless puts 1 on the diagonal exactly like networkx)"]
EXHAUSTIVE = {"quick": False, "thorough": True}
CHUNK = 200

ORDERS = (1, 1, 1, 2, 1.5, 3)


# ----------------------------------------------------------------------------- generators

def diameter_bound(g):
    d = 0
    for comp in nx.connected_components(g):
        sub = g.subgraph(comp)
        d = max(d, nx.diameter(sub))
    return d


def to_its_labels(rng, g, n_rc=None, list_p=0.15):
    """turn scalar bonds into (o, o) tuples and make n_rc of them reaction-centre edges"""
    es = list(g.edges)
    use_list = rng.random() < list_p
    for u, v in es:
        o = g[u][v]["bond"]
        g[u][v]["bond"] = [o, o] if (use_list and rng.random() < 0.5) else (o, o)
    if n_rc is None:
        n_rc = rng.choice([0, 1, 1, 1, 2, 2, 3])
    rc_edges = rng.sample(es, min(n_rc, len(es)))
    for u, v in rc_edges:
        a = rng.choice([0, 1, 1, 2, 1.5, 3])
        b = rng.choice([x for x in [0, 1, 2, 1.5, 3] if x != a])
        g[u][v]["bond"] = [a, b] if (use_list and rng.random() < 0.5) else (a, b)
    return len(rc_edges)


def shape(rng, nmax=9):
    kind = rng.choice(["mol", "mol", "forest", "forest", "path", "star", "ring", "islands"])
    if kind == "mol":
        g = gens.rand_mol(rng, 1, nmax)
    elif kind == "forest":
        g = gens.rand_forest(rng, 1, nmax)
    else:
        n = rng.randint(1, nmax)
        if kind == "path":
            h = nx.path_graph(n)
        elif kind == "star":
            h = nx.star_graph(max(n - 1, 0))
        elif kind == "ring":
            h = nx.cycle_graph(max(n, 3))
        else:
            h = nx.disjoint_union(nx.path_graph(rng.randint(1, 4)), nx.path_graph(rng.randint(1, 3)))
            for _ in range(rng.randint(0, 2)):
                h.add_node(h.number_of_nodes())
        g = nx.Graph()
        for i in h.nodes:
            g.add_node(i, symbol=rng.choice(gens.HEAVY))
        for u, v in h.edges:
            g.add_edge(u, v, bond=rng.choice(ORDERS))
    return g, kind


def rand_its_case(rng, op):
    g, kind = shape(rng, 10 if rng.random() < 0.8 else 14)
    nrc = to_its_labels(rng, g)
    flaw = None
    x = rng.random()
    if x < 0.04 and g.number_of_edges() > 0:
        u, v = rng.choice(list(g.edges))
        g[u][v]["bond"] = rng.choice([1, 2, 1.5])      # scalar label: TypeError
        flaw = "scalar"
    elif x < 0.07:
        n = rng.choice(list(g.nodes))
        del g.nodes[n]["symbol"]                           # KeyError only if n is on an rc edge
        flaw = "nosymbol"
    if rng.random() < 0.3:
        # ids like the library: map numbers from 1, in node order
        m = {n: i + 1 for i, n in enumerate(g.nodes)}
        h = nx.Graph()
        for n in g.nodes:
            d = dict(g.nodes[n])
            d["idx_map"] = (n, n)
            d["aam"] = m[n]
            h.add_node(m[n], **d)
        for u, v, d in g.edges(data=True):
            h.add_edge(m[u], m[v], **dict(d))
        g, scheme = h, "library"
    else:
        g, scheme, _ = gens.reid(rng, g)
        if op == "its_prune" and rng.random() < 0.5:
            pool = list(range(1, g.number_of_nodes() + 4))
            for n in g.nodes:
                if rng.random() < 0.5:
                    k = rng.choice(pool)
                    pool.remove(k)
                    g.nodes[n]["aam"] = k
    d = diameter_bound(g)
    r = rng.choice([0, 0, 1, 1, 2, rng.randint(0, d + 1), rng.randint(0, d + 1)])
    return {"op": op, "graph": g, "start": [], "radius": r, "ih": rng.random() < 0.6,
            "scheme": scheme, "kind": kind + ("/" + flaw if flaw else ""), "defaults": rng.random() < 0.08}


def rand_plain_case(rng):
    g, kind = shape(rng, 10)
    if rng.random() < 0.3:
        for _ in range(rng.randint(1, 2)):
            g.add_node(g.number_of_nodes(), symbol="C")      # isolated nodes
    g, scheme, _ = gens.reid(rng, g)
    ns = list(g.nodes)
    how = rng.choice(["single", "single", "multi", "multi", "isolated", "dup", "empty", "absent", "all"])
    if how == "single":
        start = [rng.choice(ns)]
    elif how == "multi":
        start = rng.sample(ns, rng.randint(1, min(4, len(ns))))
    elif how == "isolated":
        iso = [n for n in ns if g.degree(n) == 0]
        start = [rng.choice(iso)] if iso else [rng.choice(ns)]
    elif how == "dup":
        s = rng.choice(ns)
        start = [s, rng.choice(ns), s]
    elif how == "empty":
        start = []
    elif how == "absent":
        start = [rng.choice(ns), max(ns) + rng.randint(1, 3)]
    else:
        start = list(ns)
    d = diameter_bound(g)
    r = rng.randint(0, d + 1)
    return {"op": "unreach", "graph": g, "start": start, "radius": r, "ih": False,
            "scheme": scheme, "kind": kind + "/" + how, "defaults": False}


def exhaustive_unreach():
    """every graph with <= 6 nodes up to isomorphism + every labelled graph on <= 4 nodes,
    x every non-empty start set x radius 0..4"""
    from networkx.generators.atlas import graph_atlas_g
    idx = 0
    for a in graph_atlas_g():
        n = a.number_of_nodes()
        if n == 0:
            continue
        if n > 6:
            break
        rng = lib.rng_for(0, ID + "atlas", idx)
        idx += 1
        g = nx.Graph()
        for i in a.nodes:
            g.add_node(i, symbol="C")
        for u, v in a.edges:
            g.add_edge(u, v, bond=1)
        g, scheme, _ = gens.reid(rng, g)
        ns = sorted(g.nodes)
        for k in range(1, n + 1):
            for start in itertools.combinations(ns, k):
                for r in range(0, 5):
                    yield {"op": "unreach", "graph": g, "start": list(start), "radius": r, "ih": False,
                           "scheme": scheme, "kind": "atlas%d" % n, "defaults": False}
    for n in range(1, 5):
        pairs = list(itertools.combinations(range(n), 2))
        for mask in range(1 << len(pairs)):
            g = nx.Graph()
            for i in range(n):
                g.add_node(i, symbol="C")
            for b, (u, v) in enumerate(pairs):
                if mask >> b & 1:
                    g.add_edge(u, v, bond=1)
            for k in range(1, n + 1):
                for start in itertools.combinations(range(n), k):
                    for r in range(0, 5):
                        yield {"op": "unreach", "graph": g, "start": list(start), "radius": r, "ih": False,
                               "scheme": "contig", "kind": "labelled%d" % n, "defaults": False}


# ----------------------------------------------------------------------------- large walk counts
# Family "big": fused rings / ladders / grids / hexagonal patches / a steroid skeleton / branched
# graphs with 12-30 atoms and maximum degree 3-4, radius diameter-2 .. diameter+1, so that the
# entries of D_sum reach 10^3 .. 10^12.  The model counts in Z; an implementation that narrows the
# matrix type (uint8, int16, int32 ...) wraps and reports reachable nodes - even start nodes.  Where
# possible the (start set, radius) is SEARCHED such that some reachable column has every selected
# entry of D_sum an exact multiple of 256 (so a uint8 matrix would hold 0 there); layered complete-
# bipartite blocks are CONSTRUCTED so that an entry is exactly 2^8, 2^16 or 2^32.

def _plain(h, rng):
    g = nx.Graph()
    m = {n: i for i, n in enumerate(h.nodes)}
    for n in h.nodes:
        g.add_node(m[n], symbol=rng.choice(gens.HEAVY))
    for u, v in h.edges:
        g.add_edge(m[u], m[v], bond=rng.choice(ORDERS))
    return g


def steroid():
    """cholesterol skeleton: gonane core (rings 6-6-6-5), two angular methyls, C8 side chain, 3-OH: 28 atoms"""
    e = [(1, 2), (2, 3), (3, 4), (4, 5), (5, 10), (10, 1), (5, 6), (6, 7), (7, 8), (8, 9), (9, 10),
         (9, 11), (11, 12), (12, 13), (13, 14), (14, 8), (14, 15), (15, 16), (16, 17), (17, 13),
         (10, 19), (13, 18), (17, 20), (20, 21), (20, 22), (22, 23), (23, 24), (24, 25), (25, 26), (25, 27), (3, 28)]
    h = nx.Graph()
    h.add_nodes_from(range(1, 29))
    h.add_edges_from(e)
    return h


def acene(k):
    """k linearly fused six-rings (naphthalene k=2, anthracene k=3 ...): 4k+2 atoms, degree <= 3"""
    h = nx.Graph()
    top = list(range(0, 2 * k + 1))
    bot = list(range(2 * k + 1, 4 * k + 2))
    nx.add_path(h, top)
    nx.add_path(h, bot)
    for i in range(0, 2 * k + 1, 2):
        h.add_edge(top[i], bot[i])
    return h


def branched(rng, n, maxdeg):
    h = nx.Graph()
    h.add_node(0)
    for i in range(1, n):
        cands = [x for x in h.nodes if h.degree(x) < maxdeg]
        # prefer recent nodes: long branched skeletons rather than stars
        u = rng.choice(cands[-6:]) if rng.random() < 0.7 else rng.choice(cands)
        h.add_edge(u, i)
    for _ in range(rng.randint(0, 3)):
        u, v = rng.sample(list(h.nodes), 2)
        if (h.degree(u) < maxdeg and h.degree(v) < maxdeg and not h.has_edge(u, v)
                and nx.shortest_path_length(h, u, v) >= 3):
            h.add_edge(u, v)
    return h


def big_shape(rng):
    kind = rng.choice(["ladder", "acene", "grid", "hexlat", "steroid", "steroid", "branched", "branched"])
    if kind == "ladder":
        h = nx.ladder_graph(rng.randint(6, 15))
    elif kind == "acene":
        h = acene(rng.randint(3, 7))
    elif kind == "grid":
        a, b = rng.choice([(3, 4), (3, 5), (4, 4), (3, 6), (4, 5), (4, 6), (5, 5), (3, 8), (5, 6), (2, 12)])
        h = nx.grid_2d_graph(a, b)
    elif kind == "hexlat":
        a, b = rng.choice([(1, 3), (2, 2), (1, 5), (2, 3), (3, 2), (2, 4), (3, 3)])
        h = nx.hexagonal_lattice_graph(a, b)
    elif kind == "steroid":
        h = steroid()
        for _ in range(rng.randint(0, 2)):          # small variations of the skeleton
            leaves = [x for x in h.nodes if h.degree(x) == 1]
            if rng.random() < 0.5 and leaves:
                h.remove_node(rng.choice(leaves))
            else:
                cands = [x for x in h.nodes if h.degree(x) < 3]
                h.add_edge(rng.choice(cands), max(h.nodes) + 1)
    else:
        h = branched(rng, rng.randint(14, 30), rng.choice([3, 4]))
    return _plain(h, rng), kind


def layered(rng, widths):
    """source - complete bipartite blocks between consecutive layers - sink: the number of shortest
    walks source -> sink (and, the graph being bipartite, the D_sum entry at radius = distance and
    distance + 1) is exactly the product of the widths"""
    h = nx.Graph()
    layers, nxt = [[0]], 1
    for w in list(widths) + [1]:
        layers.append(list(range(nxt, nxt + w)))
        nxt += w
    h.add_nodes_from(range(nxt))
    for a, b in zip(layers, layers[1:]):
        for u in a:
            for v in b:
                h.add_edge(u, v)
    return _plain(h, rng), 0, nxt - 1, len(layers) - 1


def exact_dsums(g, order, rmax):
    """[D_sum for radius 0..rmax] over exact integers (int64 is exact here: see int64_safe)"""
    import numpy as np
    A = nx.to_numpy_array(g, nodelist=order, weight=None, dtype=np.int64)
    D = np.identity(len(order), dtype=np.int64)
    S = D.copy()
    res = [S.copy()]
    for _ in range(rmax):
        D = D @ A
        S = S + D
        res.append(S.copy())
    return res


def _fits(g, rows, r):
    maxdeg = max([d for _, d in g.degree()] + [1])
    return max(rows, g.number_of_nodes(), 1) * (r + 1) * maxdeg ** r < 2 ** 62


def find_wrap(rng, g, op, mod=256, only_edge=None):
    """(start list, radius, witness column) such that every selected D_sum entry of the witness column
    is a multiple of mod and at least one is positive; None if there is none for r in diam-2..diam+1"""
    pendant_tried = only_edge is not None
    order = list(g.nodes)
    idx = {n: i for i, n in enumerate(order)}
    d = diameter_bound(g)
    radii = [r for r in range(max(1, d - 2), d + 2) if _fits(g, len(order), r)]
    if not radii:
        return None
    sums = exact_dsums(g, order, max(radii))
    cands = []
    for r in radii:
        M = sums[r]
        zero = (M % mod == 0)
        pos = (M > 0)
        if op == "unreach":
            for j in range(len(order)):
                col0 = [i for i in range(len(order)) if zero[i][j]]
                colp = [i for i in col0 if pos[i][j]]
                for i in colp:
                    cands.append((r, [i], j))
                    others = [x for x in col0 if x != i]
                    if others:
                        cands.append((r, [i] + rng.sample(others, min(len(others), rng.randint(1, 2))), j))
        else:
            for u, w in ([only_edge] if only_edge else g.edges):
                i, k = idx[u], idx[w]
                both = zero[i] & zero[k] & (pos[i] | pos[k])
                for j in range(len(order)):
                    if both[j]:
                        cands.append((r, [i, k], j))
    if not cands and op != "unreach" and not pendant_tried:
        # no bond of the graph works as reaction centre: try a pendant bond at each atom in turn
        ws = [w for w in order if g.degree(w) < 4]
        rng.shuffle(ws)
        for w in ws:
            g2 = g.copy()
            p = max(order) + 1
            g2.add_node(p, symbol="Cl")
            g2.add_edge(p, w, bond=1)
            hit = find_wrap(rng, g2, op, mod, only_edge=(p, w))
            if hit:
                return hit
        return None
    if not cands:
        return None
    r, st, j = rng.choice(cands)
    return g, [order[i] for i in st], r, order[j]


def big_case(rng, op, want_wrap=True):
    g, kind = big_shape(rng)
    d = diameter_bound(g)
    found = find_wrap(rng, g, op) if want_wrap else None
    wrap = 0
    if found:
        g, start, r, _ = found
        wrap = 256
    else:
        r = rng.randint(max(0, d - 2), d + 1)
        while r > 0 and not _fits(g, g.number_of_nodes(), r):
            r -= 1
        ns = list(g.nodes)
        if op == "unreach":
            start = rng.sample(ns, rng.choice([1, 1, 2, 3]))
        else:
            start = list(rng.choice(list(g.edges)))
    return finish_big(rng, g, op, start, r, "big-" + kind, wrap)


def finish_big(rng, g, op, start, r, kind, wrap):
    if op != "unreach":
        to_its_labels(rng, g, n_rc=0, list_p=0.0)
        u, w = start
        a = rng.choice([0, 1, 2])
        g[u][w]["bond"] = (a, a + 1)
        if not wrap and rng.random() < 0.4:         # a second reaction-centre bond elsewhere
            x, y = rng.choice(list(g.edges))
            g[x][y]["bond"] = (1, 2)
    g, scheme, m = gens.reid(rng, g)
    start = [m[s] for s in start] if op == "unreach" else []
    return {"op": op, "graph": g, "start": start, "radius": r, "ih": rng.random() < 0.6,
            "scheme": scheme, "kind": kind, "defaults": False, "wrap": wrap}


def layered_case(rng, op, widths, at_plus_one=False):
    g, src, snk, dist = layered(rng, widths)
    prod = 1
    for w in widths:
        prod *= w
    wrap = 2 ** 32 if prod % 2 ** 32 == 0 else 2 ** 16 if prod % 2 ** 16 == 0 else 256 if prod % 256 == 0 else 0
    if op == "unreach":
        r = dist + (1 if at_plus_one else 0)
        return finish_big(rng, g, op, [src], r, "big-layered", wrap)
    # the reaction-centre bond is a pendant bond at the source: start = {pendant, source}; the pendant
    # atom reaches the sink only with dist+1 steps, and (bipartite) then still with a multiple of the product
    p = g.number_of_nodes()
    g.add_node(p, symbol="Cl")
    g.add_edge(p, src, bond=1)
    return finish_big(rng, g, op, [p, src], dist, "big-layered", wrap)


W8, W16, W32 = [2] * 8, [4] * 8, [4] * 16


def big_cases(seed, tier):
    n = 33 if tier == "quick" else 900
    k = 0
    ops = ["unreach", "prune", "its_prune"]
    # constructed: exact powers of two
    plan = [("unreach", W8, False), ("prune", W8, False), ("its_prune", [4, 4, 2, 2, 2, 2], False),
            ("unreach", W16, False), ("prune", [2] * 16, False), ("unreach", W32, False), ("prune", W32, False)]
    if tier != "quick":
        plan += [("unreach", W8, True), ("unreach", [2] * 16, True), ("its_prune", W16, False),
                 ("its_prune", W32, False),
                 ("unreach", [3, 2, 2, 3, 2, 2, 2, 2, 2, 2, 3], False), ("prune", [2, 4, 2, 4, 2, 4, 2, 4, 2, 4, 2], False)]
    for op, widths, plus in plan:
        rng = lib.rng_for(seed, ID + "layered", k)
        k += 1
        yield layered_case(rng, op, widths, plus)
    for i in range(n):
        rng = lib.rng_for(seed, ID + "big", i)
        op = ops[i % 3]
        yield big_case(rng, op, want_wrap=(i % 4 != 3))


def int64_safe(c):
    """ASSUMPTION 'walk counts < 2^63': every entry of D_sum is <= (r+1) * maxdeg^r and a column
    sum adds at most max(|start|, |nodes|) of them; inputs are kept far below the int64 range."""
    g = c["graph"]
    r, _ = params(c)
    maxdeg = max([d for _, d in g.degree()] + [1])
    rows = max(len(c["start"]), g.number_of_nodes(), 1)
    return rows * (r + 1) * maxdeg ** r < 2 ** 62


def generate(seed, tier, ncases=None):
    n = ncases or (600 if tier == "quick" else 20000)
    if ncases is None:
        for c in big_cases(seed, tier):
            if int64_safe(c):
                yield c
    if tier == "thorough" and ncases is None:
        for c in exhaustive_unreach():
            yield c
    for i in range(n):
        rng = lib.rng_for(seed, ID, i)
        op = rng.choice(["rc", "unreach", "unreach", "prune", "prune", "prune", "its_prune"])
        c = rand_plain_case(rng) if op == "unreach" else rand_its_case(rng, op)
        if int64_safe(c):
            yield c


def _g(nodes, edges):
    g = nx.Graph()
    for n, s in nodes:
        g.add_node(n, symbol=s)
    for u, v, b in edges:
        g.add_edge(u, v, bond=b)
    return g


def corpus():
    base = {"ih": True, "scheme": "corpus", "kind": "corpus", "defaults": False, "start": []}
    pentane = _g([(i, "C") for i in range(5)], [(i, i + 1, 1) for i in range(4)])
    # D13: a start node with no start neighbour and r >= 1 must not be reported
    yield dict(base, op="unreach", graph=pentane, start=[0], radius=1)
    yield dict(base, op="unreach", graph=gens.copy_exact(pentane), start=[2], radius=2)
    # D14: ids not 0..n-1
    off = _g([(i + 1, "C") for i in range(5)], [(i + 1, i + 2, 1) for i in range(4)])
    yield dict(base, op="unreach", graph=off, start=[1], radius=1)
    # D15 / D14: ITS with ids from 1, pruning inserts hydrogens on fresh ids
    its = _g([(1, "C"), (2, "C"), (3, "Cl"), (4, "O")], [(1, 2, (1, 1)), (2, 3, (1, 0)), (2, 4, (0, 1))])
    yield dict(base, op="prune", graph=its, radius=0)
    yield dict(base, op="prune", graph=gens.copy_exact(its), radius=1, ih=False)
    yield dict(base, op="its_prune", graph=gens.copy_exact(its), radius=0)
    yield dict(base, op="rc", graph=gens.copy_exact(its), radius=0)
    # no reaction centre: empty start list, everything is pruned
    norc = _g([(3, "C"), (5, "C")], [(3, 5, (1, 1))])
    yield dict(base, op="prune", graph=norc, radius=1)
    # error paths
    yield dict(base, op="prune", graph=nx.Graph(), radius=1)
    yield dict(base, op="unreach", graph=gens.copy_exact(pentane), start=[7], radius=1)
    yield dict(base, op="rc", graph=_g([(0, "C"), (1, "C")], [(0, 1, 1)]), radius=0)
    # a real reaction through the library's own constructor (ids = map numbers)
    real = ITS.from_smiles("[CH3:1][CH2:2][CH2:5][Cl:3].[OH2:4]>>[CH3:1][CH2:2][CH2:5][OH:4].[ClH:3]").graph
    yield dict(base, op="prune", graph=real, radius=1)
    yield dict(base, op="its_prune", graph=gens.copy_exact(real), radius=0, defaults=True)


# ----------------------------------------------------------------------------- implementation

ERRORS = (TypeError, KeyError, nx.NetworkXError, ValueError)


def run_impl(c):
    g = gens.copy_exact(c["graph"])
    before = gens.copy_exact(g)
    hist = None
    try:
        if c["op"] == "rc":
            out = ("ok", get_rc(g))
        elif c["op"] == "unreach":
            res = get_unreachable_nodes(g, list(c["start"]), radius=c["radius"])
            out = ("ok", [int(x) for x in res])
        elif c["op"] == "prune":
            if c.get("defaults"):
                out = ("ok", prune_its_to_rc(g))
            else:
                out = ("ok", prune_its_to_rc(g, radius=c["radius"], insert_hydrogens=c["ih"]))
        else:
            its = ITS(g)
            before = gens.copy_exact(g)       # ITS() itself completes the atom map in place
            if c.get("defaults"):
                its.prune()
            else:
                its.prune(radius=c["radius"], insert_hydrogens=c["ih"])
            out = ("ok", its.graph)
            hist = _prune_again(its, c)
    except ERRORS as e:
        name = "NetworkXError" if isinstance(e, nx.NetworkXError) else type(e).__name__
        out = (name, str(e))
    return out + (gens.graphs_identical(before, g), hist)


def _prune_again(its, c):
    """history on ONE ITS object: prune again (same radius / one more / one less, hydrogens off or on) and compare with
    prune_its_to_rc on a copy of the graph the object held before that call - what an earlier call did to the object
    (beyond its graph) must not matter. Returns a message or None."""
    r0 = 1 if c.get("defaults") else c["radius"]
    z = zlib.crc32(repr((c["radius"], c["ih"], c["graph"].number_of_nodes(), sorted(map(repr, c["graph"].nodes)))).encode())
    r2 = max(0, r0 + [0, 0, 1, -1][z % 4])
    ih2 = bool((z >> 3) % 3 == 0)
    state = gens.copy_exact(its.graph)
    try:
        expect = ("ok", prune_its_to_rc(gens.copy_exact(state), radius=r2, insert_hydrogens=ih2))
    except ERRORS as e:
        expect = (type(e).__name__, None)
    try:
        its.prune(radius=r2, insert_hydrogens=ih2)
        got = ("ok", its.graph)
    except ERRORS as e:
        got = (type(e).__name__, None)
    if got[0] != expect[0] or (got[0] == "ok" and not gens.graphs_identical(got[1], expect[1])):
        return ("a second ITS.prune(radius=%d, insert_hydrogens=%s) on the same ITS object differs from prune_its_to_rc on a copy "
                "of the graph the object held (%d nodes): %s vs %s" % (
                    r2, ih2, state.number_of_nodes(),
                    got[0] if got[0] != "ok" else sorted(map(repr, got[1].nodes)),
                    expect[0] if expect[0] != "ok" else sorted(map(repr, expect[1].nodes))))
    return None


def params(c):
    """(radius, insert_hydrogens) actually in force"""
    if c.get("defaults"):
        return (0 if c["op"] == "prune" else 1), True
    return c["radius"], c["ih"]


def res_term(out, f, ty):
    if out[0] == "ok":
        return "(@Ok %s %s)" % (ty, f(out[1]))
    return "(@Err %s %s)" % (ty, out[0])


def coq_case(c, out):
    if not int64_safe(c):
        raise ct.Unrepresentable("walk counts may leave the int64 range (outside the modelled domain)")
    defs = {"g": ct.graph(c["graph"])}
    r, ih = params(c)
    if c["op"] == "rc":
        defs["out"] = res_term(out, ct.graph, "graph")
        model = "get_rc $g"
        agree = "res_eqb graph_equivb (%s) $out" % model
        spec = "wfb $g && rc_okb $g $out"
    elif c["op"] == "unreach":
        defs["start"] = "(%s : list Z)" % ct.lst([ct.z(x) for x in c["start"]])
        defs["out"] = res_term(out, lambda l: "(%s : list Z)" % ct.lst([ct.z(x) for x in l]), "(list Z)")
        model = "get_unreachable_nodes $g $start %s" % ct.nat(r)
        agree = "res_eqb (list_eqb Z.eqb) (%s) $out" % model
        spec = "wfb $g && unreachable_okb $g $start %s $out" % ct.nat(r)
    elif c["op"] == "prune":
        defs["out"] = res_term(out, ct.graph, "graph")
        model = "prune_its_to_rc $g %s %s" % (ct.nat(r), ct.b(ih))
        agree = "res_eqb graph_eqb (%s) $out" % model
        spec = "wfb $g && prune_okb $g %s %s $out" % (ct.nat(r), ct.b(ih))
    else:
        defs["out"] = res_term(out, ct.graph, "graph")
        defs["g1"] = "(match complete_aam %s OffMin with Some x => x | None => [] end : graph)" % defs["g"]
        model = "prune_its_to_rc $g1 %s %s" % (ct.nat(r), ct.b(ih))
        agree = "is_some (complete_aam $g OffMin) && res_eqb graph_eqb (%s) $out" % model
        spec = "wfb $g1 && prune_okb $g1 %s %s $out" % (ct.nat(r), ct.b(ih))
    return {"defs": defs, "checks": {"agree": agree, "spec": spec}, "diag": [model]}


def describe(c):
    return {"op": c["op"], "start": list(c["start"]), "radius": c["radius"], "ih": c["ih"],
            "defaults": bool(c.get("defaults")), "scheme": c["scheme"], "kind": c["kind"],
            "wrap": c.get("wrap", 0), "graph": ct.graph_py(c["graph"])}


def from_json(d):
    return {"op": d["op"], "start": list(d["start"]), "radius": d["radius"], "ih": d["ih"],
            "defaults": d.get("defaults", False), "scheme": d["scheme"], "kind": d["kind"],
            "wrap": d.get("wrap", 0), "graph": ct.graph_from_py(d["graph"])}


def describe_out(out):
    if out[0] != "ok":
        return {"status": out[0], "msg": out[1]}
    if isinstance(out[1], list):
        return {"status": "ok", "unreachable": out[1]}
    return {"status": "ok", "graph": ct.graph_py(out[1])}


def key(c):
    return (c["op"], ct.graph_canon(c["graph"]), tuple(c["start"]), params(c), bool(c.get("defaults")))


def nontrivial(c, out):
    if out[0] != "ok":
        return False
    n = c["graph"].number_of_nodes()
    if c["op"] == "rc":
        return out[1].number_of_edges() >= 1
    if c["op"] == "unreach":
        return 0 < len(out[1]) < n
    kept = [x for x in out[1].nodes if x in c["graph"].nodes]
    return 0 < len(kept) < n


def classes(c, out):
    yield "op=" + c["op"]
    yield "scheme=" + c["scheme"]
    yield "result=" + out[0]
    yield "kind=" + c["kind"].split("/")[0]
    if c["kind"].startswith("big"):
        yield "big:op=" + c["op"]
        yield "big:some D_sum entry is a positive multiple of " + (str(c.get("wrap")) if c.get("wrap") else "nothing searched/found")
        n = c["graph"].number_of_nodes()
        yield "big:nodes=" + ("<=20" if n <= 20 else "21-30" if n <= 30 else ">30")
    r, ih = params(c)
    yield "radius=" + (str(r) if r < 4 else "4-7" if r < 8 else "8-12" if r < 13 else "13+")
    if c["op"] == "unreach":
        yield "starts=" + ("0" if not c["start"] else "1" if len(c["start"]) == 1 else "many")
        if out[0] == "ok":
            yield "unreachable=" + ("none" if not out[1] else "all" if len(out[1]) == c["graph"].number_of_nodes() else "some")
    if c["op"] in ("prune", "its_prune"):
        yield "insert_hydrogens=" + str(ih)
        if out[0] == "ok":
            new = [x for x in out[1].nodes if x not in c["graph"].nodes]
            yield "hydrogens=" + ("0" if not new else "1" if len(new) == 1 else "2+")
            kept = len(out[1].nodes) - len(new)
            yield "kept=" + ("none" if kept == 0 else "all" if kept == c["graph"].number_of_nodes() else "some")
    if c["op"] == "rc" and out[0] == "ok":
        yield "rc_edges=" + str(min(out[1].number_of_edges(), 3))


def py_invariants(c, out):
    msgs = []
    if not out[2]:
        msgs.append("the argument graph was mutated by %s" % c["op"])
    if len(out) > 3 and out[3]:
        msgs.append(out[3])
    return msgs
