"""C09 — the ITS graph superimposes reactant and product bond-for-bond.
Correspondence: Model.Its.get_its ~ fgutils.its.get_its (with _add_its_nodes, _add_its_edges),
Model.Its.ITS_from_graphs ~ fgutils.its.ITS.from_smiles after RDKit parsing."""
import lib
import gens
import coqterm as ct
import networkx as nx
from fgutils.its import get_its, ITS
from fgutils.rdkit import smiles_to_graph, graph_to_smiles

ID = "C09"
REPEAT_PROBE = True   # engine: repeat 1 call in 5 after editing its first result in place (purity / no shared state)
PROPS = "Props/C09.v"
MODEL_FILES = ["Model/Its.v", "Spec/ItsSpec.v", "Spec/ItsCheck.v"]
IMPORTS = "From FGV Require Import Model.Aam Model.Its Spec.ItsSpec Spec.ItsCheck."
CHECKS = ["agree", "spec", "invariant"]
CORRESPONDENCE = ("Model.Its.get_its (build_eta, add_its_nodes, add_its_edges) ~ fgutils.its.get_its "
                  "(_add_its_nodes, _add_its_edges); Model.Its.ITS_from_graphs ~ ITS.from_smiles after "
                  "fgutils.rdkit.smiles_to_graph; compared as labelled graphs (node -> attributes incl. idx_map, "
                  "edge -> label), node and adjacency order are not part of the property")
RULE = ("symbol alphabet: heavy atoms, and in 55% of the random cases also the parser's lower-case aromatic symbols "
        "(c n o s b p), wildcard R, the '#' placeholder, H, multi-letter and unusual symbols (Xx, Sn, Se, Mg); 12% of the "
        "get_its cases are the two split_its halves of parse(<generated ITS pattern>, init_aam=True) (lower-case atoms, "
        "wildcards, labelled nodes with labels / is_labeled), some map numbers removed, re-identified independently; "
        "random molecule G (gens.rand_mol, 1-8 atoms, rings, orders 1/1.5/2/3) and H = G after random bond edits "
        "(change order, delete, add); map numbers: identity / shuffled / offset / starting at 0; partial maps (aam "
        "missing, negative or 0 on one or both sides); one-sided atoms (deleted on one side, extra atoms with fresh, "
        "absent or negative numbers); differing symbols on the H side; 4% non-injective maps (agree only); node ids of "
        "G and H re-assigned independently (contiguous/offset/sparse/negative/shuffled insertion order); second stream: "
        "ITS.from_smiles on RDKit-written mapped reaction SMILES of C/N/O molecules (RDKit supplies the ids); every get_its "
        "case is also run under a second independent renaming/reordering of G and H and the two implementation outputs are "
        "compared with equiv_mod_idxb (check 'invariant'); 60% of the from_smiles cases are histories: the string is read, the "
        "first ITS object is edited in place (remove node/edge, rename symbol, relabel edge, add node, change aam, drop "
        "idx_map) or used (prune, split, to_smiles), the string is read AGAIN and the SECOND result is compared with the "
        "model/spec and must not share its graph or any attribute dict with the first; 15% of the get_its cases are "
        "derivation histories: the base graph OBJECTS go through get_its, then the graphs under test are derived from those "
        "objects with Graph.copy / nx.relabel_nodes(copy=True|False) / subgraph(..).copy() / the same object, ids permuted "
        "and map numbers permuted, renumbered or dropped, and get_its on the derived objects is compared with the model on "
        "the derived contents; 5% dispatch cases: well-formed and malformed strings (three / four parts, '>>>', single '>', a "
        "part RDKit rejects on either side, molecule SMILES, empty string, empty sides, spaces, trailing '>>') go through "
        "smiles_to_graph, reaction_smiles_to_graph and ITS.from_smiles; answer kind, exception class, error kind and the part "
        "named in the message are compared with the documented dispatch model (RDKit's acceptance of a part is the oracle), "
        "accepted reactions continue as from_smiles cases; every call is checked to leave nodes, adjacency, all attribute dicts and G.graph / H.graph "
        "of its arguments unchanged. "
        "non-trivial = ITS with >= 2 nodes and >= 1 edge; distinct = distinct (G, H) incl. ids, orders and maps")
TRUSTED = ["model of the attribute dict as a record of the five keys FGUtils uses",
           "RDKit SMILES parser (fgutils.rdkit.smiles_to_graph) in the from_smiles stream: its output graphs are the model's input"]
ASSUMPTIONS = ["node ids and map numbers are Python ints; every node of G and H carries 'symbol' (KeyError otherwise) and "
               "every edge of G and H a scalar 'bond' that is a multiple of 0.5",
               "theorems assume injective atom maps on each side (no two nodes of one graph share a map number >= 0); "
               "on non-injective inputs only model/implementation agreement is checked"]

POLICIES = ["identity", "shuffled", "partial", "partial", "onesided", "onesided", "mixed", "mixed", "zero", "noninj"]


def injective(g):
    ks = [d["aam"] for _, d in g.nodes(data=True) if "aam" in d and d["aam"] >= 0]
    return len(ks) == len(set(ks))


def edit_bonds(rng, h, k, orders=(1, 1, 2, 1.5, 3)):
    nodes = list(h.nodes)
    for _ in range(k):
        op = rng.choice(["change", "delete", "add", "add"])
        es = list(h.edges)
        if op == "change" and es:
            u, v = rng.choice(es)
            h[u][v]["bond"] = rng.choice(orders)
        elif op == "delete" and es:
            h.remove_edge(*rng.choice(es))
        elif len(nodes) >= 2:
            u, v = rng.sample(nodes, 2)
            if not h.has_edge(u, v):
                h.add_edge(u, v, bond=rng.choice(orders))


# symbols as the pattern parser produces them: lower-case aromatic atoms, wildcard R, the '#' placeholder of labelled
# nodes, multi-letter and unusual symbols -- "that atom's symbol" must reach the ITS verbatim
WIDE_SYMS = gens.HEAVY + ["c", "c", "c", "n", "n", "o", "s", "b", "p", "R", "R", "H", "Xx", "Sn", "Se", "#", "Mg"]


def pick_syms(rng):
    return gens.HEAVY if rng.random() < 0.45 else WIDE_SYMS


def make_reaction(rng, policy=None):
    policy = policy or rng.choice(POLICIES)
    syms = pick_syms(rng)
    g = gens.rand_mol(rng, 1, 8, syms=syms)
    n = g.number_of_nodes()
    h = gens.copy_exact(g)
    edit_bonds(rng, h, rng.choice([0, 1, 1, 2, 3, 4]))
    start = rng.choice([1, 1, 1, 1, 2, 7]) if policy != "zero" else 0
    nums = list(range(start, start + n))
    if policy != "identity" and rng.random() < 0.8:
        rng.shuffle(nums)
    if policy in ("shuffled", "mixed") and rng.random() < 0.5:
        nums = rng.sample(range(start, start + 3 * n + 2), n)
    for i in range(n):
        g.nodes[i]["aam"] = nums[i]
        h.nodes[i]["aam"] = nums[i]
    if rng.random() < 0.15:
        h.nodes[rng.randrange(n)]["symbol"] = rng.choice(syms)
    if policy in ("partial", "mixed", "zero"):
        for _ in range(rng.randint(1, 3)):
            i = rng.randrange(n)
            side = rng.choice(["g", "h", "both"])
            how = rng.choice(["del", "del", "neg", "zero"])
            for x in ([g] if side == "g" else [h] if side == "h" else [g, h]):
                if how == "del":
                    x.nodes[i].pop("aam", None)
                elif how == "neg":
                    x.nodes[i]["aam"] = -rng.randint(1, 3)
                else:
                    x.nodes[i]["aam"] = 0
    if policy in ("onesided", "mixed"):
        fresh = max(nums) + 1
        nid = n
        for _ in range(rng.randint(1, 3)):
            x = rng.choice([g, h])
            how = rng.choice(["remove", "extra", "extra_unmapped", "extra_shared"])
            if how == "remove" and x.number_of_nodes() > 1:
                x.remove_node(rng.choice(list(x.nodes)))
            else:
                targets = list(x.nodes)
                attrs = {"symbol": rng.choice(syms)}
                if how == "extra":
                    attrs["aam"] = fresh
                    fresh += 1
                elif how == "extra_shared" and rng.random() < 0.5:
                    attrs["aam"] = -1
                x.add_node(nid, **attrs)
                if targets:
                    x.add_edge(nid, rng.choice(targets), bond=rng.choice([1, 2]))
                if how == "extra_shared":
                    # the same new atom on the other side too, bonded elsewhere
                    y = h if x is g else g
                    a2 = dict(attrs)
                    a2["aam"] = fresh
                    x.nodes[nid]["aam"] = fresh
                    fresh += 1
                    t2 = list(y.nodes)
                    y.add_node(nid, **a2)
                    if t2 and rng.random() < 0.7:
                        y.add_edge(nid, rng.choice(t2), bond=rng.choice([1, 2, 3]))
                nid += 1
    if policy == "noninj":
        x = rng.choice([g, h])
        ns = list(x.nodes)
        if len(ns) >= 2:
            a, b2 = rng.sample(ns, 2)
            if "aam" in x.nodes[a]:
                x.nodes[b2]["aam"] = x.nodes[a]["aam"]
    if rng.random() < 0.12:
        # stale idx_map attributes on the inputs (as the halves of split_its of an earlier ITS carry them): get_its reads
        # ids from the graphs, never from this attribute
        for x in (g, h):
            ns = list(x.nodes)
            for nd in ns:
                if rng.random() < 0.7:
                    x.nodes[nd]["idx_map"] = (rng.choice(ns + [55]), rng.choice(ns + [-3]))
        policy = policy + "+idx_map"
    g0, h0 = g, h
    g, sg, _ = gens.reid(rng, g0)
    h, sh, _ = gens.reid(rng, h0)
    # the same reaction under a second, independent renaming / reordering (check "invariant")
    g2, _, _ = gens.reid(rng, g0)
    h2, _, _ = gens.reid(rng, h0)
    return {"op": "get_its", "G": g, "H": h, "G2": g2, "H2": h2, "policy": policy, "scheme": sg + "/" + sh}


def make_parsed_reaction(rng, pattern=None):
    """Reactant / product graphs as the library itself derives them from an ITS pattern: the two halves
    split_its returns for parse(pattern, init_aam=True) (lower-case aromatic atoms, wildcards, labelled nodes with their
    labels / is_labeled attributes), optionally with some map numbers removed, re-identified independently."""
    from fgutils.parse import parse
    from fgutils.its import split_its
    from props.c10 import rand_pattern
    for _ in range(30):
        pat = pattern or rand_pattern(rng, its=rng.random() < 0.9)
        try:
            its = parse(pat, init_aam=True, idx_offset=rng.choice([0, 0, 1, 4]))
        except Exception:
            if pattern:
                raise
            continue
        if pattern or any(d["symbol"].islower() or d["symbol"] in ("R", "#") for _, d in its.nodes(data=True)):
            break
    g, h = split_its(its)
    if rng.random() < 0.3:
        x = rng.choice([g, h])
        x.nodes[rng.choice(list(x.nodes))].pop("aam", None)
    g0, h0 = g, h
    g, sg, _ = gens.reid(rng, g0)
    h, sh, _ = gens.reid(rng, h0)
    g2, _, _ = gens.reid(rng, g0)
    h2, _, _ = gens.reid(rng, h0)
    return {"op": "get_its", "G": g, "H": h, "G2": g2, "H2": h2, "policy": "parsed", "scheme": sg + "/" + sh,
            "pattern": pat}


VAL = {"C": 4, "N": 3, "O": 2}


def rand_valid_mol(rng, nmax=7):
    """C/N/O skeleton with integer orders that respects valences (implicit H fills the rest)."""
    n = rng.randint(2, nmax)
    g = nx.Graph()
    free = {}
    for i in range(n):
        s = rng.choice(["C", "C", "C", "N", "O"])
        if i > 0:
            cands = [j for j in range(i) if free[j] >= 1]
            if not cands:
                break
        g.add_node(i, symbol=s)
        free[i] = VAL[s]
        if i > 0:
            j = rng.choice(cands)
            o = rng.choice([1, 1, 2, 3])
            o = min(o, free[i], free[j])
            g.add_edge(j, i, bond=o)
            free[i] -= o
            free[j] -= o
    return g, free


def make_smiles_case(rng, full=False):
    g, free = rand_valid_mol(rng)
    h = gens.copy_exact(g)
    fh = dict(free)
    for _ in range(rng.randint(0, 3)):
        es = list(h.edges)
        op = rng.choice(["delete", "add", "change"])
        if op == "delete" and es:
            u, v = rng.choice(es)
            fh[u] += h[u][v]["bond"]
            fh[v] += h[u][v]["bond"]
            h.remove_edge(u, v)
        elif op == "add" and h.number_of_nodes() >= 2:
            u, v = rng.sample(list(h.nodes), 2)
            if not h.has_edge(u, v) and fh[u] >= 1 and fh[v] >= 1:
                o = min(rng.choice([1, 1, 2]), fh[u], fh[v])
                h.add_edge(u, v, bond=o)
                fh[u] -= o
                fh[v] -= o
        elif op == "change" and es:
            u, v = rng.choice(es)
            old = h[u][v]["bond"]
            new = rng.choice([1, 2, 3])
            if new - old <= min(fh[u], fh[v]):
                h[u][v]["bond"] = new
                fh[u] -= new - old
                fh[v] -= new - old
    nums = list(range(1, g.number_of_nodes() + 1))
    rng.shuffle(nums)
    for i, k in zip(list(g.nodes), nums):
        g.nodes[i]["aam"] = k
        h.nodes[i]["aam"] = k
    if not full and rng.random() < 0.3:
        x = rng.choice([g, h])
        x.nodes[rng.choice(list(x.nodes))].pop("aam")
    smiles = graph_to_smiles(g) + ">>" + graph_to_smiles(h)
    c = smiles_case(smiles)
    # the graphs the strings were written from (used by C10's SMILES leg as an oracle independent of the reader)
    c["srcG"], c["srcH"] = g, h
    return c


def smiles_case(smiles):
    g, h = smiles_to_graph(smiles)
    return {"op": "from_smiles", "smiles": smiles, "G": g, "H": h, "policy": "smiles", "scheme": "rdkit/rdkit"}


# ---- fgutils.rdkit.smiles_to_graph / reaction_smiles_to_graph dispatch -------------------------------------------
# Tiny model of the dispatch (a documented Python-side invariant; RDKit's acceptance of a part is the oracle `valid`):
#   parts = smiles.split(">>")
#   smiles_to_graph:          1 part  -> molecule graph if valid(part) else ValueError("... unable to parse ...")
#                             2 parts -> (graph, graph) if both valid, else ValueError naming the FIRST invalid part
#                             else    -> ValueError("Expected reaction SMILES ...")      (checked before any parsing)
#   reaction_smiles_to_graph: as above, but 1 part is also the "Expected reaction SMILES" error
#   ITS.from_smiles:          a reaction -> an ITS; the ValueErrors above propagate; a molecule SMILES raises
GARBAGE = ["xx", "C(", "1CC", "C>O", "[Zz]", "C1CC", "c1ccc1", "C=#C"]
DISPATCH_KINDS = ["three_parts", "four_parts", "triple_gt", "single_gt", "bad_right", "bad_left", "bad_both", "molecule",
                  "molecule2", "empty", "only_arrow", "empty_right", "empty_left", "spaces", "trailing_arrow", "ok"]


def _rdkit_valid(part):
    import rdkit.Chem as Chem
    return Chem.MolFromSmiles(part) is not None


def dispatch_model(smiles, valid, reaction_only=False):
    parts = smiles.split(">>")
    if len(parts) == 1 and not reaction_only:
        return ("Mol",) if valid(parts[0]) else ("ValueError", "parse", parts[0])
    if len(parts) != 2:
        return ("ValueError", "arity")
    for p in parts:
        if not valid(p):
            return ("ValueError", "parse", p)
    return ("Rxn",)


def _observe(f, smiles):
    try:
        v = f(smiles)
    except Exception as e:
        msg = str(e)
        if isinstance(e, ValueError) and msg.startswith("Expected reaction SMILES"):
            return ("ValueError", "arity"), None
        if isinstance(e, ValueError) and msg.startswith("RDKit was unable to parse SMILES '") and msg.endswith("'."):
            return ("ValueError", "parse", msg[len("RDKit was unable to parse SMILES '"):-2]), None
        return (type(e).__name__, "other", msg[:80]), None
    if isinstance(v, tuple) and len(v) == 2 and all(isinstance(x, nx.Graph) for x in v):
        return ("Rxn",), v
    if isinstance(v, nx.Graph):
        return ("Mol",), v
    if isinstance(v, ITS):
        return ("ITS",), v
    return ("value", type(v).__name__), v


def make_dispatch_case(rng):
    from fgutils.rdkit import graph_to_smiles as _g2s
    base = make_smiles_case(rng)["smiles"]
    a, b = base.split(">>")
    kind = rng.choice(DISPATCH_KINDS)
    junk = rng.choice(GARBAGE)
    s = {"three_parts": a + ">>" + b + ">>" + a, "four_parts": a + ">>" + b + ">>" + a + ">>" + junk,
         "triple_gt": a + ">>>" + b, "single_gt": a + ">" + b, "bad_right": a + ">>" + junk, "bad_left": junk + ">>" + b,
         "bad_both": junk + ">>" + rng.choice(GARBAGE), "molecule": a, "molecule2": rng.choice(["CC", "C=O", "[CH3:1][OH:2]"]),
         "empty": "", "only_arrow": ">>", "empty_right": a + ">>", "empty_left": ">>" + b,
         "spaces": " " + a + " >> " + b, "trailing_arrow": a + ">>" + b + ">>", "ok": base}[kind]
    return dispatch_case(s, kind)


def dispatch_case(s, kind):
    from rdkit import RDLogger
    RDLogger.DisableLog("rdApp.*")
    try:
        g, h = nx.Graph(), nx.Graph()
        if dispatch_model(s, _rdkit_valid) == ("Rxn",):
            g, h = smiles_to_graph(s)
    finally:
        RDLogger.EnableLog("rdApp.*")
    return {"op": "dispatch", "smiles": s, "kind": kind, "G": g, "H": h, "policy": "dispatch", "scheme": "rdkit/rdkit"}


def run_dispatch(c):
    from rdkit import RDLogger
    from fgutils.rdkit import reaction_smiles_to_graph, mol_smiles_to_graph
    s = c["smiles"]
    RDLogger.DisableLog("rdApp.*")
    try:
        o1, v1 = _observe(smiles_to_graph, s)
        o2, v2 = _observe(reaction_smiles_to_graph, s)
        o3, v3 = _observe(ITS.from_smiles, s)
        parts_ok = True
        if o1 == ("Rxn",):
            ps = s.split(">>")
            parts_ok = all(gens.graphs_identical(x, mol_smiles_to_graph(p)) for x, p in zip(v1, ps)) and \
                all(gens.graphs_identical(x, y) for x, y in zip(v1, v2 or (None, None)) if y is not None)
        elif o1 == ("Mol",):
            parts_ok = gens.graphs_identical(v1, mol_smiles_to_graph(s))
    finally:
        RDLogger.EnableLog("rdApp.*")
    out = v3.graph if o3 == ("ITS",) else nx.Graph()
    return ("ok", out, True, None, False, {"smiles_to_graph": o1, "reaction_smiles_to_graph": o2, "from_smiles": o3,
                                          "parts_ok": parts_ok})


def dispatch_invariants(c, out):
    from rdkit import RDLogger
    RDLogger.DisableLog("rdApp.*")
    try:
        m1 = dispatch_model(c["smiles"], _rdkit_valid)
        m2 = dispatch_model(c["smiles"], _rdkit_valid, reaction_only=True)
    finally:
        RDLogger.EnableLog("rdApp.*")
    obs = out[5]
    msgs = []
    if tuple(obs["smiles_to_graph"]) != m1:
        msgs.append("smiles_to_graph(%r): observed %r, dispatch model says %r" % (c["smiles"], obs["smiles_to_graph"], m1))
    if tuple(obs["reaction_smiles_to_graph"]) != m2:
        msgs.append("reaction_smiles_to_graph(%r): observed %r, dispatch model says %r"
                    % (c["smiles"], obs["reaction_smiles_to_graph"], m2))
    fs = tuple(obs["from_smiles"])
    if m1 == ("Rxn",) and fs != ("ITS",):
        msgs.append("ITS.from_smiles(%r) did not return an ITS: %r" % (c["smiles"], fs))
    elif m1[0] == "ValueError" and fs != m1:
        msgs.append("ITS.from_smiles(%r): observed %r, expected the dispatch error %r" % (c["smiles"], fs, m1))
    elif m1 == ("Mol",) and fs in (("ITS",), ("Rxn",), ("Mol",)):
        msgs.append("ITS.from_smiles(%r) accepted a molecule SMILES" % (c["smiles"],))
    if not obs["parts_ok"]:
        msgs.append("smiles_to_graph(%r) is not (mol_smiles_to_graph(left), mol_smiles_to_graph(right))" % (c["smiles"],))
    return msgs


DERIV_HOWS = ["copy", "relabel_copy", "relabel_copy", "relabel_inplace", "subgraph", "same"]


def rand_deriv(rng, g, aam_map=None):
    """A JSON-able recipe that derives a second graph from the graph OBJECT g with real networkx operations
    (Graph.copy, nx.relabel_nodes copy=True / copy=False, Graph.subgraph(..).copy(), or the same object again),
    ids permuted and / or map numbers changed."""
    ns = list(g.nodes)
    how = rng.choice(DERIV_HOWS)
    spec = {"how": how}
    if how == "relabel_copy":
        new = list(ns)
        rng.shuffle(new)
        if rng.random() < 0.3:      # partial mapping, some fresh ids
            new = [x if rng.random() < 0.6 else 200 + i for i, x in enumerate(new)]
        spec["mapping"] = [[a, b] for a, b in zip(ns, new) if a != b or rng.random() < 0.5]
    elif how == "relabel_inplace":
        base = max([abs(x) for x in ns] + [0]) + 50
        new = [base + i for i in range(len(ns))]
        rng.shuffle(new)
        spec["mapping"] = [[a, b] for a, b in zip(ns, new)]
    elif how == "subgraph":
        k = max(1, len(ns) - rng.randint(0, 2))
        spec["nodes"] = rng.sample(ns, k)
    if aam_map is not None:
        spec["aam_map"] = aam_map
    return spec


def rand_aam_map(rng, graphs):
    """old map number -> new map number / None (attribute deleted): permutation, fresh numbers, drops."""
    ks = sorted({d["aam"] for x in graphs for _, d in x.nodes(data=True) if "aam" in d})
    if not ks:
        return []
    policy = rng.choice(["permute", "fresh", "drop", "mixed", "none"])
    if policy == "none":
        return []
    new = list(ks)
    if policy in ("permute", "mixed"):
        rng.shuffle(new)
    out = []
    fresh = max(ks + [0]) + 1
    for a, b in zip(ks, new):
        r = rng.random()
        if policy in ("fresh", "mixed") and r < 0.35:
            b = fresh
            fresh += 1
        elif policy in ("drop", "mixed") and r > 0.75:
            b = None
        if a != b:
            out.append([a, b])
    return out


def derive(g, spec):
    """Apply a rand_deriv recipe to the graph object g (relabel_inplace and same return g itself)."""
    how = spec["how"]
    if how == "copy":
        d = g.copy()
    elif how == "relabel_copy":
        d = nx.relabel_nodes(g, {a: b for a, b in spec["mapping"]}, copy=True)
    elif how == "relabel_inplace":
        d = nx.relabel_nodes(g, {a: b for a, b in spec["mapping"]}, copy=False)
    elif how == "subgraph":
        d = g.subgraph(spec["nodes"]).copy()
    else:
        d = g
    m = {a: b for a, b in spec.get("aam_map", [])}
    for n in d.nodes:
        dd = d.nodes[n]
        if "aam" in dd and dd["aam"] in m:
            if m[dd["aam"]] is None:
                del dd["aam"]
            else:
                dd["aam"] = m[dd["aam"]]
    return d


def add_derivation(rng, c):
    """Turn a get_its case into a history case: the base graphs are first passed to get_its, then the graphs under
    test are DERIVED from those very objects; c["G"], c["H"] become the derived graphs' contents (computed on
    untouched copies), which is what the model and the checkers see."""
    g0, h0 = c["G"], c["H"]
    am = rand_aam_map(rng, [g0, h0])
    dg = rand_deriv(rng, g0, am if rng.random() < 0.8 else [])
    dh = rand_deriv(rng, h0, am if rng.random() < 0.6 else [])
    c["G0"], c["H0"], c["derivG"], c["derivH"] = g0, h0, dg, dh
    c["G"] = gens.copy_exact(derive(gens.copy_exact(g0), dg))
    c["H"] = gens.copy_exact(derive(gens.copy_exact(h0), dh))
    c["policy"] = "history"
    c.pop("G2", None)
    c.pop("H2", None)
    return c


def graph_level_state(g):
    import copy
    return copy.deepcopy(dict(g.graph))


def args_untouched(obj, ref, state):
    """The argument object still has the contents of ref (nodes, adjacency, every attribute dict) and its
    graph-level attribute dict G.graph is what it was."""
    return gens.graphs_identical(obj, ref) and dict(obj.graph) == state


HIST_KINDS = ["remove_node", "rename_symbol", "remove_edge", "relabel_edge", "add_node", "change_aam",
              "drop_idx_map", "prune", "split", "to_smiles"]


def apply_hist(obj, hist):
    """Edit an ITS object (mostly its .graph, in place) the way a caller legitimately may."""
    import random
    rng = random.Random(hist["seed"])
    g = obj.graph
    kind = hist["kind"]
    ns = list(g.nodes)
    es = list(g.edges)
    if kind == "remove_node" and ns:
        g.remove_node(rng.choice(ns))
    elif kind == "rename_symbol" and ns:
        g.nodes[rng.choice(ns)]["symbol"] = "Xx"
    elif kind == "remove_edge" and es:
        g.remove_edge(*rng.choice(es))
    elif kind == "relabel_edge" and es:
        u, v = rng.choice(es)
        g[u][v]["bond"] = (9, 9)
    elif kind == "add_node":
        nid = (max(ns) + 1) if ns else 1
        g.add_node(nid, symbol="H", aam=nid)
        if ns:
            g.add_edge(nid, rng.choice(ns), bond=(1, 1))
    elif kind == "change_aam" and ns:
        g.nodes[rng.choice(ns)]["aam"] = 99
    elif kind == "drop_idx_map" and ns:
        g.nodes[rng.choice(ns)].pop("idx_map", None)
    elif kind == "prune":
        try:
            obj.prune(radius=rng.choice([0, 1]), insert_hydrogens=rng.random() < 0.5)
        except Exception:   # noqa
            pass
    elif kind == "split":
        obj.split()
    elif kind == "to_smiles":
        try:
            obj.to_smiles()
        except Exception:   # noqa
            pass


def shares_state(a, b):
    """Two graphs that must be independent objects: no shared graph, node-attribute or edge-attribute dict."""
    if a is b:
        return True
    for n in a._node:
        if n in b._node and a._node[n] is b._node[n]:
            return True
    for u in a._adj:
        for v, dd in a._adj[u].items():
            if u in b._adj and v in b._adj[u] and b._adj[u][v] is dd:
                return True
    return False


def generate(seed, tier, ncases=None):
    n = ncases or (800 if tier == "quick" else 30000)
    for i in range(n):
        rng = lib.rng_for(seed, ID, i)
        if rng.random() < 0.05:
            try:
                yield make_dispatch_case(rng)
                continue
            except Exception:
                pass
        if rng.random() < 0.12:
            try:
                c = make_smiles_case(rng)
                if rng.random() < 0.6:
                    # history: read the string, edit the first result in place, read the string AGAIN;
                    # the second result is the one compared with the model / specification
                    c["hist"] = {"kind": rng.choice(HIST_KINDS), "seed": rng.randrange(10 ** 6)}
                yield c
                continue
            except Exception:
                pass
        c = make_parsed_reaction(rng) if rng.random() < 0.12 else make_reaction(rng)
        if rng.random() < 0.15:
            c = add_derivation(rng, c)
        yield c


def corpus():
    # D12: atom mapped on the reactant side only
    yield smiles_case("[C:1][O:2][C:3]>>[C:1][O:2]")
    # D11: edge reported as (larger, smaller)
    g = nx.Graph()
    for i, k in [(0, 3), (1, 1), (2, 2)]:
        g.add_node(i, symbol="C", aam=k)
    g.add_edge(0, 1, bond=1)
    g.add_edge(1, 2, bond=2)
    h = gens.copy_exact(g)
    h.remove_edge(0, 1)
    h.add_edge(0, 2, bond=1)
    yield {"op": "get_its", "G": g, "H": h, "policy": "corpus", "scheme": "corpus"}
    # map number 0: node, but never an edge
    g2 = nx.Graph()
    g2.add_node(4, symbol="C", aam=0)
    g2.add_node(7, symbol="O", aam=1)
    g2.add_node(9, symbol="N", aam=2)
    g2.add_edge(4, 7, bond=1)
    g2.add_edge(7, 9, bond=1)
    yield {"op": "get_its", "G": g2, "H": gens.copy_exact(g2), "policy": "corpus", "scheme": "corpus"}
    yield smiles_case("[CH3:1][CH:2]=[O:3].[OH2:4]>>[CH3:1][CH:2]([OH:4])[OH:3]")
    # lower-case aromatic symbols, a wildcard and a labelled node must reach the ITS verbatim
    import random
    yield make_parsed_reaction(random.Random(1), "c1ccccn1<0,1>O")
    yield make_parsed_reaction(random.Random(2), "c1c(<1,0>Br)sc(<0,1>R)c1<,2>{alkyl}")
    for smi, kind in [("CC>>CO>>C", "three_parts"), ("C>>>O", "triple_gt"), ("CC>>xx", "bad_right"), ("CC", "molecule2"),
                      (">>", "only_arrow"), ("[CH3:1][OH:2]>>[CH3:1].[OH2:2]", "ok")]:
        yield dispatch_case(smi, kind)


def run_impl(c):
    if c["op"] == "dispatch":
        return run_dispatch(c)
    try:
        if "derivG" in c:
            # history: the base objects go through get_its first, the graphs under test are derived from them
            g0, h0 = gens.copy_exact(c["G0"]), gens.copy_exact(c["H0"])
            get_its(g0, h0)
            g, h = derive(g0, c["derivG"]), derive(h0, c["derivH"])
            if not (gens.graphs_identical(g, c["G"]) and gens.graphs_identical(h, c["H"])):
                return ("HarnessError", "derived graphs differ from the recorded contents")
        else:
            g, h = gens.copy_exact(c["G"]), gens.copy_exact(c["H"])
    except Exception as e:
        return (type(e).__name__, "while deriving: " + str(e))
    sg, sh = graph_level_state(g), graph_level_state(h)
    try:
        shared = False
        if c["op"] == "from_smiles" and "hist" in c:
            first = ITS.from_smiles(c["smiles"])
            g_first = first.graph
            apply_hist(first, c["hist"])
            second = ITS.from_smiles(c["smiles"])
            out = second.graph
            shared = second is first or shares_state(out, g_first) or shares_state(out, first.graph)
        elif c["op"] == "from_smiles":
            out = ITS.from_smiles(c["smiles"]).graph
        else:
            out = get_its(g, h)
    except Exception as e:  # the modelled domain never raises
        return (type(e).__name__, str(e))
    out2 = None
    if "G2" in c:
        try:
            out2 = get_its(gens.copy_exact(c["G2"]), gens.copy_exact(c["H2"]))
        except Exception as e:
            return (type(e).__name__, str(e))
    return ("ok", out, args_untouched(g, c["G"], sg) and args_untouched(h, c["H"], sh), out2, shared)


def check_domain(g):
    for n, d in g.nodes(data=True):
        if "symbol" not in d:
            raise ct.Unrepresentable("node %r without symbol" % (n,))
    for u, v, d in g.edges(data=True):
        if isinstance(d.get("bond"), (tuple, list)):
            raise ct.Unrepresentable("non-scalar bond in a molecule graph")


def coq_case(c, out):
    check_domain(c["G"])
    check_domain(c["H"])
    defs = {"G": ct.graph(c["G"]), "H": ct.graph(c["H"])}
    if out[0] != "ok":
        defs["out"] = "(empty_graph : graph)"
        return {"defs": defs, "checks": {"agree": "false", "spec": "false", "invariant": "false"}, "diag": ["get_its $G $H"]}
    defs["out"] = ct.graph(out[1])
    if c["op"] == "dispatch" and tuple(out[5]["from_smiles"]) != ("ITS",):
        # an error / molecule answer of the dispatch: nothing for the graph model to say, see py_invariants
        return {"defs": defs, "checks": {"agree": "true", "spec": "true", "invariant": "true"}, "diag": []}
    if c["op"] in ("from_smiles", "dispatch"):
        agree = "option_eqb graph_equivb (ITS_from_graphs $G $H) (Some $out)"
    else:
        agree = "graph_equivb (get_its $G $H) $out"
    # the injectivity hypothesis of the theorems is decided inside Coq (aam_injectiveb); the Python
    # classification is only cross-checked against it
    inj = injective(c["G"]) and injective(c["H"])
    spec = "its_checkb $G $H $out && Bool.eqb (aam_injectiveb $G && aam_injectiveb $H) %s" % ct.b(inj)
    invariant = "true"
    if out[3] is not None and inj:
        # C09_invariant evaluated on the implementation: the ITS of the re-identified reaction is the
        # same labelled graph, idx_map aside
        defs["out2"] = ct.graph(out[3])
        invariant = "equiv_mod_idxb $out $out2"
    return {"defs": defs, "checks": {"agree": agree, "spec": spec, "invariant": invariant},
            "diag": ["get_its $G $H", "graph_eqb (get_its $G $H) $out"]}


def describe(c):
    d = {"op": c["op"], "policy": c["policy"], "scheme": c["scheme"],
         "G": ct.graph_py(c["G"]), "H": ct.graph_py(c["H"])}
    if c["op"] in ("from_smiles", "dispatch"):
        d["smiles"] = c["smiles"]
    if "kind" in c:
        d["kind"] = c["kind"]
    if "pattern" in c:
        d["pattern"] = c["pattern"]
    if "hist" in c:
        d["hist"] = c["hist"]
    for k in ("G2", "H2", "G0", "H0"):
        if k in c:
            d[k] = ct.graph_py(c[k])
    for k in ("derivG", "derivH"):
        if k in c:
            d[k] = c[k]
    return d


def from_json(d):
    c = {"op": d["op"], "policy": d["policy"], "scheme": d["scheme"],
         "G": ct.graph_from_py(d["G"]), "H": ct.graph_from_py(d["H"])}
    if d["op"] in ("from_smiles", "dispatch"):
        c["smiles"] = d["smiles"]
    if "kind" in d:
        c["kind"] = d["kind"]
    if "pattern" in d:
        c["pattern"] = d["pattern"]
    if "hist" in d:
        c["hist"] = d["hist"]
    for k in ("G2", "H2", "G0", "H0"):
        if k in d:
            c[k] = ct.graph_from_py(d[k])
    for k in ("derivG", "derivH"):
        if k in d:
            c[k] = d[k]
    return c


def describe_out(out):
    return {"status": "ok", "its": ct.graph_py(out[1])} if out[0] == "ok" else {"status": out[0], "msg": out[1]}


def key(c):
    hist = (c["hist"]["kind"], c["hist"]["seed"]) if "hist" in c else None
    if c["op"] == "dispatch":
        hist = c["smiles"]
    if "derivG" in c:
        hist = (repr(c["derivG"]), repr(c["derivH"]), ct.graph_canon(c["G0"]), ct.graph_canon(c["H0"]))
    return (c["op"], hist, ct.graph_canon(c["G"]), ct.graph_canon(c["H"]))


def nontrivial(c, out):
    return out[0] == "ok" and out[1].number_of_nodes() >= 2 and out[1].number_of_edges() >= 1


def classes(c, out):
    yield "op=" + c["op"]
    if c["op"] == "dispatch":
        yield "dispatch=" + c["kind"]
        yield "dispatch_answer=" + "/".join(str(x) for x in out[5]["smiles_to_graph"][:2])
    if "hist" in c:
        yield "history=" + c["hist"]["kind"]
    if "derivG" in c:
        yield "derivedG=" + c["derivG"]["how"]
        yield "derivedH=" + c["derivH"]["how"]
        yield "derived_aam_changed=" + str(bool(c["derivG"].get("aam_map") or c["derivH"].get("aam_map")))
    yield "policy=" + c["policy"]
    yield "ids=" + c["scheme"]
    yield "result=" + out[0]
    g, h = c["G"], c["H"]
    yield "injective=" + str(injective(g) and injective(h))
    symset = {d.get("symbol", "") for x in (g, h) for _, d in x.nodes(data=True)}
    if any(sy.islower() for sy in symset):
        yield "symbols=lower_case_aromatic"
    if symset & {"R", "#", "Xx", "Sn", "Se", "Mg"}:
        yield "symbols=wildcard_or_unusual"
    mg = {d["aam"] for _, d in g.nodes(data=True) if d.get("aam", -1) >= 0}
    mh = {d["aam"] for _, d in h.nodes(data=True) if d.get("aam", -1) >= 0}
    yield "one_sided_numbers=" + ("none" if mg == mh else "G" if mh < mg else "H" if mg < mh else "both")
    if out[0] == "ok":
        its = out[1]
        kinds = set()
        for _, _, d in its.edges(data=True):
            a, b2 = d["bond"]
            kinds.add("formed" if a == 0 else "broken" if b2 == 0 else "unchanged" if a == b2 else "changed")
        for k in sorted(kinds):
            yield "edge=" + k
        yield "its_nodes=" + ("0" if len(its) == 0 else "1" if len(its) == 1 else "2-4" if len(its) <= 4 else "5+")
        if 0 in its.nodes:
            yield "map_number_0_node"


def py_invariants(c, out):
    msgs = []
    if out[0] != "ok":
        msgs.append("get_its raised %s: %s" % (out[0], out[1]))
    elif not out[2]:
        msgs.append("get_its changed one of its arguments (nodes, adjacency, an attribute dict or the graph-level dict G.graph)")
    elif c["op"] == "dispatch":
        msgs.extend(dispatch_invariants(c, out))
    elif out[4]:
        msgs.append("ITS.from_smiles returned an object sharing state with an earlier result for the same string "
                    "(history: %s)" % c["hist"]["kind"])
    return msgs
