"""Shared by c05.py / c06.py / c07.py: configuration-list and molecule generators, the
implementation runners (in process and in fresh interpreters under other PYTHONHASHSEED values),
and the Coq serialisation of configurations, trees and query answers.

Correspondence:
  Model.FGTree.build_config_tree_from_list  ~ fgutils.fgconfig.build_config_tree_from_list /
                                              FGConfigProvider.get_tree
  Model.Query.query / get                   ~ fgutils.query.FGQuery(...).get(graph)
Configurations are handed to the model as data: name, pattern string, the graph the REAL parser
returns for it, group_atoms, the parsed anti-patterns, len_exclude_nodes (FGConfig.__init__ after
the parser call is modelled by fgconfig_init)."""
import json
import os
import subprocess
import sys

import networkx as nx

import coqterm as ct
import gens
import lib

IMPORTS = ("From FGV Require Import Base.Sym Base.StrMap Model.Permute Model.Match Model.Hydrogens Gen.FGDefault "
           "Model.FGTree Model.FGDefaultCfg Model.Query Spec.Embedding Spec.FGCheck.")
MODEL_FILES = ["Model/FGTree.v", "Model/FGDefaultCfg.v", "Model/Query.v", "Spec/FGCheck.v"]

WORKER = os.path.join(os.path.dirname(os.path.abspath(__file__)), "_fg_worker.py")
SEEDS = ["0", "1", "2", "3", "4", "7", "random"]


# ------------------------------------------------------------------------------------------
# default list (the Python literal, for generators only; the model uses Gen/FGDefault.v)

def default_specs():
    from fgutils.fgconfig import _default_fg_config
    out = []
    for d in _default_fg_config:
        s = {"name": d["name"], "pattern": d["pattern"]}
        if "group_atoms" in d:
            s["group_atoms"] = list(d["group_atoms"])
        if "anti_pattern" in d:
            ap = d["anti_pattern"]
            s["anti_pattern"] = list(ap) if isinstance(ap, list) else [ap]
        out.append(s)
    return out


# ------------------------------------------------------------------------------------------
# generated configuration lists

# chains, branched, ring-closed super-patterns, wildcards, multi-bonds, hetero atoms
POOL = [
    "C", "O", "N", "RC", "RO", "RN", "RS", "CC", "C=C", "C#C", "CO", "C=O", "CN", "C#N", "CS", "RC=O", "RC#N",
    "RCR", "ROR", "RSR", "RNR", "CCC", "C1CC1", "C1=CC1", "CC=C", "C=CC", "CCO", "COC", "C1OC1", "C1CO1",
    "RC1CC1", "CCCC", "C1CCC1", "C1=CCC1", "CC(C)C", "C(C)(C)C", "RN(R)R", "COH", "CCOH", "ROH", "RC(=O)R", "RC(R)=O",
    "RC(=O)OR", "RC(=O)OH", "RC(=O)O", "C(=O)O", "RC(=O)N", "RC(=O)N(R)R", "RC(=O)Cl", "RC(=O)H", "N=O", "RN=O", "OO",
    "ROOR", "RC(=O)OOH", "C=CO", "C=COH", "C:C", "C:CO", "C:COH", "C:CN", "RC(OR)R", "RC(OR)(OR)R", "RC(R)1C(R)(R)O1",
    "R1CC1", "R1CCC1", "CCOCC", "RCOCR", "RCCCR", "RCRCR", "CS(=O)C", "CS(=O)(=O)C", "RS(=O)(=O)R", "RSSR", "CSC",
    "RC(=O)SR", "NC(=O)N", "ROC(=O)OR", "C=C=O", "RC(R)=C=O",
]
# patterns mixing lower-case (aromatic) and upper-case symbols: under the documented default mapper (ignore_case=True)
# upper-case patterns with ':' bonds lie below the lower-case ones; a case-sensitive mapper sees no relation
IC_POOL = ["C:C", "Rc", "ccc", "C:CO", "ccN", "cc(O)c", "C:C:C", "cccO", "c1ccccc1", "C:CN(R)R", "c1ccccc1O", "ccOC", "C:C(:C)N",
           "ccS", "RC:C", "c1ccncc1", "nc", "C:N", "co", "C:O"]


def chain_pool(max_heavy=4, alphabet="CO"):
    """all R-prefixed chains over the alphabet with 1..max_heavy heavy atoms: RC, RO, RCC, RCO, ..."""
    import itertools
    out = []
    for k in range(1, max_heavy + 1):
        for t in itertools.product(alphabet, repeat=k):
            out.append("R" + "".join(t))
    return out


def named(pats, prefix="g"):
    return [{"name": "%s%d_%s" % (prefix, i, p), "pattern": p} for i, p in enumerate(pats)]


# patterns with reaction-centre bonds <g,h> (the parser switches to ITS mode for the whole pattern: every bond becomes a
# pair); FGConfig(**dict) parses every pattern with a FRESH parser, and so does the harness for the model side
ITS_POOL = ["C(=O)(<0,1>R)<1,0>R", "C<1,2>C", "C<2,1>O", "C(<0,1>O)<1,0>N", "R<1,0>C=O", "C<1,2>CC", "C<2,1>OC", "R<0,1>C",
            "C(=O)<1,0>R", "C<1,2>C<2,1>C", "RC(<0,1>O)<1,0>N", "C<1,0>O", "C=O<0,1>R"]
ITS_ORDINARY = ["C=O", "RC=O", "RC(=O)R", "CO", "CC", "RC", "CCO", "CN", "C(=O)O", "RC(=O)OR", "CCC", "C=C"]

STAR_ENDS = ["O", "N", "S", "Cl", "F", "C", "Br"]


def star_pattern(arms, order=None):
    """a carbon centre with the given arms (each arm a string such as 'CO'), written with the arms in the given order"""
    arms = list(arms) if order is None else [arms[i] for i in order]
    return "C" + "".join("(%s)" % a for a in arms[:-1]) + arms[-1]


def star_family(rng):
    """a star with 2-3 equally labelled arms (CH2 groups) that END differently, and sub-patterns of it (one arm shortened,
    one arm end replaced by a wildcard, one arm dropped), every pattern written with its arms in its own random order:
    recognising the sub-pattern relation needs a swap of equally labelled neighbours of the centre"""
    k = rng.choice([2, 3, 3])
    ends = rng.sample(STAR_ENDS, k)
    arms = ["C" + e for e in ends]
    if rng.random() < 0.3:
        arms[rng.randrange(k)] = "CC" + ends[0]                    # a longer arm

    def written(a):
        order = list(range(len(a)))
        rng.shuffle(order)
        return star_pattern(a, order)
    pats = [written(arms)]
    i = rng.randrange(k)
    short = list(arms)
    short[i] = "C"                                                  # one arm shortened to its CH2
    pats.append(written(short))
    j = rng.randrange(k)
    wild = list(arms)
    wild[j] = "CR"                                                  # one arm end replaced by the wildcard
    pats.append(written(wild))
    if k == 3 and rng.random() < 0.7:
        t0 = rng.randrange(k)
        pats.append(written([a for t, a in enumerate(arms) if t != t0]))
    if rng.random() < 0.5:
        pats.append(written(["C"] * k))                             # the bare star
    pats += rng.sample(["CC", "RC", "CO", "CN", "CS", "CCC", "C"], rng.randint(0, 2))
    pats = list(dict.fromkeys(pats))
    rng.shuffle(pats)
    return named(pats, "s")


# small patterns that are useful as anti-patterns
ANTI_POOL = ["CC(O)O", "RC(=O)R", "C=O", "COH", "CCC", "C1CC1", "RC(=O)O", "OO", "CN", "RCO", "C(O)O", "RC(=O)OR", "CCl"]


def rand_config_list(rng, kmin=3, kmax=8, anti_list_p=0.2, ga_p=0.4, excl_p=0.0):
    k = rng.randint(kmin, kmax)
    anti_p = 0.4 if rng.random() < anti_list_p else 0.0
    r = rng.random()
    if r < 0.25:
        # a family around one seed so that the order is deep: patterns sharing a prefix
        seed = rng.choice(["C", "RC", "RO", "CO", "C=O", "CC", "RC(=O)", "RN"])
        fam = [p for p in POOL if p.startswith(seed) or seed in p]
        pats = rng.sample(fam, min(k, len(fam)))
        while len(pats) < k:
            p = rng.choice(POOL)
            if p not in pats:
                pats.append(p)
    else:
        pats = rng.sample(POOL, k)
    if rng.random() < 0.03:
        pats[rng.randrange(len(pats))] = rng.choice(pats)      # a repeated pattern string (-> AssertionError)
    specs = []
    from fgutils.parse import parse
    for i, p in enumerate(pats):
        s = {"name": "g%d_%s" % (i, p), "pattern": p}
        n = len(parse(p))
        if rng.random() < ga_p:
            m = rng.randint(1, n)
            s["group_atoms"] = sorted(rng.sample(range(n), m))
        if rng.random() < anti_p:
            s["anti_pattern"] = rng.sample(ANTI_POOL, rng.choice([1, 1, 2, 3]))
        if rng.random() < excl_p:
            s["len_exclude_nodes"] = rng.choice([[], ["R", "H"], ["H"]])
        specs.append(s)
    return specs


def spec_key(s):
    return (s["name"], s["pattern"], tuple(s.get("group_atoms", ())), tuple(s.get("anti_pattern", ())),
            tuple(s.get("len_exclude_nodes", ("R",)))) + ((("depth", s["depth"]),) if s.get("depth") is not None else ())


def has_anti(specs):
    return any(s.get("anti_pattern") for s in specs)


def default_excl(specs):
    return all("len_exclude_nodes" not in s or s["len_exclude_nodes"] == ["R"] for s in specs)


# ------------------------------------------------------------------------------------------
# molecules

FRAGMENTS = [
    "C=O", "CC(=O)C", "C(=O)O", "C(=O)OC", "CC(=O)OC", "C(=O)N", "C(=O)NC", "C(=O)N(C)C", "C(=O)Cl", "COC", "C1COC1",
    "C1COCCO1", "C1COCCOCCO1", "C1OC1", "CSC", "CS(=O)C", "CS(=O)(=O)C", "C(=O)SC", "C#N", "CC#N", "COOC", "COO",
    "C(=O)OO", "c1ccccc1", "c1ccncc1", "c1ccoc1", "c1ccccc1O", "c1ccccc1N", "CO", "CCO", "CC(C)O", "CC(C)(C)O", "C=CO",
    "N", "CN", "CN(C)C", "N=O", "N(=O)O", "CN=O", "C(O)O", "C(OC)OC", "C(O)OC", "CC(OC)(OC)C", "OC(=O)O", "NC(=O)O",
    "NC(=O)OC", "C(=O)OC(=O)C", "C=C=O", "CC(C)=C=O", "S", "O", "Cl", "F", "Br", "CCl", "C=C", "CC", "C", "C#C", "P", "CP",
    "CSi(C)C", "B", "OO", "SS", "CSSC", "C(=S)N", "N#N", "C1CC1", "C1=CC1", "C1CCC1", "C(=O)C(=O)", "OC=O",
]


def _frag(text):
    from fgutils.parse import parse
    g = parse(text)
    h = nx.Graph()
    for n, d in g.nodes(data=True):
        h.add_node(n, symbol=d["symbol"])
    for u, v, d in g.edges(data=True):
        h.add_edge(u, v, bond=d["bond"])
    return h


_VAL = {"C": 4, "c": 4, "N": 3, "n": 3, "O": 2, "o": 2, "S": 6, "s": 2, "P": 5, "Si": 4, "B": 3,
        "Cl": 1, "F": 1, "Br": 1, "H": 1}


def _free(g, n):
    used = sum(d["bond"] for _, _, d in g.edges(n, data=True))
    return _VAL.get(g.nodes[n]["symbol"], 0) - used


AROMATIC_FRAGMENTS = ["c1ccccc1", "c1ccncc1", "c1ccoc1", "c1ccccc1O", "c1ccccc1N"]


def rand_molecule(rng, max_heavy=14, first=None):
    """glue FG-rich fragments by single (rarely double) bonds, sometimes close a ring, sometimes
    write some hydrogens explicitly"""
    g = _frag(first if first is not None else rng.choice(FRAGMENTS))
    target = rng.randint(max(1, len(g)), max(max_heavy, len(g)))
    tries = 0
    while len(g) < target and tries < 12:
        tries += 1
        f = _frag(rng.choice(FRAGMENTS))
        if len(g) + len(f) > max_heavy:
            continue
        off = max(g.nodes) + 1
        f = nx.relabel_nodes(f, {n: n + off for n in f.nodes})
        a_c = [n for n in g.nodes if _free(g, n) >= 1]
        b_c = [n for n in f.nodes if _free(f, n) >= 1]
        if not a_c or not b_c:
            # disconnected component (a salt / solvent): allowed now and then
            if rng.random() < 0.3:
                g = nx.union(g, f)
            continue
        # prefer carbon attachment points, but let hetero atoms through regularly
        a = rng.choice([n for n in a_c if g.nodes[n]["symbol"] in ("C", "c")] or a_c) if rng.random() < 0.7 else rng.choice(a_c)
        b = rng.choice([n for n in b_c if f.nodes[n]["symbol"] in ("C", "c")] or b_c) if rng.random() < 0.6 else rng.choice(b_c)
        order = 1
        if rng.random() < 0.08 and _free(g, a) >= 2 and _free(f, b) >= 2 \
                and g.nodes[a]["symbol"].isupper() and f.nodes[b]["symbol"].isupper():
            order = 2
        g = nx.union(g, f)
        g.add_edge(a, b, bond=order)
    if rng.random() < 0.15 and len(g) >= 4:
        c = [n for n in g.nodes if _free(g, n) >= 1]
        if len(c) >= 2:
            u, v = rng.sample(c, 2)
            if not g.has_edge(u, v):
                g.add_edge(u, v, bond=1)
    hmode = rng.choice(["none", "none", "none", "some", "all"])
    if hmode != "none":
        for n in list(g.nodes):
            s = g.nodes[n]["symbol"]
            if s in ("C", "N", "O", "S") and (hmode == "all" or rng.random() < 0.4):
                k = _free(g, n) if s != "S" else 2 - sum(d["bond"] for _, _, d in g.edges(n, data=True))
                if s == "C" and hmode == "some" and rng.random() < 0.5:
                    continue
                for _ in range(int(max(0, k))):
                    h = max(g.nodes) + 1
                    g.add_node(h, symbol="H")
                    g.add_edge(n, h, bond=1)
    return g, hmode


# ------------------------------------------------------------------------------------------
# small hetero rings, written in several ways, and chain-pattern configurations

def hetero_ring(rng):
    """a 3-6 membered ring with one or two of O / N / S in it and substituents on ring atoms (ids 0..n-1)"""
    n = rng.randint(3, 6)
    syms = ["C"] * n
    k = 2 if n >= 5 and rng.random() < 0.35 else 1
    for pos in rng.sample(range(n), k):
        syms[pos] = rng.choice(["O", "O", "N", "S"])
    g = nx.Graph()
    for i, sy in enumerate(syms):
        g.add_node(i, symbol=sy)
    for i in range(n):
        g.add_edge(i, (i + 1) % n, bond=1)
    subs = ["C", "C", "C", "CC", "CCC", "O", "N", "CO", "C(C)C", "C=O", "OC", "CCO", "CN"]
    for i in range(n):
        free = _free(g, i) if syms[i] != "S" else 0
        for _ in range(int(free)):
            if rng.random() < (0.45 if syms[i] == "C" else 0.3):
                f = _frag(rng.choice(subs))
                off = max(g.nodes) + 1
                f = nx.relabel_nodes(f, {m: m + off for m in f.nodes})
                g = nx.union(g, f)
                g.add_edge(i, off, bond=1)
    return g


def write_smiles(g, rng):
    """one of the many SMILES writings of a connected graph with upper-case symbols and bond orders 1/2/3: random start
    atom, random neighbour order; ring closures by digits.  Parsing different writings of one molecule yields different
    node numberings AND different adjacency orders"""
    bsym = {1: "", 2: "=", 3: "#"}
    start = rng.choice(list(g.nodes))
    parent, order, children = {start: None}, [], {}
    closures = {}          # node -> list of (digit, bond symbol)
    counter = [0]

    def dfs(u):
        order.append(u)
        nbrs = list(g.neighbors(u))
        rng.shuffle(nbrs)
        children[u] = []
        for v in nbrs:
            if v == parent[u]:
                continue
            if v in parent:
                if (v, u) not in seen_back and (u, v) not in seen_back:
                    seen_back.add((u, v))
                    counter[0] += 1
                    d = counter[0]
                    closures.setdefault(v, []).append((d, ""))                       # opened at the earlier atom
                    closures.setdefault(u, []).append((d, bsym[g.edges[u, v]["bond"]]))  # closed here, bond symbol here
                continue
            parent[v] = u
            children[u].append(v)
            dfs(v)
    seen_back = set()
    dfs(start)
    if counter[0] > 9:
        raise ValueError("too many rings")

    def emit(u):
        t = g.nodes[u]["symbol"]
        for d, b in closures.get(u, []):
            t += b + str(d)
        ch = children[u]
        for i, v in enumerate(ch):
            piece = bsym[g.edges[u, v]["bond"]] + emit(v)
            t += piece if i == len(ch) - 1 else "(" + piece + ")"
        return t
    return emit(start)


def chain_configs(rng, hetero):
    """a user configuration of chain patterns of depth 1-4 from a hetero anchor: a deep pattern (depth >= 3) together with
    its shorter prefixes as less specific groups"""
    x = rng.choice(hetero)
    y = rng.choice(["O", "N", "S", "C"])
    kind = rng.choice(["plain", "plain", "R", "two"])
    if kind == "plain":
        pats = ["C" * d + x for d in range(1, 5)]                # CO CCO CCCO CCCCO
    elif kind == "R":
        pats = ["R" + "C" * d + x for d in range(0, 4)]          # RO RCO RCCO RCCCO
    else:
        pats = [x + "C" * d + y for d in range(1, 4)] + [x + "C"]   # OCN OCCN OCCCN OC
    deep = [p for p in pats if len(p.replace("R", "")) >= 4]
    keep = [rng.choice(deep)] + [p for p in pats if p not in deep and rng.random() < 0.75]
    keep += [p for p in deep if p not in keep and rng.random() < 0.5]
    keep = list(dict.fromkeys(keep))
    rng.shuffle(keep)
    from fgutils.parse import parse
    ga_mode = rng.choice(["all", "all", "hetero", "nonR"])
    specs = []
    for i, p in enumerate(keep):
        s = {"name": "ch%d_%s" % (i, p), "pattern": p}
        gp = parse(p)
        if ga_mode == "hetero":
            s["group_atoms"] = [n for n, d in gp.nodes(data=True) if d["symbol"] not in ("C", "R", "H")]
        elif ga_mode == "nonR":
            s["group_atoms"] = [n for n, d in gp.nodes(data=True) if d["symbol"] != "R"]
        specs.append(s)
    return specs


# ------------------------------------------------------------------------------------------
# ring PATTERNS against rings of the same shape with one bond doubled; ids around 0; colliding symbols

RING_PATTERNS = ["C1CO1", "C1OC1", "C1CN1", "C1CS1", "RC1CO1", "RC1OC1R", "C1CCO1", "C1COC1", "C1CCN1", "RC1CCO1", "C1CSC1",
                 "C1CCCO1", "C1CCOC1", "C1CCCN1", "RC1CCOC1", "C1COCO1", "C1CCSC1"]


def shift_ids(g, f):
    """the same graph with node ids n -> f(n); node order and adjacency order are kept"""
    h = g.__class__()
    for n in g._node:
        h.add_node(f(n), **_deep_attrs(g._node[n]))
    shared = {}
    for n in g._node:
        for v, dd in g._adj[n].items():
            key = frozenset((n, v))
            if key not in shared:
                shared[key] = dict(dd)
            h._adj[f(n)][f(v)] = shared[key]
    return h


def _deep_attrs(d):
    return {k: (list(v) if isinstance(v, list) else v) for k, v in d.items()}


def ring_pattern_molecules(pattern):
    """the pattern itself as a molecule (R -> C), and one copy per RING bond with that bond doubled -> [(tag, graph)]"""
    base = _frag(pattern)
    for n in base.nodes:
        if base.nodes[n]["symbol"] == "R":
            base.nodes[n]["symbol"] = "C"
    ring_edges = [e for e in base.edges if e not in set(nx.bridges(base))and (e[1], e[0]) not in set(nx.bridges(base))]
    out = [("same", base)]
    for (u, v) in ring_edges:
        h = base.copy()
        h.edges[u, v]["bond"] = 2
        out.append(("double%d-%d" % (u, v), h))
    return out


def ring_pattern_config(rng, pattern):
    """the ring pattern as the more specific user group, chain prefixes from its hetero atom as less specific groups"""
    from fgutils.parse import parse
    gp = parse(pattern)
    het = [d["symbol"] for _, d in gp.nodes(data=True) if d["symbol"] not in ("C", "R", "H")]
    x = het[0]
    specs = [{"name": "ring_" + pattern, "pattern": pattern}]
    for p in rng.sample(["C" + x, "CC" + x, "R" + x, "C" + x + "C", "R" + x + "R"], rng.randint(1, 3)):
        specs.append({"name": "chain_" + p, "pattern": p})
    if rng.random() < 0.3:
        specs.append({"name": "ring2", "pattern": rng.choice([q for q in RING_PATTERNS if q != pattern])})
    ga = rng.choice(["all", "all", "hetero"])
    if ga == "hetero":
        for s in specs:
            g = parse(s["pattern"])
            s["group_atoms"] = [n for n, d in g.nodes(data=True) if d["symbol"] not in ("C", "R", "H")]
    rng.shuffle(specs)
    return specs


# (two-letter element, first letter, second letter): the concatenated lower-cased neighbour symbols coincide
COLLIDING = [("Sn", "S", "N"), ("Si", "S", "I"), ("Co", "C", "O"), ("Cs", "C", "S"), ("No", "N", "O"), ("Os", "O", "S"),
             ("Sc", "S", "C"), ("Hf", "H", "F"), ("In", "I", "N"), ("Cn", "C", "N"), ("Nb", "N", "B"), ("Pb", "P", "B")]


def colliding_pair(rng):
    """two molecules built directly: a hetero centre whose neighbour symbols, concatenated in adjacency order, read the same
    ("Sn"+... vs "S"+"N"+...) although the neighbour lists differ -> (m1 with the two-letter element, m2 with the two atoms)"""
    xy, x, y = rng.choice(COLLIDING)
    z = rng.choice(["O", "N", "S", "P", "B", "O", "N"])
    extra = [rng.choice(["C", "C", "O", "N", "Cl", "S"]) for _ in range(rng.randint(0, 2))]
    front = rng.random() < 0.7

    def build(nbrs):
        g = nx.Graph()
        g.add_node(0, symbol=z)
        k = 1
        for sy in nbrs:
            g.add_node(k, symbol=sy)
            g.add_edge(0, k, bond=1)
            k += 1
        # a second shell so that the neighbours are not all leaves
        for i in range(1, len(nbrs) + 1):
            if g.nodes[i]["symbol"] in ("C", "Sn", "Si", "S", "N") and rng.random() < 0.4:
                g.add_node(k, symbol="C")
                g.add_edge(i, k, bond=1)
                k += 1
        return g
    m1 = build(([xy] + extra) if front else (extra + [xy]))
    m2 = build(([x, y] + extra) if front else (extra + [x, y]))
    return m1, m2, (xy, x, y, z)


def colliding_config(rng, xy, x, y, z):
    """user groups around the centre z that tell the two molecules apart: x-z-R, y-z-R, x-z-y (and the element itself
    where the parser knows it), with R-z-R / R-z as less specific groups"""
    pats = ["R" + z + "R", "R" + z, x + z + "R", y + z + "R", x + z + y]
    if xy in ("Sn", "Si"):
        pats += [xy + z, xy + z + "R"]
    pats = list(dict.fromkeys(pats))
    keep = [p for p in pats if rng.random() < 0.8] or pats[:2]
    rng.shuffle(keep)
    return [{"name": "k%d_%s" % (i, p), "pattern": p} for i, p in enumerate(keep)]


# ------------------------------------------------------------------------------------------
# implementation, in process

def make_configs(specs):
    from fgutils.fgconfig import FGConfig
    out = []
    for s in specs:
        kw = {"name": s["name"], "pattern": s["pattern"]}
        if "group_atoms" in s:
            kw["group_atoms"] = list(s["group_atoms"])
        if "anti_pattern" in s:
            kw["anti_pattern"] = list(s["anti_pattern"])
        if "len_exclude_nodes" in s:
            kw["len_exclude_nodes"] = list(s["len_exclude_nodes"])
        if "depth" in s:
            kw["depth"] = s["depth"]
        out.append(FGConfig(**kw))
    return out


def labels_of(specs):
    """one label per configuration, unique within the list and independent of the order of the list.  Nothing in FGConfig
    forbids two groups with the same name, so groups are identified by POSITION (object identity on the Python side) and
    handed to the model under these labels: the name where it is unique, else name|pattern (else name|pattern|position)"""
    names = [s["name"] for s in specs]
    out = []
    for i, s in enumerate(specs):
        if names.count(s["name"]) == 1:
            out.append(s["name"])
            continue
        lab = "%s|%s" % (s["name"], s["pattern"])
        if sum(1 for t in specs if t["name"] == s["name"] and t["pattern"] == s["pattern"]) > 1:
            lab += "|%d" % i
        out.append(lab)
    return out


def dup_names(rng, specs, pats=None):
    """give two (rarely three) groups of the list the same name -- nothing in FGConfig forbids it.  pats: patterns whose
    groups should share the name (e.g. two covering parents of a third group); default: a random choice"""
    if len(specs) < 2:
        return specs
    if pats:
        idx = [i for i, s in enumerate(specs) if s["pattern"] in pats]
    else:
        idx = []
    if len(idx) < 2:
        idx = rng.sample(range(len(specs)), 3 if len(specs) > 3 and rng.random() < 0.2 else 2)
    nm = rng.choice(["cls", specs[idx[0]]["name"]])
    for i in idx:
        specs[i]["name"] = nm
    return specs


def has_dup_names(specs):
    names = [s["name"] for s in specs]
    return len(set(names)) < len(names)


def tree_view(roots, configs=None, labels=None):
    """(root labels in order, {label: (children labels in order, parent labels as given)}); a node is identified by its
    FGConfig OBJECT (position in the configuration list), not by its name"""
    lab = {}
    if configs is not None:
        for cfg, l in zip(configs, labels):
            lab[id(cfg)] = l

    def L(n):
        return lab.get(id(n.fgconfig), n.fgconfig.name)
    seen = {}
    order = []

    def walk(n):
        if id(n) in seen:
            return
        seen[id(n)] = n
        order.append(n)
        for c in n.children:
            walk(c)
    for r in roots:
        walk(r)
    nodes = {}
    for n in order:
        nm = L(n)
        if nm in nodes:
            raise ct.Unrepresentable("two tree nodes labelled %r" % nm)
        nodes[nm] = ([L(c) for c in n.children], [L(p) for p in n.parents])
    return [L(r) for r in roots], nodes


def _exc(e):
    return (type(e).__name__, str(e)[:200])


def run_tree(specs, via="build", default=False):
    """-> ("ok", (roots, nodes)) | (exception class name, message)"""
    from fgutils.fgconfig import FGConfigProvider, build_config_tree_from_list
    from fgutils.permutation import PermutationMapper
    try:
        if via == "dicts":
            dicts = []
            for s in specs:
                d = {k: (list(v) if isinstance(v, list) else v) for k, v in s.items()}
                dicts.append(d)
            prov = FGConfigProvider(dicts)
            cfgs = prov.config_list
            roots = prov.get_tree()
        elif via == "provider":
            # no mapper argument: the provider's documented fallback PermutationMapper(wildcard="R", ignore_case=True)
            cfgs = make_configs(specs)
            roots = FGConfigProvider(cfgs).get_tree()
        elif via == "provider-mapper":
            cfgs = make_configs(specs)
            roots = FGConfigProvider(cfgs, mapper=PermutationMapper(wildcard="R", ignore_case=True)).get_tree()
        elif via == "provider-mapper-cs":
            # a caller-chosen CASE-SENSITIVE mapper: the hierarchy must be the embedding order under THAT mapper
            cfgs = make_configs(specs)
            roots = FGConfigProvider(cfgs, mapper=PermutationMapper(wildcard="R", ignore_case=False)).get_tree()
        elif via == "build-cs":
            cfgs = make_configs(specs)
            roots = build_config_tree_from_list(cfgs, PermutationMapper(wildcard="R", ignore_case=False))
        elif via == "query":
            # the tree an FGQuery builds for a list: FGQuery hands ITS mapper to the provider
            from fgutils.query import FGQuery
            cfgs = make_configs(specs)
            roots = FGQuery(config=cfgs).config_provider.get_tree()
        else:
            cfgs = make_configs(specs)
            roots = build_config_tree_from_list(cfgs, PermutationMapper(wildcard="R", ignore_case=True))
        # the hierarchy is HELD while a second one is built from some of the same FGConfig objects (every second group,
        # reversed): building another hierarchy must not rewire the one already handed out
        if len(cfgs) >= 3:
            try:
                build_config_tree_from_list(list(reversed(cfgs[::2])), PermutationMapper(wildcard="R", ignore_case=True))
            except (AssertionError, KeyError, IndexError, ValueError, TypeError):
                pass
        return ("ok", tree_view(roots, cfgs, labels_of(specs)))
    except (AssertionError, KeyError, IndexError, ValueError, TypeError) as e:
        return _exc(e)


def record(r):
    """an adversarial consumer: copy the answer, then EDIT the returned list object in place (bogus entry appended, inner
    atom lists extended) -- whatever the caller does with a returned answer must not influence later answers"""
    out = ("ok", [(n, [int(i) for i in ids]) for n, ids in r])
    try:
        if isinstance(r, list):
            for e in r:
                if isinstance(e, (tuple, list)) and len(e) == 2 and isinstance(e[1], list):
                    e[1].append(-999)
            r.append(("BOGUS", [-1]))
    except Exception:
        pass
    return out


HYDROCARBONS = ["C", "CC", "C=C", "C#C", "CCC", "CC(C)C", "C1CC1", "C=CC=C", "c1ccccc1", "Cc1ccccc1", "C1CCCCC1", "CC=C"]
# strings whose reported group has a hydrogen among its group atoms, others, and reaction SMILES
SMILES_H = ["CCO", "CO", "CC(C)O", "CC(C)(C)O", "Oc1ccccc1", "C=CO", "COC(O)C", "OCCO", "CC(O)OC", "NCCO"]
SMILES_OTHER = ["CC(=O)OC", "CCN", "CCSC", "CC#N", "CC(=O)Cl", "CC", "c1ccccc1", "COC", "CC(=O)N", "O=CCl"]
SMILES_RXN = ["[CH3:1][OH:2]>>[CH3:1][OH:2]", "[C:1][C:2](=[O:3])[O:4][C:5].[O:6]>>[C:1][C:2](=[O:3])[O:6].[O:4][C:5]",
              "[CH3:1][C:2](=[O:3])[Cl:4].[OH2:5]>>[CH3:1][C:2](=[O:3])[OH:5].[ClH:4]"]


def smiles_input_graph(text):
    """what FGQuery.get(text) must be equivalent to: get(graph) for the graph of the string, built here directly from RDKit
    (no fgutils.rdkit.smiles_to_graph: any cache in front of it is bypassed); reaction SMILES go through get_its"""
    import rdkit.Chem.rdmolfiles as rdmolfiles
    from fgutils.rdkit import mol_to_graph
    from fgutils.its import get_its
    if ">>" in text:
        r, p = text.split(">>")
        return get_its(mol_to_graph(rdmolfiles.MolFromSmiles(r)), mol_to_graph(rdmolfiles.MolFromSmiles(p)))
    return mol_to_graph(rdmolfiles.MolFromSmiles(text))


def run_strings(specs, req_h, texts, fresh_last=True):
    """get(text) for every text on ONE FGQuery object, then (fresh_last) the last text once more on a fresh object"""
    outs = []
    try:
        q = make_query(specs, req_h)
    except (AssertionError, KeyError, IndexError, ValueError, TypeError) as e:
        return [_exc(e)] * (len(texts) + (1 if fresh_last else 0))
    for k, t in enumerate(list(texts) + ([texts[-1]] if fresh_last else [])):
        try:
            if fresh_last and k == len(texts):
                q = make_query(specs, req_h)
            outs.append(record(q.get(t)))
        except (AssertionError, KeyError, IndexError, ValueError, TypeError) as e:
            outs.append(_exc(e))
    return outs


def run_query(specs, req_h, graph, repeats=1):
    """-> list of answers (one per get() call on the same object); each answer is
    ("ok", [(name, [ids])]) | (exception class name, message).  specs None = FGQuery()."""
    from fgutils.query import FGQuery
    outs = []
    try:
        q = FGQuery(require_implicit_hydrogen=req_h) if specs is None \
            else FGQuery(config=make_configs(specs), require_implicit_hydrogen=req_h)
    except (AssertionError, KeyError, IndexError, ValueError, TypeError) as e:
        return [_exc(e)] * repeats
    for _ in range(repeats):
        try:
            outs.append(record(q.get(graph)))
        except (AssertionError, KeyError, IndexError, ValueError, TypeError) as e:
            outs.append(_exc(e))
    return outs


QUERY_VIAS = ["query-list", "query-mapper", "query-provider", "query-provider-mapper"]


def make_query(specs, req_h, via="query-list"):
    """an FGQuery for a configuration list through one of the public construction paths; all of them mean: this
    configuration, default mapper PermutationMapper(wildcard='R', ignore_case=True)"""
    from fgutils.query import FGQuery
    from fgutils.fgconfig import FGConfigProvider
    from fgutils.permutation import PermutationMapper
    if specs is None:
        return FGQuery(require_implicit_hydrogen=req_h)
    cfgs = make_configs(specs)
    if via == "query-mapper":
        return FGQuery(mapper=PermutationMapper(wildcard="R", ignore_case=True), config=cfgs, require_implicit_hydrogen=req_h)
    if via == "query-provider":
        return FGQuery(config=FGConfigProvider(cfgs), require_implicit_hydrogen=req_h)           # provider's fallback mapper
    if via == "query-provider-mapper":
        return FGQuery(config=FGConfigProvider(cfgs, mapper=PermutationMapper(wildcard="R", ignore_case=True)),
                       require_implicit_hydrogen=req_h)
    return FGQuery(config=cfgs, require_implicit_hydrogen=req_h)


def run_steps(steps):
    """within THIS interpreter: for every step a fresh FGQuery (fresh provider, fresh FGConfig objects) for the step's
    configuration, one get() on the step's molecule.  -> (list of answers, some argument graph was modified)"""
    outs, mutated = [], False
    for st in steps:
        g = gens.copy_exact(st["graph"])
        try:
            q = make_query(st["specs"], st["req_h"], st.get("via", "query-list"))
            outs.append(record(q.get(g)))
        except (AssertionError, KeyError, IndexError, ValueError, TypeError) as e:
            outs.append(_exc(e))
        mutated = mutated or not gens.graphs_identical(g, st["graph"])
    return outs, mutated


def same_names_variant(rng, specs):
    """a configuration list with the SAME names in the same order but other patterns / group_atoms / anti-patterns"""
    from fgutils.parse import parse
    pats = [s["pattern"] for s in specs]
    mode = rng.choice(["rotate", "swap", "replace", "attrs"])
    if mode == "rotate" and len(pats) > 1:
        k = rng.randrange(1, len(pats))
        pats = pats[k:] + pats[:k]
    elif mode == "swap" and len(pats) > 1:
        i, j = rng.sample(range(len(pats)), 2)
        pats[i], pats[j] = pats[j], pats[i]
    elif mode == "replace":
        for i in rng.sample(range(len(pats)), rng.randint(1, len(pats))):
            cand = [p for p in POOL if p not in pats]
            pats[i] = rng.choice(cand)
    out = []
    for s, p in zip(specs, pats):
        t = {"name": s["name"], "pattern": p}
        n = len(parse(p))
        if p == s["pattern"] and mode != "attrs":
            for k in ("group_atoms", "anti_pattern"):
                if k in s:
                    t[k] = list(s[k])
        else:
            if rng.random() < 0.5:
                t["group_atoms"] = sorted(rng.sample(range(n), rng.randint(1, n)))
            if rng.random() < 0.2:
                t["anti_pattern"] = rng.sample(ANTI_POOL, 1)
        out.append(t)
    return out


# ------------------------------------------------------------------------------------------
# in-place edits of a molecule between two get() calls on the same FGQuery object

def apply_edits(g, edits):
    """modify the networkx graph g IN PLACE (an edit whose target no longer exists - because the implementation
    itself removed it from the caller's graph, which is reported separately as a mutation - is skipped)"""
    for e in edits:
        try:
            _apply_edit(g, e)
        except (KeyError, nx.NetworkXError):
            pass


def _apply_edit(g, e):
    for e in [e]:
        k = e[0]
        if k == "sym":
            g.nodes[e[1]]["symbol"] = e[2]
        elif k == "bond":
            g.edges[e[1], e[2]]["bond"] = e[3]
        elif k == "add":
            g.add_node(e[1], symbol=e[2])
            g.add_edge(e[3], e[1], bond=e[4])
        elif k == "del_node":
            g.remove_node(e[1])
        elif k == "del_edge":
            g.remove_edge(e[1], e[2])
        elif k == "add_edge":
            g.add_edge(e[1], e[2], bond=e[3])
        else:
            raise ValueError(k)


def rand_edits(rng, g):
    """1-2 edits of g (not applied): symbol change / bond order change (node and edge counts stay), add an atom, remove a leaf,
    remove or add a bond"""
    h = gens.copy_exact(g)
    out = []
    for _ in range(rng.choice([1, 1, 2])):
        nodes = list(h.nodes)
        if not nodes:
            break
        kinds = ["sym", "sym", "bond", "add", "del_node", "del_edge", "add_edge"]
        rng.shuffle(kinds)
        for k in kinds:
            e = None
            if k == "sym":
                n = rng.choice(nodes)
                new = rng.choice([x for x in ["C", "O", "N", "S", "Cl"] if x != h.nodes[n].get("symbol")])
                e = ("sym", n, new)
            elif k == "bond" and h.number_of_edges():
                u, v = rng.choice(list(h.edges))
                o = h.edges[u, v]["bond"]
                e = ("bond", u, v, rng.choice([x for x in (1, 2, 3) if x != o]))
            elif k == "add":
                e = ("add", max(nodes) + rng.choice([1, 1, 3]), rng.choice(["O", "N", "C", "S", "Cl"]), rng.choice(nodes), rng.choice([1, 1, 2]))
            elif k == "del_node" and len(nodes) > 1:
                leaves = [n for n in nodes if h.degree(n) <= 1]
                if leaves:
                    e = ("del_node", rng.choice(leaves))
            elif k == "del_edge" and h.number_of_edges():
                u, v = rng.choice(list(h.edges))
                e = ("del_edge", u, v)
            elif k == "add_edge" and len(nodes) > 2:
                u, v = rng.sample(nodes, 2)
                if not h.has_edge(u, v):
                    e = ("add_edge", u, v, 1)
            if e is not None:
                apply_edits(h, [e])
                out.append(list(e))
                break
    return out


def play(events, g0, getter=None):
    """run a sequence of events on graph OBJECTS: {"op": "get", "obj": name} | {"op": "edit", "obj": name, "edits": [...]} |
    {"op": "copy", "src": name, "dst": name}; the object "g" starts as a copy of g0.  getter(graph) answers a get
    (None: only record).  -> list of (contents of the object at the time of the get, answer)"""
    objs = {"g": gens.copy_exact(g0)}
    out = []
    for ev in events:
        if ev["op"] == "get":
            G = objs[ev["obj"]]
            snap = gens.copy_exact(G)
            ans = None
            if getter is not None:
                ans = getter(G)
                if not gens.graphs_identical(G, snap):
                    ans = ("MUTATED", ans)
            out.append((snap, ans))
        elif ev["op"] == "edit":
            apply_edits(objs[ev["obj"]], [tuple(e) for e in ev["edits"]])
        elif ev["op"] == "copy":
            objs[ev["dst"]] = gens.copy_exact(objs[ev["src"]])
        else:
            raise ValueError(ev["op"])
    return out


def run_editseq(specs, req_h, g0, events):
    """ONE FGQuery object for the whole sequence -> list of answers (one per get)"""
    try:
        q = make_query(specs, req_h)
    except (AssertionError, KeyError, IndexError, ValueError, TypeError) as e:
        return [_exc(e)] * sum(1 for ev in events if ev["op"] == "get")

    def getter(G):
        try:
            return record(q.get(G))
        except (AssertionError, KeyError, IndexError, ValueError, TypeError) as e:
            return _exc(e)
    return [a for _, a in play(events, g0, getter)]


def rand_editseq(rng, g):
    """get(g), edit g in place, get(g)  |  ... with a second object h of equal contents asked in between"""
    ed = rand_edits(rng, g)
    shape = rng.choice(["g,edit,g", "g,edit,g", "g,edit,h,g", "g,h,edit,g", "g,edit,g,edit,g"])
    G, E = {"op": "get", "obj": "g"}, {"op": "edit", "obj": "g", "edits": ed}
    if shape == "g,edit,g":
        return [G, E, G]
    if shape == "g,edit,h,g":
        return [G, E, {"op": "copy", "src": "g", "dst": "h"}, {"op": "get", "obj": "h"}, G]
    if shape == "g,h,edit,g":
        # h gets the contents g will have AFTER the edit, is asked first, then g is edited into the same contents
        return [G, {"op": "copy", "src": "g", "dst": "h"}, {"op": "edit", "obj": "h", "edits": ed}, {"op": "get", "obj": "h"}, E, G]
    h2 = gens.copy_exact(g)
    apply_edits(h2, [tuple(e) for e in ed])
    return [G, E, G, {"op": "edit", "obj": "g", "edits": rand_edits(rng, h2)}, G]


# ------------------------------------------------------------------------------------------
# implementation, in fresh interpreters under other hash seeds (batched)

def run_worker(jobs, seed, timeout=900):
    """jobs: list of JSON-able dicts (see _fg_worker.py). Returns the list of results, or raises."""
    env = dict(os.environ)
    env["PYTHONHASHSEED"] = seed
    env["PYTHONPATH"] = lib.REPO + os.pathsep + os.path.join(lib.VERIF, "harness")
    env["VERIF_REPO"] = lib.REPO
    p = subprocess.run([sys.executable, "-W", "ignore", WORKER], input=json.dumps(jobs), capture_output=True,
                       text=True, env=env, timeout=timeout)
    if p.returncode != 0:
        raise RuntimeError("worker failed under PYTHONHASHSEED=%s: %s" % (seed, p.stderr[-2000:]))
    line = [l for l in p.stdout.splitlines() if l.startswith("RESULT ")]
    if len(line) != 1:
        raise RuntimeError("worker printed no result under PYTHONHASHSEED=%s: %s" % (seed, p.stdout[-500:]))
    return json.loads(line[0][7:])


def run_all_seeds(jobs, seeds=SEEDS, parallel=8, pieces=1):
    """-> {seed label: [result per job]}; a label is "<seed>" or "<seed>:<n>" (to run "random" more than once);
    the batch of every seed is cut into `pieces` sub-batches that run in their own interpreters"""
    import concurrent.futures as cf
    labels = []
    for s in seeds:
        lab, k = s, 1
        while lab in labels:
            k += 1
            lab = "%s:%d" % (s, k)
        labels.append(lab)
    if not jobs:
        return {s: [] for s in labels}
    pieces = max(1, min(pieces, len(jobs)))
    size = (len(jobs) + pieces - 1) // pieces
    parts = [jobs[i:i + size] for i in range(0, len(jobs), size)]
    with cf.ThreadPoolExecutor(max_workers=parallel) as ex:
        futs = {s: [ex.submit(run_worker, part, s.split(":")[0]) for part in parts] for s in labels}
        return {s: [r for f in fs for r in f.result()] for s, fs in futs.items()}


def norm_view(out):
    """comparable form of a run_tree result: parents as sorted lists"""
    if out[0] != "ok":
        return [out[0]]
    roots, nodes = out[1]
    return ["ok", list(roots), sorted([nm, list(ch), sorted(pa)] for nm, (ch, pa) in nodes.items())]


def norm_answer(out):
    if out[0] != "ok":
        return [out[0]]
    return ["ok", [[n, list(ids)] for n, ids in out[1]]]


# ------------------------------------------------------------------------------------------
# Coq terms

def zlist(l):
    return "(%s : list Z)" % ct.lst([ct.z(x) for x in l])


def slist(l):
    return "(%s : list string)" % ct.lst([ct.s(x) for x in l])


_GTERM = {}


def graph_term_of(pattern):
    """Coq term of the graph the real parser returns for a pattern string (cached per string)"""
    if pattern not in _GTERM:
        from fgutils.parse import Parser
        _GTERM[pattern] = ct.graph(Parser().parse(pattern))
    return _GTERM[pattern]


def cfg_term(s, label=None):
    ga = "None" if "group_atoms" not in s else "(Some %s)" % zlist(s["group_atoms"])
    excl = s.get("len_exclude_nodes", ["R"])
    depth = "None" if s.get("depth") is None else "(Some %s)" % ct.z(s["depth"])
    return "(fgconfig_init %s %s %s %s (%s : list graph) %s %s)" % (
        ct.s(label if label is not None else s["name"]), ct.s(s["pattern"]), graph_term_of(s["pattern"]), ga,
        ct.lst([graph_term_of(a) for a in s.get("anti_pattern", [])]), depth, slist(excl))


def cfgs_term(specs, labelled=False):
    """labelled=True: the configurations under their unique labels (labels_of) instead of their names"""
    labs = labels_of(specs) if labelled else [None] * len(specs)
    return "(%s : list fgconfig)" % ct.lst([cfg_term(s, l) for s, l in zip(specs, labs)])


ERR = {"AssertionError": "AssertErr", "KeyError": "KeyErr", "IndexError": "IndexErr", "ValueError": "ValueErr",
       "TypeError": "TypeErr"}


def view_term(out):
    if out[0] != "ok":
        if out[0] not in ERR:
            raise ct.Unrepresentable("exception %r" % (out,))
        return "(Bad %s : res tview)" % ERR[out[0]]
    roots, nodes = out[1]
    items = ["(%s, (%s, %s))" % (ct.s(nm), slist(ch), slist(pa)) for nm, (ch, pa) in nodes.items()]
    return "(Good (%s, (%s : list (string * (list string * list string)))) : res tview)" % (slist(roots), ct.lst(items))


def answer_term(out):
    if out[0] != "ok":
        if out[0] not in ERR:
            raise ct.Unrepresentable("exception %r" % (out,))
        return "(Bad %s : res groups)" % ERR[out[0]]
    items = ["(%s, %s)" % (ct.s(n), zlist(ids)) for n, ids in out[1]]
    return "(Good (%s : groups) : res groups)" % ct.lst(items)
