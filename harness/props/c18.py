"""C18 -- tensor conversion round trips; tensor graph operators match their graph meaning.

Correspondence: Model.Torch.{its_to_torch1, its_to_torch_list, its_from_torch, node_induced_subgraph,
edge_induced_subgraph, get_adjacency_matrix, prune, prune_rc} ~ fgutils.torch.utils.{_its_to_torch, its_to_torch,
its_from_torch (+ _build_its, _its_from_torch_data, _its_from_torch_databatch), get_adjacency_matrix, prune, prune_rc}
and fgutils.torch.graph.{node_induced_subgraph, edge_induced_subgraph}; tensors compared entry for entry
(x, edge_index columns, edge_attr rows in half units, batch vector), decoded graphs compared exactly
(graph_eqb: node order, attributes, adjacency order)."""
import lib
import gens
import coqterm as ct
import networkx as nx
import torch
from torch_geometric.data import Data, Batch

from fgutils.torch.utils import its_to_torch, its_from_torch, get_adjacency_matrix, prune, prune_rc
from fgutils.torch.graph import node_induced_subgraph, edge_induced_subgraph
from fgutils.its import ITS
from fgutils.torch.ITSDataset import ITSDataset

ID = "C18"
REPEAT_PROBE = True   # engine: repeat 1 call in 5 after editing its first result in place (purity / no shared state)
PROPS = "Props/C18.v"
MODEL_FILES = ["Model/Torch.v", "Spec/TorchCheck.v"]
IMPORTS = "From FGV Require Import Model.Torch Spec.PeriodicRef Spec.TorchSpec Spec.TorchCheck."
CHECKS = ["agree", "spec"]
USES_GEN = ["ps"]
CHUNK = 150
CORRESPONDENCE = ("Model.Torch.{its_to_torch1,its_to_torch_list,its_from_torch,node_induced_subgraph,"
                  "edge_induced_subgraph,get_adjacency_matrix,prune,prune_rc} ~ fgutils.torch.utils.{its_to_torch,"
                  "its_from_torch,get_adjacency_matrix,prune,prune_rc}, fgutils.torch.graph.{node_induced_subgraph,"
                  "edge_induced_subgraph}; exact tensors / exact graphs; fgutils.torch.ITSDataset with default "
                  "transforms ~ map its_to_torch1 (other ITSDataset options: Python-side invariants only)")
RULE = ("operation in {to_torch, roundtrip, batch (1-5 members of pairwise different sizes, >= 3 members in most "
        "cases), dataset (ITSDataset of 1-4 graphs, some wrapped in ITS), from_torch on raw tensors/raw batches, "
        "node_induced, edge_induced, prune (with/without edge_attr), prune_rc (two-column edge attributes), adjacency}. ITS graphs: gens.rand_mol/"
        "rand_forest (2-10 nodes, rings) with tuple labels (g,h), g,h in {0,1,1.5,2,3}, symbols from all 118 "
        "elements (multi-letter included), ids renamed by gens.reid (contiguous/offset/sparse/negative/shuffled "
        "insertion order); a few percent dirty inputs (untabulated or missing symbol, scalar or list label, no "
        "edge, single-node member with a self loop) to tie the error paths. Tensor operators run on the tensor "
        "form of such graphs (70%) or on raw random tensors (unsorted, one-directional, repeated columns); node "
        "subsets in arbitrary order, usually inducing >= 1 edge; edge (column) subsets in arbitrary order; start "
        "sets of 0-3 positions and radii 0..6 with all float32 walk counts < 2^24. Batches also run with custom "
        "feature transforms on the Python side (batch = member-wise with the same transforms; both, node-only, "
        "edge-only), and every clean batch / dataset case builds ITSDataset for all 8 combinations of node transform "
        "given or not x edge transform given or not x targets given or not (ids in every second one, plus "
        "pre_transform/transform callbacks) and compares every stored and returned sample with "
        "its_to_torch(member, same transforms) tensor for tensor. non-trivial = "
        "the operation succeeded on an input with >= 1 edge (for subsets: >= 1 edge kept; prune: >= 1 node "
        "kept and >= 1 dropped or radius >= 1); distinct = distinct (operation, input, parameters)")
TRUSTED = [
    "torch / torch_geometric are external: tensor construction, indexing, unique, nonzero, where, matmul, eye, "
    "Tensor.__contains__ and Batch.from_data_list are modelled by list functions (Model/Torch.v) and validated "
    "on every run by comparing the model's tensors with the real ones entry for entry -- not proved",
    "an empty tensor of any shape is represented by the empty list (all modelled paths produce torch.tensor([]))",
    "node attribute dict restricted to the five keys FGUtils uses; y / id fields of Data are passed through by "
    "prune and not modelled",
]
ASSUMPTIONS = [
    "bond orders are multiples of 0.5 and exactly representable in float32 (edge_attr compared in half units)",
    "prune: every entry of D, D_sum and center_paths (walk counts) is < 2^24 so that the float32 matrices of the "
    "code are exact; the model counts walks in Z (the generator respects the bound)",
    "tensor indices are non-negative (torch wraps negative indices; the model returns Unmodelled for them) and "
    "edge feature rows decoded by its_from_torch have width 2",
    "batches have 1..5 members, each with >= 1 edge (PyG's concatenation of an empty 1-d edge tensor is not modelled)",
]

SYMS = ("H He Li Be B C N O F Ne Na Mg Al Si P S Cl Ar K Ca Sc Ti V Cr Mn Fe Co Ni Cu Zn Ga Ge As Se Br Kr Rb Sr Y "
        "Zr Nb Mo Tc Ru Rh Pd Ag Cd In Sn Sb Te I Xe Cs Ba La Ce Pr Nd Pm Sm Eu Gd Tb Dy Ho Er Tm Yb Lu Hf Ta W Re "
        "Os Ir Pt Au Hg Tl Pb Bi Po At Rn Fr Ra Ac Th Pa U Np Pu Am Cm Bk Cf Es Fm Md No Lr Rf Db Sg Bh Hs Mt Ds Rg "
        "Cn Nh Fl Mc Lv Ts Og").split()
COMMON = ["C", "C", "C", "N", "O", "H", "Cl", "Br", "Si", "S", "P", "F", "Na", "Mg", "Fe", "Sn", "B", "I"]
ORD = [0, 1, 1, 1, 2, 2, 3, 1.5, 1.5]
ERRS = ("KeyError", "TypeError", "AssertionError", "IndexError", "AttributeError", "RuntimeError")
EXC = (KeyError, TypeError, AssertionError, IndexError, AttributeError, RuntimeError)
OPS = ["to_torch", "roundtrip", "roundtrip", "batch", "batch", "batch", "dataset", "from_torch", "node_induced",
       "node_induced", "edge_induced", "edge_induced", "prune", "prune", "prune", "prune_rc", "prune_rc", "adjacency"]


# ------------------------------------------------------------------ generators

def rand_pairs(rng, k=14):
    out = []
    for _ in range(k):
        g, h = rng.choice(ORD), rng.choice(ORD)
        if g == 0 and h == 0:
            h = 1
        out.append((g, h))
    return out


def rand_its(rng, nmin=2, nmax=9, dirty=0.0, forest=True):
    syms = COMMON if rng.random() < 0.5 else [rng.choice(SYMS) for _ in range(6)]
    mk = gens.rand_forest if (forest and rng.random() < 0.4) else gens.rand_mol
    g = mk(rng, nmin, nmax, syms=syms, orders=rand_pairs(rng), extra_max=3)
    g, scheme, _ = gens.reid(rng, g)
    kind = "clean"
    if rng.random() < dirty:
        kind = rng.choice(["badsym", "nosym", "scalar", "list", "noedge", "selfloop"])
        nodes = list(g.nodes)
        if kind == "badsym":
            g.nodes[rng.choice(nodes)]["symbol"] = rng.choice(["R", "Xx", "c", "D", "h"])
        elif kind == "nosym":
            del g.nodes[rng.choice(nodes)]["symbol"]
        elif kind in ("scalar", "list") and g.number_of_edges() > 0:
            u, v = rng.choice(list(g.edges))
            g.edges[u, v]["bond"] = rng.choice([1, 2, 1.5]) if kind == "scalar" else [rng.choice(ORD), rng.choice(ORD)]
        elif kind == "noedge":
            g = nx.Graph()
            for i in range(rng.randint(1, 3)):
                g.add_node(rng.randint(0, 9) * 3 + i * 31, symbol=rng.choice(COMMON))
        elif kind == "selfloop":
            g = nx.Graph()
            n = rng.randint(0, 20)
            g.add_node(n, symbol=rng.choice(COMMON))
            g.add_edge(n, n, bond=(1, 2))
    return g, scheme, kind


def rand_raw(rng, width2=True):
    """raw tensor data as lists: x rows, columns, attr rows (Python numbers), maybe no attr"""
    n = rng.randint(2, 7)
    xw = 1 if width2 or rng.random() < 0.7 else 2
    x = [[rng.randint(1, 118) if rng.random() < 0.97 or not width2 else rng.choice([0, 119, 200])] +
         [rng.randint(0, 9) for _ in range(xw - 1)] for _ in range(n)]
    m = rng.randint(1, 2 * n)
    cols, attrs = [], []
    aw = 2 if width2 else rng.randint(1, 3)
    sym = rng.random() < 0.5
    for _ in range(m):
        u, v = rng.randrange(n), rng.randrange(n)
        a = [rng.choice(ORD) for _ in range(aw)]
        cols.append([u, v])
        attrs.append(a)
        if sym:
            cols.append([v, u])
            attrs.append(list(a) if rng.random() < 0.9 else [rng.choice(ORD) for _ in range(aw)])
    if rng.random() < 0.5:
        order = list(range(len(cols)))
        rng.shuffle(order)
        cols = [cols[i] for i in order]
        attrs = [attrs[i] for i in order]
    return {"x": x, "ei": cols, "ea": attrs, "batch": None}


def walks_ok(n, cols, radius, start):
    A = [[0] * n for _ in range(n)]
    for u, v in cols:
        A[u][v] = 1
    D = [[1 if i == j else 0 for j in range(n)] for i in range(n)]
    S = [row[:] for row in D]
    for _ in range(radius):
        D = [[sum(D[i][w] * A[w][j] for w in range(n)) for j in range(n)] for i in range(n)]
        S = [[S[i][j] + D[i][j] for j in range(n)] for i in range(n)]
        if max(max(r) for r in D) >= 2 ** 24 or max(max(r) for r in S) >= 2 ** 24:
            return False
    cp = [sum(S[s][j] for s in start) for j in range(n)]
    return max(cp + [0]) < 2 ** 24


def generate(seed, tier, ncases=None):
    n = ncases or (330 if tier == "quick" else 5000)
    for i in range(n):
        rng = lib.rng_for(seed, ID, i)
        op = rng.choice(OPS)
        big = tier == "thorough" and rng.random() < 0.15
        nmax = 14 if big else 9
        c = {"op": op}
        if op in ("to_torch", "roundtrip"):
            g, scheme, kind = rand_its(rng, 2, nmax, dirty=0.12)
            c.update(graph=g, scheme=scheme, kind=kind, wrap=rng.random() < 0.25)
        elif op in ("batch", "dataset"):
            # >= 3 members in ~70% of the cases, pairwise different member sizes (an offset error in the
            # batch decoder may only show from the third member on, and only if sizes differ)
            k = rng.choice([1, 2, 3, 3, 3, 4, 4, 5] if op == "batch" else [1, 2, 3, 3, 4])
            sizes = rng.sample(range(2, 10), k)
            gs, kinds, schemes = [], [], []
            for sz in sizes:
                g, scheme, kind = rand_its(rng, sz, sz, dirty=0.03 if op == "batch" else 0.0)
                while g.number_of_edges() == 0:
                    g, scheme, kind = rand_its(rng, max(sz, 3), max(sz, 3), dirty=0.0, forest=False)
                gs.append(g)
                kinds.append(kind)
                schemes.append(scheme)
            c.update(graphs=gs, scheme="+".join(schemes),
                     kind="clean" if all(x == "clean" for x in kinds) else "+".join(kinds))
            if op == "dataset":
                c["wrap"] = [rng.random() < 0.3 for _ in gs]
        elif op == "from_torch":
            k = rng.choice([0, 0, 1, 2, 3])
            c.update(tensors=[rand_raw(rng) for _ in range(max(k, 1))], batched=k > 0)
        else:
            if rng.random() < 0.7:
                g, scheme, _ = rand_its(rng, 2, nmax, dirty=0.0)
                while g.number_of_edges() == 0:
                    g, scheme, _ = rand_its(rng, 2, nmax, dirty=0.0)
                c.update(graph=g, scheme=scheme)
                ncols = 2 * g.number_of_edges()
                nn = g.number_of_nodes()
                cols = None
            else:
                t = rand_raw(rng, width2=(op in ("prune", "prune_rc", "adjacency")) or rng.random() < 0.5)
                c.update(tensor=t, scheme="raw")
                ncols, nn, cols = len(t["ei"]), len(t["x"]), t["ei"]
            c["with_ea"] = rng.random() < 0.75
            if op == "node_induced":
                if "graph" in c:
                    pos = {u: j for j, u in enumerate(c["graph"].nodes)}
                    cols = [[pos[u], pos[v]] for u, v in c["graph"].edges]
                ns = set(rng.choice(cols)) if cols and rng.random() < 0.9 else set()
                for j in range(nn):
                    if rng.random() < rng.choice([0.2, 0.5, 0.8]):
                        ns.add(j)
                ns = sorted(ns) or [rng.randrange(nn)]
                if rng.random() < 0.6:
                    rng.shuffle(ns)
                if rng.random() < 0.05:
                    ns.append(rng.choice(ns))
                c["nodes"] = ns
            elif op == "edge_induced":
                if rng.random() < 0.4:      # whole undirected edges of a graph-derived tensor
                    ks = rng.sample(range(ncols // 2), rng.randint(1, max(1, ncols // 2))) if ncols >= 2 else [0]
                    es = [e for k in sorted(ks) for e in (2 * k, 2 * k + 1) if e < ncols]
                    if rng.random() < 0.4:
                        rng.shuffle(es)
                else:
                    es = rng.sample(range(ncols), rng.randint(1, ncols))
                    if rng.random() < 0.7:
                        rng.shuffle(es)
                if rng.random() < 0.05:
                    es.append(rng.choice(es))
                c["edges"] = es
            elif op == "prune":
                start = [rng.randrange(nn) for _ in range(rng.choice([0, 1, 1, 1, 2, 2, 3]))]
                radius = rng.choice([0, 1, 1, 2, 2, 3, 4, 5, 6])
                if "graph" in c:
                    pos = {u: j for j, u in enumerate(c["graph"].nodes)}
                    cols = [[pos[u], pos[v]] for u, v in c["graph"].edges]
                    cols = cols + [[v, u] for u, v in cols]
                while not walks_ok(nn, cols, radius, start):
                    radius -= 1
                c.update(start=start, radius=radius)
            elif op == "prune_rc":
                # prune_rc needs the two-column edge attributes; the start nodes (recomputed here only to keep the walk
                # counts inside float32) are the sources of the columns whose two components differ
                c["with_ea"] = True
                radius = rng.choice([0, 1, 1, 2, 2, 3, 4, 5])
                if "graph" in c:
                    pos = {u: j for j, u in enumerate(c["graph"].nodes)}
                    cols = [[pos[u], pos[v]] for u, v in c["graph"].edges]
                    cols = cols + [[v, u] for u, v in cols]
                    start = sorted({pos[x] for u, v, d in c["graph"].edges(data=True) if d["bond"][0] != d["bond"][1] for x in (u, v)})
                else:
                    start = sorted({col[0] for col, a in zip(c["tensor"]["ei"], c["tensor"]["ea"]) if a[0] != a[1]})
                while not walks_ok(nn, cols, radius, start):
                    radius -= 1
                c.update(radius=radius)
        yield c


def _g(nodes, edges):
    g = nx.Graph()
    for n, s in nodes:
        g.add_node(n, symbol=s)
    for u, v, b in edges:
        g.add_edge(u, v, bond=b)
    return g


def corpus():
    # D19: ids 1..3 (the ITS class numbers atoms from 1); shuffled/negative ids
    g = _g([(1, "C"), (2, "O"), (3, "Cl")], [(1, 2, (1, 2)), (2, 3, (1, 0))])
    yield {"op": "roundtrip", "graph": g, "scheme": "corpus", "kind": "clean", "wrap": False}
    yield {"op": "to_torch", "graph": gens.copy_exact(g), "scheme": "corpus", "kind": "clean", "wrap": True}
    h = _g([(7, "N"), (-2, "Mg"), (40, "C"), (3, "Og")], [(40, 7, (1.5, 1)), (3, -2, (2, 1)), (-2, 40, (0, 1)), (3, 7, (1, 1))])
    yield {"op": "roundtrip", "graph": h, "scheme": "corpus", "kind": "clean", "wrap": False}
    yield {"op": "batch", "graphs": [gens.copy_exact(g), gens.copy_exact(h), gens.copy_exact(g)], "scheme": "corpus", "kind": "clean"}
    g5 = _g([(10, "C"), (11, "C"), (12, "N"), (13, "O"), (14, "H")],
            [(10, 11, (1, 1)), (11, 12, (1, 2)), (12, 13, (2, 1)), (13, 14, (1, 0)), (14, 10, (0, 1))])
    g2 = _g([(5, "Br"), (3, "Si")], [(3, 5, (1, 1.5))])
    yield {"op": "batch", "graphs": [gens.copy_exact(g2), gens.copy_exact(g5), gens.copy_exact(g), gens.copy_exact(h)],
           "scheme": "corpus", "kind": "clean"}
    yield {"op": "dataset", "graphs": [gens.copy_exact(g5), gens.copy_exact(g2), gens.copy_exact(h)],
           "scheme": "corpus", "kind": "clean", "wrap": [False, True, False]}
    # the unit tests' samples
    ring = {"x": [[6]] * 4, "ei": [[0, 1], [1, 2], [2, 3], [3, 0], [1, 0], [2, 1], [3, 2], [0, 3]],
            "ea": [[0, 1], [1, 0], [0, 1], [1, 0]] * 2, "batch": None}
    chain = {"x": [[6], [6], [8]], "ei": [[0, 1], [1, 2], [1, 0], [2, 1]], "ea": [[1, 1], [2, 1]] * 2, "batch": None}
    yield {"op": "from_torch", "tensors": [ring], "batched": False}
    yield {"op": "from_torch", "tensors": [ring, chain], "batched": True}
    # D13: pentane, start [0], radius 1 must keep node 0
    p5 = {"x": [[6]] * 5, "ei": [[0, 1], [1, 2], [2, 3], [3, 4], [1, 0], [2, 1], [3, 2], [4, 3]],
          "ea": [[1, 1]] * 8, "batch": None}
    yield {"op": "prune", "tensor": p5, "scheme": "raw", "with_ea": True, "start": [0], "radius": 1}
    yield {"op": "prune", "tensor": p5, "scheme": "raw", "with_ea": False, "start": [2], "radius": 0}
    t5 = {"x": [[6]] * 5, "ei": [[0, 1], [1, 2], [2, 3], [3, 4], [2, 0], [1, 0], [2, 1], [3, 2], [4, 3], [0, 2]],
          "ea": [[0, 1], [1, 1], [2, 2], [1, 1], [1, 1]] * 2, "batch": None}
    yield {"op": "prune", "tensor": t5, "scheme": "raw", "with_ea": True, "start": [1], "radius": 2}
    yield {"op": "adjacency", "tensor": t5, "scheme": "raw", "with_ea": True}
    k4 = {"x": [[1], [2], [3], [4]], "ei": [[0, 1], [0, 2], [0, 3], [1, 2], [1, 3], [2, 3], [1, 0], [2, 0], [3, 0], [2, 1], [3, 1], [3, 2]],
          "ea": [[1], [2], [3], [4], [5], [6]] * 2, "batch": None}
    yield {"op": "node_induced", "tensor": k4, "scheme": "raw", "with_ea": True, "nodes": [0, 2, 3]}
    yield {"op": "edge_induced", "tensor": k4, "scheme": "raw", "with_ea": True, "edges": [0, 6, 3]}
    yield {"op": "edge_induced", "tensor": k4, "scheme": "raw", "with_ea": False, "edges": [2, 8]}
    # a batch member with a single node (self loop): the decoder raises TypeError
    s = _g([(7, "C")], [(7, 7, (1, 1))])
    yield {"op": "batch", "graphs": [gens.copy_exact(g), s, gens.copy_exact(g)], "scheme": "corpus", "kind": "selfloop"}
    yield {"op": "roundtrip", "graph": s, "scheme": "corpus", "kind": "selfloop", "wrap": False}
    yield {"op": "roundtrip", "graph": _g([(4, "C")], []), "scheme": "corpus", "kind": "noedge", "wrap": False}


# ------------------------------------------------------------------ running the implementation

def to_tensor_data(t, with_ea=True):
    x = torch.tensor(t["x"])
    ei = torch.tensor(t["ei"]).T
    d = Data(x=x, edge_index=ei)
    if with_ea and t.get("ea") is not None:
        d.edge_attr = torch.tensor(t["ea"])
    return d


def t_lists(d):
    """Data/Batch -> JSON-able lists (numbers untouched); shapes outside the model are flagged"""
    out = {"bad": None}
    x = d.x
    if x is None or x.is_floating_point():
        out["bad"] = "x missing or not an integer tensor"
        return out
    out["x"] = x.tolist() if x.numel() > 0 else []
    ei = d.edge_index
    if ei.numel() == 0:
        if ei.dim() != 1:
            out["bad"] = "empty edge_index of shape %s" % (tuple(ei.shape),)
        out["ei"] = []
    elif ei.dim() == 2 and ei.size(0) == 2 and not ei.is_floating_point():
        out["ei"] = ei.T.tolist()
    else:
        out["bad"] = "edge_index shape %s dtype %s" % (tuple(ei.shape), ei.dtype)
    ea = d.edge_attr
    if ea is None:
        out["ea"] = None
    elif ea.numel() == 0:
        out["ea"] = []
    elif ea.dim() == 2:
        out["ea"] = ea.tolist()
    else:
        out["bad"] = "edge_attr shape %s" % (tuple(ea.shape),)
    b = getattr(d, "batch", None)
    out["batch"] = None if b is None else b.tolist()
    return out


def induced_in_order(g, keep):
    """The induced subgraph with the node order and the adjacency order of g (Spec.TorchSpec.nx_subgraph).
    networkx' own G.subgraph(S) view iterates a SMALL node set in the set's order, not in G's order, so it
    is not used as the reference."""
    h = nx.Graph()
    for n in g._node:
        if n in keep:
            h.add_node(n, **dict(g._node[n]))
    shared = {}
    for n in g._node:
        if n in keep:
            for v, dd in g._adj[n].items():
                if v in keep:
                    h._adj[n][v] = shared.setdefault(frozenset((n, v)), dict(dd))
    return h


def edge_subgraph_in_order(g, chosen):
    """The subgraph made of the chosen edges (frozensets) and their end points, node order and adjacency
    order of g (Spec.TorchSpec.nx_edge_subgraph)."""
    h = nx.Graph()
    for n in g._node:
        if any(frozenset((n, v)) in chosen for v in g._adj[n]):
            h.add_node(n, **dict(g._node[n]))
    shared = {}
    for n in h._node:
        for v, dd in g._adj[n].items():
            if frozenset((n, v)) in chosen:
                h._adj[n][v] = shared.setdefault(frozenset((n, v)), dict(dd))
    return h


def guard(f):
    try:
        return ("ok", f())
    except EXC as e:
        return (type(e).__name__, str(e)[:200])


def custom_nt(d):
    return [len(d["symbol"]), sum(ord(ch) for ch in d["symbol"])]


def custom_et(d):
    g, h = d["bond"]
    return [h, g, g + h]


def _tag_pre(d):
    d.pre_tag = torch.tensor(1)
    return d


def _tag_tr(d):
    d = d.clone()
    d.tr_tag = torch.tensor(2)
    return d


def dataset_invariants(graphs, wrap=None):
    """ITSDataset stores / returns, per member, exactly its_to_torch(member, same transforms) -- for every
    combination of node transform given or not x edge transform given or not x targets given or not (ids given
    in every second combination), tensor for tensor (x, edge_index, edge_attr; y and id where applicable);
    pre_transform is applied once at construction and transform on access."""
    msgs = []
    k = len(graphs)
    wrap = wrap or [False] * k
    ys = [(7 * i + 3) % 5 for i in range(k)]
    ids = [100 + 3 * i for i in range(k)]

    def members():
        out = []
        for g, w in zip(graphs, wrap):
            h = gens.copy_exact(g)
            out.append(ITS(h) if w else h)
        return out

    combo = 0
    for nt in (None, custom_nt):
        for et in (None, custom_et):
            for y in (None, ys):
                combo += 1
                use_ids = ids if combo % 2 == 0 else None
                tag = "ITSDataset(node_transform=%s, edge_transform=%s, y=%s, ids=%s)" % (
                    "custom" if nt else "None", "custom" if et else "None", "given" if y else "None",
                    "given" if use_ids else "None")
                try:
                    ds = ITSDataset(members(), y=y, ids=use_ids, node_feature_transform=nt, edge_feature_transform=et)
                    refs = [its_to_torch(m, node_feature_transform=nt, edge_feature_transform=et) for m in members()]
                    if len(ds) != k or len(ds.data) != k:
                        msgs.append("%s: %d samples for %d graphs" % (tag, len(ds), k))
                        continue
                    for i in range(k):
                        for where, smp in (("returns", ds[i]), ("stores", ds.data[i])):
                            for f in ("x", "edge_index", "edge_attr"):
                                a, b = getattr(smp, f), getattr(refs[i], f)
                                if a is None or a.dtype != b.dtype or not torch.equal(a, b):
                                    msgs.append("%s %s a sample whose %s differs from its_to_torch(member %d, same transforms)"
                                                % (tag, where, f, i))
                            if nt is not None and smp.x.size(1) != 2:
                                msgs.append("%s %s node features without the custom node transform" % (tag, where))
                            if et is not None and smp.edge_attr.size(1) != 3:
                                msgs.append("%s %s edge features without the custom edge transform" % (tag, where))
                            if y is None:
                                if smp.y is not None:
                                    msgs.append("%s %s a target although none was given" % (tag, where))
                            elif smp.y is None or not torch.equal(smp.y, torch.tensor(ys[i])):
                                msgs.append("%s %s target %r for member %d instead of %d" % (tag, where, smp.y, i, ys[i]))
                            if use_ids is None:
                                if "id" in smp:
                                    msgs.append("%s %s an id although none was given" % (tag, where))
                            elif "id" not in smp or not torch.equal(smp.id, torch.tensor(ids[i])):
                                msgs.append("%s %s a wrong id for member %d" % (tag, where, i))
                except Exception as e:   # noqa
                    msgs.append("%s raised %s: %s" % (tag, type(e).__name__, e))
    try:
        ds = ITSDataset(members(), pre_transform=_tag_pre, transform=_tag_tr)
        refs = [its_to_torch(m) for m in members()]
        for i in range(k):
            smp, st = ds[i], ds.data[i]
            if "pre_tag" not in st or "tr_tag" in st or "pre_tag" not in smp or "tr_tag" not in smp:
                msgs.append("ITSDataset: pre_transform / transform not applied at construction / on access (member %d)" % i)
            for f in ("x", "edge_index", "edge_attr"):
                if not torch.equal(getattr(smp, f), getattr(refs[i], f)):
                    msgs.append("ITSDataset with callbacks returns a sample whose %s differs from its_to_torch(member %d)" % (f, i))
    except Exception as e:   # noqa
        msgs.append("ITSDataset with pre_transform/transform raised %s: %s" % (type(e).__name__, e))
    return msgs[:6]


def run_impl(c):
    op = c["op"]
    inv = []
    out = {"inv": inv}
    if op in ("to_torch", "roundtrip"):
        g = gens.copy_exact(c["graph"])
        arg = ITS(g) if c.get("wrap") and all("symbol" in g.nodes[n] for n in g.nodes) else g
        r = guard(lambda: its_to_torch(arg))
        for n in g.nodes:       # ITS() adds map numbers; nothing else may change
            g.nodes[n].pop("aam", None) if "aam" not in c["graph"].nodes[n] else None
        if not gens.graphs_identical(g, c["graph"]):
            inv.append("its_to_torch mutated its argument")
        if r[0] != "ok":
            out["res"] = r
            return out
        if op == "to_torch":
            out["res"] = ("ok", t_lists(r[1]))
            return out
        r2 = guard(lambda: its_from_torch(r[1]))
        out["res"] = r2
        return out
    if op == "dataset":
        gs = [gens.copy_exact(g) for g in c["graphs"]]
        wrap = c.get("wrap") or [False] * len(gs)
        r = guard(lambda: ITSDataset([ITS(g) if w else g for g, w in zip(gs, wrap)]))
        for g, g0 in zip(gs, c["graphs"]):
            for n in g.nodes:
                if "aam" not in g0.nodes[n]:
                    g.nodes[n].pop("aam", None)
        if any(not gens.graphs_identical(a, b) for a, b in zip(gs, c["graphs"])):
            inv.append("ITSDataset mutated a member of the list")
        if r[0] != "ok":
            out["res"] = r
            out["members"] = None
            return out
        ds = r[1]
        out["members"] = [t_lists(ds[i]) for i in range(len(ds))]
        out["res"] = ("ok", out["members"])
        if len(ds) != len(gs):
            inv.append("ITSDataset has %d samples for %d graphs" % (len(ds), len(gs)))
        inv.extend(dataset_invariants(c["graphs"], wrap))
        return out
    if op == "batch":
        gs = [gens.copy_exact(g) for g in c["graphs"]]
        r = guard(lambda: its_to_torch(gs))
        if any(not gens.graphs_identical(a, b) for a, b in zip(gs, c["graphs"])):
            inv.append("its_to_torch mutated a member of the list")
        out["T"] = r if r[0] != "ok" else ("ok", t_lists(r[1]))
        if r[0] != "ok":
            out["res"] = r
            out["members"] = None
            return out
        out["members"] = [t_lists(its_to_torch(g)) for g in gs]
        out["res"] = guard(lambda: its_from_torch(r[1]))
        # D20: the same custom transforms for a list as for its members
        if c.get("kind") == "clean":
            try:
                bt = its_to_torch(gs, node_feature_transform=custom_nt, edge_feature_transform=custom_et)
                ms = [its_to_torch(g, node_feature_transform=custom_nt, edge_feature_transform=custom_et) for g in gs]
                ref = Batch.from_data_list(ms)
                for f in ("x", "edge_index", "edge_attr", "batch"):
                    if not torch.equal(getattr(bt, f), getattr(ref, f)):
                        inv.append("batch with custom transforms differs from member-wise conversion in %s" % f)
                if bt.x.size(1) != 2 or bt.edge_attr.size(1) != 3:
                    inv.append("custom transforms were not applied to the list input")
                # one transform only (the other one default)
                for kw in ({"node_feature_transform": custom_nt}, {"edge_feature_transform": custom_et}):
                    b1 = its_to_torch(gs, **kw)
                    r1 = Batch.from_data_list([its_to_torch(g, **kw) for g in gs])
                    for f in ("x", "edge_index", "edge_attr", "batch"):
                        if not torch.equal(getattr(b1, f), getattr(r1, f)):
                            inv.append("batch with only %s differs from member-wise conversion in %s" % (list(kw)[0], f))
            except Exception as e:   # noqa
                inv.append("custom-transform batch raised %s: %s" % (type(e).__name__, e))
            # the same clause through the ITSDataset entry point
            inv.extend(dataset_invariants(c["graphs"]))
        return out
    if op == "from_torch":
        ds = [to_tensor_data(t) for t in c["tensors"]]
        d = Batch.from_data_list(ds) if c["batched"] else ds[0]
        out["T"] = ("ok", t_lists(d))
        out["res"] = guard(lambda: its_from_torch(d))
        return out
    # tensor operators
    if "graph" in c:
        d = its_to_torch(gens.copy_exact(c["graph"]))
        if not c.get("with_ea", True):
            d = Data(x=d.x, edge_index=d.edge_index)
    else:
        d = to_tensor_data(c["tensor"], c.get("with_ea", True))
    before = t_lists(d)
    out["T"] = ("ok", before)
    if op == "node_induced":
        r = guard(lambda: node_induced_subgraph(d, list(c["nodes"])))
        if "graph" in c and r[0] == "ok" and sorted(c["nodes"]) == list(c["nodes"]) and len(set(c["nodes"])) == len(c["nodes"]):
            # positions ascending: the tensor form of the networkx induced subgraph, entry for entry
            g = c["graph"]
            ids = list(g.nodes)
            sub = induced_in_order(g, {ids[j] for j in c["nodes"]})
            if sub.number_of_edges() > 0:
                ref = its_to_torch(sub)
                if not c.get("with_ea", True):
                    ref = Data(x=ref.x, edge_index=ref.edge_index)
                out["ref"] = t_lists(ref)
    elif op == "edge_induced":
        r = guard(lambda: edge_induced_subgraph(d, list(c["edges"])))
        es = list(c["edges"])
        if "graph" in c and r[0] == "ok" and es == sorted(set(es)) and len(es) % 2 == 0 \
                and all(es[i] % 2 == 0 and es[i + 1] == es[i] + 1 for i in range(0, len(es), 2)):
            # whole edges in Graph.edges() order: the tensor form of the edge subgraph, entry for entry
            g = c["graph"]
            el = list(g.edges)
            sub = edge_subgraph_in_order(g, {frozenset(el[k // 2]) for k in es[::2]})
            ref = its_to_torch(sub)
            if not c.get("with_ea", True):
                ref = Data(x=ref.x, edge_index=ref.edge_index)
            out["ref"] = t_lists(ref)
    elif op == "prune":
        st = torch.tensor(list(c["start"]), dtype=torch.long)
        r = guard(lambda: prune(d, st, radius=c["radius"]))
    elif op == "prune_rc":
        r = guard(lambda: prune_rc(d, radius=c["radius"]))
    elif op == "adjacency":
        r = guard(lambda: get_adjacency_matrix(d))
        out["res"] = r if r[0] != "ok" else ("ok", r[1].tolist())
        if t_lists(d) != before:
            inv.append("get_adjacency_matrix mutated its argument")
        return out
    else:
        raise ValueError(op)
    out["res"] = r if r[0] != "ok" else ("ok", t_lists(r[1]))
    if t_lists(d) != before:
        inv.append("%s mutated its argument" % op)
    return out


# ------------------------------------------------------------------ Coq terms

def zrows(rows, f=ct.z):
    return "(%s : list (list Z))" % ct.lst([ct.lst([f(v) for v in r]) for r in rows])


def hz(v):
    return ct.z(ct.half(v))


def iz(v):
    if isinstance(v, float):
        raise ct.Unrepresentable("float where an integer tensor entry is expected: %r" % v)
    return ct.z(v)


def tdata_term(t):
    if t.get("bad"):
        raise ct.Unrepresentable(t["bad"])
    x = zrows(t["x"], iz)
    ei = "(%s : list (Z * Z))" % ct.lst(["(%s, %s)" % (iz(u), iz(v)) for u, v in t["ei"]])
    ea = "(@None (list (list Z)))" if t["ea"] is None else "(Some %s)" % zrows(t["ea"], hz)
    b = "(@None (list Z))" if t["batch"] is None else "(Some (%s : list Z))" % ct.lst([iz(v) for v in t["batch"]])
    return "(mkT %s %s %s %s)" % (x, ei, ea, b)


def res_term(r, ty, f):
    if r[0] == "ok":
        return "(@Ok %s %s)" % (ty, f(r[1]))
    if r[0] not in ERRS:
        raise ct.Unrepresentable("unexpected exception %s" % r[0])
    return "(@Err %s %s)" % (ty, r[0])


def its_out_term(v):
    if isinstance(v, list):
        return "(Many %s)" % ct.lst([ct.graph(g) for g in v])
    return "(One %s)" % ct.graph(v)


def zl(l):
    return "(%s : list Z)" % ct.lst([ct.z(v) for v in l])


def coq_case(c, out):
    op = c["op"]
    defs, checks, diag = {}, {}, []
    if op in ("to_torch", "roundtrip"):
        defs["g"] = ct.graph(c["graph"])
        if op == "to_torch":
            defs["out"] = res_term(out["res"], "tdata", tdata_term)
            model = "its_to_torch1 $g"
            checks["agree"] = "res_eqb tdata_eqb (%s) $out" % model
            checks["spec"] = "to_torch_okb $g $out"
        else:
            defs["out"] = res_term(out["res"], "its_out", its_out_term)
            model = "bind (its_to_torch1 $g) its_from_torch"
            checks["agree"] = "res_eqb its_out_eqb (%s) $out" % model
            checks["spec"] = "roundtrip_okb $g $out"
        diag = [model]
    elif op == "batch":
        defs["gs"] = "(%s : list graph)" % ct.lst([ct.graph(g) for g in c["graphs"]])
        defs["T"] = res_term(out["T"], "tdata", tdata_term)
        defs["out"] = res_term(out["res"], "its_out", its_out_term)
        defs["ms"] = "(%s : list tdata)" % ct.lst([tdata_term(m) for m in (out["members"] or [])])
        m1 = "its_to_torch_list $gs"
        m2 = "bind (its_to_torch_list $gs) its_from_torch"
        checks["agree"] = "res_eqb tdata_eqb (%s) $T && res_eqb its_out_eqb (%s) $out" % (m1, m2)
        checks["spec"] = "batch_okb $gs $ms $T $out"
        diag = [m1, m2]
    elif op == "dataset":
        if out["res"][0] != "ok":
            raise ct.Unrepresentable("ITSDataset raised %s on convertible graphs" % (out["res"],))
        defs["gs"] = "(%s : list graph)" % ct.lst([ct.graph(g) for g in c["graphs"]])
        defs["ms"] = "(%s : list tdata)" % ct.lst([tdata_term(m) for m in out["members"]])
        checks["agree"] = "all2b (fun g m => res_eqb tdata_eqb (its_to_torch1 g) (Ok m)) $gs $ms"
        checks["spec"] = "all2b to_torch_tensor_okb $gs $ms"
        diag = ["mapM its_to_torch1 $gs"]
    elif op == "from_torch":
        defs["T"] = res_term(out["T"], "tdata", tdata_term)
        defs["out"] = res_term(out["res"], "its_out", its_out_term)
        model = "bind $T its_from_torch"
        checks["agree"] = "res_eqb its_out_eqb (%s) $out" % model
        checks["spec"] = "from_torch_okb $T $out"
        diag = [model]
    else:
        defs["T"] = tdata_term(out["T"][1])
        if op == "adjacency":
            defs["out"] = res_term(out["res"], "matrix", lambda m: zrows(m, lambda v: ct.z(int(v)) if float(v) == int(v) else ct.z(v)))
            model = "get_adjacency_matrix $T"
            checks["agree"] = "res_eqb matrix_eqb (%s) $out" % model
            checks["spec"] = "adjacency_okb $T $out"
        else:
            defs["out"] = res_term(out["res"], "tdata", tdata_term)
            if op == "node_induced":
                defs["ns"] = zl(c["nodes"])
                model = "node_induced_subgraph $T $ns"
                checks["spec"] = "node_induced_okb $T $ns $out"
                if out.get("ref") is not None:
                    defs["ref"] = tdata_term(out["ref"])
                    checks["spec"] += " && res_eqb tdata_eqb $out (Ok $ref)"
            elif op == "edge_induced":
                defs["es"] = zl(c["edges"])
                model = "edge_induced_subgraph $T $es"
                checks["spec"] = "edge_induced_okb $T $es $out"
                if out.get("ref") is not None:
                    defs["ref"] = tdata_term(out["ref"])
                    checks["spec"] += " && res_eqb tdata_eqb $out (Ok $ref)"
            elif op == "prune_rc":
                model = "prune_rc $T %s" % ct.z(c["radius"])
                # the proved-sound prune checker, for the start set the (proved) reaction-centre reading gives
                checks["spec"] = ("match rc_start_nodes $T with Ok st => prune_domainb $T st && prune_okb $T st %s $out "
                                  "| Err _ => false end" % ct.z(c["radius"]))
            else:
                defs["st"] = zl(c["start"])
                model = "prune $T $st %s" % ct.z(c["radius"])
                checks["spec"] = "prune_okb $T $st %s $out" % ct.z(c["radius"])
            checks["agree"] = "res_eqb tdata_eqb (%s) $out" % model
        diag = [model]
    for cn in CHECKS:
        checks.setdefault(cn, "true")
    return {"defs": defs, "checks": {cn: checks[cn] for cn in CHECKS}, "diag": diag}


# ------------------------------------------------------------------ bookkeeping

def describe(c):
    d = {k: v for k, v in c.items() if k not in ("graph", "graphs")}
    if "graph" in c:
        d["graph"] = ct.graph_py(c["graph"])
    if "graphs" in c:
        d["graphs"] = [ct.graph_py(g) for g in c["graphs"]]
    return d


def from_json(d):
    c = dict(d)
    if "graph" in d:
        c["graph"] = ct.graph_from_py(d["graph"])
    if "graphs" in d:
        c["graphs"] = [ct.graph_from_py(g) for g in d["graphs"]]
    return c


def _jres(r):
    if r is None or r[0] != "ok":
        return r
    v = r[1]
    if isinstance(v, nx.Graph):
        return ["ok", ct.graph_py(v)]
    if isinstance(v, list) and v and isinstance(v[0], nx.Graph):
        return ["ok", [ct.graph_py(g) for g in v]]
    return ["ok", v]


def describe_out(out):
    return {"result": _jres(out.get("res")), "tensor": _jres(out.get("T")), "members": out.get("members"),
            "invariants": out.get("inv")}


def key(c):
    parts = [c["op"]]
    if "graph" in c:
        parts.append(ct.graph_canon(c["graph"]))
    if "graphs" in c:
        parts.append(tuple(ct.graph_canon(g) for g in c["graphs"]))
    for k in ("tensor", "tensors", "nodes", "edges", "start", "radius", "with_ea", "batched"):
        if k in c:
            parts.append(repr(c[k]))
    return tuple(parts)


def _nedges(c, out):
    if "graph" in c:
        return c["graph"].number_of_edges()
    if "graphs" in c:
        return min(g.number_of_edges() for g in c["graphs"])
    t = out.get("T")
    return len(t[1]["ei"]) if t and t[0] == "ok" else 0


def nontrivial(c, out):
    r = out.get("res")
    if not r or r[0] != "ok" or _nedges(c, out) == 0:
        return False
    op = c["op"]
    if op in ("node_induced", "edge_induced"):
        return len(r[1]["ei"]) > 0
    if op in ("prune", "prune_rc"):
        kept = len(r[1]["x"])
        return kept > 0 and (kept < len(out["T"][1]["x"]) or c["radius"] >= 1)
    return True


def classes(c, out):
    yield "op=" + c["op"]
    r = out.get("res")
    yield "result=" + (r[0] if r else "?")
    if "scheme" in c:
        for s in set(c["scheme"].split("+")):
            yield "scheme=" + s
    if "kind" in c:
        yield "kind=" + ("clean" if c["kind"] == "clean" else "dirty")
    if c["op"] in ("batch", "dataset"):
        yield "members=%d" % len(c["graphs"])
        if len(c["graphs"]) >= 3:
            yield "members>=3"
    if c["op"] == "prune_rc":
        yield "radius=%d" % min(c["radius"], 4)
    if c["op"] == "prune":
        yield "radius=%d" % min(c["radius"], 4)
        yield "starts=%d" % len(c["start"])
    if c["op"] in ("node_induced", "edge_induced", "prune", "prune_rc", "adjacency"):
        yield "edge_attr=" + ("yes" if c.get("with_ea", True) else "no")
    if out.get("ref") is not None:
        yield "nx-subgraph-reference"


def py_invariants(c, out):
    return list(out.get("inv") or [])
