"""C15 — generated reactions are balanced and mapped; Diels-Alder samples have DA centres.
Correspondence: Model.ProxyGen.reaction_all ~ [gh for gh in fgutils.proxy.ReactionProxy(core, groups)]
= split_its of every graph Proxy yields (Model.Its.split_its ~ fgutils.its.split_its), the whole
enumeration as a list of (g, h) pairs compared exactly, and how the iteration ends.
Shipped Diels-Alder proxy: quick = both modes, a deterministic sample of indices compared against the
model's full enumeration + the count; thorough = every sample of both modes (sliced)."""
import lib
import coqterm as ct
import proxycfg as pc
from props import c14 as base
from fgutils.proxy import Proxy, ReactionProxy, ProxyGroup, ProxyGraph
from fgutils.its import split_its

ID = "C15"
PROPS = "Props/C15.v"
MODEL_FILES = ["Model/ProxyGen.v", "Gen/ProxyDA.v", "Spec/ProxyGenCheck.v"]
IMPORTS = base.IMPORTS
CHECKS = ["agree", "spec"]
USES_GEN = ["proxyda"]
CHUNK = 25
CORRESPONDENCE = ("Model.ProxyGen.reaction_all (= map Model.Its.split_its over Model.ProxyGen.proxy_all) ~ "
                  "fgutils.proxy.ReactionProxy.get_next (= fgutils.its.split_its(Proxy.get_next())) and "
                  "fgutils.proxy_collection.diels_alder_proxy.DielsAlderProxy; whole enumeration as a list of (g, h) "
                  "pairs, exact graph equality incl. dict orders, and the terminal event")
RULE = ("reaction proxies over random acyclic group DAGs as in C14 with ITS <g,h> bonds forced in the core patterns "
        "(groups with and without ITS bonds, empty patterns, multi-anchor graphs, parallel attachments, 1-3 cores), "
        "enable_aam=True (85%) or False; 15% with a repeated core graph, 20% with an iteration history on one "
        "ReactionProxy object (k samples through next()/get_next()/a broken loop, then list(proxy)), 25% with an explicit "
        "Parser(use_multigraph=True|False, init_aam=True|False) (simple-graph parser and init_aam with enable_aam=False: "
        "checkers only, not modelled); the test-suite reactions; the shipped DielsAlderProxy in positive and "
        "negative mode: quick = every 37th sample (and the first and last 20) of the full enumeration + the count, "
        "thorough = all 10470 + 12875 samples in slices. non-trivial = at least one sample with a reaction-centre "
        "bond; distinct = distinct configuration / slice")
TRUSTED = base.TRUSTED + ["Model.Its.split_its (tied exactly in C10)"]
ASSUMPTIONS = base.ASSUMPTIONS[:3] + [
    "general theorem: rests on the C10 theorems about split_its / get_its (split_its_spec, split_its_nodes, "
    "resuperimpose_by_aam) and on the C13 theorem, all plugged in by Proofs/ProxyGenTop.v (no hypothesis left)",
    "Diels-Alder part: the finite shipped configuration as dumped from the live module objects (Gen/ProxyDA.v); "
    "valence table of da_sample_ok is the hand-written reference (C 4, N 5, O 2, S 6, Si 4, halogens 1)"]

STRIDE = 37
DA_SLICE = 400


def gen_reaction_config(rng, limit):
    for _ in range(500):
        c = base.gen_config(rng, limit)
        cfg = c["cfg"]
        if not any("<" in p for p, _ in cfg["core"]):
            continue
        cfg["aam"] = rng.random() < 0.85
        c["cls"] = "ReactionProxy"
        # histories on one object (k samples through next()/get_next()/a broken loop, then list(proxy)),
        # explicit parsers (use_multigraph / init_aam), equal core graphs: a separate random stream
        r = rng.random()
        if r < 0.15 and cfg["core"]:
            j = rng.randrange(len(cfg["core"]))
            cfg["core"] = list(cfg["core"]) + [[cfg["core"][j][0], list(cfg["core"][j][1])]]
            c["expected"] = pc.count_formula(cfg, limit=100 * limit)
        r = rng.random()
        if r < 0.2:
            n = c.get("expected") or 3
            c["drive"] = [rng.choice(base.DRIVES), rng.choice([1, 1, 2, max(1, n // 2), max(1, n - 1), n + 1])]
        r = rng.random()
        if r < 0.25:
            c["parser"] = rng.choice(base.PARSERS)
            if c["parser"][1]:
                cfg["aam"] = rng.random() < 0.9
        # the groups through the JSON-style entry points (ReactionProxy.from_dict itself returns a plain Proxy: C14)
        if not c.get("drive") and c.get("parser") is None and rng.random() < 0.25:
            base.make_dict(rng, c)
            if c.get("dict"):
                c["dict"]["entry"] = rng.choice(["groups_from_dict", "groups_from_dict", "from_dict_single"])
                c["cls"] = "ReactionProxy"
        return c
    raise RuntimeError("no reaction configuration found")


def picks(total):
    idx = sorted(set(list(range(0, min(20, total))) + list(range(max(0, total - 20), total)) + list(range(0, total, STRIDE))))
    return idx


def generate(seed, tier, ncases=None):
    global CHUNK
    quick = tier == "quick"
    CHUNK = 25 if quick else 1
    n = ncases or (125 if quick else 1200)
    limit = 200 if quick else 2000
    da = []
    if not ncases:
        if quick:
            # positive mode: both core graphs (= the whole positive enumeration), negative mode: the first core
            # graph; a deterministic sample of indices of each is compared against the model
            for neg, ci in ((False, 1), (False, 0), (True, 0)):
                cfg = dict(base.da_cfg(neg), core=[base.da_cfg(neg)["core"][ci]])
                total = pc.count_formula(cfg)
                da.append({"kind": "dapick", "neg": neg, "core": ci, "idx": picks(total), "total": total, "cfg": cfg,
                           "cls": "DielsAlderProxy", "how": "da"})
        else:
            for neg in (False, True):
                total = pc.count_formula(base.da_cfg(neg))
                for i in range(0, total, DA_SLICE):
                    da.append({"kind": "da", "neg": neg, "slice": [i, min(DA_SLICE, total - i)], "total": total,
                               "cfg": base.da_cfg(neg), "cls": "DielsAlderProxy", "how": "da"})
    if not quick:
        for c in da:
            yield c
        da = []
    for i in range(n):
        if quick and da and i % CHUNK == 0:
            # one long evaluation per case file
            yield da.pop(0)
        rng = lib.rng_for(seed, ID, i)
        yield gen_reaction_config(rng, limit if rng.random() < 0.8 else 30)
    for c in da:
        yield c


def corpus():
    for c in base.corpus():
        if c["cls"] == "ReactionProxy":
            yield c
    yield base._mk(["C<1,2>C<2,1>{g}", "{g}<0,1>C"], [("g", ["O", "C=C", ""])], cls="ReactionProxy")
    yield base._mk(["C<2,1>C{g}"], [("g", ["C<1,2>O", "N"])], aam=False, cls="ReactionProxy")
    yield base._mk(["C1<1,2>{g}<2,1>1"], [("g", ["C", ["CC", [0, 1]]])], cls="ReactionProxy")
    # explicit parsers: parse-time map numbers (init_aam) must not survive into the samples; simple-graph parser
    for ps in base.PARSERS:
        c = base._mk(["C<1,2>C<2,1>{g}N{h}", "{h}<0,1>C"], [("g", ["O", "C=C", ""]), ("h", [["C{g}", [1, 0]], "S"])],
                     cls="ReactionProxy")
        c["parser"] = ps
        yield c
    # histories on one ReactionProxy object; equal core graphs
    for drv in (["next", 1], ["get_next", 2], ["break", 2]):
        c = base._mk(["C<2,1>C{g}", "C<2,1>C{g}"], [("g", ["C<1,2>O", "N", "S"])], cls="ReactionProxy")
        c["drive"] = drv
        yield c


_da_cache = {}


def _da_all(neg, core=None):
    """All (its, g, h) of the shipped proxy (optionally restricted to one of its core graphs by a subclass that
    overrides the class attribute core_graphs): one instance driven through its own get_next; the ITS graph each
    sample was split from is recorded by wrapping the name split_its inside fgutils.proxy."""
    key = (neg, core)
    if key not in _da_cache:
        import fgutils.proxy as fp
        from fgutils.proxy_collection.diels_alder_proxy import DielsAlderProxy
        cls = DielsAlderProxy
        if core is not None:
            cls = type("DielsAlderProxyCore%d" % core, (DielsAlderProxy,), {"core_graphs": [DielsAlderProxy.core_graphs[core]]})
        its = []
        real = fp.split_its

        def recorder(graph):
            its.append(graph)      # split_its copies its argument and nothing touches it afterwards
            return real(graph)

        fp.split_its = recorder
        try:
            p = cls(neg_sample=neg)
            cfg = pc.dump_proxy(p)
            pairs, status, stays = base._iterate(p, lambda q: q.get_next())
        finally:
            fp.split_its = real
        _da_cache[key] = (its, pairs, status, stays, cfg)
    return _da_cache[key]


def run_impl(c):
    if c["kind"] in ("da", "dapick"):
        its, pairs, status, stays, cfg = _da_all(c["neg"], c.get("core"))
        msgs = []
        if cfg != c["cfg"]:
            msgs.append("the Diels-Alder proxy object does not hold the expected configuration")
        if c["kind"] == "da":
            i, k = c["slice"]
            sel = list(range(i, min(i + k, len(pairs))))
        else:
            sel = [i for i in c["idx"] if i < len(pairs)]
        return {"its": [its[i] for i in sel if i < len(its)], "pairs": [pairs[i] for i in sel], "status": status,
                "stays": stays, "n": len(pairs), "n_its": len(its), "msgs": msgs}
    cfg = c["cfg"]
    if c.get("dict"):
        p = base._from_dict(c, ReactionProxy)
    else:
        p = pc.build_proxy(cfg, cls=ReactionProxy, how=c["how"], parser=c.get("parser"))
    msgs = []
    try:
        if pc.dump_proxy(p, any_parser=c.get("parser") is not None) != cfg:
            msgs.append("the proxy object does not hold the configuration it was built from")
    except pc.Unexpected as e:
        msgs.append("proxy object outside the modelled domain: %s" % e)
    import fgutils.proxy as fp
    its = []
    real = fp.split_its

    def recorder(graph):
        its.append(graph)      # split_its copies its argument and nothing touches it afterwards
        return real(graph)

    fp.split_its = recorder
    try:
        if c.get("drive"):
            pairs, status, stays = base._drive(p, c["drive"])
        else:
            pairs, status, stays = base._iterate(p, lambda q: q.get_next())
    finally:
        fp.split_its = real
    return {"its": its, "pairs": pairs, "status": status, "stays": stays, "n": len(pairs), "n_its": len(its), "msgs": msgs}


def pairs_term(pairs):
    items = []
    for gh in pairs:
        if not isinstance(gh, tuple) or len(gh) != 2:
            raise ct.Unrepresentable("ReactionProxy yielded %r" % type(gh))
        items.append("(%s, %s)" % (pc.cgraph(gh[0]), pc.cgraph(gh[1])))
    return "(%s : list (graph * graph))" % ct.lst(items)


def coq_case(c, out):
    if c["kind"] in ("da", "dapick"):
        name = "DA_neg" if c["neg"] else "DA_pos"
        if c.get("core") is not None:
            name = "(mkCfg [nth %d %s_core (mkPG [] [])] %s_groups true)" % (c["core"], name, name)
        defs = {"out": pairs_term(out["pairs"])}
        if c["kind"] == "da":
            i, k = c["slice"]
            agree = "rgen_slice_eqb (proxy_all %s) %s %s %s $out" % (name, ct.nat(i), ct.nat(k), ct.nat(out["n"]))
            spec = "forallb da_sample_ok $out"
        else:
            defs["idx"] = "(%s : list nat)" % ct.lst([ct.nat(i) for i in c["idx"]])
            defs["its"] = base.graphs_term(out["its"])
            agree = "rgen_pick_eqb (proxy_all %s) $idx %s $out" % (name, ct.nat(out["n"]))
            spec = "forallb da_sample_ok $out && C15_all_okb $its $out"
        if out["status"] != "done":
            agree = "false"
        return {"defs": defs, "checks": {"agree": agree, "spec": spec}, "diag": []}
    defs = {"cfg": pc.cfg_term(c["cfg"], mg=base.parser_mg(c)), "out": pairs_term(out["pairs"]),
            "its": base.graphs_term(out["its"])}
    agree = "rgen_eqb (reaction_all $cfg) ($out, %s)" % base.STATUS[out["status"]]
    ps = c.get("parser")
    if ps is not None and (not ps[0] or (ps[1] and not c["cfg"]["aam"])):
        # not modelled (simple-graph parser / parse-time map numbers left in place by enable_aam=False):
        # only the checkers run on these outputs
        agree = "true"
    if c.get("dict"):
        conf = c["dict"]["conf"]
        defs["tbl"] = pc.table_term(pc.conf_patterns(conf))
        defs["jgroups"] = pc.jgroups_term(conf["groups"])
        aam = "(Some %s)" % ct.b(conf["enable_aam"]) if "enable_aam" in conf else "None"
        agree = "rdict_agree (proxy_from_dict string (jparse $tbl) %s $jgroups %s) $cfg ($out, %s)" % (
            pc.jcore_term(conf["core"]), aam, base.STATUS[out["status"]])
    if out["status"] == "done" and c["cfg"]["aam"]:
        spec = "C15_all_okb $its $out"
    elif out["status"] == "done":
        spec = "Nat.eqb (List.length $its) (List.length $out)"
    else:
        spec = "C14_err_okb $cfg"
    return {"defs": defs, "checks": {"agree": agree, "spec": spec},
            "diag": ["(List.length (fst (reaction_all $cfg)), snd (reaction_all $cfg))"]}


def describe(c):
    d = base.describe(dict(c, kind="da" if c["kind"] == "dapick" else c["kind"], slice=c.get("slice"), total=c.get("total"),
                           expected=c.get("expected")))
    d["kind"] = c["kind"]
    d["drive"] = c.get("drive")
    d["parser"] = c.get("parser")
    if c["kind"] == "dapick":
        d["idx"] = c["idx"]
        d["core"] = c["core"]
        d["cfg"] = "DielsAlderProxy(neg_sample=%s) restricted to core graph %d" % (c["neg"], c["core"])
    return d


def from_json(d):
    if d["kind"] == "dapick":
        cfg = dict(base.da_cfg(d["neg"]), core=[base.da_cfg(d["neg"])["core"][d["core"]]])
        return {"kind": "dapick", "neg": d["neg"], "core": d["core"], "idx": d["idx"], "total": d["total"], "cfg": cfg,
                "cls": "DielsAlderProxy", "how": "da"}
    return base.from_json(d)


def describe_out(out):
    return {"status": out["status"], "n": out["n"], "stays_exhausted": out["stays"],
            "pairs": [[ct.graph_py(g), ct.graph_py(h)] for g, h in out["pairs"][:3]]}


def key(c):
    if c["kind"] == "dapick":
        return ("dapick", c["neg"], c["core"])
    return base.key(c)


def _has_rc(out):
    return any(isinstance(d.get("bond"), tuple) and d["bond"][0] != d["bond"][1]
               for g in out["its"] for _, _, d in g.edges(data=True))


def nontrivial(c, out):
    return out["n"] >= 1 and _has_rc(out)


def classes(c, out):
    yield "kind=" + c["kind"]
    yield "status=" + out["status"]
    n = out["n"]
    yield "samples=" + ("0" if n == 0 else "1" if n == 1 else "2-9" if n < 10 else "10-99" if n < 100 else "100-999" if n < 1000 else "1000+")
    if c["kind"] in ("da", "dapick"):
        yield "mode=" + ("negative" if c["neg"] else "positive")
        if any(any(d["bond"] == 3 for _, _, d in g.edges(data=True)) for g, _ in out["pairs"]):
            yield "alkyne_dienophile=yes"
        return
    cfg = c["cfg"]
    yield "aam=%s" % cfg["aam"]
    yield "cores=%d" % len(cfg["core"])
    if c.get("drive"):
        yield "history=%s" % c["drive"][0]
        if 0 < c["drive"][1] < n:
            yield "history_splits_enumeration=yes"
    if c.get("parser") is not None:
        yield "parser=use_multigraph:%s,init_aam:%s" % tuple(c["parser"])
    if c.get("dict"):
        yield "built_from_dict=%s" % c["dict"]["entry"]
    if len(set((p, tuple(a)) for p, a in cfg["core"])) < len(cfg["core"]):
        yield "equal_core_graphs=yes"
    if "" in pc.all_patterns(cfg):
        yield "empty_pattern=yes"
    if base._nested(cfg):
        yield "nested_groups=yes"
    if _has_rc(out):
        yield "has_rc_bond=yes"
    if any(any(not isinstance(d.get("bond"), tuple) for _, _, d in g.edges(data=True)) for g in out["its"]):
        yield "scalar_bond_in_its=yes"


def py_invariants(c, out):
    msgs = list(out["msgs"])
    msgs += pc.shift_messages(c["cfg"], base.parser_mg(c))
    if not out["stays"]:
        msgs.append("the exhausted proxy yielded again")
    if out["n"] != out["n_its"]:
        msgs.append("ReactionProxy yields %d samples but Proxy.get_next yields %d graphs" % (out["n"], out["n_its"]))
    if c["kind"] == "dapick" and out["n"] != c["total"]:
        msgs.append("Diels-Alder proxy (neg=%s, core graph %d) yields %d samples, count formula says %d"
                    % (c["neg"], c["core"], out["n"], c["total"]))
    if c["kind"] == "da":
        doc = 12875 if c["neg"] else 10470
        if out["n"] != doc:
            msgs.append("Diels-Alder proxy (neg=%s) yields %d samples, documented %d" % (c["neg"], out["n"], doc))
    return msgs
