"""C20 — atom-map completion. Correspondence: Model.Aam.complete_aam / initialize_aam  ~
fgutils.utils.complete_aam / initialize_aam / fgutils.its.ITS.__init__ (exact graph equality)."""
import lib
import gens
import coqterm as ct
from fgutils.utils import complete_aam, initialize_aam
from fgutils.its import ITS

ID = "C20"
REPEAT_PROBE = True   # engine: repeat 1 call in 5 after editing its first result in place (purity / no shared state)
PROPS = "Props/C20.v"
MODEL_FILES = ["Model/Aam.v", "Spec/AamCheck.v"]
IMPORTS = "From FGV Require Import Model.Aam Spec.AamCheck."
CHECKS = ["agree", "spec"]
CORRESPONDENCE = "Model.Aam.{complete_aam,initialize_aam} ~ fgutils.utils.{complete_aam,initialize_aam}, fgutils.its.ITS.__init__"
RULE = ("random labelled graphs (1-9 nodes, all id schemes: contiguous/offset/sparse/negative/shuffled insertion order) "
        "with random partial atom maps (existing numbers from a small range so that collisions with the "
        "counter are frequent; occasionally duplicated or non-positive), operation in {complete_aam(None|int|'min'), "
        "initialize_aam(offset), ITS(graph)}; non-trivial = at least one unmapped and one mapped node for completion, "
        "or an initialize_aam call on a graph with >= 2 nodes; distinct = distinct (operation, offset, node/aam list). About a third of the graphs carry explicit hydrogens (as prune_its_to_rc inserts them), wildcard atoms or atoms without a symbol, mostly on the unmapped nodes. A quarter of the completion cases are HISTORIES on one graph object: complete, edit in place (free a number, remove / add a node, remap), complete again with the same or another offset - every completion is compared with the model on the object's contents at that moment; a quarter of the initialize_aam cases have exactly one pre-mapped atom (the one with id 0 if present).")
TRUSTED = ["model of the attribute dict as a record of the five keys FGUtils uses"]
ASSUMPTIONS = ["node ids and map numbers are Python ints; offset is None, an int or 'min' (other values raise ValueError before any work)"]


def generate(seed, tier, ncases=None):
    n = ncases or (600 if tier == "quick" else 12000)
    for i in range(n):
        rng = lib.rng_for(seed, ID, i)
        g = gens.rand_forest(rng, 1, 9 if rng.random() < 0.9 else 14)
        g, scheme, _ = gens.reid(rng, g)
        op = rng.choice(["complete", "complete", "complete", "init", "its"])
        pm = rng.choice([0.0, 0.3, 0.5, 0.8, 1.0]) if op != "init" else rng.choice([0.0, 0.0, 0.0, 0.2])
        lo = rng.choice([1, 1, 1, 0, -2, 3, 7])
        pool = list(range(lo, lo + g.number_of_nodes() + 3))
        dup = rng.random() < 0.1
        for nd in g.nodes:
            if rng.random() < pm:
                k = rng.choice(pool)
                if not dup:
                    pool.remove(k)
                g.nodes[nd]["aam"] = k
        if op != "init" and g.number_of_nodes() >= 5 and rng.random() < 0.2:
            # "looks like a gapless block" family: k existing numbers (with repeats) spanning exactly k consecutive
            # values, i.e. max - min + 1 == k although some value inside the span is unused
            nodes = list(g.nodes)
            for nd in nodes:
                g.nodes[nd].pop("aam", None)
            k = rng.randint(3, max(3, g.number_of_nodes() - 2))
            m = rng.choice([1, 1, 2, 5, 0, -3])
            inner = list(range(m + 1, m + k - 1))
            gap = rng.choice(inner)
            vals = [m, m + k - 1] + [rng.choice([v for v in range(m, m + k) if v != gap]) for _ in range(k - 2)]
            rng.shuffle(vals)
            for nd, v in zip(rng.sample(nodes, k), vals):
                g.nodes[nd]["aam"] = v
        off = None
        if op == "complete":
            off = rng.choice([None, "min", "min", rng.randint(-3, 12), 1, 0])
            if rng.random() < 0.15:
                # an explicit start just above the LAST mapped node's number but not above every number
                have = [g.nodes[nd]["aam"] for nd in g.nodes if "aam" in g.nodes[nd]]
                if have:
                    off = have[-1] + rng.choice([0, 1, 1, 2])
        elif op == "init":
            off = rng.choice([1, 1, 0, rng.randint(-5, 30)])
        c = {"op": op, "graph": g, "offset": off, "scheme": scheme}
        srng = lib.rng_for(seed, ID, "sym%d" % i)      # a stream of its own: the choices above stay what they were
        if srng.random() < 0.35:
            # explicit hydrogens (as prune_its_to_rc inserts them), wildcards, atoms without a symbol: the map is
            # completed on EVERY node, whatever it stands for
            for nd in g.nodes:
                r0 = srng.random()
                if r0 < (0.5 if "aam" not in g.nodes[nd] else 0.15):
                    g.nodes[nd]["symbol"] = srng.choice(["H", "H", "H", "R", "*"])
                elif r0 > 0.95:
                    g.nodes[nd].pop("symbol", None)
        if op != "init" and rng.random() < 0.3:
            # graphs as get_its / prune_its_to_rc leave them: mapped atoms carry idx_map, later additions do not
            for nd in g.nodes:
                if "aam" in g.nodes[nd]:
                    g.nodes[nd]["idx_map"] = (nd, rng.choice([nd, nd + 1, 0]))
        r = rng.random()
        if op == "init" and r < 0.25 and g.number_of_nodes() >= 1:
            # exactly one pre-mapped atom, preferably the one whose id is 0 / smallest / first
            for nd in g.nodes:
                g.nodes[nd].pop("aam", None)
            nodes = list(g.nodes)
            pick = 0 if 0 in nodes else rng.choice(nodes)
            g.nodes[pick]["aam"] = rng.choice([0, 1, 5])
        elif op == "complete" and r < 0.25:
            # history on ONE graph object: complete, edit in place, complete again (each step judged on its own)
            c["script"] = [rng.choice(["free_number", "remove_node", "add_node", "drop_all", "remap", "none"])
                           for _ in range(rng.randint(1, 2))]
            c["offsets"] = [rng.choice([off, off, None, "min", rng.randint(-2, 9)]) for _ in c["script"]]
            c["eseed"] = rng.randint(0, 10 ** 6)
        yield c


def _edit(g, kind, rng):
    """In-place edit of a graph between two completions (deterministic in rng)."""
    nodes = list(g.nodes)
    mapped = [n for n in nodes if "aam" in g.nodes[n]]
    if kind == "free_number" and mapped:
        del g.nodes[rng.choice(mapped)]["aam"]
    elif kind == "remove_node" and len(nodes) > 1:
        g.remove_node(rng.choice(nodes))
    elif kind == "drop_all":
        for n in rng.sample(mapped, len(mapped) // 2):
            del g.nodes[n]["aam"]
    elif kind == "remap" and mapped:
        g.nodes[rng.choice(mapped)]["aam"] = rng.randint(-2, 15)
    if kind in ("add_node", "free_number", "remove_node"):
        new = max(list(g.nodes) + [0]) + rng.choice([1, 1, 3])
        g.add_node(new, symbol=rng.choice(["C", "O", "N"]))
        if g.number_of_nodes() > 1 and rng.random() < 0.7:
            g.add_edge(new, rng.choice([n for n in g.nodes if n != new]), bond=1)


def corpus():
    import networkx as nx
    g = nx.Graph()
    g.add_node(5, symbol="C", aam=3)
    g.add_node(2, symbol="O")
    g.add_node(9, symbol="C")
    g.add_edge(5, 2, bond=1)
    yield {"op": "complete", "graph": g, "offset": "min", "scheme": "corpus"}
    yield {"op": "its", "graph": gens.copy_exact(g), "offset": None, "scheme": "corpus"}


def run_impl(c):
    g = gens.copy_exact(c["graph"])
    if c.get("script"):
        import random
        rng = random.Random(c["eseed"])
        steps = []
        gattr0 = dict(g.graph)
        try:
            complete_aam(g, offset=c["offset"])
            steps.append((gens.copy_exact(c["graph"]), c["offset"], gens.copy_exact(g)))
            for kind, off in zip(c["script"], c["offsets"]):
                _edit(g, kind, rng)
                before = gens.copy_exact(g)
                complete_aam(g, offset=off)
                steps.append((before, off, gens.copy_exact(g)))
        except RuntimeError as e:
            return ("RuntimeError", str(e))
        return ("steps", steps, dict(g.graph) == gattr0)
    try:
        if c["op"] == "complete":
            complete_aam(g, offset=c["offset"])
        elif c["op"] == "init":
            initialize_aam(g, offset=c["offset"])
        else:
            ITS(g)
        return ("ok", g)
    except RuntimeError as e:
        return ("RuntimeError", str(e))


def off_term(c):
    if c["op"] == "its" or c["offset"] == "min":
        return "OffMin"
    if c["offset"] is None:
        return "OffNone"
    return "(OffInt %s)" % ct.z(c["offset"])


def _off_term(off):
    if off == "min":
        return "OffMin"
    if off is None:
        return "OffNone"
    return "(OffInt %s)" % ct.z(off)


def coq_case(c, out):
    if out[0] == "steps":
        defs, agree, spec = {}, [], []
        for i, (before, off, after) in enumerate(out[1]):
            defs["g%d" % i] = ct.graph(before)
            defs["o%d" % i] = "(Some %s)" % ct.graph(after)
            agree.append("option_eqb graph_eqb (complete_aam $g%d %s) $o%d" % (i, _off_term(off), i))
            spec.append("complete_okb $g%d %s $o%d" % (i, _off_term(off), i))
        return {"defs": defs, "checks": {"agree": " && ".join(agree), "spec": " && ".join(spec)},
                "diag": ["complete_aam $g%d %s" % (len(out[1]) - 1, _off_term(out[1][-1][1]))]}
    defs = {"g": ct.graph(c["graph"])}
    defs["out"] = "(@None graph)" if out[0] != "ok" else "(Some %s)" % ct.graph(out[1])
    if c["op"] == "init":
        model = "initialize_aam $g %s" % ct.z(c["offset"])
        spec = "init_okb $g %s $out" % ct.z(c["offset"])
    else:
        model = "complete_aam $g %s" % off_term(c)
        spec = "complete_okb $g %s $out" % off_term(c)
    return {"defs": defs,
            "checks": {"agree": "option_eqb graph_eqb (%s) $out" % model, "spec": spec},
            "diag": [model]}


def describe(c):
    d = {"op": c["op"], "offset": c["offset"], "scheme": c["scheme"], "graph": ct.graph_py(c["graph"])}
    for k in ("script", "offsets", "eseed"):
        if k in c:
            d[k] = c[k]
    return d


def from_json(d):
    c = {"op": d["op"], "offset": d["offset"], "scheme": d["scheme"], "graph": ct.graph_from_py(d["graph"])}
    for k in ("script", "offsets", "eseed"):
        if k in d:
            c[k] = d[k]
    return c


def describe_out(out):
    if out[0] == "ok":
        return {"status": out[0], "graph": ct.graph_py(out[1])}
    if out[0] == "steps":
        return {"status": "steps", "graph_attrs_unchanged": out[2],
                "steps": [{"before": ct.graph_py(b), "offset": o, "after": ct.graph_py(a)} for b, o, a in out[1]]}
    return {"status": out[0], "msg": out[1]}


def key(c):
    g = c["graph"]
    return (c["op"], c["offset"], tuple((n, g.nodes[n].get("aam")) for n in g.nodes), repr(c.get("script")), c.get("eseed"))


def nontrivial(c, out):
    g = c["graph"]
    mapped = sum(1 for n in g.nodes if "aam" in g.nodes[n])
    if c["op"] == "init":
        return g.number_of_nodes() >= 2
    return 0 < mapped < g.number_of_nodes()


def classes(c, out):
    g = c["graph"]
    mapped = sum(1 for n in g.nodes if "aam" in g.nodes[n])
    yield "op=" + c["op"]
    yield "scheme=" + c["scheme"]
    yield "result=" + out[0]
    if c.get("script"):
        yield "history=" + "+".join(c["script"])
    yield "mapped=" + ("none" if mapped == 0 else "all" if mapped == g.number_of_nodes() else "partial")


def py_invariants(c, out):
    # edges must not be touched (the model keeps adjacency by construction; the tie compares it too)
    if out[0] == "steps" and not out[2]:
        return ["complete_aam changed the graph-level attribute dict graph.graph of its argument"]
    return []
