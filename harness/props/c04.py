"""C04 -- a reported match is a genuine embedding of the whole pattern; a reported failure means there is none.
Checks: "agree" (model = implementation, exact) and "spec4" = the proved decidable test is_embedding on the
returned pairs when the implementation reports success (connected patterns), and no embedding according to the
proved-exact reference decision exists_embedding when it reports failure."""
import lib
from props import _match_common as mc

ID = "C04"
REPEAT_PROBE = True   # engine: repeat 1 call in 5 after editing its first result in place (purity / no shared state)
PROPS = "Props/C04.v"
MODEL_FILES = mc.MODEL_FILES
IMPORTS = mc.IMPORTS
CHECKS = ["agree", "spec4"]
CORRESPONDENCE = mc.CORRESPONDENCE
RULE = ("random hosts (1-8 nodes, 0-3 extra ring bonds, symbols {C,O,N,H,c,Cl}, bond orders {1,2,1.5}, 15% ITS-style tuple labels) x "
        "patterns (<= 5 nodes; planted = random connected sub-structure of the host, relabelled, wildcards/case changes substituted; "
        "near-miss = planted with one symbol / bond changed, one extra ring bond or pendant atom; unplanted random; occasionally "
        "disconnected or empty; 3% with a self-loop, 3% with a node lacking its symbol), all four (wildcard None|'R') x ignore_case settings, can_map_to_nothing [] (80%) / ['H'] / ['H','R'], "
        "arbitrary node ids and shuffled node/adjacency dict orders on both graphs, operation in {map_anchored_subgraph, map_subgraph "
        "with/without subgraph_anchor, map_subgraph_to_graph}; anchors: the planted pair or random nodes, rarely a missing node; "
        "8% of the random draws are PLANTED 5-6 atom patterns in hetero-atom hosts (3-5 ring of C/N/O/S with pendant atoms): a sub-structure grown from a hetero anchor round/through the ring, mostly as a tree (ring-closing bond left out), degree-1 pattern atoms turned into R with p=0.6, so that several leaves compete for the same host atoms; anchors on hetero atoms; each emitted with shuffled and with reversed adjacency orders; 7% are mapper-HISTORY cases (pattern with pendant H/R atoms that have no counterpart in the host; the mapper is built after the public can_map_to_nothing list of another mapper was edited, from a caller list that is edited later, or from a list shared with a mapper with another wildcard; the answer must be the model answer for the original arguments, and object-identity / caller-list invariants are checked at run time); "
        "BOTH tiers also run the competing-leaves scope (bundled, pattern anchor fixed): four-ring N-C-Y-C (Y in {O,S}) with a pendant C/O on one or both ring carbons, each also with reversed adjacency orders, anchored on N, x patterns N(C-leaves)(C-leaves) with 2-3 leaves (5-6 atoms) over {R,O,S,C}, both branch orders: the ring atom Y is wanted by leaves of both branches; "
        "8% of the random draws are IN-PLACE HISTORIES: one live host object and one live pattern object are used for 2-3 consecutive calls (any of the three entry points, one mapper object); the pattern is planted in a host H1, H0 lacks one thing it needs (a pendant atom, a bond, a symbol, a bond order); the object starts as H0 or H1 and is edited in place between the calls (add/remove node, add/remove bond, change symbol / bond order: edits that create the embedding and edits that destroy it, sometimes an unrelated new atom or an edit of the pattern object); every call is compared with the model and judged by the spec check on the objects' contents at that moment; "
        "20% of the remaining random cases are ring-biased: a 3-6 ring with MIXED bond orders (plus pendant atoms / a chord) and a pattern walked along the ring from the anchor, so that two equally labelled host neighbours compete and the search must backtrack when the wrong one is first in adjacency order; BOTH tiers run the exhaustive small cyclic scope (bundled: one generated case = one host, one host anchor, one mapper and up to 12 patterns, each run through map_subgraph, which tries every pattern anchor): every 3-, 4-, 5-ring with every assignment of bond orders {1,2} to its ring bonds, rooted at the host anchor (= all anchors up to rotation, mirror images included): all-C 3-/4-rings x ALL chain/branched patterns <= 4 nodes over {C,R}, 5-rings x patterns over {C,R} <= 3 nodes and C-only 4-node patterns, all of them x C-only patterns under the default mapper (R, ignore_case); 3-/4-rings with one pendant C (single/double) x every host anchor x C-only patterns with 3-4 nodes; 3-/4-rings with one O at every position x patterns over {C,R} <= 3 nodes (3-rings also under the default mapper and the mapper without wildcard); 12192 map_subgraph calls in quick; thorough: rings up to 6, all patterns <= 4 nodes; "
        "thorough adds the exhaustive scope: every connected host <= 4 nodes over {C,O}x{1,2} x every connected pattern <= 3 nodes over "
        "{C,R}x{1,2} (one representative per isomorphism class, random ids/orders) x every host anchor through map_subgraph, which tries every pattern anchor; "
        "non-trivial = no exception, host and pattern have >= 2 nodes; distinct = distinct (operation, graphs incl. dict orders, anchors, mapper)")
TRUSTED = mc.TRUSTED
ASSUMPTIONS = mc.ASSUMPTIONS
EXHAUSTIVE = {"quick": True, "thorough": True}
CHUNK = 200
OPS = ["anchored", "anchored", "anchored", "anchored", "sub", "sub", "sub_anchor", "to_graph"]


def generate(seed, tier, ncases=None):
    global CHUNK
    CHUNK = 100 if tier == "quick" else 200     # quick: more, smaller Coq files (the ring-scope bundles are heavy)
    n = ncases or (900 if tier == "quick" else 60000)
    rand = (c for i in range(n) for c in mc.gen_cases(lib.rng_for(seed, ID, i), OPS))
    if ncases is not None:
        yield from rand
        return
    yield from mc.interleave(rand, list(mc.ring_scope_cases(tier)) + list(mc.fork_scope_cases(tier)))
    if tier == "thorough":
        yield from mc.exhaustive_cases(seed, ID, 4, 3, ["C", "O"], ["C", "R"], [1, 2], n)


def corpus():
    return mc.corpus_cases()


run_impl = mc.run_impl
py_invariants = mc.py_invariants
describe = mc.describe
from_json = mc.from_json
describe_out = mc.describe_out
key = mc.key
nontrivial = mc.nontrivial
classes = mc.classes


def coq_case(c, out):
    return {"defs": mc.base_defs(c, out),
            "checks": {"agree": mc.agree_expr(c), "spec4": mc.spec4_expr(c, out)},
            "diag": [mc.model_expr(c)]}
