"""Shared by c03.py / c04.py: generators, implementation runner and Coq serialisation for the
sub-graph matcher (fgutils/algorithm/subgraph.py).  Correspondence:
Model.Match.{map_anchored_subgraph, map_subgraph, map_subgraph_to_graph} ~ the Python functions
of the same names (Boolean, pair list INCLUDING order, visited sets as sets, exception class)."""
import itertools

import networkx as nx

import coqterm as ct
import gens
import lib
from fgutils.algorithm.subgraph import map_anchored_subgraph, map_subgraph, map_subgraph_to_graph
from fgutils.parse import parse
from fgutils.permutation import PermutationMapper

SYMS = ["C", "C", "C", "O", "N", "H", "c", "Cl"]
ORDERS = (1, 1, 1, 2, 1.5)
MAPPERS = [(None, False), (None, True), ("R", False), ("R", True)]

IMPORTS = "From FGV Require Import Base.Sym Model.Permute Model.Match Spec.Embedding Spec.MatchCheck."
MODEL_FILES = ["Model/Match.v", "Spec/Embedding.v", "Spec/MatchCheck.v"]
CORRESPONDENCE = ("Model.Match.{map_anchored_subgraph,map_subgraph,map_subgraph_to_graph} (with Model.Permute.permute) ~ "
                  "fgutils.algorithm.subgraph.{map_anchored_subgraph,map_subgraph,map_subgraph_to_graph} "
                  "(Boolean and exception class exactly, pair list exactly including order, visited sets as sets)")
TRUSTED = ["model of the node attribute dict as a record of the five keys FGUtils uses; edge attribute dict = the 'bond' value",
           "Model/Permute.v as the model of PermutationMapper.permute (tied to the code separately by C08; every "
           "permute call made by the matcher is also exercised through the exact comparison here)"]
ASSUMPTIONS = ["graphs are networkx.Graph objects built through the networkx API (adjacency symmetric, neighbours are nodes: wfb), "
               "node ids are Python ints, symbols are ASCII strings, every edge has a 'bond' that is a number (multiple of 0.5) "
               "or a 2-tuple/2-list of such numbers",
               "theorems C03/C04_sound/C04_exact: can_map_to_nothing = [] and every node carries a symbol "
               "(C04_gen covers can_map_to_nothing != [] for the soundness direction)"]


# ----------------------------------------------------------------------------------------------
# generators

def _its_labels(rng, g, table=None):
    """turn every scalar bond into an ITS-style tuple (before, after)"""
    for u, v, d in g.edges(data=True):
        o = d["bond"]
        d["bond"] = (o, rng.choice([o, o, 1, 2, 0]))


def rand_host(rng, nmax=8):
    """random tree on 1..nmax nodes plus 0-3 extra ring bonds"""
    nmin = 1 if rng.random() < 0.25 else min(4, nmax)
    g = gens.rand_mol(rng, nmin, nmax, syms=SYMS, ring_p=0.0, orders=ORDERS)
    n = g.number_of_nodes()
    if n >= 3:
        for _ in range(rng.choice([0, 0, 1, 1, 2, 2, 3])):
            u, v = rng.sample(range(n), 2)
            if not g.has_edge(u, v):
                g.add_edge(u, v, bond=rng.choice(ORDERS))
    return g


def plant(rng, host, kmax=5):
    """a random connected sub-structure of the host as a pattern on ids 0..k-1;
    returns (pattern, {pattern id: host id})"""
    nodes = list(host.nodes)
    start = rng.choice(nodes)
    k = max(rng.randint(1, min(kmax, len(nodes))), rng.randint(1, min(kmax, len(nodes))))
    chosen = [start]
    tree = []
    while len(chosen) < k:
        frontier = [(u, v) for u in chosen for v in host.neighbors(u) if v not in chosen]
        if not frontier:
            break
        u, v = rng.choice(frontier)
        chosen.append(v)
        tree.append((u, v))
    idx = {h: i for i, h in enumerate(chosen)}
    p = nx.Graph()
    for h in chosen:
        p.add_node(idx[h], symbol=host.nodes[h]["symbol"])
    keep_p = rng.choice([0.0, 0.5, 1.0, 1.0, 1.0])
    for u, v, d in host.edges(data=True):
        if u in idx and v in idx:
            if (u, v) in tree or (v, u) in tree or rng.random() < keep_p:
                p.add_edge(idx[u], idx[v], bond=d["bond"])
    return p, {i: h for h, i in idx.items()}


def decorate(rng, p, w):
    """wildcards / case changes that keep a planted pattern embeddable under (w='R', ic=True)"""
    for n in p.nodes:
        r = rng.random()
        if r < 0.2:
            p.nodes[n]["symbol"] = "R"
        elif r < 0.3:
            s = p.nodes[n]["symbol"]
            p.nodes[n]["symbol"] = s.lower() if s != s.lower() else s.upper()


def near_miss(rng, p, its):
    """one small change that usually destroys the planted embedding"""
    kind = rng.choice(["sym", "bond", "cyclebond", "cyclebond", "ring", "pendant"])
    nodes = list(p.nodes)
    if kind == "cyclebond":
        # change the order of a bond that lies on a cycle of the pattern (it may be the ring-closing one)
        cyc = nx.cycle_basis(p)
        if cyc:
            c = rng.choice(cyc)
            i = rng.randrange(len(c))
            u, v = c[i], c[(i + 1) % len(c)]
            o = p.edges[u, v]["bond"]
            if isinstance(o, tuple):
                p.edges[u, v]["bond"] = (o[0], o[1] + 1)
            else:
                p.edges[u, v]["bond"] = rng.choice([x for x in (1, 2, 1.5) if x != o])
            return kind
        kind = "bond"
    if kind == "sym":
        n = rng.choice(nodes)
        p.nodes[n]["symbol"] = rng.choice([s for s in ["C", "O", "N", "H", "Cl"] if s != p.nodes[n]["symbol"]])
    elif kind == "bond" and p.number_of_edges() > 0:
        u, v = rng.choice(list(p.edges))
        o = p.edges[u, v]["bond"]
        if isinstance(o, tuple):
            p.edges[u, v]["bond"] = rng.choice([(o[0], o[1] + 1), o[0], (o[1], o[0] + 1)])
        else:
            p.edges[u, v]["bond"] = rng.choice([x for x in (1, 2, 1.5, 3, (1, 1)) if x != o])
    elif kind == "ring" and len(nodes) >= 3:
        non = [(u, v) for u, v in itertools.combinations(nodes, 2) if not p.has_edge(u, v)]
        if non:
            u, v = rng.choice(non)
            p.add_edge(u, v, bond=(1, 1) if its else rng.choice([1, 2]))
    else:
        n = max(nodes) + 1
        p.add_node(n, symbol=rng.choice(["C", "O", "H", "R"]))
        p.add_edge(rng.choice(nodes), n, bond=(1, 1) if its else rng.choice([1, 2]))
        kind = "pendant"
    return kind


def rand_pattern(rng, its):
    p = gens.rand_mol(rng, 1, 5, syms=SYMS + ["R", "R"], ring_p=0.4, orders=ORDERS, extra_max=2)
    if its:
        _its_labels(rng, p)
    return p


def ring_graph(n, orders, syms=None, pendant=None, pendant_first=False):
    """ring 0..n-1 with bond i -- (i+1)%n of order orders[i]; pendant = (ring position, order, symbol)
    adds node n.  Edge insertion order (= adjacency order) is deterministic: node i sees i+1 before i-1
    except node 0, which sees 1 first, then n-1."""
    g = nx.Graph()
    for i in range(n):
        g.add_node(i, symbol=(syms[i] if syms else "C"))
    if pendant is not None:
        g.add_node(n, symbol=pendant[2])
        if pendant_first:
            g.add_edge(pendant[0], n, bond=pendant[1])
    for i in range(n):
        g.add_edge(i, (i + 1) % n, bond=orders[i])
    if pendant is not None and not pendant_first:
        g.add_edge(pendant[0], n, bond=pendant[1])
    return g


def gen_ringmix(rng, ops):
    """host = ring (3-6 atoms, mostly C) whose bonds have MIXED orders, a few pendant atoms / one chord;
    pattern = a path walked along the ring from the anchor (optionally with one branch), so that at the
    anchor (and at every later ring atom) two equally labelled host neighbours compete and the bond
    orders further along decide: a matcher has to backtrack whenever the wrong neighbour comes first in
    adjacency order (ids and adjacency orders are shuffled afterwards)."""
    n = rng.choice([3, 4, 4, 4, 5, 6, 6])
    while True:
        orders = [rng.choice([1, 2]) for _ in range(n)]
        if len(set(orders)) == 2:
            break
    syms = [("O" if rng.random() < 0.12 else "C") for _ in range(n)]
    host = ring_graph(n, orders, syms)
    nxt = n
    for _ in range(rng.choice([0, 0, 1, 1, 2])):
        host.add_node(nxt, symbol=rng.choice(["C", "C", "O"]))
        host.add_edge(rng.randrange(n), nxt, bond=rng.choice([1, 2]))
        nxt += 1
    if n >= 5 and rng.random() < 0.2:
        u = rng.randrange(n)
        host.add_edge(u, (u + 2) % n, bond=rng.choice([1, 2]))
    # walk along the ring
    start = rng.randrange(n)
    step = rng.choice([1, -1])
    # long enough to reach the far side of the ring, where both ways round meet again
    length = rng.randint(max(2, n // 2), min(4, n - 1)) if n > 3 else 2
    walk = [(start + step * k) % n for k in range(length + 1)]
    p = nx.Graph()
    for i, h in enumerate(walk):
        p.add_node(i, symbol=host.nodes[h]["symbol"])
    for i in range(length):
        p.add_edge(i, i + 1, bond=host.edges[walk[i], walk[i + 1]]["bond"])
    pm = {i: h for i, h in enumerate(walk)}
    kind = "ringmix"
    if rng.random() < 0.3:                      # one branch onto a pendant / ring neighbour not on the walk
        i = rng.randrange(len(walk))
        cand = [v for v in host.neighbors(walk[i]) if v not in walk]
        if cand:
            v = rng.choice(cand)
            k = len(walk)
            p.add_node(k, symbol=host.nodes[v]["symbol"])
            p.add_edge(i, k, bond=host.edges[walk[i], v]["bond"])
            pm[k] = v
            kind = "ringmix-branch"
    if rng.random() < 0.25:                     # wildcards
        for q in p.nodes:
            if rng.random() < 0.3:
                p.nodes[q]["symbol"] = "R"
    if rng.random() < 0.25:                     # near miss: flip one pattern bond
        u, v = rng.choice(list(p.edges))
        p.edges[u, v]["bond"] = 3 - p.edges[u, v]["bond"]
        kind += "-miss"
    w, ic = rng.choice([("R", True), ("R", True), ("R", False), (None, False)])
    op = rng.choice(ops)
    hscheme = "contig" if op == "to_graph" else None
    host2, hscheme, hm = gens.reid(rng, host, hscheme)
    p2, pscheme, pmm = gens.reid(rng, p)
    q = 0 if rng.random() < 0.7 else rng.choice(list(pm))
    a, pa = hm[pm[q]], pmm[q]
    if op == "to_graph":
        a = pa = None
    elif op == "sub":
        pa = None
    return {"op": op, "G": host2, "P": p2, "a": a, "pa": pa, "w": w, "ic": ic, "cmtn": [],
            "kind": kind, "scheme": hscheme + "/" + pscheme}


HETERO = ["N", "O", "S"]


def reverse_adjacency(g):
    """the same graph with every node's adjacency (neighbour dict) order reversed"""
    h = gens.copy_exact(g)
    for n in h._adj:
        h._adj[n] = dict(reversed(list(h._adj[n].items())))
    return h


def hetero_host(rng):
    """small ring (3-5 atoms) of C and hetero atoms N/O/S, with 1-3 pendant atoms / two-atom chains"""
    n = rng.choice([3, 4, 4, 4, 5, 5])
    syms = [rng.choice(["C", "C", "C"] + HETERO) for _ in range(n)]
    if not any(x in HETERO for x in syms):
        syms[rng.randrange(n)] = rng.choice(HETERO)
    host = ring_graph(n, [rng.choice([1, 1, 1, 2]) for _ in range(n)], syms)
    nxt = n
    for _ in range(rng.randint(1, 3)):
        at = rng.randrange(nxt)
        host.add_node(nxt, symbol=rng.choice(["C", "C", "O", "N"]))
        host.add_edge(at, nxt, bond=rng.choice([1, 1, 2]))
        nxt += 1
    return host, n


def gen_hetero(rng, ops):
    """PLANTED pattern with 5-6 atoms in a hetero-atom host with a small ring: a random connected
    sub-structure grown from a hetero anchor that goes round / through the ring (usually as a tree, i.e.
    with the ring-closing bond left out, so that two pattern branches end next to the same host ring atom),
    some degree-1 pattern atoms turned into the wildcard R: several leaves then compete for the same host
    atoms and only one distribution of them works.  Anchors on the hetero atoms.  Emitted twice: with the
    shuffled adjacency orders and with every adjacency order reversed."""
    host, n = hetero_host(rng)
    het = [v for v in host.nodes if host.nodes[v]["symbol"] in HETERO]
    start = rng.choice([v for v in het if v < n] or het)
    chosen, tree = [start], []
    want = rng.randint(5, 6)
    while len(chosen) < want:
        frontier = [(u, v) for u in chosen for v in host.neighbors(u) if v not in chosen]
        if not frontier:
            break
        ringf = [e for e in frontier if e[1] < n]          # prefer going on round the ring
        u, v = rng.choice(ringf if ringf and rng.random() < 0.7 else frontier)
        chosen.append(v)
        tree.append((u, v))
    idx = {h: i for i, h in enumerate(chosen)}
    p = nx.Graph()
    for h in chosen:
        p.add_node(idx[h], symbol=host.nodes[h]["symbol"])
    keep = rng.random() < 0.3                    # 30%: keep the other induced bonds (ring closures) too
    for u, v, d in host.edges(data=True):
        if u in idx and v in idx and ((u, v) in tree or (v, u) in tree or keep):
            p.add_edge(idx[u], idx[v], bond=d["bond"])
    kind = "hetero"
    for q in list(p.nodes):
        if q != 0 and p.degree(q) == 1 and rng.random() < 0.6:
            p.nodes[q]["symbol"] = "R"
    if rng.random() < 0.15:
        kind = "hetero-miss-" + near_miss(rng, p, False)
    w, ic = rng.choice([("R", True), ("R", True), ("R", False)])
    op = rng.choice(["anchored", "anchored", "anchored", "sub", "sub_anchor"])
    host2, hscheme, hm = gens.reid(rng, host)
    p2, pscheme, pmm = gens.reid(rng, p)
    anchors = [q for q in idx.values() if q in pmm and p.nodes[q]["symbol"] in HETERO] or [0]
    q = 0 if rng.random() < 0.6 else rng.choice(anchors)
    h_of = {i: h for h, i in idx.items()}
    a, pa = hm[h_of[q]], pmm[q]
    if op == "sub":
        pa = None
    c = {"op": op, "G": host2, "P": p2, "a": a, "pa": pa, "w": w, "ic": ic, "cmtn": [],
         "kind": kind, "scheme": hscheme + "/" + pscheme}
    c2 = dict(c, G=reverse_adjacency(host2), P=reverse_adjacency(p2), scheme=c["scheme"] + "+rev")
    return [c, c2]


def gen_history(rng, ops):
    """a case in which optional symbols would change the answer (planted pattern + pendant H / R atoms that
    have no counterpart in the host), run under a mapper-construction HISTORY (see build_mapper)"""
    host = rand_host(rng, 6)
    for v in host.nodes:                      # no hydrogens in the host: an H in the pattern can only stay unmapped
        if host.nodes[v]["symbol"] == "H":
            host.nodes[v]["symbol"] = "C"
    p, pm = plant(rng, host, 4)
    w, ic = rng.choice([("R", True), ("R", True), ("R", False), (None, False)])
    nodes = list(p.nodes)
    nxt = max(nodes) + 1
    for sym in rng.choice([["H"], ["H"], ["H", "H"], ["H", "R"], ["R"]]):
        p.add_node(nxt, symbol=sym)
        p.add_edge(rng.choice(nodes), nxt, bond=1)
        nxt += 1
    hist = rng.choice(["default", "default", "caller-attr", "caller-list", "shared"])
    cmtn = []
    if hist != "default":
        cmtn = rng.choice([[], [], ["H"], ["H", "R"], ["R", "H"]])
    if hist == "shared":
        cmtn = rng.choice([["H", "R"], ["R", "H"], ["H"]])
        w = "R"
    extra = rng.choice([["H"], ["H"], ["H", "R"], ["R"]])
    op = rng.choice(["anchored", "anchored", "sub_anchor"])
    host2, hscheme, hm = gens.reid(rng, host)
    p2, pscheme, pmm = gens.reid(rng, p)
    q = rng.choice(list(pm))
    return {"op": op, "G": host2, "P": p2, "a": hm[pm[q]], "pa": pmm[q], "w": w, "ic": ic, "cmtn": cmtn,
            "kind": "history-" + hist, "scheme": hscheme + "/" + pscheme, "hist": hist, "hist_extra": extra}


# ---- in-place edit histories: ONE host object (and one pattern object) for several consecutive calls ----

def apply_edit(g, e):
    """apply one edit IN PLACE to the live networkx object"""
    k = e[0]
    if k == "add_node":
        g.add_node(e[1], symbol=e[2])
    elif k == "remove_node":
        g.remove_node(e[1])
    elif k == "add_edge":
        g.add_edge(e[1], e[2], bond=e[3])
    elif k == "remove_edge":
        g.remove_edge(e[1], e[2])
    elif k == "set_sym":
        g.nodes[e[1]]["symbol"] = e[2]
    elif k == "set_bond":
        g.edges[e[1], e[2]]["bond"] = e[3]
    else:
        raise ValueError(e)


def _inverse_edit(g, e):
    """the edit that undoes e on the graph g as it is BEFORE e is applied (None if not simply invertible)"""
    k = e[0]
    if k == "add_node":
        return ("remove_node", e[1])
    if k == "add_edge":
        return ("remove_edge", e[1], e[2])
    if k == "remove_edge":
        return ("add_edge", e[1], e[2], g.edges[e[1], e[2]]["bond"])
    if k == "set_sym":
        return ("set_sym", e[1], g.nodes[e[1]]["symbol"])
    if k == "set_bond":
        return ("set_bond", e[1], e[2], g.edges[e[1], e[2]]["bond"])
    return None


def gen_inplace(rng, ops):
    """HISTORY on one object: a host H1 and a pattern planted in it; one thing the pattern needs is first
    taken away from the host (a pendant atom, a bond, a symbol, a bond order) giving H0.  The live host
    object starts as H0 or H1 and is edited IN PLACE between 2-3 consecutive matcher calls (H0 -> H1 creates
    the embedding, H1 -> H0 destroys it, then possibly back, or an unrelated edit); sometimes the pattern
    object is edited in place as well.  Every call (any of the three entry points, one mapper object for
    the whole history) is compared with the model on the objects' contents at that moment."""
    its = False
    host = rand_host(rng, 7)
    if rng.random() < 0.4:                      # ring hosts with hetero atoms as well
        host = hetero_host(rng)[0]
    p, pm = plant(rng, host, 5)
    if len(p) < 2 and host.number_of_nodes() >= 2:
        p, pm = plant(rng, host, 5)
    inv = {h: q for q, h in pm.items()}
    used_edges = [(pm[u], pm[v]) for u, v in p.edges]
    # the change "needed" edit that turns H0 into H1 (expressed on H1's ids), chosen among what the pattern uses
    choices = []
    for (u, v) in used_edges:
        choices.append(("bond", u, v))
        choices.append(("order", u, v))
    for h in pm.values():
        choices.append(("sym", h))
        if host.degree(h) == 1 and len(pm) > 1:
            choices += [("atom", h)] * 4            # add / remove a whole atom: weighted up
    kind_of = rng.choice(choices) if choices else ("sym", rng.choice(list(host.nodes)))
    h0 = gens.copy_exact(host)
    if kind_of[0] == "bond":
        _, u, v = kind_of
        fwd = [("add_edge", u, v, host.edges[u, v]["bond"])]
        h0.remove_edge(u, v)
    elif kind_of[0] == "order":
        _, u, v = kind_of
        o = host.edges[u, v]["bond"]
        o0 = rng.choice([x for x in (1, 2, 1.5) if x != o])
        fwd = [("set_bond", u, v, o)]
        h0.edges[u, v]["bond"] = o0
    elif kind_of[0] == "sym":
        _, h = kind_of
        s1 = host.nodes[h]["symbol"]
        s0 = rng.choice([x for x in ("C", "O", "N", "S") if x != s1])
        fwd = [("set_sym", h, s1)]
        h0.nodes[h]["symbol"] = s0
    else:
        _, h = kind_of
        nb = next(iter(host.neighbors(h)))
        fwd = [("add_node", h, host.nodes[h]["symbol"]), ("add_edge", nb, h, host.edges[nb, h]["bond"])]
        h0.remove_node(h)
    # backward edits (H1 -> H0), computed against H1
    tmp = gens.copy_exact(host)
    bwd = []
    if kind_of[0] == "atom":
        bwd = [("remove_node", kind_of[1])]
    else:
        for e in fwd:
            if kind_of[0] == "order":
                bwd.append(("set_bond", e[1], e[2], h0.edges[e[1], e[2]]["bond"]))
            elif kind_of[0] == "sym":
                bwd.append(("set_sym", e[1], h0.nodes[e[1]]["symbol"]))
            else:
                bwd.append(_inverse_edit(tmp, ("remove_edge", e[1], e[2])) and ("remove_edge", e[1], e[2]))
    w, ic = rng.choice([("R", True), ("R", True), ("R", False), (None, False)])
    if w == "R" and rng.random() < 0.3:
        q = rng.choice(list(p.nodes))
        p.nodes[q]["symbol"] = "R"
    # ids / dict orders: relabel consistently
    start_with_h1 = rng.random() < 0.5
    g0 = host if start_with_h1 else h0
    g0r, hscheme, hm = gens.reid(rng, g0, "contig" if rng.random() < 0.5 else None)
    # nodes of the other graph that are missing from g0 (the removed atom) get a fresh id
    allnodes = set(host.nodes) | set(h0.nodes)
    nxt = max(hm.values()) + 1
    for x in sorted(allnodes):
        if x not in hm:
            hm[x] = nxt
            nxt += 1
    p2, pscheme, pmm = gens.reid(rng, p)

    def ren(e):
        k = e[0]
        if k in ("add_node", "remove_node", "set_sym"):
            return ("G", (k, hm[e[1]]) + tuple(e[2:]))
        return ("G", (k, hm[e[1]], hm[e[2]]) + tuple(e[3:]))

    fwd_r = [ren(e) for e in fwd]
    bwd_r = [ren(e) for e in bwd]
    nsteps = rng.choice([2, 2, 3])
    seqs = []
    # most calls are anchored next to the place that changes (a pattern node whose image is adjacent to the
    # changed bond / atom, and stays in both H0 and H1), so that consecutive calls look at the same host atoms
    if kind_of[0] in ("bond", "order"):
        near = [kind_of[1], kind_of[2]]
    elif kind_of[0] == "atom":
        near = list(host.neighbors(kind_of[1]))
    else:
        near = [x for x in host.neighbors(kind_of[1])] or [kind_of[1]]
    near = [inv[h] for h in near if h in inv] or list(pm)
    focus = rng.choice(near)
    state_h1 = start_with_h1
    for k in range(nsteps):
        edits = []
        if k > 0:
            r = rng.random()
            if r < 0.8:
                edits = list(bwd_r if state_h1 else fwd_r)
                state_h1 = not state_h1
            elif r < 0.9:
                edits = [("G", ("add_node", nxt, rng.choice(["C", "O"])))]   # unrelated: an isolated new atom
                nxt += 1
            if rng.random() < 0.2 and p2.number_of_edges() > 0:              # edit the pattern object as well
                u, v = rng.choice(list(p2.edges))
                o = p2.edges[u, v]["bond"]
                edits.append(("P", ("set_bond", u, v, rng.choice([x for x in (1, 2) if x != o] or [2]))))
        op = rng.choice(["anchored", "anchored", "sub", "sub_anchor", "to_graph"])
        q = focus if rng.random() < 0.65 else rng.choice(list(pm))
        a, pa = hm[pm[q]], pmm[q]
        if op == "sub":
            pa = None
        if op == "to_graph":
            a = pa = None
        seqs.append({"edits": edits, "op": op, "a": a, "pa": pa})
    return {"op": "seq", "G": g0r, "P": p2, "a": None, "pa": None, "w": w, "ic": ic, "cmtn": [],
            "kind": "inplace-" + kind_of[0], "scheme": hscheme + "/" + pscheme, "steps": seqs}


def run_seq(c, msgs):
    """run the history on ONE live host object and ONE live pattern object; returns ("seq", [out per step]) and
    stores the objects' contents at the time of each call in c["_snap"]"""
    g = gens.copy_exact(c["G"])
    p = gens.copy_exact(c["P"])
    mapper = PermutationMapper(wildcard=c["w"], ignore_case=c["ic"], can_map_to_nothing=list(c["cmtn"]))
    outs, snaps = [], []
    for st in c["steps"]:
        for target, e in st["edits"]:
            try:
                apply_edit(g if target == "G" else p, tuple(e))
            except (KeyError, nx.NetworkXError):
                pass                                     # an edit that no longer applies is skipped
        sg, sp = gens.copy_exact(g), gens.copy_exact(p)
        snaps.append((sg, sp))
        try:
            if st["op"] == "anchored":
                r = map_anchored_subgraph(g, st["a"], p, st["pa"], mapper)
            elif st["op"] == "sub":
                r = map_subgraph(g, st["a"], p, mapper)
            elif st["op"] == "sub_anchor":
                r = map_subgraph(g, st["a"], p, mapper, subgraph_anchor=st["pa"])
            else:
                r = map_subgraph_to_graph(g, p, mapper)
            outs.append(("ok", r))
        except KeyError as e:
            outs.append(("KeyError", str(e)))
        except IndexError as e:
            outs.append(("IndexError", str(e)))
        if not (gens.graphs_identical(g, sg) and gens.graphs_identical(p, sp)):
            msgs.append("the matcher mutated one of its argument graphs")
    c["_snap"] = snaps
    return ("seq", outs)


def seq_subcases(c, out):
    """the calls of a history as ordinary single cases on the snapshots"""
    outs = out[1] if out is not None else [None] * len(c["steps"])
    for i, (st, (sg, sp), o) in enumerate(zip(c["steps"], c["_snap"], outs)):
        yield i, {"op": st["op"], "G": sg, "P": sp, "a": st["a"], "pa": st["pa"], "w": c["w"], "ic": c["ic"],
                  "cmtn": c["cmtn"], "kind": c["kind"], "scheme": c["scheme"]}, o


def _idx(expr, i):
    import re
    return re.sub(r"\$(G|P|out)\b", lambda m: "$%s%d" % (m.group(1), i), expr)


def seq_defs(c, out):
    defs = {"mp": mapper_term(c)}
    for i, sc, o in seq_subcases(c, out):
        defs["G%d" % i] = ct.graph(sc["G"])
        defs["P%d" % i] = ct.graph(sc["P"])
        defs["out%d" % i] = out_term(sc, o)
    return defs


def seq_expr(c, out, fn):
    return " && ".join("(%s)" % _idx(fn(sc, o), i) for i, sc, o in seq_subcases(c, out)) or "true"


def gen_cases(rng, ops, nmax=8):
    """one random draw: usually one case, two for the families emitted with both adjacency orders"""
    r = rng.random()
    if r < 0.08:
        return gen_hetero(rng, ops)
    if r < 0.15:
        return [gen_history(rng, ops)]
    if r < 0.23:
        return [gen_inplace(rng, ops)]
    return [gen_case(rng, ops, nmax)]


def gen_case(rng, ops, nmax=8):
    if rng.random() < 0.2:
        return gen_ringmix(rng, ops)
    host = rand_host(rng, nmax)
    its = rng.random() < 0.15
    if its:
        _its_labels(rng, host)
    w, ic = rng.choice(MAPPERS)
    r = rng.random()
    cmtn = [] if r < 0.8 else (["H"] if r < 0.92 else ["H", "R"])
    kind = rng.choice(["planted", "planted", "nearmiss", "nearmiss", "random"])
    pm = None
    if kind == "random":
        p = rand_pattern(rng, its)
    else:
        p, pm = plant(rng, host)
        if rng.random() < 0.6:
            decorate(rng, p, w)
        if kind == "nearmiss":
            kind = "nearmiss-" + near_miss(rng, p, its)
    if rng.random() < 0.04 and p.number_of_edges() > 0:
        e = rng.choice(list(p.edges))
        p.remove_edge(*e)
        kind += "+cut"
    # rare irregular inputs: a self-loop, a node without a symbol (KeyError only if the search reaches it)
    if rng.random() < 0.03:
        g = rng.choice([host, p])
        u = rng.choice(list(g.nodes))
        g.add_edge(u, u, bond=(1, 1) if its else 1)
        kind += "+loop"
    if rng.random() < 0.03:
        g = rng.choice([host, p])
        del g.nodes[rng.choice(list(g.nodes))]["symbol"]
        kind += "+nosym"
    op = rng.choice(ops)
    if op in ("sub", "to_graph") and rng.random() < 0.03:
        p = nx.Graph()
        pm = None
        kind = "empty"
    # ids and dict orders
    hscheme = None
    if op == "to_graph":
        hscheme = "contig" if rng.random() < 0.85 else None
    host2, hscheme, hm = gens.reid(rng, host, hscheme)
    if len(p) > 0:
        p2, pscheme, pmm = gens.reid(rng, p)
    else:
        p2, pscheme, pmm = p, "contig", {}
    a = pa = None
    if op != "to_graph":
        if pm is not None and rng.random() < 0.6:
            q = rng.choice([x for x in pm])
            a, pa = hm[pm[q]], pmm[q]
        else:
            a = rng.choice(list(host2.nodes))
            pa = rng.choice(list(p2.nodes)) if len(p2) else None
        if rng.random() < 0.02:
            a = max(host2.nodes) + 3            # not a node: KeyError
        elif rng.random() < 0.01 and len(p2):
            pa = min(p2.nodes) - 2
        if op == "sub":
            pa = None
        elif pa is None:
            op = "sub"
    return {"op": op, "G": host2, "P": p2, "a": a, "pa": pa, "w": w, "ic": ic, "cmtn": cmtn,
            "kind": kind, "scheme": hscheme + "/" + pscheme}


# ---- exhaustive small scope --------------------------------------------------------------------

def _canon(n, syms, emat):
    best = None
    for perm in itertools.permutations(range(n)):
        key = (tuple(syms[perm[i]] for i in range(n)),
               tuple(emat[min(perm[i], perm[j])][max(perm[i], perm[j])] for i in range(n) for j in range(i + 1, n)))
        if best is None or key < best:
            best = key
    return best


def labelled_graphs(n, syms, orders):
    """all connected graphs on n nodes with node symbols from syms and bond orders from orders,
    one representative per isomorphism class"""
    pairs = list(itertools.combinations(range(n), 2))
    seen = set()
    out = []
    for mask in itertools.product([0] + list(orders), repeat=len(pairs)):
        g0 = nx.Graph()
        g0.add_nodes_from(range(n))
        g0.add_edges_from(pr for pr, o in zip(pairs, mask) if o)
        if n > 0 and not nx.is_connected(g0):
            continue
        emat = [[0] * n for _ in range(n)]
        for (i, j), o in zip(pairs, mask):
            emat[i][j] = o
        for ss in itertools.product(syms, repeat=n):
            key = _canon(n, ss, emat)
            if key in seen:
                continue
            seen.add(key)
            g = nx.Graph()
            for i in range(n):
                g.add_node(i, symbol=ss[i])
            for (i, j), o in zip(pairs, mask):
                if o:
                    g.add_edge(i, j, bond=o)
            out.append(g)
    return out


def exhaustive_cases(seed, pid, hmax, pmax, hsyms, psyms, orders, start_index):
    hosts = [g for n in range(1, hmax + 1) for g in labelled_graphs(n, hsyms, orders)]
    pats = [g for n in range(1, pmax + 1) for g in labelled_graphs(n, psyms, orders)]
    i = start_index
    for hg in hosts:
        for pg in pats:
            rng = lib.rng_for(seed, pid, i)
            i += 1
            h2, hs, _ = gens.reid(rng, hg)
            p2, ps, _ = gens.reid(rng, pg)
            # map_subgraph without a pattern anchor runs map_anchored_subgraph for every pattern node:
            # one case per host anchor covers every anchor pair
            for a in h2.nodes:
                yield {"op": "sub", "G": h2, "P": p2, "a": a, "pa": None, "w": "R", "ic": False,
                       "cmtn": [], "kind": "exhaustive", "scheme": hs + "/" + ps}


# ---- exhaustive small cyclic scope (quick and thorough) -----------------------------------------------

def tree_patterns(nmax, syms, orders=(1, 2)):
    """all chain / branched (acyclic connected) patterns with <= nmax nodes, one per isomorphism class"""
    return [g for n in range(1, nmax + 1) for g in labelled_graphs(n, syms, list(orders))
            if g.number_of_edges() == n - 1]


def ring_scope_cases(tier, pbundle=12, hbundle=6):
    """Exhaustive small cyclic scope.  Hosts: every ring of 3, 4, 5 atoms with EVERY assignment of bond
    orders {1,2} to its ring bonds, rooted at the host anchor (anchor = ring atom 0 together with all 2^n
    order assignments = all anchors of all rings up to rotation, mirror images included, so for each chiral
    situation both adjacency orders of the anchor's two ring neighbours occur).  Patterns: chain / branched.
    Every pattern anchor is tried (map_subgraph without a pattern anchor).  One generated case (op "multi")
    bundles up to [hbundle] (host, anchor) pairs x up to [pbundle] patterns for one mapper.
      A  all-C rings x patterns over {C,R} <= 3 nodes and C-only 4-node patterns (on an all-C host R and C
         behave alike under a wildcard mapper), mapper ("R", case sensitive); the same rings x all C-only
         patterns under the default mapper ("R", ignore_case)
      B  3-/4-ring + one pendant C (single or double bond) on ring atom 0, EVERY host anchor,
         x C-only patterns with 3-4 nodes, mapper ("R", case sensitive)
      C  3-/4-rings with one O at every position x 3-node patterns over {C,R}, mapper ("R", case sensitive);
         the 3-rings also under the default mapper and under the mapper without wildcard
    thorough: rings up to 6 (A) / 5 (B, C) atoms, ALL patterns <= 4 nodes over {C,R} in A and C,
    patterns over {C,R} <= 3 nodes added in B, default mapper on all of C."""
    import itertools as it
    full = tier == "thorough"
    t3 = tree_patterns(3, ["C", "R"])
    t3only = [g for g in t3 if len(g) == 3]
    c_all = tree_patterns(4, ["C"])
    c4 = [g for g in c_all if len(g) == 4]
    c34 = [g for g in c_all if len(g) >= 3]
    t4 = tree_patterns(4, ["C", "R"])
    CS, DEF, NOW = ("R", False), ("R", True), (None, False)
    groups = {}          # (kind, mapper, pattern-set name) -> list of (host, anchor)
    psets = {"t3+c4": t3 + c4, "c_all": c_all, "c34": c34, "c34+t3": c34 + t3, "t3only": t3only, "t4": t4, "t3": t3}

    def add(kind, mapper, pset, h, a):
        groups.setdefault((kind, mapper, pset), []).append((h, a))

    for n in ((3, 4, 5, 6) if full else (3, 4, 5)):
        for orders in it.product([1, 2], repeat=n):
            h = ring_graph(n, orders)
            add("ring-A", CS, "t4" if full else "t3+c4", h, 0)
            add("ring-A", DEF, "c_all", h, 0)
    for n in ((3, 4, 5) if full else (3, 4)):
        for k, orders in enumerate(it.product([1, 2], repeat=n)):
            for po in (1, 2):
                h = ring_graph(n, orders, pendant=(0, po, "C"), pendant_first=(k % 2 == 1))
                for a in h.nodes:
                    add("ring-B", CS, "c34+t3" if full else "c34", h, a)
    for n in ((3, 4, 5) if full else (3, 4)):
        for pos in range(n):
            syms = ["O" if i == pos else "C" for i in range(n)]
            for orders in it.product([1, 2], repeat=n):
                h = ring_graph(n, orders, syms)
                add("ring-C", CS, "t4" if full else "t3only", h, 0)
                if n == 3 or full:
                    add("ring-C", DEF, "t3only", h, 0)
                if n == 3:
                    add("ring-C", NOW, "t3only", h, 0)
    for (kind, (w, ic), pset), hs in groups.items():
        pats = psets[pset]
        for hk in range(0, len(hs), hbundle):
            for k in range(0, len(pats), pbundle):
                yield {"op": "multi", "Hs": hs[hk:hk + hbundle], "Ps": pats[k:k + pbundle],
                       "G": hs[hk][0], "P": pats[k], "a": hs[hk][1], "pa": None, "w": w, "ic": ic,
                       "cmtn": [], "kind": kind, "scheme": "ring-scope"}


# ---- competing-leaves scope (quick and thorough) ------------------------------------------------------

def fork_scope_cases(tier, pbundle=12, hbundle=6):
    """Small systematic family for ties between pattern LEAVES of different branches.
    Host: four-ring X-A-Y-B with X = N (anchor), A = B = C, Y in {O, S}, a pendant atom (C or O) on A, on B or
    on both; every host also with all adjacency orders reversed.  Pattern (anchor X = node 0):
    X(C-leaves1)(C-leaves2) with one leaf on one branch and one or two on the other (5-6 atoms), leaf symbols
    from {R, O, S, C}, both orders of the two branches.  The ring atom Y is adjacent to the images of both
    branch atoms, so a wildcard leaf of one branch and a specific leaf of the other compete for it, and only
    one distribution of the leaves over Y and the pendant atoms works.  Bundled like the ring scope
    (op "multi", here with the pattern anchor fixed: map_subgraph(..., subgraph_anchor=0))."""
    import itertools as it
    hosts = []
    for y in ("O", "S"):
        for pa_, pb_ in it.product([None, "C", "O"], repeat=2):
            if pa_ is None and pb_ is None:
                continue
            g = nx.Graph()
            for i, sym in enumerate(["N", "C", y, "C"]):
                g.add_node(i, symbol=sym)
            nxt = 4
            for at, sym in ((1, pa_), (3, pb_)):
                if sym is not None:
                    g.add_node(nxt, symbol=sym)
                    nxt += 1
            for u, v in ((0, 1), (1, 2), (2, 3), (3, 0)):
                g.add_edge(u, v, bond=1)
            nxt = 4
            for at, sym in ((1, pa_), (3, pb_)):
                if sym is not None:
                    g.add_edge(at, nxt, bond=1)
                    nxt += 1
            hosts.append((g, 0))
            hosts.append((reverse_adjacency(g), 0))
    leafs = ["R", "O", "S", "C"]
    pats = []
    combos = [((a,), (b,)) for a in leafs for b in leafs]
    combos += [(tuple(ab), (c,)) for ab in it.combinations_with_replacement(leafs, 2) for c in leafs]
    for l1, l2 in combos:
        for first in (0, 1):
            branches = (l1, l2) if first == 0 else (l2, l1)
            p = nx.Graph()
            p.add_node(0, symbol="N")
            nxt = 1
            for ls in branches:
                b = nxt
                p.add_node(b, symbol="C")
                p.add_edge(0, b, bond=1)
                nxt += 1
                for sym in ls:
                    p.add_node(nxt, symbol=sym)
                    p.add_edge(b, nxt, bond=1)
                    nxt += 1
            pats.append(p)
    if tier == "thorough":
        pats = pats + [reverse_adjacency(p) for p in pats]
    for (w, ic), hsel in ((("R", False), hosts), (("R", True), hosts[::8])):
        for hk in range(0, len(hsel), hbundle):
            for k in range(0, len(pats), pbundle):
                yield {"op": "multi", "Hs": hsel[hk:hk + hbundle], "Ps": pats[k:k + pbundle],
                       "G": hsel[hk][0], "P": pats[k], "a": 0, "pa": 0, "w": w, "ic": ic,
                       "cmtn": [], "kind": "fork", "scheme": "fork-scope"}


def interleave(main, extra):
    """spread the cases of [extra] evenly through [main] (so that every generated Coq file gets its share)"""
    main, extra = list(main), list(extra)
    if not extra:
        yield from main
        return
    step = max(1, len(main) // len(extra)) if main else 1
    e = 0
    for i, c in enumerate(main):
        yield c
        if (i + 1) % step == 0 and e < len(extra):
            yield extra[e]
            e += 1
    yield from extra[e:]


# ---- corpus --------------------------------------------------------------------------------------

def _c(op, gs, a, ps, pa, w="R", ic=True, cmtn=(), kind="corpus"):
    return {"op": op, "G": parse(gs) if isinstance(gs, str) else gs, "P": parse(ps) if isinstance(ps, str) else ps,
            "a": a, "pa": pa, "w": w, "ic": ic, "cmtn": list(cmtn), "kind": kind, "scheme": "corpus"}


def corpus_cases():
    # D7 witnesses (the pre-repair _fit accepted the first three and listed atom 0 twice in the fourth)
    yield _c("anchored", "CCCCC", 2, "C1CC1", 0, kind="corpus-D7")
    yield _c("anchored", "CCCCC", 0, "C1CC1", 0, kind="corpus-D7")
    yield _c("anchored", "C1CC1", 0, "C(CC)CC", 0, kind="corpus-D7")
    yield _c("sub", "C1COC1", 2, "ROR", None, kind="corpus-D7")
    yield _c("sub", "CCOCC", 2, "C1OC1", None, kind="corpus-D7")
    for i in range(4):
        yield _c("anchored", "C1COC1", i, "C1OC1", 1, kind="corpus-D7")
    # backtracking over a bond-order mismatch that depends on the parent's image (cyclobutene: going
    # round the ring the wrong way first meets the double bond); missed by a matcher that remembers a
    # rejected (host node, pattern node) placement
    yield _c("anchored", "C1C=CC1", 0, "CCC", 0, kind="corpus-backtrack")
    yield _c("anchored", "C1C=CC1", 3, "CCC", 0, kind="corpus-backtrack")
    yield _c("sub", "C1C=CC=C1", 0, "CCC=C", None, kind="corpus-backtrack")
    # the cases of test/algorithm/test_subgraph.py
    yield _c("anchored", "CCO", 2, "RO", 1)
    yield _c("anchored", "CC(=O)O", 2, "RC(=O)O", 2)
    yield _c("anchored", "C1CO1", 1, "R1CC1", 1)
    yield _c("anchored", "CC=O", 2, "RC(=O)NR", 2)
    yield _c("anchored", "CC=O", 0, "RC(=O)R", 3)
    yield _c("anchored", "CC=O", 2, "RC=O", 2)
    yield _c("anchored", "c1c(=O)cccc1", 2, "C=O", 1)
    yield _c("anchored", "COC(C)=O", 4, "RC(=O)OR", 2)
    yield _c("anchored", "COCO", 1, "C(OR)O", 1)
    yield _c("anchored", "NC(=O)C", 2, "C(=O)N", 1)
    yield _c("anchored", "C=O", 1, "C(H)=O", 2)
    yield _c("anchored", "C=O", 1, "C(H)=O", 2, w=None, ic=False, cmtn=["H"])
    yield _c("anchored", "C=O", 0, "CO", 0)
    yield _c("anchored", "C=O", 0, "C(=O)C", 0)
    yield _c("anchored", "CCO", 2, "HO", 0)
    yield _c("anchored", "CCOH", 2, "HO", 1)
    yield _c("sub_anchor", "CCO", 2, "CO", 1)
    yield _c("sub", "CCO", 2, "CO", None)
    yield _c("sub", "CCO", 2, "", None)
    yield _c("sub", "CCO", 2, "Cl", None)
    yield _c("sub", "R", 0, "C", None)
    from fgutils.rdkit import reaction_smiles_to_graph
    from fgutils.its import get_its
    for smiles, pattern, anchor in [
            ("[C:1](=[O:2])=[O:3]>>[C:1](=[O:2])[O:3]", "R(=O)<2,1>O", 1),
            ("[C:1][O:2].[O:3]>>[C:1][O:3].[O:2]", "R(<0,1>R)<1,0>R", 1),
            ("[C:1][C:2](=[O:3])[O:4][C:5].[O:6]>>[C:1][C:2](=[O:3])[O:6].[O:4][C:5]", "C(=O)(<0,1>R)<1,0>R", 2)]:
        g, h = reaction_smiles_to_graph(smiles)
        its = get_its(g, h)
        yield _c("sub", its, anchor, pattern, None, kind="corpus-its")
    # un-anchored
    yield _c("to_graph", "CCOCC", None, "C1OC1", None, kind="corpus-D7")
    yield _c("to_graph", "CC(=O)O", None, "RC(=O)OR", None)
    yield _c("to_graph", "CC(=O)OC", None, "RC(=O)OR", None)
    yield _c("to_graph", "C1CC1", None, "C(CC)CC", None, kind="corpus-D7")
    # a tuple label never equals a scalar label
    g = parse("CC")
    g.edges[0, 1]["bond"] = (1, 1)
    yield _c("anchored", g, 0, "CC", 0)
    # can_map_to_nothing with a wildcard
    yield _c("anchored", "CO", 0, "C(H)(R)O", 0, cmtn=["H", "R"])
    yield _c("anchored", "CO", 0, "C(H)(H)(H)O", 0, w=None, ic=False, cmtn=["H"])


# ----------------------------------------------------------------------------------------------
# implementation

def _clean_default():
    """undo what a defective constructor may have left in its mutable default argument, so that one
    defect gives targeted reports instead of poisoning every later case of the run"""
    d = PermutationMapper.__init__.__defaults__
    for x in d or ():
        if isinstance(x, list):
            del x[:]


def build_mapper(c, msgs):
    """the mapper for the case, constructed through the case's HISTORY:
      None           PermutationMapper(w, ic, fresh copy of cmtn)
      "default"      (cmtn = []) m1 = PermutationMapper(w, ic); m1.can_map_to_nothing += extra;
                     the case runs with a FRESH default-constructed mapper
      "caller-attr"  L = list(cmtn); m1 = PermutationMapper(w, ic, L); m1.can_map_to_nothing += extra;
                     the case runs with m2 = PermutationMapper(w, ic, L)       (the original arguments)
      "caller-list"  L = list(cmtn); m = PermutationMapper(w, ic, L); L += extra (or L.clear());
                     the case runs with m       (editing the caller's list later must not matter)
      "shared"       L = list(cmtn); ma = PermutationMapper(w, ic, L); mb = PermutationMapper(w', ic, L) with
                     another wildcard; the case runs with ma
    In every history the answer must be the model's for the ORIGINAL (w, ic, cmtn); object-identity and
    caller-list invariants are reported through py_invariants."""
    w, ic, cmtn = c["w"], c["ic"], list(c["cmtn"])
    hist = c.get("hist")
    extra = list(c.get("hist_extra") or ["H"])
    if hist is None:
        return PermutationMapper(wildcard=w, ignore_case=ic, can_map_to_nothing=list(cmtn))
    if hist == "default" and not cmtn:
        m0 = PermutationMapper(wildcard=w, ignore_case=ic)
        m1 = PermutationMapper(wildcard=w, ignore_case=ic)
        if m0.can_map_to_nothing is m1.can_map_to_nothing:
            msgs.append("two default-constructed PermutationMappers share one can_map_to_nothing list object")
        m1.can_map_to_nothing.extend(extra)
        m2 = PermutationMapper(wildcard=w, ignore_case=ic)
        if list(m2.can_map_to_nothing) != []:
            msgs.append("a default-constructed PermutationMapper has can_map_to_nothing = %r after the list of an "
                        "earlier mapper was edited" % (m2.can_map_to_nothing,))
        return m2
    L = list(cmtn)
    m1 = PermutationMapper(wildcard=w, ignore_case=ic, can_map_to_nothing=L)
    if m1.can_map_to_nothing is L:
        msgs.append("PermutationMapper stores the caller's can_map_to_nothing list object instead of a copy")
    if L != cmtn:
        msgs.append("PermutationMapper.__init__ modified the caller's list: %r -> %r" % (cmtn, L))
    if hist == "caller-list":
        if extra == ["R"] and L:
            del L[:]
        else:
            L.extend(extra)
        return m1
    if hist == "shared":
        wb = "H" if w != "H" else "R"
        mb = PermutationMapper(wildcard=wb, ignore_case=ic, can_map_to_nothing=L)
        if mb.can_map_to_nothing is m1.can_map_to_nothing:
            msgs.append("two PermutationMappers built from the same caller list share one can_map_to_nothing object")
        if L != cmtn:
            msgs.append("constructing a second mapper modified the caller's list: %r -> %r" % (cmtn, L))
        return m1
    # "caller-attr" (also "default" with a non-empty cmtn)
    m1.can_map_to_nothing.extend(extra)
    if L != cmtn:
        msgs.append("editing a mapper's can_map_to_nothing attribute changed the caller's list: %r -> %r" % (cmtn, L))
    return PermutationMapper(wildcard=w, ignore_case=ic, can_map_to_nothing=L)


def run_impl(c):
    msgs = []
    try:
        return _run_impl(c, msgs)
    finally:
        c["_inv"] = msgs
        if c.get("hist"):
            _clean_default()


def _run_impl(c, msgs):
    if c["op"] == "seq":
        return run_seq(c, msgs)
    if c["op"] == "multi":
        mapper = PermutationMapper(wildcard=c["w"], ignore_case=c["ic"], can_map_to_nothing=list(c["cmtn"]))
        outs, mutated = [], False
        for h0, a in c["Hs"]:
            row = []
            for p0 in c["Ps"]:
                g = gens.copy_exact(h0)
                p = gens.copy_exact(p0)
                try:
                    if c.get("pa") is None:
                        row.append(("ok", map_subgraph(g, a, p, mapper)))
                    else:
                        row.append(("ok", map_subgraph(g, a, p, mapper, subgraph_anchor=c["pa"])))
                except KeyError as e:
                    row.append(("KeyError", str(e)))
                mutated = mutated or not (gens.graphs_identical(g, h0) and gens.graphs_identical(p, p0))
            outs.append(row)
        c["_mutated"] = mutated
        return ("multi", outs)
    g = gens.copy_exact(c["G"])
    p = gens.copy_exact(c["P"])
    mapper = build_mapper(c, msgs)
    try:
        if c["op"] == "anchored":
            r = map_anchored_subgraph(g, c["a"], p, c["pa"], mapper)
        elif c["op"] == "sub":
            r = map_subgraph(g, c["a"], p, mapper)
        elif c["op"] == "sub_anchor":
            r = map_subgraph(g, c["a"], p, mapper, subgraph_anchor=c["pa"])
        else:
            r = map_subgraph_to_graph(g, p, mapper)
        out = ("ok", r)
    except KeyError as e:
        out = ("KeyError", str(e))
    except IndexError as e:
        out = ("IndexError", str(e))
    c["_mutated"] = not (gens.graphs_identical(g, c["G"]) and gens.graphs_identical(p, c["P"]))
    return out


def py_invariants(c, out):
    return (["the matcher mutated one of its argument graphs"] if c.get("_mutated") else []) + list(c.get("_inv") or [])


# ----------------------------------------------------------------------------------------------
# serialisation

def zlist(l):
    return "(%s : list Z)" % ct.lst([ct.z(x) for x in l])


def pairs(l):
    for x in l:
        if not (isinstance(x, tuple) and len(x) == 2):
            raise ct.Unrepresentable("mapping entry %r" % (x,))
    return "(%s : list (Z * Z))" % ct.lst(["(%s, %s)" % (ct.z(n), ct.z(pn)) for n, pn in l])


def mapper_term(c):
    return "(mk_mapper %s %s (%s : list string))" % (ct.opt(c["w"], ct.s), ct.b(c["ic"]), ct.lst([ct.s(x) for x in c["cmtn"]]))


def out_type(c):
    return {"anchored": "match_out", "sub": "list (bool * list (Z * Z))",
            "sub_anchor": "list (bool * list (Z * Z))", "to_graph": "bool"}[c["op"]]


SUB_TY = "list (bool * list (Z * Z))"


def out_term(c, out):
    if c["op"] == "multi":
        sub = {"op": "sub"}
        return "(%s : list (list (result (%s))))" % (
            ct.lst([ct.lst([out_term(sub, o) for o in row]) for row in out[1]]), SUB_TY)
    ty = out_type(c)
    if out[0] in ("KeyError", "IndexError"):
        return "(Raise %s : result (%s))" % (out[0], ty)
    if out[0] != "ok":
        raise ct.Unrepresentable("exception %r" % (out,))
    r = out[1]
    if c["op"] == "anchored":
        if not (isinstance(r, tuple) and len(r) == 3 and isinstance(r[0], bool)):
            raise ct.Unrepresentable("result %r" % (r,))
        b, m, (vg, vp) = r
        if not isinstance(vg, (set, frozenset)) or not isinstance(vp, (set, frozenset)):
            raise ct.Unrepresentable("visited nodes %r" % ((vg, vp),))
        return "(Ok (%s, %s, (%s, %s)) : result (%s))" % (ct.b(b), pairs(m), zlist(sorted(vg)), zlist(sorted(vp)), ty)
    if c["op"] in ("sub", "sub_anchor"):
        items = []
        for e in r:
            if not (isinstance(e, tuple) and len(e) == 2 and isinstance(e[0], bool)):
                raise ct.Unrepresentable("result entry %r" % (e,))
            items.append("(%s, %s)" % (ct.b(e[0]), pairs(e[1])))
        return "(Ok (%s : %s) : result (%s))" % (ct.lst(items), ty, ty)
    if not isinstance(r, bool):
        raise ct.Unrepresentable("result %r" % (r,))
    return "(Ok %s : result (%s))" % (ct.b(r), ty)


def model_expr(c):
    if c["op"] == "seq":
        es = [_idx(model_expr(sc), i) for i, sc, _ in seq_subcases(c, None)]
        return es[0] if len(es) == 1 else "(" + ", ".join(es) + ")"
    if c["op"] == "multi":
        return "map (fun Ga => map (fun P => map_subgraph (fst Ga) P $mp (snd Ga) %s) $Ps) $Gs" % ct.opt(c.get("pa"), ct.z)
    if c["op"] == "anchored":
        return "map_anchored_subgraph $G $P $mp %s %s" % (ct.z(c["a"]), ct.z(c["pa"]))
    if c["op"] == "sub":
        return "map_subgraph $G $P $mp %s None" % ct.z(c["a"])
    if c["op"] == "sub_anchor":
        return "map_subgraph $G $P $mp %s (Some %s)" % (ct.z(c["a"]), ct.z(c["pa"]))
    return "map_subgraph_to_graph $G $P $mp"


def agree_expr(c):
    if c["op"] == "seq":
        return seq_expr(c, None, lambda sc, o: agree_expr(sc))
    if c["op"] == "multi":
        return "list_eqb (list_eqb (result_eqb sub_out_eqb)) (%s) $out" % model_expr(c)
    eqb = {"anchored": "match_out_eqb", "sub": "sub_out_eqb", "sub_anchor": "sub_out_eqb", "to_graph": "Bool.eqb"}[c["op"]]
    return "result_eqb %s (%s) $out" % (eqb, model_expr(c))


def connected(p):
    return len(p) > 0 and nx.is_connected(p)


def wic(c):
    return "%s %s" % (ct.opt(c["w"], ct.s), ct.b(c["ic"]))


def contiguous(g):
    return sorted(g.nodes) == list(range(len(g)))


def all_syms(c):
    return all("symbol" in d for g in (c["G"], c["P"]) for _, d in g.nodes(data=True))


WF = "wfb $G && wfb $P"      # the theorems' standing hypotheses (true of every networkx graph)


def spec3_expr(c, out):
    """C03 on the implementation's output (only for can_map_to_nothing = [], all nodes carrying symbols)"""
    if c["op"] == "seq":
        return seq_expr(c, out, spec3_expr)
    e = _spec3_expr(c, out)
    return e if e == "true" else "(%s) && (%s)" % ("true" if c["op"] == "multi" else WF, e)


def spec4_expr(c, out):
    if c["op"] == "seq":
        return seq_expr(c, out, spec4_expr)
    e = _spec4_expr(c, out)
    return e if e == "true" else "(%s) && (%s)" % ("true" if c["op"] == "multi" else WF, e)


def _multi_spec(c, fn):
    """a bundle of map_subgraph calls, hosts x patterns: every (host, anchor, pattern, output) must pass"""
    return ("forallb (fun Ga => wfb (fst Ga)) $Gs && forallb wfb $Ps && (Nat.eqb (List.length $Gs) (List.length $out)) && "
            "forallb (fun Gr => (Nat.eqb (List.length $Ps) (List.length (snd Gr))) && "
            "forallb (fun Po => match snd Po with Ok rs => %s | _ => false end) (combine $Ps (snd Gr))) (combine $Gs $out)"
            % (fn % {"wic": wic(c), "pas": "(nodes (fst Po))" if c.get("pa") is None else zlist([c["pa"]])}))


def _spec3_expr(c, out):
    if c["op"] == "multi":
        return _multi_spec(c, "c03_sub_okb %(wic)s (fst (fst Gr)) (snd (fst Gr)) (fst Po) %(pas)s rs")
    if c["cmtn"] or not all_syms(c):
        return "true"
    if c["op"] == "anchored":
        return "c03_anchored_okb %s $G %s $P %s $out" % (wic(c), ct.z(c["a"]), ct.z(c["pa"]))
    if c["op"] in ("sub", "sub_anchor"):
        if out[0] != "ok" or len(c["P"]) == 0:
            return "true"
        pas = "(nodes $P)" if c["op"] == "sub" else zlist([c["pa"]])
        return "match $out with Ok rs => c03_sub_okb %s $G %s $P %s rs | _ => false end" % (wic(c), ct.z(c["a"]), pas)
    if not contiguous(c["G"]):
        return "true"
    return "c03_unanchored_okb %s $G $P $out" % wic(c)


def _spec4_expr(c, out):
    """C04 on the implementation's output: the full statement for can_map_to_nothing = [] (all nodes
    carrying symbols), the partial-embedding statement (C04_gen) for every anchored call"""
    if c["op"] == "multi":      # ring-scope patterns are trees: connected
        return _multi_spec(c, "c04_sub_okb %(wic)s true (fst (fst Gr)) (snd (fst Gr)) (fst Po) %(pas)s rs")
    partial = None
    if c["op"] == "anchored":
        partial = "c04_partial_okb %s $G %s $P %s $out" % (wic(c), ct.z(c["a"]), ct.z(c["pa"]))
    if c["cmtn"] or not all_syms(c):
        return partial or "true"
    conn = ct.b(connected(c["P"]))
    if c["op"] == "anchored":
        return "(c04_anchored_okb %s %s $G %s $P %s $out) && (%s)" % (wic(c), conn, ct.z(c["a"]), ct.z(c["pa"]), partial)
    if c["op"] in ("sub", "sub_anchor"):
        if out[0] != "ok" or len(c["P"]) == 0:
            return "true"
        pas = "(nodes $P)" if c["op"] == "sub" else zlist([c["pa"]])
        return "match $out with Ok rs => c04_sub_okb %s %s $G %s $P %s rs | _ => false end" % (wic(c), conn, ct.z(c["a"]), pas)
    return "true"


def base_defs(c, out):
    if c["op"] == "seq":
        return seq_defs(c, out)
    if c["op"] == "multi":
        return {"Gs": "(%s : list (graph * Z))" % ct.lst(["(%s, %s)" % (ct.graph(h), ct.z(a)) for h, a in c["Hs"]]),
                "Ps": "(%s : list graph)" % ct.lst([ct.graph(p) for p in c["Ps"]]),
                "mp": mapper_term(c), "out": out_term(c, out)}
    return {"G": ct.graph(c["G"]), "P": ct.graph(c["P"]), "mp": mapper_term(c), "out": out_term(c, out)}


# ----------------------------------------------------------------------------------------------
# bookkeeping

def describe(c):
    if c["op"] == "seq":
        return {"op": "seq", "G": ct.graph_py(c["G"]), "P": ct.graph_py(c["P"]), "w": c["w"], "ic": c["ic"],
                "cmtn": list(c["cmtn"]), "kind": c["kind"], "scheme": c["scheme"],
                "steps": [{"edits": [[t, list(e)] for t, e in st["edits"]], "op": st["op"], "a": st["a"], "pa": st["pa"]}
                          for st in c["steps"]]}
    if c["op"] == "multi":
        return {"op": "multi", "Hs": [[ct.graph_py(h), a] for h, a in c["Hs"]], "Ps": [ct.graph_py(p) for p in c["Ps"]], "pa": c.get("pa"),
                "w": c["w"], "ic": c["ic"], "cmtn": list(c["cmtn"]), "kind": c["kind"], "scheme": c["scheme"]}
    return {"op": c["op"], "G": ct.graph_py(c["G"]), "P": ct.graph_py(c["P"]), "a": c["a"], "pa": c["pa"],
            "w": c["w"], "ic": c["ic"], "cmtn": list(c["cmtn"]), "kind": c["kind"], "scheme": c["scheme"],
            "hist": c.get("hist"), "hist_extra": c.get("hist_extra")}


def from_json(d):
    if d["op"] == "seq":
        return {"op": "seq", "G": ct.graph_from_py(d["G"]), "P": ct.graph_from_py(d["P"]), "a": None, "pa": None,
                "w": d["w"], "ic": d["ic"], "cmtn": list(d["cmtn"]), "kind": d.get("kind", "replay"),
                "scheme": d.get("scheme", "replay"),
                "steps": [{"edits": [(t, tuple(tuple(x) if isinstance(x, list) else x for x in e)) for t, e in st["edits"]],
                           "op": st["op"], "a": st["a"], "pa": st["pa"]} for st in d["steps"]]}
    if d["op"] == "multi":
        ps = [ct.graph_from_py(p) for p in d["Ps"]]
        hs = [(ct.graph_from_py(h), a) for h, a in d["Hs"]]
        return {"op": "multi", "Hs": hs, "G": hs[0][0], "a": hs[0][1], "Ps": ps, "P": ps[0], "pa": d.get("pa"),
                "w": d["w"], "ic": d["ic"], "cmtn": list(d["cmtn"]), "kind": d.get("kind", "replay"),
                "scheme": d.get("scheme", "replay")}
    return {"op": d["op"], "G": ct.graph_from_py(d["G"]), "P": ct.graph_from_py(d["P"]), "a": d["a"], "pa": d["pa"],
            "w": d["w"], "ic": d["ic"], "cmtn": list(d["cmtn"]), "kind": d.get("kind", "replay"),
            "scheme": d.get("scheme", "replay"), "hist": d.get("hist"), "hist_extra": d.get("hist_extra")}


def describe_out(out):
    if out[0] == "seq":
        return {"status": "seq", "outputs": [describe_out(o) for o in out[1]]}
    if out[0] == "multi":
        return {"status": "multi", "outputs": [[describe_out(o) for o in row] for row in out[1]]}
    if out[0] != "ok":
        return {"status": out[0], "msg": out[1]}
    r = out[1]
    if isinstance(r, tuple) and len(r) == 3:
        return {"status": "ok", "valid": r[0], "mapping": [list(x) for x in r[1]],
                "visited": [sorted(r[2][0]), sorted(r[2][1])]}
    if isinstance(r, list):
        return {"status": "ok", "results": [[e[0], [list(x) for x in e[1]]] for e in r]}
    return {"status": "ok", "value": r}


def key(c):
    if c["op"] == "seq":
        return ("seq", ct.graph_canon(c["G"]), ct.graph_canon(c["P"]), c["w"], c["ic"],
                repr([(st["edits"], st["op"], st["a"], st["pa"]) for st in c["steps"]]))
    if c["op"] == "multi":
        return ("multi", tuple((ct.graph_canon(h), a) for h, a in c["Hs"]), tuple(ct.graph_canon(p) for p in c["Ps"]),
                c["w"], c["ic"], c.get("pa"))
    return (c["op"], ct.graph_canon(c["G"]), ct.graph_canon(c["P"]), c["a"], c["pa"], c["w"], c["ic"], tuple(c["cmtn"]),
            c.get("hist"), tuple(c.get("hist_extra") or ()))


def verdict(out):
    if out[0] == "seq":
        return "/".join(verdict(o) for o in out[1])
    if out[0] == "multi":
        vs = set(verdict(o) for row in out[1] for o in row)
        return "mixed" if len(vs) > 1 else vs.pop()
    if out[0] != "ok":
        return out[0]
    r = out[1]
    if isinstance(r, tuple):
        return "match" if r[0] else "no-match"
    if isinstance(r, list):
        return "match" if any(e[0] for e in r) else "no-match"
    return "match" if r else "no-match"


def nontrivial(c, out):
    if c["op"] == "seq":
        return len(c["P"]) >= 2
    if c["op"] == "multi":
        return True
    return out[0] == "ok" and len(c["P"]) >= 2 and len(c["G"]) >= 2


def classes(c, out):
    if c["op"] == "seq":
        yield "op=seq"
        yield "kind=" + c["kind"]
        yield "history=" + verdict(out)
        yield "mapper=%s/%s" % (c["w"], "ic" if c["ic"] else "cs")
        for st in c["steps"]:
            yield "history:call=" + st["op"]
            for t, e in st["edits"]:
                yield "history:edit=%s.%s" % (t, e[0])
        return
    if c["op"] == "multi":
        yield "op=multi"
        yield "kind=" + c["kind"]
        yield "mapper=%s/%s" % (c["w"], "ic" if c["ic"] else "cs")
        yield "host=cyclic"
        for row in out[1]:
            for p, o in zip(c["Ps"], row):
                yield "bundled:map_subgraph-calls"
                yield "bundled:result=" + verdict(o)
                yield "bundled:pattern_nodes=%d" % len(p)
        return
    yield "op=" + c["op"]
    yield "result=" + verdict(out)
    yield "kind=" + c["kind"]
    yield "mapper=%s/%s" % (c["w"], "ic" if c["ic"] else "cs")
    yield "cmtn=" + ",".join(c["cmtn"]) if c["cmtn"] else "cmtn=[]"
    yield "host=" + ("cyclic" if len(c["G"]) and not nx.is_forest(c["G"]) else "acyclic")
    yield "pattern=" + ("empty" if len(c["P"]) == 0 else ("cyclic" if not nx.is_forest(c["P"]) else "acyclic")
                        + ("" if connected(c["P"]) else "-disconnected"))
    yield "pattern_nodes=%d" % len(c["P"])
    yield "scheme=" + c["scheme"]
    if any(isinstance(d.get("bond"), tuple) for _, _, d in c["G"].edges(data=True)):
        yield "labels=its"
