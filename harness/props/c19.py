"""C19 — RDKit bridge (graph_to_mol / mol_to_graph) and WL structural comparison (mol_compare).

Correspondence:
  Model.Rdkit.graph_to_mol / mol_to_graph / bridge ~ fgutils.rdkit.graph_to_mol / mol_to_graph
  Model.Rdkit.rwmol                                ~ the RDKit molecule seen through GetAtoms/GetBonds
  Model.Wl.wl_hash / mol_compare                   ~ networkx.weisfeiler_lehman_graph_hash / fgutils.utils.mol_compare
"""
import itertools
import string

import networkx as nx
import networkx.algorithms.graph_hashing as gh
import rdkit.Chem as Chem
from rdkit import RDLogger

import lib
import gens
import coqterm as ct
from fgutils.parse import parse
from fgutils.rdkit import graph_to_mol, mol_to_graph, graph_to_smiles, smiles_to_graph
from fgutils.utils import mol_compare

RDLogger.DisableLog("rdApp.*")

ID = "C19"
REPEAT_PROBE = True   # engine: repeat 1 call in 5 after editing its first result in place (purity / no shared state)
PROPS = "Props/C19.v"
USES_GEN = ["rdkitmaps"]
MODEL_FILES = ["Model/Rdkit.v", "Model/Wl.v", "Spec/RdkitCheck.v"]
IMPORTS = "From FGV Require Import Gen.RdkitMaps Model.Rdkit Model.Wl Spec.RdkitRef Spec.RdkitSpec Spec.RdkitCheck."
CHECKS = ["agree", "rwmol", "spec", "wl"]
CHUNK = 200
CORRESPONDENCE = ("Model.Rdkit.{graph_to_mol,mol_to_graph,bridge} ~ fgutils.rdkit.{graph_to_mol,mol_to_graph}; "
                  "Model.Rdkit.rwmol ~ RDKit molecule via GetAtoms/GetBonds; "
                  "Model.Wl.{wl_hash,mol_compare} ~ networkx.weisfeiler_lehman_graph_hash(edge_attr='bond', node_attr='symbol', iterations=3) / fgutils.utils.mol_compare")
RULE = ("bridge: random molecular graphs (1-10 nodes; element symbols incl. aromatic lower-case c n o s p b and multi-letter "
        "Cl Br Si Sn ..., orders 1/1.5/2/3/4, all id schemes of gens.reid, atom-map numbers absent / >=1 / 0 / -1 / 2^31-1 / 2^31, "
        "parser-style labels/is_labeled attributes, labelled placeholder nodes from parsed '{g}' patterns, unsupported labels "
        "(2.5, tuple, list), unknown symbols, self loops; ignore_aam both ways); m2g: mol_to_graph on RDKit molecules read from SMILES "
        "(incl. dative bonds, explicit H, atom maps); wl/cmp: graph pairs (renumbered+shuffled copies, single-attribute mutants, "
        "independent graphs) for the WL hash and mol_compare; smiles: RDKit-valid neutral molecules for the SMILES round trip, each followed by a history step on the same graph object "
        "(isovalent element swap and/or exchanged map numbers, counts unchanged, exported again and re-read). "
        "thorough additionally enumerates every 2-node bridge input over {C,n,Cl} x 7 edge values x 4^2 map-number settings x "
        "placeholder/ignore_aam flags (4032 cases) and every 3-node graph over {C,O} x {no edge,1,2}^3 against its 6 renumberings (1296). "
        "non-trivial = bridge case with >= 2 nodes and >= 1 edge, or a wl/cmp case with >= 2 nodes, or an m2g molecule with a bond; "
        "distinct = distinct (op, options, exact graph(s) / SMILES)")
TRUSTED = [
    "ORACLE: RDKit's RWMol seen as (atoms: symbol, map number; bonds: begin, end, type name) in insertion order with AddAtom/"
    "SetAtomMapNum/AddBond/GetAtoms/GetBonds semantics as in Model/Rdkit.v; validated on every run by check 'rwmol' (model "
    "view == real molecule) and on SMILES-read molecules by op m2g",
    "ORACLE: Chem.Atom accepts exactly the 119 periodic-table symbols (incl. '*') and the aliases Uut, Uup (table chem_atom; the "
    "theorems quantify over the acceptance function); validated on every run by the corpus case 'elements'",
    "the digest blake2b is abstract (H : string -> string); wl_invariant holds for every H. The model's string structure is "
    "compared with networkx' own code run with the same stand-in digest, and equality patterns with the real hashes (check 'wl')",
    "the SMILES clause (RDKit re-reads the SMILES written for a graph to an isomorphic graph) is VALIDATED on generated "
    "RDKit-valid neutral molecules in py_invariants, not proved: it is a statement about RDKit's SMILES writer/reader",
    "model of the attribute dict as a record of the five keys FGUtils uses",
]
ASSUMPTIONS = [
    "node ids and map numbers are Python ints, symbols are str; bond labels are int (1,2,3,4) or float (1.5): str(2.0) != str(2), "
    "so networkx' WL hash distinguishes 2.0 from 2 while the half-unit model does not",
    "WL labels/digests contain no quote or backslash (hex digests and element symbols do not), so repr(s) = \"'\" + s + \"'\"",
    "round-trip clause: simple graphs (no self loops; RDKit refuses self bonds) and map numbers <= 2^31-1 (SetAtomMapNum takes a C int; "
    "larger values raise OverflowError, which the model reproduces as an error value)",
    "SMILES clause: graphs of sanitised molecules, i.e. aromatic rings carry order 1.5. A ring written in Kekule form (parse('C1=CC=CC=C1')) "
    "is re-read by RDKit as aromatic (orders 1.5), so it is NOT isomorphic to the input when orders are compared; outside the validated domain",
]

SYMS = ["C", "C", "C", "C", "C", "O", "N", "S", "Cl", "Si", "B", "Br", "P", "F", "c", "c", "n", "o", "s", "p", "b",
        "Sn", "H", "I", "Se", "Mg", "Li", "*", "Na"]
BAD_SYMS = ["R", "Xx", "#", "", "se", "cl", "D", "C1"]
ORDERS = [1, 1, 1, 2, 2, 1.5, 1.5, 3, 4]
ERRS = ("KeyError", "ValueError", "TypeError", "RuntimeError", "OverflowError")


# ------------------------------------------------------------------ generators

def _rand_pattern(rng):
    """a pattern string for fgutils.parse with '{..}' placeholder nodes"""
    atoms = ["C", "C", "C", "N", "O", "c", "n", "Cl", "Si", "Br", "S", "Sn", "B"]
    labs = ["{g}", "{a,b}", "{alkyl}", "{x_1}"]
    bonds = ["", "", "", "=", "#", "$", ":", "-"]
    n = rng.randint(1, 7)
    out, depth = [], 0
    plab = rng.choice([0.0, 0.0, 0.0, 0.25, 0.5])
    for i in range(n):
        if i > 0:
            if depth < 2 and rng.random() < 0.2:
                out.append("(")
                depth += 1
            out.append(rng.choice(bonds))
        out.append(rng.choice(labs) if rng.random() < plab else rng.choice(atoms))
        if depth > 0 and rng.random() < 0.4:
            out.append(")")
            depth -= 1
    out.append(")" * depth)
    return "".join(out)


def _decorate_aam(rng, g):
    mode = rng.choice(["none", "none", "all", "partial", "odd"])
    if mode == "none":
        return mode
    pool = list(range(1, 3 * g.number_of_nodes() + 2))
    rng.shuffle(pool)
    for n in g.nodes:
        if mode == "partial" and rng.random() < 0.5:
            continue
        k = pool.pop()
        if mode == "odd":
            k = rng.choice([0, 0, -1, -7, 1, 1, 2, k, k, 2 ** 31 - 1, 2 ** 31, 10 ** 6])
        g.nodes[n]["aam"] = k
    return mode


def _gen_bridge(rng):
    kind = rng.choice(["mol"] * 12 + ["parsed"] * 4 + ["labelled"] * 2 + ["badorder", "badsym", "selfloop", "nosym", "alias"])
    if kind == "parsed":
        pat = _rand_pattern(rng)
        try:
            g = parse(pat)
        except Exception:
            g = None
        if g is None or g.number_of_nodes() == 0 or g.is_multigraph():
            kind = "mol"
    if kind != "parsed":
        g = gens.rand_forest(rng, 1, 8 if rng.random() < 0.85 else 12, syms=SYMS, orders=ORDERS, ring_p=0.4)
        if rng.random() < 0.3:     # the attributes the parser puts on every node
            for n in g.nodes:
                g.nodes[n]["labels"] = []
                g.nodes[n]["is_labeled"] = False
    if kind == "labelled":
        for n in rng.sample(list(g.nodes), rng.randint(1, min(2, g.number_of_nodes()))):
            g.nodes[n]["symbol"] = "#"
            g.nodes[n]["is_labeled"] = True
            if rng.random() < 0.85:
                g.nodes[n]["labels"] = rng.choice([["g"], ["a", "b"], []])
    elif kind == "badorder" and g.number_of_edges() > 0:
        u, v = rng.choice(list(g.edges))
        g[u][v]["bond"] = rng.choice([2.5, 0, 0.5, 5, (1, 2), [1, 2], (1, 1), -1])
    elif kind == "badsym":
        n = rng.choice(list(g.nodes))
        g.nodes[n]["symbol"] = rng.choice(BAD_SYMS)
    elif kind == "selfloop":
        n = rng.choice(list(g.nodes))
        g.add_edge(n, n, bond=rng.choice([1, 2]))
    elif kind == "nosym":
        n = rng.choice(list(g.nodes))
        del g.nodes[n]["symbol"]
    elif kind == "alias":            # accepted by Chem.Atom but reported under another symbol
        n = rng.choice(list(g.nodes))
        g.nodes[n]["symbol"] = rng.choice(["Uut", "Uup"])
    if rng.random() < 0.1:           # float spellings of integral orders hash like the ints
        for u, v in g.edges:
            if isinstance(g[u][v]["bond"], int) and rng.random() < 0.5:
                g[u][v]["bond"] = float(g[u][v]["bond"])
    aam_mode = _decorate_aam(rng, g)
    g, scheme, _ = gens.reid(rng, g)
    return {"op": "bridge", "graph": g, "ignore_aam": rng.random() < 0.3, "scheme": scheme, "kind": kind,
            "aam_mode": aam_mode}


M2G_SMILES = [
    "CCO", "c1ccccc1", "[NH3]->[Cu]", "[CH3:1][OH:2]", "[H][H]", "C[Si](C)(C)C", "C#N", "O=C=O", "[Na+].[Cl-]",
    "c1ccncc1", "[CH3:7]C(=O)[O-:3]", "C1CC1", "[2H]O[2H]", "F[B-](F)(F)F", "[Cu]<-[NH3]", "c1ccc2ccccc2c1", "CS(=O)(=O)C",
    "[C-]#[O+]", "*C", "[Sn](C)(C)(C)C", "N#N", "[O:1]=[C:2]=[O:3]", "BrCCl", "C=C-C=C", "[nH]1cccc1",
]


def _gen_m2g(rng):
    s = rng.choice(M2G_SMILES)
    if rng.random() < 0.4:
        s = rng.choice(M2G_SMILES) + "." + s
    return {"op": "m2g", "smiles": s, "add_hs": rng.random() < 0.25}


WL_SYMS = ["C", "C", "C", "O", "N", "c", "Cl"]
WL_ORDERS = [1, 1, 1, 2, 1.5, 3]


def _wl_base(rng):
    g = gens.rand_forest(rng, 1, 7 if rng.random() < 0.85 else 11, syms=WL_SYMS, orders=WL_ORDERS, ring_p=0.5)
    if rng.random() < 0.15:
        _decorate_aam(rng, g)        # map numbers must not influence the comparison
    if rng.random() < 0.06:          # ITS-style tuple labels and self loops are hashed like anything else
        for u, v in g.edges:
            if rng.random() < 0.5:
                g[u][v]["bond"] = rng.choice([(1, 2), (2, 1), (1.5, 1), (1, 1)])
    if rng.random() < 0.04:
        n = rng.choice(list(g.nodes))
        g.add_edge(n, n, bond=1)
    return g


def _variant(rng, g, kind=None):
    """(kind, graph): a renumbered+reordered copy, or a copy with one structural change"""
    kind = kind or rng.choice(["iso", "iso", "iso", "same", "sym", "bond", "edge", "indep"])
    h = gens.copy_exact(g)
    if kind == "sym":
        n = rng.choice(list(h.nodes))
        h.nodes[n]["symbol"] = rng.choice([x for x in WL_SYMS if x != h.nodes[n].get("symbol")])
    elif kind == "bond" and h.number_of_edges() > 0:
        u, v = rng.choice(list(h.edges))
        h[u][v]["bond"] = rng.choice([x for x in (1, 2, 1.5, 3, 4) if x != h[u][v]["bond"]])
    elif kind == "edge" and h.number_of_edges() > 0 and h.number_of_nodes() >= 3:
        u, v = rng.choice(list(h.edges))
        b = h[u][v]["bond"]
        h.remove_edge(u, v)
        for _ in range(10):
            x, y = rng.sample(list(h.nodes), 2)
            if not h.has_edge(x, y):
                h.add_edge(x, y, bond=b)
                break
    elif kind == "indep":
        h = gens.rand_forest(rng, g.number_of_nodes(), g.number_of_nodes(), syms=WL_SYMS, orders=WL_ORDERS, ring_p=0.5)
    elif kind not in ("iso", "same"):
        kind = "iso"
    if kind != "same":
        h, _, _ = gens.reid(rng, h)
    return kind, h


def _gen_wl(rng):
    g = _wl_base(rng)
    if rng.random() < 0.04:
        del g.nodes[rng.choice(list(g.nodes))]["symbol"]
    g, scheme, _ = gens.reid(rng, g)
    kind, h = _variant(rng, g)
    return {"op": "wl", "graphs": [g, h], "iterations": rng.choice([3] * 9 + [1, 1, 2, 2, 4, 5, 0, -1]), "kind": kind,
            "scheme": scheme}


def _gen_cmp(rng):
    t = _wl_base(rng)
    t, scheme, _ = gens.reid(rng, t)
    cands, kinds = [], []
    for _ in range(rng.randint(0, 4)):
        k, h = _variant(rng, t)
        cands.append(h)
        kinds.append(k)
    if cands and rng.random() < 0.04:
        h = rng.choice(cands)
        del h.nodes[rng.choice(list(h.nodes))]["symbol"]
    return {"op": "cmp", "graphs": cands + [t], "kinds": kinds, "scheme": scheme, "pseed": rng.randrange(10 ** 9)}


FRAGS = ["C", "C", "C", "C", "N", "O", "S", "c1ccccc1", "c1ccncc1", "C=C", "C#C", "C(=O)O", "C(=O)N", "C#N", "C(Cl)", "C(Br)",
         "C(F)(F)", "[Si](C)(C)", "B(O)", "P(C)", "c1ccoc1", "c1ccsc1", "C1CC1", "C1CCCCC1", "N(C)", "S(=O)(=O)",
         "c1ccc2ccccc2c1", "C(=O)", "C1=CCCC1", "OC", "c1cn(C)cn1", "C(=S)", "[SnH2]", "C(I)"]


def _gen_smiles(rng):
    smi = "CCO"
    for _ in range(6):
        parts = []
        for i in range(rng.randint(1, 5)):
            f = rng.choice(FRAGS)
            parts.append("(" + f + ")" if i > 0 and rng.random() < 0.3 else f)
        cand = "".join(parts)
        m = Chem.MolFromSmiles(cand)
        if m is not None and m.GetNumAtoms() > 0:
            smi = cand
            break
    return {"op": "smiles", "smiles": smi, "rseed": rng.randrange(10 ** 9), "lower": rng.random() < 0.4,
            "maps": rng.choice(["none", "none", "all", "some"]), "ignore_aam": rng.random() < 0.3,
            "canonical": rng.random() < 0.7}


def _exhaustive_bridge():
    """every 2-node graph over {C, n, Cl} x {no edge, 1, 1.5, 2, 3, 4, 2.5} x map numbers {absent, -1, 0, 1}^2
    x ignore_aam x (first node a labelled placeholder or not); ids 5, 2 inserted in that order"""
    for s1, s2 in itertools.product(["C", "n", "Cl"], repeat=2):
        for e in [None, 1, 1.5, 2, 3, 4, 2.5]:
            for a1, a2 in itertools.product([None, -1, 0, 1], repeat=2):
                for lab in (False, True):
                    for ig in (False, True):
                        g = nx.Graph()
                        g.add_node(5, symbol="#" if lab else s1)
                        g.add_node(2, symbol=s2)
                        if lab:
                            g.nodes[5]["labels"] = ["g"]
                            g.nodes[5]["is_labeled"] = True
                            g.nodes[2]["labels"] = []
                            g.nodes[2]["is_labeled"] = False
                        if a1 is not None:
                            g.nodes[5]["aam"] = a1
                        if a2 is not None:
                            g.nodes[2]["aam"] = a2
                        if e is not None:
                            g.add_edge(2, 5, bond=e)
                        yield {"op": "bridge", "graph": g, "ignore_aam": ig, "scheme": "exhaustive",
                               "kind": "labelled" if lab else "mol", "aam_mode": "exhaustive"}


def _exhaustive_wl():
    """every graph on 3 nodes over symbols {C, O} and per-pair {no edge, 1, 2}, against each of its 6 renumberings"""
    pairs = [(0, 1), (0, 2), (1, 2)]
    for syms in itertools.product(["C", "O"], repeat=3):
        for es in itertools.product([None, 1, 2], repeat=3):
            g = nx.Graph()
            for i, sy in enumerate(syms):
                g.add_node(i, symbol=sy)
            for (u, v), e in zip(pairs, es):
                if e is not None:
                    g.add_edge(u, v, bond=e)
            for perm in itertools.permutations(range(3)):
                h = nx.Graph()
                for i in reversed(range(3)):
                    h.add_node(10 + perm[i], symbol=syms[i])
                for (u, v), e in reversed(list(zip(pairs, es))):
                    if e is not None:
                        h.add_edge(10 + perm[v], 10 + perm[u], bond=e)
                yield {"op": "wl", "graphs": [g, h], "iterations": 3, "kind": "iso", "scheme": "exhaustive"}


def generate(seed, tier, ncases=None):
    if tier == "thorough" and ncases is None:
        yield from _exhaustive_bridge()
        yield from _exhaustive_wl()
    n = ncases or (900 if tier == "quick" else 12000)
    for i in range(n):
        rng = lib.rng_for(seed, ID, i)
        r = rng.random()
        if r < 0.55:
            yield _gen_bridge(rng)
        elif r < 0.62:
            yield _gen_m2g(rng)
        elif r < 0.80:
            yield _gen_wl(rng)
        elif r < 0.90:
            yield _gen_cmp(rng)
        else:
            yield _gen_smiles(rng)


def _elements_case():
    pt = Chem.GetPeriodicTable()
    els = [pt.GetElementSymbol(i) for i in range(0, 119)]
    letters = string.ascii_letters
    cands = set(els) | set(letters) | {a + b for a in letters for b in letters}
    cands |= {"Uut", "Uup", "Uus", "Uuo", "Uub", "", "#", "*", "R", "D", "T", "C1", "Xx", "[C]", " C", "C "}
    return {"op": "elements", "strings": sorted(cands)}


def corpus():
    yield _elements_case()
    g = parse("C{g}C")
    yield {"op": "bridge", "graph": g, "ignore_aam": False, "scheme": "corpus", "kind": "labelled", "aam_mode": "none"}
    g = parse("c1ccccc1C$CSi(C)(C)Cl", init_aam=True)
    yield {"op": "bridge", "graph": g, "ignore_aam": False, "scheme": "corpus", "kind": "parsed", "aam_mode": "all"}
    yield {"op": "bridge", "graph": gens.copy_exact(g), "ignore_aam": True, "scheme": "corpus", "kind": "parsed",
           "aam_mode": "all"}
    h = nx.Graph()
    h.add_node(7, symbol="n", aam=0)
    h.add_node(-2, symbol="Sn", aam=-1)
    h.add_node(4, symbol="C", aam=1)
    h.add_edge(4, 7, bond=1.5)
    h.add_edge(-2, 4, bond=4)
    yield {"op": "bridge", "graph": h, "ignore_aam": False, "scheme": "corpus", "kind": "mol", "aam_mode": "odd"}
    yield {"op": "m2g", "smiles": "[NH3]->[Cu]", "add_hs": False}
    # 1-WL cannot tell two triangles from a hexagon: the model must reproduce the equal hashes
    tri = nx.Graph()
    for i in range(6):
        tri.add_node(i, symbol="C")
    for u, v in [(0, 1), (1, 2), (2, 0), (3, 4), (4, 5), (5, 3)]:
        tri.add_edge(u, v, bond=1)
    hexa = nx.cycle_graph(6)
    for i in hexa.nodes:
        hexa.nodes[i]["symbol"] = "C"
    for u, v in hexa.edges:
        hexa[u][v]["bond"] = 1
    yield {"op": "wl", "graphs": [tri, hexa], "iterations": 3, "kind": "wl-equivalent", "scheme": "corpus"}
    yield {"op": "wl", "graphs": [nx.Graph(), nx.Graph()], "iterations": 3, "kind": "empty", "scheme": "corpus"}
    one = nx.Graph()
    one.add_node(5, symbol="Cl")
    yield {"op": "wl", "graphs": [one, gens.copy_exact(one)], "iterations": 3, "kind": "same", "scheme": "corpus"}
    yield {"op": "cmp", "graphs": [hexa, tri, parse("CCO"), parse("OCC")] + [parse("CCO")], "kinds": ["indep", "indep", "iso", "iso"],
           "scheme": "corpus", "pseed": 1}
    yield {"op": "smiles", "smiles": "CC(=O)Oc1ccccc1C(=O)O", "rseed": 3, "lower": True, "maps": "all",
           "ignore_aam": False, "canonical": True}


# ------------------------------------------------------------------ running the implementation

def mol_view(mol):
    atoms = []
    for i, a in enumerate(mol.GetAtoms()):
        if a.GetIdx() != i:
            raise AssertionError("GetAtoms is not in index order")
        atoms.append((a.GetSymbol(), a.GetAtomMapNum()))
    bonds = [(b.GetBeginAtomIdx(), b.GetEndAtomIdx(), str(b.GetBondType()).split(".")[-1]) for b in mol.GetBonds()]
    return (atoms, bonds)


def patched_wl(g, iterations):
    """networkx' own WL code with the digest replaced by the model's stand-in digest"""
    old = gh._hash_label
    gh._hash_label = lambda label, digest_size: "<" + label + ">"
    try:
        return nx.weisfeiler_lehman_graph_hash(g, edge_attr="bond", node_attr="symbol", iterations=iterations)
    finally:
        gh._hash_label = old


def real_wl(g, iterations):
    return nx.weisfeiler_lehman_graph_hash(g, edge_attr="bond", node_attr="symbol", iterations=iterations)


_NORM = {"c": "C", "n": "N", "b": "B", "o": "O", "p": "P", "s": "S"}


def _node_match(with_aam):
    def f(a, b):
        if _NORM.get(a["symbol"], a["symbol"]) != _NORM.get(b["symbol"], b["symbol"]):
            return False
        return (not with_aam) or a.get("aam") == b.get("aam")
    return f


def smiles_roundtrip(c):
    """graph of a sanitised neutral molecule (no explicit H nodes), arbitrary ids/orders, optionally written with
    lower-case aromatic symbols and atom maps -> graph_to_smiles -> smiles_to_graph -> isomorphic?"""
    rng = lib.rng_for(c["rseed"], ID, "smiles")
    mol = Chem.MolFromSmiles(c["smiles"])
    g = mol_to_graph(mol)
    if any(d["symbol"] == "H" for _, d in g.nodes(data=True)):
        return {"status": "skipped-explicit-H"}
    if c["lower"]:
        for n in g.nodes:
            if g.nodes[n]["symbol"] in ("C", "N", "O", "S", "P", "B") and any(g[n][v]["bond"] == 1.5 for v in g[n]):
                g.nodes[n]["symbol"] = g.nodes[n]["symbol"].lower()
    if c["maps"] != "none":
        ks = list(range(1, g.number_of_nodes() + 1))
        rng.shuffle(ks)
        for n in g.nodes:
            if c["maps"] == "all" or rng.random() < 0.5:
                g.nodes[n]["aam"] = ks.pop()
    g, _, _ = gens.reid(rng, g)
    before = gens.copy_exact(g)
    try:
        smi = graph_to_smiles(g, ignore_aam=c["ignore_aam"], canonical=c["canonical"])
    except Exception as e:
        return {"status": "WRITE-FAILED", "error": "%s: %s" % (type(e).__name__, str(e)[:120]), "graph": ct.graph_py(g)}
    res = {"status": "ok", "written": smi, "graph": ct.graph_py(g), "mutated": not gens.graphs_identical(before, g)}
    try:
        g2 = smiles_to_graph(smi)
    except ValueError as e:
        res["status"] = "reread-refused"
        return res
    with_aam = not c["ignore_aam"]
    if c["ignore_aam"] and any("aam" in d for _, d in g2.nodes(data=True)):
        res["status"] = "aam-not-ignored"
        return res
    iso = nx.is_isomorphic(g, g2, node_match=_node_match(with_aam), edge_match=lambda a, b: a["bond"] == b["bond"])
    if not iso:
        res["status"] = "NOT-ISOMORPHIC"
        res["reread"] = ct.graph_py(g2)
        return res
    # the graph read from a SMILES belongs to the caller: edit it in place, read the same text again - the second
    # reading must again be the molecule the text describes (no result object may be shared between calls)
    for n in list(g2.nodes)[:1]:
        g2.nodes[n]["symbol"] = "Xx"
    for u, v in list(g2.edges)[:1]:
        g2[u][v]["bond"] = 7
    g2.add_node(max(g2.nodes) + 1 if len(g2) else 0, symbol="Xx")
    try:
        g2b = smiles_to_graph(smi)
        fresh = g2b is not g2 and nx.is_isomorphic(g, g2b, node_match=_node_match(with_aam),
                                                   edge_match=lambda a, b: a["bond"] == b["bond"])
    except Exception:
        fresh = False
    if not fresh:
        res["status"] = "REREAD-NOT-FRESH"
        return res
    # history on the SAME graph object: edit it in place WITHOUT changing node or edge counts (isovalent element
    # swap on a non-aromatic atom, and/or two map numbers exchanged) and export again - the second SMILES must
    # describe the edited graph (nothing memoised on the graph, in the module or keyed by size may survive the edit)
    sub = {"C": "Si", "N": "P", "O": "S", "F": "Cl", "Cl": "Br", "Br": "I"}
    cands = [n for n in g.nodes if g.nodes[n]["symbol"] in sub and all(g[n][v]["bond"] != 1.5 for v in g[n])]
    edits = []
    if cands:
        n = rng.choice(cands)
        g.nodes[n]["symbol"] = sub[g.nodes[n]["symbol"]]
        edits.append("symbol of node %r -> %s" % (n, g.nodes[n]["symbol"]))
    mapped = [n for n in g.nodes if "aam" in g.nodes[n]]
    if with_aam and len(mapped) >= 2:
        a, b = rng.sample(mapped, 2)
        g.nodes[a]["aam"], g.nodes[b]["aam"] = g.nodes[b]["aam"], g.nodes[a]["aam"]
        edits.append("map numbers of nodes %r and %r exchanged" % (a, b))
    if edits:
        try:
            smi2 = graph_to_smiles(g, ignore_aam=c["ignore_aam"], canonical=c["canonical"])
            g3 = smiles_to_graph(smi2)
        except Exception:
            return res        # the edited molecule is outside what RDKit writes/re-reads: nothing to conclude
        if not nx.is_isomorphic(g, g3, node_match=_node_match(with_aam), edge_match=lambda a, b: a["bond"] == b["bond"]):
            res["status"] = "NOT-ISOMORPHIC-AFTER-EDIT"
            res["edits"] = edits
            res["written2"] = smi2
            res["graph2"] = ct.graph_py(g)
    return res


def run_impl(c):
    if c["op"] == "bridge":
        g = gens.copy_exact(c["graph"])
        try:
            mol = graph_to_mol(g, ignore_aam=c["ignore_aam"])
        except Exception as e:
            return ("err", type(e).__name__, str(e)[:160], g)
        return ("ok", mol_view(mol), mol_to_graph(mol), g)
    if c["op"] == "m2g":
        mol = Chem.MolFromSmiles(c["smiles"])
        if c["add_hs"]:
            mol = Chem.AddHs(mol)
        return ("ok", mol_view(mol), mol_to_graph(mol), None)
    if c["op"] == "wl":
        res = []
        for g in c["graphs"]:
            g = gens.copy_exact(g)
            try:
                res.append(("ok", patched_wl(g, c["iterations"]), real_wl(g, c["iterations"])))
            except Exception as e:
                res.append(("err", type(e).__name__))
        return ("ok", res)
    if c["op"] == "cmp":
        gs = [gens.copy_exact(g) for g in c["graphs"]]
        try:
            first = [bool(x) for x in mol_compare(gs[:-1], gs[-1]).tolist()]
        except Exception as e:
            return ("err", type(e).__name__, str(e)[:100], gs)
        # history on the SAME target object: edit it in place (a new atom bonded to its first atom, one symbol changed),
        # compare again - the answer must be the one a fresh call gives on copies of the current contents
        hist = None
        t = gens.copy_exact(gs[-1])
        cands = [gens.copy_exact(g) for g in gs[:-1]] + [gens.copy_exact(t)]
        try:
            mol_compare(cands[:-1], t)
            nodes = list(t.nodes)
            new = max([n for n in nodes if isinstance(n, int)] + [0]) + 1
            t.add_node(new, symbol="Cl")
            if nodes:
                t.add_edge(nodes[0], new, bond=1)
                t.nodes[nodes[-1]]["symbol"] = "Si" if t.nodes[nodes[-1]].get("symbol") != "Si" else "C"
            cands.append(gens.copy_exact(t))
            got = [bool(x) for x in mol_compare(cands, t).tolist()]
            want = [bool(x) for x in mol_compare([gens.copy_exact(g) for g in cands], gens.copy_exact(t)).tolist()]
            if got != want:
                hist = ("mol_compare on a target object that was compared before and then edited in place answers %r, a fresh "
                        "call on copies of the same graphs answers %r" % (got, want))
            elif not got[-1]:
                hist = "mol_compare reports an exact copy of the (edited) target as different"
        except Exception:
            pass
        return ("ok", first, hist, gs)
    if c["op"] == "smiles":
        return ("ok", smiles_roundtrip(c))
    if c["op"] == "elements":
        res = []
        for s in c["strings"]:
            try:
                res.append(Chem.Atom(s).GetSymbol())
            except RuntimeError:
                res.append(None)
        return ("ok", res)
    raise ValueError(c["op"])


# ------------------------------------------------------------------ Coq terms

def view_term(v):
    atoms, bonds = v
    return "(mkMol (%s : list (string * Z)) (%s : list (Z * Z * string)))" % (
        ct.lst(["(%s, %s)" % (ct.s(s), ct.z(k)) for s, k in atoms]),
        ct.lst(["(%s, %s, %s)" % (ct.z(b), ct.z(e), ct.s(t)) for b, e, t in bonds]))


def _err(name):
    if name not in ERRS:
        raise ct.Unrepresentable("exception class %s is outside the modelled error values" % name)
    return name


def coq_case(c, out):
    r = _coq_case(c, out)
    if py_invariants(c, out):
        r["checks"]["spec"] = "false && (%s)" % r["checks"]["spec"]
    return r


def _coq_case(c, out):
    T = "true"
    if c["op"] == "bridge":
        ig = ct.b(c["ignore_aam"])
        defs = {"g": ct.graph(c["graph"])}
        if out[0] == "ok":
            defs["view"] = "(Ok %s : res rwmol)" % view_term(out[1])
            defs["out"] = "(Ok %s : res graph)" % ct.graph(out[2])
        else:
            defs["view"] = "(Err %s : res rwmol)" % _err(out[1])
            defs["out"] = "(Err %s : res graph)" % _err(out[1])
        return {"defs": defs,
                "checks": {"agree": "res_eqb graph_eqb (bridge chem_atom $g %s) $out" % ig,
                           "rwmol": "res_eqb rwmol_eqb (graph_to_mol chem_atom $g %s) $view" % ig,
                           "spec": "bridge_okb $g %s $out" % ig, "wl": T},
                "diag": ["graph_to_mol chem_atom $g %s" % ig, "bridge chem_atom $g %s" % ig]}
    if c["op"] == "m2g":
        defs = {"view": view_term(out[1]), "out": ct.graph(out[2])}
        return {"defs": defs,
                "checks": {"agree": "graph_eqb (mol_to_graph $view) $out", "rwmol": T, "spec": T, "wl": T},
                "diag": ["mol_to_graph $view"]}
    if c["op"] == "wl":
        g1, g2 = c["graphs"]
        r1, r2 = out[1]
        it = ct.z(c["iterations"])
        defs = {"g1": ct.graph(g1), "g2": ct.graph(g2)}
        for nm, r in (("s1", r1), ("s2", r2)):
            defs[nm] = "(Ok %s : res string)" % ct.s(r[1]) if r[0] == "ok" else "(Err %s : res string)" % _err(r[1])
        real_eq = (r1[0] == "ok" and r2[0] == "ok" and r1[2] == r2[2]) or (r1[0] == "err" and r2[0] == "err" and r1[1] == r2[1])
        m1, m2 = "(wl_hash wrap_digest $g1 %s)" % it, "(wl_hash wrap_digest $g2 %s)" % it
        chk = ("res_eqb String.eqb %s $s1 && res_eqb String.eqb %s $s2 && Bool.eqb (res_eqb String.eqb %s %s) %s"
               % (m1, m2, m1, m2, ct.b(real_eq)))
        return {"defs": defs, "checks": {"agree": T, "rwmol": T, "spec": T, "wl": chk}, "diag": [m1, m2]}
    if c["op"] == "cmp":
        gs = c["graphs"]
        defs = {"cands": "(%s : list graph)" % ct.lst([ct.graph(g) for g in gs[:-1]]), "t": ct.graph(gs[-1])}
        defs["out"] = ("(Ok (%s : list bool) : res (list bool))" % ct.lst([ct.b(x) for x in out[1]]) if out[0] == "ok"
                       else "(Err %s : res (list bool))" % _err(out[1]))
        m = "mol_compare wrap_digest $cands $t"
        return {"defs": defs, "checks": {"agree": "res_eqb (list_eqb Bool.eqb) (%s) $out" % m, "rwmol": T, "spec": T, "wl": T},
                "diag": [m]}
    if c["op"] == "smiles":
        return {"defs": {"n": "0"}, "checks": {"agree": T, "rwmol": T, "spec": T, "wl": T}, "diag": []}
    if c["op"] == "elements":
        defs = {"strs": "(%s : list string)" % ct.lst([ct.s(s) for s in c["strings"]]),
                "out": "(%s : list (option string))" % ct.lst([ct.opt(x, ct.s) for x in out[1]])}
        return {"defs": defs,
                "checks": {"agree": T, "rwmol": "list_eqb (option_eqb String.eqb) (map chem_atom $strs) $out",
                           "spec": T, "wl": T},
                "diag": []}
    raise ValueError(c["op"])


# ------------------------------------------------------------------ bookkeeping

def describe(c):
    d = {k: v for k, v in c.items() if k not in ("graph", "graphs") and not k.startswith("_")}
    if "graph" in c:
        d["graph"] = ct.graph_py(c["graph"])
    if "graphs" in c:
        d["graphs"] = [ct.graph_py(g) for g in c["graphs"]]
    return d


def from_json(d):
    c = dict(d)
    if "graph" in d:
        c["graph"] = ct.graph_from_py(d["graph"])
    if "graphs" in d:
        c["graphs"] = [ct.graph_from_py(g) for g in d["graphs"]]
    return c


def describe_out(out):
    if out[0] == "err":
        return {"status": out[1], "msg": out[2]}
    if isinstance(out[1], dict):
        return out[1]
    if len(out) == 2 or isinstance(out[1], list):
        return {"status": "ok", "value": out[1] if len(repr(out[1])) < 2000 else "(%d items)" % len(out[1])}
    return {"status": "ok", "atoms": [list(a) for a in out[1][0]], "bonds": [list(b) for b in out[1][1]],
            "graph": ct.graph_py(out[2])}


def key(c):
    if c["op"] == "bridge":
        return ("bridge", c["ignore_aam"], ct.graph_canon(c["graph"]))
    if c["op"] == "m2g":
        return ("m2g", c["smiles"], c["add_hs"])
    if c["op"] in ("wl", "cmp"):
        return (c["op"], c.get("iterations"), tuple(ct.graph_canon(g) for g in c["graphs"]))
    if c["op"] == "smiles":
        return ("smiles", c["smiles"], c["rseed"], c["lower"], c["maps"], c["ignore_aam"], c["canonical"])
    return (c["op"],)


def nontrivial(c, out):
    if c["op"] == "bridge":
        return c["graph"].number_of_nodes() >= 2 and c["graph"].number_of_edges() >= 1
    if c["op"] == "m2g":
        return len(out[1][1]) >= 1
    if c["op"] in ("wl", "cmp"):
        return c["graphs"][-1].number_of_nodes() >= 2
    if c["op"] == "smiles":
        return out[1]["status"] in ("ok", "NOT-ISOMORPHIC-AFTER-EDIT")
    return True


def classes(c, out):
    yield "op=" + c["op"]
    if c["op"] == "bridge":
        yield "kind=" + c["kind"]
        yield "scheme=" + c["scheme"]
        yield "aam=" + c["aam_mode"]
        yield "ignore_aam=%s" % c["ignore_aam"]
        yield "result=" + (out[1] if out[0] == "err" else "ok")
        if out[0] == "ok":
            for t in sorted(set(b[2] for b in out[1][1])):
                yield "bondtype=" + t
    elif c["op"] == "m2g":
        for t in sorted(set(b[2] for b in out[1][1])):
            yield "m2g_bondtype=" + t
    elif c["op"] == "wl":
        r1, r2 = out[1]
        yield "wl_kind=" + c["kind"]
        yield "wl_iterations=%s" % c["iterations"]
        if r1[0] == "ok" and r2[0] == "ok":
            yield "wl_hashes=" + ("equal" if r1[2] == r2[2] else "different")
        else:
            yield "wl_result=" + (r1[1] if r1[0] == "err" else r2[1])
    elif c["op"] == "cmp":
        yield "cmp_result=" + ("ok" if out[0] == "ok" else out[1])
        if out[0] == "ok":
            for k, x in zip(c["kinds"], out[1]):
                yield "cmp_%s=%d" % (k, x)
    elif c["op"] == "smiles":
        yield "smiles=" + out[1]["status"]


def py_invariants(c, out):
    """runtime facts (no mutation of arguments, renumbering invariance on the implementation, SMILES round trip);
    computed once per case; a non-empty result also turns the case's 'spec' check to false so that a replay fails"""
    if "_inv" not in c:
        c["_inv"] = _py_invariants(c, out)
    return c["_inv"]


def _py_invariants(c, out):
    msgs = []
    if c["op"] == "bridge":
        if not gens.graphs_identical(c["graph"], out[3]):
            msgs.append("graph_to_mol mutated its argument")
    elif c["op"] == "cmp":
        gs = c["graphs"]
        if any(not gens.graphs_identical(a, b) for a, b in zip(gs, out[-1])):
            msgs.append("mol_compare mutated an argument")
        if out[0] == "ok" and len(out) == 4 and out[2]:
            msgs.append(out[2])
        if out[0] == "ok":
            # structural comparison is invariant under renumbering + reordering of every graph involved
            rng = lib.rng_for(c["pseed"], ID, "cmp")
            for rep in range(2):
                hs = [gens.reid(rng, g)[0] for g in gs]
                again = [bool(x) for x in mol_compare(hs[:-1], hs[-1]).tolist()]
                if again != out[1]:
                    msgs.append("mol_compare is not invariant under renumbering: %r became %r" % (out[1], again))
                    break
            # a renumbered copy of the target is structurally equal to it
            for i, (k, x) in enumerate(zip(c["kinds"], out[1])):
                if k in ("iso", "same") and not x:
                    msgs.append("candidate %d is a renumbered copy of the target but mol_compare reports 0" % i)
    elif c["op"] == "wl":
        if c["kind"] in ("iso", "same"):
            r1, r2 = out[1]
            if r1[0] == "ok" and r2[0] == "ok" and r1[2] != r2[2]:
                msgs.append("WL hash differs between a graph and its renumbered copy")
    elif c["op"] == "smiles":
        st = out[1]["status"]
        if st == "NOT-ISOMORPHIC":
            msgs.append("SMILES round trip: %r was written as %r and re-read to a non-isomorphic graph"
                        % (c["smiles"], out[1]["written"]))
        elif st == "NOT-ISOMORPHIC-AFTER-EDIT":
            msgs.append("SMILES round trip on one graph object: %r exported as %r, then edited in place (%s) and exported again "
                        "as %r, which re-reads to a graph that is not isomorphic to the edited graph"
                        % (c["smiles"], out[1]["written"], "; ".join(out[1]["edits"]), out[1]["written2"]))
        elif st == "REREAD-NOT-FRESH":
            msgs.append("smiles_to_graph(%r) was called, its result edited in place by the caller, and called again with the same text: "
                        "the second result is not (a fresh graph of) the molecule the text describes" % out[1]["written"])
        elif st == "WRITE-FAILED":
            msgs.append("graph_to_smiles raised %s on the graph of the RDKit-valid molecule %r" % (out[1]["error"], c["smiles"]))
        elif st == "aam-not-ignored":
            msgs.append("graph_to_smiles(ignore_aam=True) wrote atom maps: %r" % out[1]["written"])
        if out[1].get("mutated"):
            msgs.append("graph_to_smiles mutated its argument")
    return msgs
