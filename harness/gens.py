"""Input generators shared by the property checks. Every choice comes from the rng passed in."""
import networkx as nx

HEAVY = ["C", "C", "C", "C", "O", "N", "S", "Cl", "Si", "B", "Br", "P", "F"]
ALL_SYMS = HEAVY + ["H", "R", "c", "n", "Sn", "Xx"]


def rand_tree_edges(rng, n):
    return [(rng.randrange(0, i), i) for i in range(1, n)]


def rand_mol(rng, nmin=1, nmax=9, syms=HEAVY, ring_p=0.35, orders=(1, 1, 1, 2, 1.5, 3), extra_max=2):
    """Random connected labelled graph on ids 0..n-1: random tree plus a few ring bonds."""
    n = rng.randint(nmin, nmax)
    g = nx.Graph()
    for i in range(n):
        g.add_node(i, symbol=rng.choice(syms))
    for u, v in rand_tree_edges(rng, n):
        g.add_edge(u, v, bond=rng.choice(orders))
    if n >= 3 and rng.random() < ring_p:
        for _ in range(rng.randint(1, extra_max)):
            u, v = rng.sample(range(n), 2)
            if not g.has_edge(u, v):
                g.add_edge(u, v, bond=rng.choice(orders))
    return g


def rand_forest(rng, nmin=1, nmax=9, **kw):
    """Possibly disconnected."""
    g = rand_mol(rng, nmin, nmax, **kw)
    if g.number_of_edges() > 0 and rng.random() < 0.3:
        e = rng.choice(list(g.edges))
        g.remove_edge(*e)
    return g


ID_SCHEMES = ["contig", "offset", "sparse", "shuffled", "negative"]


def reid(rng, g, scheme=None):
    """Rename nodes and rebuild the graph with shuffled node/edge insertion order, so that ids,
    node order and adjacency order are all independent of each other."""
    scheme = scheme or rng.choice(ID_SCHEMES)
    n = g.number_of_nodes()
    old = list(g.nodes)
    if scheme == "contig":
        new = list(range(n))
    elif scheme == "offset":
        k = rng.randint(1, 20)
        new = [i + k for i in range(n)]
    elif scheme == "sparse":
        new = sorted(rng.sample(range(0, 5 * n + 5), n))
    elif scheme == "negative":
        new = sorted(rng.sample(range(-n - 3, 2 * n + 3), n))
    else:
        new = rng.sample(range(0, 3 * n + 2), n)
    m = dict(zip(old, new))
    h = g.__class__()
    order = list(old)
    if scheme in ("shuffled", "sparse", "negative") or rng.random() < 0.3:
        rng.shuffle(order)
    for u in order:
        h.add_node(m[u], **dict(g.nodes[u]))
    es = list(g.edges(data=True))
    rng.shuffle(es)
    for u, v, d in es:
        if rng.random() < 0.5:
            u, v = v, u
        h.add_edge(m[u], m[v], **dict(d))
    return h, scheme, m


def copy_exact(g):
    """Deep copy that preserves node and adjacency dict order (Graph.copy() does not)."""
    h = g.__class__()
    for n in g._node:
        h.add_node(n, **_deep(g._node[n]))
    shared = {}
    for n in g._node:
        for v, dd in g._adj[n].items():
            key = frozenset((n, v))
            if key not in shared:
                shared[key] = _deep(dd)
            h._adj[n][v] = shared[key]
    return h


def _deep(d):
    out = {}
    for k, v in d.items():
        if isinstance(v, list):
            v = list(v)
        out[k] = v
    return out


def graphs_identical(g, h):
    """Same nodes/attrs/adjacency in the same dict orders."""
    if list(g._node) != list(h._node):
        return False
    for n in g._node:
        if g._node[n] != h._node[n] or type(g._node[n].get("labels")) != type(h._node[n].get("labels")):
            return False
        if list(g._adj[n].items()) != list(h._adj[n].items()):
            return False
        for v in g._adj[n]:
            if type(g._adj[n][v].get("bond")) != type(h._adj[n][v].get("bond")):
                return False
    return True
