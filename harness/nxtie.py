"""Correspondence run for the networkx model (Base/NX.v): random operation sequences on a real
networkx.Graph and on the model; final graph (all dict orders), edges() and edges(n) must agree
exactly. Used by every check whose theorem or tie depends on an iteration order."""
import networkx as nx

import coqterm as ct
import lib

IMPORTS = "From FGV Require Import Model.NXOps."
SYMS = ["C", "O", "N", "H", "Cl", "c"]


def rand_attrs(rng):
    d = {}
    if rng.random() < 0.8:
        d["symbol"] = rng.choice(SYMS)
    if rng.random() < 0.3:
        d["aam"] = rng.randint(0, 9)
    if rng.random() < 0.2:
        d["labels"] = rng.sample(["a", "b", "g1"], rng.randint(0, 2))
        d["is_labeled"] = rng.random() < 0.5
    return d


def rand_label(rng):
    r = rng.random()
    if r < 0.6:
        return rng.choice([1, 2, 1.5, 3])
    if r < 0.85:
        return (rng.randint(0, 3), rng.randint(0, 3))
    return [rng.randint(0, 3), rng.randint(0, 3)]


def rand_small_graph(rng, ids):
    h = nx.Graph()
    for n in rng.sample(ids, rng.randint(1, 4)):
        h.add_node(n, **rand_attrs(rng))
    ns = list(h.nodes)
    for _ in range(rng.randint(0, 4)):
        u, v = rng.choice(ns), rng.choice(ns)
        if u != v:
            h.add_edge(u, v, bond=rand_label(rng))
    return h


def op_term(o):
    k = o[0]
    if k == "add_node":
        return "(OAddNode %s %s)" % (ct.z(o[1]), ct.nattr(o[2]))
    if k == "add_edge":
        return "(OAddEdge %s %s %s)" % (ct.z(o[1]), ct.z(o[2]), ct.label(o[3]))
    if k == "remove_node":
        return "(ORemoveNode %s)" % ct.z(o[1])
    if k == "remove_edge":
        return "(ORemoveEdge %s %s)" % (ct.z(o[1]), ct.z(o[2]))
    if k == "copy":
        return "OCopy"
    if k == "compose":
        return "(OCompose %s)" % ct.graph(o[1])
    if k == "composel":
        return "(OComposeL %s)" % ct.graph(o[1])
    if k == "relabel":
        return "(ORelabel %s)" % ct.lst(["(%s, %s)" % (ct.z(a), ct.z(b)) for a, b in o[1].items()])
    raise ValueError(k)


def gen_case(rng):
    ids = list(range(-2, 9))
    g = nx.Graph()
    ops = []
    for _ in range(rng.randint(3, 14)):
        r = rng.random()
        nodes = list(g.nodes)
        edges = list(g.edges)
        if r < 0.25 or not nodes:
            o = ("add_node", rng.choice(ids), rand_attrs(rng))
            g.add_node(o[1], **o[2])
        elif r < 0.6:
            u, v = rng.choice(ids), rng.choice(ids)
            if u == v:
                continue   # self-loops are outside the modelled domain
            o = ("add_edge", u, v, rand_label(rng))
            g.add_edge(u, v, bond=o[3])
        elif r < 0.68:
            o = ("remove_node", rng.choice(nodes))
            g.remove_node(o[1])
        elif r < 0.76 and edges:
            u, v = rng.choice(edges)
            if rng.random() < 0.5:
                u, v = v, u
            o = ("remove_edge", u, v)
            g.remove_edge(u, v)
        elif r < 0.84:
            o = ("copy",)
            g = g.copy()
        elif r < 0.9:
            h = rand_small_graph(rng, ids)
            o = ("compose", h)
            g = nx.compose(g, h)
        elif r < 0.94:
            h = rand_small_graph(rng, ids)
            o = ("composel", h)
            g = nx.compose(h, g)
        else:
            # injective relabelling of the current nodes (partial dict: the rest keep their ids)
            sub = rng.sample(nodes, rng.randint(0, len(nodes)))
            free = [i for i in range(-6, 16) if i not in nodes or i in sub]
            tgt = rng.sample(free, len(sub))
            m = dict(zip(sub, tgt))
            o = ("relabel", m)
            g = nx.relabel_nodes(g, m, copy=True)
        ops.append(o)
    return ops, g


def coq_case(ops, g):
    es = ct.lst(["(%s, %s, %s)" % (ct.z(u), ct.z(v), ct.label(d["bond"])) for u, v, d in g.edges(data=True)])
    inc = ct.lst(["(%s, %s)" % (ct.z(n), ct.lst(["(%s, %s, %s)" % (ct.z(u), ct.z(v), ct.label(d["bond"]))
                                                      for u, v, d in g.edges(n, data=True)])) for n in g.nodes])
    return {"defs": {"ops": "(%s : list op)" % ct.lst([op_term(o) for o in ops]), "exp": ct.graph(g),
                     "es": "(%s : list (Z * Z * label))" % es,
                     "inc": "(%s : list (Z * list (Z * Z * label)))" % inc},
            "checks": {"agree": "observe_ok (run_ops $ops) $exp $es $inc"}}


def run(seed, n=200):
    """Returns (n_cases, failures) where failures is a list of dict(ops=..., impl=...)."""
    cases, meta = [], []
    for i in range(n):
        rng = lib.rng_for(seed, "NXTIE", i)
        ops, g = gen_case(rng)
        cases.append(coq_case(ops, g))
        meta.append((ops, g))
    failing, errors = lib.run_coq_cases("NXTIE", IMPORTS, cases, ["agree"], chunk=100)
    fails = []
    for i in failing["agree"]:
        ops, g = meta[i]
        fails.append({"ops": [repr(o) for o in ops], "impl": ct.graph_py(g)})
    for k, path, log in errors:
        fails.append({"error": "coqc failed on %s" % path, "log": log})
    return len(cases), fails


if __name__ == "__main__":
    import sys
    n, fails = run(int(sys.argv[1]) if len(sys.argv) > 1 else 0, int(sys.argv[2]) if len(sys.argv) > 2 else 300)
    print("networkx tie: %d cases, %d failures" % (n, len(fails)))
    for f in fails[:3]:
        print(f)
    sys.exit(1 if fails else 0)
