"""Serialisation of networkx.MultiGraph values as Coq terms of type FGV.Base.NXMulti.mgraph,
plus exact copies / JSON dumps that keep node, adjacency and key-dict order.
Companion of coqterm.py (which handles simple graphs); only ever *written*, never parsed."""
import networkx as nx

import coqterm as ct


def _bond(dd):
    extra = set(dd.keys()) - {"bond"}
    if extra or "bond" not in dd:
        raise ct.Unrepresentable("edge attribute keys %r" % (sorted(dd.keys()),))
    return ct.label(dd["bond"])


def check_shared(g):
    """The model relies on _adj[u][v] and _adj[v][u] being the same key dict (as networkx builds them)."""
    for u in g._adj:
        for v, kd in g._adj[u].items():
            if u not in g._adj.get(v, {}) or g._adj[v][u] is not kd:
                raise ct.Unrepresentable("key dict of %r-%r is not shared" % (u, v))


def mgraph(g, allow_selfloops=True):
    """networkx.MultiGraph -> mgraph, preserving node, adjacency and key order."""
    if not g.is_multigraph() or g.is_directed():
        raise ct.Unrepresentable("not an undirected multigraph")
    check_shared(g)
    entries = []
    for n in g._node:
        ad = []
        for v, kd in g._adj[n].items():
            if v == n and not allow_selfloops:
                raise ct.Unrepresentable("self-loop on %r" % (n,))
            ks = ["(%s, %s)" % (ct.z(k), _bond(dd)) for k, dd in kd.items()]
            ad.append("(%s, %s)" % (ct.z(v), ct.lst(ks)))
        entries.append("(%s, (%s, %s))" % (ct.z(n), ct.nattr(g._node[n]), ct.lst(ad)))
    return "(%s : mgraph)" % ct.lst(entries)


def any_graph(g):
    return mgraph(g) if g.is_multigraph() else simple_graph(g)


def simple_graph(g, allow_selfloops=True):
    for n in g._adj:
        if n in g._adj[n] and not allow_selfloops:
            raise ct.Unrepresentable("self-loop on %r" % (n,))
    return ct.graph(g)


def edges4(g):
    return "(%s : list (Z * Z * Z * label))" % ct.lst(
        ["(%s, %s, %s, %s)" % (ct.z(u), ct.z(v), ct.z(k), _bond(d)) for u, v, k, d in g.edges(keys=True, data=True)])


def incident_all(g):
    return "(%s : list (Z * list (Z * Z * label)))" % ct.lst(
        ["(%s, %s)" % (ct.z(n), ct.lst(["(%s, %s, %s)" % (ct.z(u), ct.z(v), _bond(d))
                                         for u, v, d in g.edges(n, data=True)])) for n in g.nodes])


def _deep(d):
    out = {}
    for k, v in d.items():
        if isinstance(v, list):
            v = list(v)
        out[k] = v
    return out


def copy_exact(g):
    """Deep copy preserving every dict order (node, adjacency, key dict) and key-dict sharing.
    Works for Graph and MultiGraph."""
    h = g.__class__()
    for n in g._node:
        h.add_node(n, **_deep(g._node[n]))
    shared = {}
    for n in g._node:
        for v, x in g._adj[n].items():
            key = frozenset((n, v))
            if key not in shared:
                if g.is_multigraph():
                    kd = h.edge_key_dict_factory()
                    for k, dd in x.items():
                        kd[k] = _deep(dd)
                    shared[key] = kd
                else:
                    shared[key] = _deep(x)
            h._adj[n][v] = shared[key]
    return h


def identical(g, h):
    """Same class, nodes/attrs/adjacency/keys in the same dict orders, same value types."""
    if g.is_multigraph() != h.is_multigraph():
        return False
    if list(g._node) != list(h._node):
        return False
    for n in g._node:
        if g._node[n] != h._node[n] or list(g._node[n]) != list(h._node[n]):
            return False
        if list(g._adj[n]) != list(h._adj[n]):
            return False
        for v in g._adj[n]:
            a, b = g._adj[n][v], h._adj[n][v]
            if g.is_multigraph():
                if list(a.items()) != list(b.items()):
                    return False
                if any(type(a[k].get("bond")) != type(b[k].get("bond")) for k in a):
                    return False
            else:
                if a != b or type(a.get("bond")) != type(b.get("bond")):
                    return False
    return True


def graph_py(g):
    """JSON-able dump for replay files (both graph classes)."""
    if not g.is_multigraph():
        return ct.graph_py(g)
    return {"multigraph": True,
            "nodes": [[n, {k: (list(v) if isinstance(v, tuple) else v) for k, v in g._node[n].items()}] for n in g._node],
            "adj": [[n, [[v, [[k, ct._bond_json(dd)] for k, dd in kd.items()]] for v, kd in g._adj[n].items()]]
                    for n in g._node]}


def _bond_from_json(bd):
    if isinstance(bd, dict):
        return tuple(bd["tuple"]) if "tuple" in bd else list(bd["list"])
    return bd


def graph_from_py(d):
    if not d.get("multigraph"):
        return ct.graph_from_py(d)
    g = nx.MultiGraph()
    for n, attrs in d["nodes"]:
        attrs = dict(attrs)
        if "idx_map" in attrs:
            attrs["idx_map"] = tuple(attrs["idx_map"])
        g.add_node(n, **attrs)
    shared = {}
    for n, ad in d["adj"]:
        for v, kd in ad:
            key = frozenset((n, v))
            if key not in shared:
                x = g.edge_key_dict_factory()
                for k, bd in kd:
                    x[k] = {"bond": _bond_from_json(bd)}
                shared[key] = x
            g._adj[n][v] = shared[key]
    return g


def canon(g):
    """Hashable canonical description (distinctness counting)."""
    if not g.is_multigraph():
        return ("S",) + ct.graph_canon(g)
    return ("M", tuple((n, tuple(sorted((k, repr(v)) for k, v in g._node[n].items()))) for n in g._node),
            tuple((n, tuple((v, tuple((k, repr(dd.get("bond"))) for k, dd in kd.items()))
                            for v, kd in g._adj[n].items())) for n in g._node))
