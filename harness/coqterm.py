"""Serialise Python / networkx values as Coq terms (text). Only ever *written*, never parsed.
All terms are meant to be read in a file that has
  Open Scope Z_scope. Open Scope string_scope. Import ListNotations.
"""
import networkx as nx

KNOWN_NODE_KEYS = {"symbol", "aam", "labels", "is_labeled", "idx_map"}


class Unrepresentable(Exception):
    pass


def z(n):
    if isinstance(n, bool) or not isinstance(n, (int,)) and not hasattr(n, "__index__"):
        raise Unrepresentable("not an integer: %r" % (n,))
    n = int(n)
    return "(%d)" % n if n < 0 else "%d" % n


def nat(n):
    n = int(n)
    if n < 0:
        raise Unrepresentable("negative nat %r" % n)
    return "%d%%nat" % n


def s(x):
    if not isinstance(x, str):
        raise Unrepresentable("not a string: %r" % (x,))
    if any(ord(c) > 126 or ord(c) < 32 for c in x):
        raise Unrepresentable("non-printable/ non-ascii string %r" % x)
    return '"' + x.replace('"', '""') + '"'


def b(x):
    return "true" if x else "false"


def lst(items):
    return "[" + "; ".join(items) + "]"


def opt(x, f):
    return "None" if x is None else "(Some %s)" % f(x)


def pair(a, c):
    return "(%s, %s)" % (a, c)


def half(o):
    """bond order -> half units (exact)"""
    if isinstance(o, bool):
        raise Unrepresentable("bool bond order")
    h = o * 2
    if isinstance(h, float):
        if h != int(h):
            raise Unrepresentable("bond order %r is not a multiple of 0.5" % (o,))
        h = int(h)
    if not isinstance(h, int):
        try:
            import numpy as np
            if isinstance(h, np.integer):
                h = int(h)
            elif isinstance(h, np.floating) and float(h) == int(h):
                h = int(h)
            else:
                raise Unrepresentable("bond order %r" % (o,))
        except ImportError:
            raise Unrepresentable("bond order %r" % (o,))
    return h


def label(bond):
    if isinstance(bond, tuple):
        if len(bond) != 2:
            raise Unrepresentable("tuple label %r" % (bond,))
        return "(Pair %s %s)" % (z(half(bond[0])), z(half(bond[1])))
    if isinstance(bond, list):
        if len(bond) != 2:
            raise Unrepresentable("list label %r" % (bond,))
        return "(LPair %s %s)" % (z(half(bond[0])), z(half(bond[1])))
    return "(Scalar %s)" % z(half(bond))


def nattr(d):
    extra = set(d.keys()) - KNOWN_NODE_KEYS
    if extra:
        raise Unrepresentable("unknown node attribute keys %r" % (sorted(extra),))
    sym = opt(d.get("symbol"), s) if "symbol" in d else "None"
    aam = opt(d.get("aam"), z) if "aam" in d else "None"
    labels = "(Some %s)" % lst([s(x) for x in d["labels"]]) if "labels" in d else "None"
    islab = "(Some %s)" % b(d["is_labeled"]) if "is_labeled" in d else "None"
    if "idx_map" in d:
        im = d["idx_map"]
        idx = "(Some (%s, %s))" % (z(im[0]), z(im[1]))
    else:
        idx = "None"
    return "(mkNA %s %s %s %s %s)" % (sym, aam, labels, islab, idx)


def graph(g):
    """networkx.Graph -> FGV.Base.NX.graph, preserving node and adjacency dict order."""
    if g.is_multigraph() or g.is_directed():
        raise Unrepresentable("not a simple undirected graph")
    entries = []
    for n in g._node:
        ad = []
        for v, dd in g._adj[n].items():
            extra = set(dd.keys()) - {"bond"}
            if extra or "bond" not in dd:
                raise Unrepresentable("edge attribute keys %r" % (sorted(dd.keys()),))
            ad.append("(%s, %s)" % (z(v), label(dd["bond"])))
        entries.append("(%s, (%s, %s))" % (z(n), nattr(g._node[n]), lst(ad)))
    return "(%s : graph)" % lst(entries)


def graph_canon(g):
    """A hashable canonical description (for distinctness counting)."""
    return (tuple((n, tuple(sorted((k, repr(v)) for k, v in g._node[n].items()))) for n in g._node),
            tuple((n, tuple((v, repr(dd.get("bond"))) for v, dd in g._adj[n].items())) for n in g._node))


def graph_py(g):
    """JSON-able dump for replay files."""
    return {"multigraph": g.is_multigraph(),
            "nodes": [[n, {k: (list(v) if isinstance(v, tuple) else v) for k, v in g._node[n].items()}] for n in g._node],
            "adj": [[n, [[v, _bond_json(dd)] for v, dd in g._adj[n].items()]] for n in g._node]}


def _bond_json(dd):
    if "bond" not in dd:
        return None
    bd = dd["bond"]
    if isinstance(bd, tuple):
        return {"tuple": list(bd)}
    if isinstance(bd, list):
        return {"list": list(bd)}
    return bd


def graph_from_py(d):
    g = nx.Graph()
    for n, attrs in d["nodes"]:
        attrs = dict(attrs)
        if "idx_map" in attrs:
            attrs["idx_map"] = tuple(attrs["idx_map"])
        g.add_node(n, **attrs)
    shared = {}
    for n, ad in d["adj"]:
        for v, bd in ad:
            if isinstance(bd, dict):
                bd = tuple(bd["tuple"]) if "tuple" in bd else list(bd["list"])
            key = frozenset((n, v))
            if key not in shared:
                shared[key] = {"bond": bd}
            g._adj[n][v] = shared[key]
    return g
