"""Regenerate /verif/MANIFEST.json from the per-property tables below."""
import json, os
VERIF = os.path.dirname(os.path.dirname(os.path.abspath(__file__)))

CLAIMED = {}
_cd = os.path.join(VERIF, "harness", "claims")
for _f in sorted(os.listdir(_cd)):
    if _f.endswith(".json"):
        CLAIMED[_f[:-5]] = json.load(open(os.path.join(_cd, _f)))

NOT_YET = {}

def main():
    props = [json.loads(l) for l in open(os.path.join(VERIF, "properties.jsonl"))]
    checks, na = [], []
    for p in props:
        pid = p["id"]
        if pid in CLAIMED:
            c = CLAIMED[pid]
            checks.append({
                "property_id": pid,
                "quick_cmd": "./check %s --tier quick" % pid,
                "thorough_cmd": "./check %s --tier thorough" % pid,
                "evidence_file": "/verif/evidence/%s.json" % pid,
                "replay_cmd_template": "./check %s --replay {path}" % pid,
                "engine": "coq-fgv",
                "level_claimed": {"category": "proof", "text": c["text"], "design_ref": "DESIGN.md section " + c["design"]},
                "level_note": c["note"],
                "technique": c["technique"],
            })
        else:
            na.append({"property_id": pid, "reason": NOT_YET.get(pid, "not yet claimed: the Coq model and theorems for this property are still being built (see DESIGN.md section 6); no check is registered until they exist")})
    man = {
        "version": 1,
        "setup_cmd": "./setup.sh",
        "hooks": {"guard": "FGUTILS_VERIF", "enable": "no source hooks are needed; checks import fgutils from /repo with PYTHONPATH=/repo (the guard variable is set by ./check but read by nothing in /repo)",
                  "baseline_off_cmd": "cd /repo && /venv/bin/python -m pytest -q -p no:cacheprovider", "source_commits": [], "add_only": True},
        "engines": [{"name": "coq-fgv", "path": "/verif/coq", "serves_properties": sorted(CLAIMED),
                     "kind_free_text": "Coq 8.16.1 development (models, specifications, proofs) + Python correspondence harness evaluating the models with vm_compute against the implementation"}],
        "checks": checks,
        "not_applicable": na,
        "notes": "All checks: ./check <id> [--tier quick|thorough] [--replay file]; honours VERIF_SEED / VERIF_TIER. Repairs of genuine defects are 'fix:' commits in /repo, listed in known_findings.txt.",
    }
    with open(os.path.join(VERIF, "MANIFEST.json"), "w") as f:
        json.dump(man, f, indent=1)
    print("claimed:", sorted(CLAIMED), "unclaimed:", len(na))

if __name__ == "__main__":
    main()
