"""Regenerate /verif/MANIFEST.json from the per-property tables below."""
import json, os
VERIF = os.path.dirname(os.path.dirname(os.path.abspath(__file__)))

CLAIMED = {
 "C20": dict(
   text="Theorems about the Gallina model of complete_aam/initialize_aam (Props/C20.v, closed under the global context): termination of the while loop for every input, all nodes mapped, old numbers kept, i-th new number = least unused integer from the requested start, hence injectivity; initialize_aam refuses iff a node is mapped. The model is tied to /repo by exact comparison of whole output graphs (kernel vm_compute vs. Python) and the proved-sound checker complete_okb is run on every implementation output.",
   note="Trusted: Coq kernel/vm_compute, harness serialisation, generators; node attribute dict restricted to the five keys FGUtils uses; ints unbounded on both sides.",
   technique="Coq proof (induction over the node list with a counter invariant, pigeonhole for loop termination) + model/implementation correspondence by in-kernel evaluation + proved-sound decidable checker",
   design="6/C20"),
}

NOT_YET = {}

def main():
    props = [json.loads(l) for l in open(os.path.join(VERIF, "properties.jsonl"))]
    checks, na = [], []
    for p in props:
        pid = p["id"]
        if pid in CLAIMED:
            c = CLAIMED[pid]
            checks.append({
                "property_id": pid,
                "quick_cmd": "./check %s --tier quick" % pid,
                "thorough_cmd": "./check %s --tier thorough" % pid,
                "evidence_file": "/verif/evidence/%s.json" % pid,
                "replay_cmd_template": "./check %s --replay {path}" % pid,
                "engine": "coq-fgv",
                "level_claimed": {"category": "proof", "text": c["text"], "design_ref": "DESIGN.md section " + c["design"]},
                "level_note": c["note"],
                "technique": c["technique"],
            })
        else:
            na.append({"property_id": pid, "reason": NOT_YET.get(pid, "not yet claimed: the Coq model and theorems for this property are still being built (see DESIGN.md section 6); no check is registered until they exist")})
    man = {
        "version": 1,
        "setup_cmd": "./setup.sh",
        "hooks": {"guard": "FGUTILS_VERIF", "enable": "no source hooks are needed; checks import fgutils from /repo with PYTHONPATH=/repo (the guard variable is set by ./check but read by nothing in /repo)",
                  "baseline_off_cmd": "cd /repo && /venv/bin/python -m pytest -q -p no:cacheprovider", "source_commits": [], "add_only": True},
        "engines": [{"name": "coq-fgv", "path": "/verif/coq", "serves_properties": sorted(CLAIMED),
                     "kind_free_text": "Coq 8.16.1 development (models, specifications, proofs) + Python correspondence harness evaluating the models with vm_compute against the implementation"}],
        "checks": checks,
        "not_applicable": na,
        "notes": "All checks: ./check <id> [--tier quick|thorough] [--replay file]; honours VERIF_SEED / VERIF_TIER. Repairs of genuine defects are 'fix:' commits in /repo, listed in known_findings.txt.",
    }
    with open(os.path.join(VERIF, "MANIFEST.json"), "w") as f:
        json.dump(man, f, indent=1)
    print("claimed:", sorted(CLAIMED), "unclaimed:", len(na))

if __name__ == "__main__":
    main()
