"""Common machinery for all property checks: Coq build, hygiene, in-Coq evaluation of
generated case files, verdicts, evidence and replay files."""
import concurrent.futures as cf
import fcntl
import glob
import hashlib
import json
import os
import random
import re
import subprocess
import sys
import time

VERIF = os.path.dirname(os.path.dirname(os.path.abspath(__file__)))
COQ = os.path.join(VERIF, "coq")
CASES = os.path.join(COQ, "cases")
EVID = os.path.join(VERIF, "evidence")
REPLAYS = os.path.join(VERIF, "replays")
REPO = os.environ.get("VERIF_REPO", "/repo").rstrip("/")
MAIN_COQ = COQ
if REPO != "/repo":
    # a run against another source tree (seeded changes) must neither overwrite the evidence of /repo nor
    # regenerate Gen/*.v inside the main development: it works in its own copy of the Coq tree
    EVID = os.path.join(VERIF, "evidence_other")
    REPLAYS = os.path.join(VERIF, "replays_other")
    COQ = os.path.join(VERIF, "coq_other", re.sub(r"[^A-Za-z0-9_.-]", "_", REPO.strip("/")))
    CASES = os.path.join(COQ, "cases")
JOBS = int(os.environ.get("VERIF_JOBS", "16"))
COQ_FLAGS = ["-Q", os.path.join(COQ, "theories"), "FGV", "-w",
             "-notation-overridden,-ambiguous-paths,-deprecated-hint-without-locality"]

FORBIDDEN = re.compile(
    r"\b(Admitted|admit|Axiom|Axioms|Parameter|Parameters|Conjecture|Conjectures)\b"
    r"|Unset\s+Guard|bypass_check|Admit\s+Obligations|type-in-type|impredicative-set"
    r"|Unset\s+Universe\s+Checking|Unset\s+Positivity")
# stdlib axioms we accept if a library pulls them in (each must be listed in evidence)
ALLOWED_AXIOMS = {
    "functional_extensionality_dep", "Eqdep.Eq_rect_eq.eq_rect_eq", "eq_rect_eq",
    "classic", "proof_irrelevance", "JMeq_eq", "propositional_extensionality",
}

HEADER = """From Coq Require Import ZArith List Bool String.
From FGV Require Import Base.Util Base.Bond Base.NX.
%s
Import ListNotations.
Open Scope string_scope.
Open Scope Z_scope.
Set Warnings "-abstract-large-number".
"""


def prepare_other_tree():
    """Copy the main Coq development (sources and compiled files, timestamps kept) for a run against
    another source tree; only what the regenerated Gen/*.v invalidate is rebuilt there."""
    if REPO == "/repo":
        return
    os.makedirs(COQ, exist_ok=True)
    lockf = open(os.path.join(MAIN_COQ, ".lock"), "w")
    fcntl.flock(lockf, fcntl.LOCK_EX)
    try:
        subprocess.run(["rsync", "-a", "--delete", "--exclude", "cases", "--exclude", ".lock",
                        MAIN_COQ + "/", COQ + "/"], check=True)
    finally:
        fcntl.flock(lockf, fcntl.LOCK_UN)
        lockf.close()
    # the copied Makefile refers to relative paths only; force a fresh one to be safe
    try:
        os.remove(os.path.join(COQ, "Makefile"))
    except OSError:
        pass


def assert_repo():
    import fgutils
    f = os.path.realpath(fgutils.__file__)
    if not f.startswith(REPO + "/"):
        raise SystemExit("fgutils is imported from %s, not from %s" % (f, REPO))


def sh(cmd, timeout=900, cwd=None):
    t0 = time.time()
    # own process group: on a timeout the whole group is killed (make's coqc children would otherwise run on)
    p = subprocess.Popen(cmd, cwd=cwd, stdout=subprocess.PIPE, stderr=subprocess.STDOUT, text=True, start_new_session=True)
    try:
        out, _ = p.communicate(timeout=timeout)
        return p.returncode, out or "", time.time() - t0
    except subprocess.TimeoutExpired:
        try:
            os.killpg(p.pid, 9)
        except OSError:
            pass
        try:
            out, _ = p.communicate(timeout=10)
        except Exception:
            out = ""
        return 124, (out or "") + "\nTIMEOUT after %ss" % timeout, time.time() - t0


class Lock:
    def __enter__(self):
        os.makedirs(COQ, exist_ok=True)
        self.f = open(os.path.join(COQ, ".lock"), "w")
        fcntl.flock(self.f, fcntl.LOCK_EX)
        return self

    def __exit__(self, *a):
        fcntl.flock(self.f, fcntl.LOCK_UN)
        self.f.close()


def vfiles():
    return sorted(os.path.relpath(p, COQ) for p in glob.glob(os.path.join(COQ, "theories", "**", "*.v"), recursive=True))


def write_if_changed(path, text):
    try:
        if open(path).read() == text:
            return False
    except OSError:
        pass
    os.makedirs(os.path.dirname(path), exist_ok=True)
    with open(path, "w") as f:
        f.write(text)
    return True


def ensure_makefile():
    proj = "-Q theories FGV\n-arg -w -arg -notation-overridden,-ambiguous-paths,-deprecated-hint-without-locality\n" \
           + "\n".join(vfiles()) + "\n"
    changed = write_if_changed(os.path.join(COQ, "_CoqProject"), proj)
    if changed or not os.path.exists(os.path.join(COQ, "Makefile")):
        rc, out, _ = sh(["coq_makefile", "-f", "_CoqProject", "-o", "Makefile"], cwd=COQ)
        if rc != 0:
            raise SystemExit("coq_makefile failed:\n" + out)


def build(targets, timeout=1500):
    """Full .vo build of the given targets (relative to coq/), under the build lock."""
    with Lock():
        ensure_makefile()
        rc, out, dt = sh(["make", "-j%d" % JOBS] + targets, timeout=timeout, cwd=COQ)
    return rc == 0, out, dt


def hygiene():
    """Forbidden constructs anywhere in the development (comments included: keep them clean)."""
    bad = []
    for rel in vfiles():
        for i, line in enumerate(open(os.path.join(COQ, rel)), 1):
            if FORBIDDEN.search(line):
                bad.append("%s:%d: %s" % (rel, i, line.strip()))
    return bad


def props_check(props_rel):
    """(Re)compile the property file and read its Print Assumptions output.
    Returns dict(ok, theorems, assumptions_blocks, axioms, log)."""
    path = os.path.join(COQ, "theories", props_rel)
    src = open(path).read()
    theorems = re.findall(r"^\s*(?:Theorem|Lemma|Corollary|Example|Fact)\s+([A-Za-z0-9_']+)", src, re.M)
    n_print = len(re.findall(r"^\s*Print Assumptions", src, re.M))
    with Lock():
        rc, out, dt = sh(["coqc"] + COQ_FLAGS + [path], timeout=900, cwd=COQ)
    closed = out.count("Closed under the global context")
    axioms = []
    for m in re.finditer(r"Axioms:\n((?:.+\n?)+?)(?=\n\S|\Z)", out):
        for line in m.group(1).splitlines():
            mm = re.match(r"^([A-Za-z0-9_.']+)\s*:", line)
            if mm:
                axioms.append(mm.group(1))
    blocks = closed + out.count("Axioms:")
    bad_axioms = sorted(set(a for a in axioms if a.split(".")[-1] not in ALLOWED_AXIOMS and a not in ALLOWED_AXIOMS))
    ok = rc == 0 and blocks == n_print and not bad_axioms
    return {"ok": ok, "rc": rc, "theorems": theorems, "n_print": n_print, "blocks": blocks,
            "axioms": sorted(set(axioms)), "bad_axioms": bad_axioms, "log": out, "wall_s": dt}


def _coqc_file(path, timeout):
    rc, out, dt = sh(["coqc"] + COQ_FLAGS + [path], timeout=timeout, cwd=CASES)
    return rc, out, dt


def parse_nat_lists(out):
    """All '= [..] : list nat' answers in a coqc output, in order."""
    flat = re.sub(r"\s+", " ", out)
    res = []
    for m in re.finditer(r"= (\[[^\]]*\]|nil) ?(?:%nat)? ?: list nat", flat):
        body = m.group(1)
        if body == "nil" or body == "[]":
            res.append([])
        else:
            res.append([int(x) for x in re.findall(r"\d+", body)])
    return res


def subst(expr, i):
    return re.sub(r"\$([A-Za-z_][A-Za-z0-9_]*)", lambda m: "c%d_%s" % (i, m.group(1)), expr)


def run_coq_cases(tag, imports, cases, check_names, chunk=250, timeout=600):
    """cases: list of dict(defs={name: term}, checks={check_name: bool expr using $name}).
    Returns {check_name: sorted list of failing case indices}, errors (list of (chunk, log))."""
    os.makedirs(CASES, exist_ok=True)
    pid = os.getpid()
    files = []
    for k in range(0, len(cases), chunk):
        part = cases[k:k + chunk]
        lines = [HEADER % imports]
        for j, c in enumerate(part):
            i = k + j
            for name, term in c["defs"].items():
                lines.append("Definition c%d_%s := %s." % (i, name, term))
        for cn in check_names:
            lines.append("Definition r_%s : list bool := [" % cn)
            lines.append(";\n".join("  (%s)" % subst(c["checks"][cn], k + j) for j, c in enumerate(part)))
            lines.append("].")
            lines.append("Eval vm_compute in (false_idx r_%s)." % cn)
        path = os.path.join(CASES, "%s_%d_%d.v" % (tag, pid, k))
        with open(path, "w") as f:
            f.write("\n".join(lines) + "\n")
        files.append((k, path))
    failing = {cn: [] for cn in check_names}
    errors = []
    with cf.ThreadPoolExecutor(max_workers=JOBS) as ex:
        futs = {ex.submit(_coqc_file, path, timeout): (k, path) for k, path in files}
        for fut in cf.as_completed(futs):
            k, path = futs[fut]
            rc, out, dt = fut.result()
            lists = parse_nat_lists(out) if rc == 0 else []
            if rc != 0 or len(lists) != len(check_names):
                errors.append((k, path, out[-3000:]))
                continue
            for cn, l in zip(check_names, lists):
                failing[cn].extend(k + x for x in l)
            for ext in (".v", ".vo", ".glob", ".vok", ".vos"):
                try:
                    os.remove(path[:-2] + ext)
                except OSError:
                    pass
            try:
                os.remove(os.path.join(CASES, "." + os.path.basename(path)[:-2] + ".aux"))
            except OSError:
                pass
    for cn in failing:
        failing[cn].sort()
    return failing, errors


def coq_eval(tag, imports, defs, exprs, timeout=300):
    """Evaluate expressions with vm_compute and return the raw Coq output (for replay files)."""
    os.makedirs(CASES, exist_ok=True)
    path = os.path.join(CASES, "%s_eval_%d.v" % (tag, os.getpid()))
    lines = [HEADER % imports]
    for name, term in defs.items():
        lines.append("Definition c0_%s := %s." % (name, term))
    for e in exprs:
        lines.append("Eval vm_compute in (%s)." % subst(e, 0))
    with open(path, "w") as f:
        f.write("\n".join(lines) + "\n")
    rc, out, dt = _coqc_file(path, timeout)
    for ext in (".v", ".vo", ".glob", ".vok", ".vos"):
        try:
            os.remove(path[:-2] + ext)
        except OSError:
            pass
    return rc, out


def rng_for(seed, prop, i):
    return random.Random("%s:%s:%s" % (seed, prop, i))


def write_json(path, obj):
    os.makedirs(os.path.dirname(path), exist_ok=True)
    tmp = path + ".tmp%d" % os.getpid()
    with open(tmp, "w") as f:
        json.dump(obj, f, indent=1, default=repr)
    os.replace(tmp, path)


def load_known_findings():
    known, fixed = [], []
    p = os.path.join(VERIF, "known_findings.txt")
    if os.path.exists(p):
        for line in open(p):
            line = line.strip()
            if not line or line.startswith("#"):
                continue
            kind, _, rest = line.partition(":")
            fields = dict(re.findall(r"(\w+)=(\S+)", rest))
            fields["text"] = rest.strip()
            (known if kind == "known" else fixed).append(fields)
    return known, fixed


def digest(obj):
    return hashlib.sha1(repr(obj).encode()).hexdigest()[:12]
