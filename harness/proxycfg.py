"""Proxy configurations as data: dump of live fgutils.proxy.Proxy objects (fail-closed) and their
serialisation as Coq terms of type FGV.Model.ProxyGen.config. Shared by props/c14.py, props/c15.py
and gen/proxyda.py. A configuration in Python ("cfg dict") is
  {"core": [[pattern, anchors], ...], "groups": [[key, name, [[pattern, anchors], ...]], ...], "aam": bool}
"""
import networkx as nx

import coqterm as ct
import ctmulti as cm
from fgutils.parse import Parser
from fgutils.proxy import Proxy, ProxyGroup, ProxyGraph, GraphSampler

SHIFT_OFFSETS = (3, 17)
_cache = {}


class Unexpected(Exception):
    pass


def has_selfloop(g):
    return any(n in g._adj[n] for n in g._adj)


def shifted(g, m):
    """The graph the model uses for parser.parse(pattern, idx_offset=m): every id + m, all dict orders kept."""
    h = g.__class__()
    for n in g._node:
        h.add_node(n + m, **cm._deep(g._node[n]))
    shared = {}
    for n in g._node:
        for v, kd in g._adj[n].items():
            key = frozenset((n, v))
            if key not in shared:
                x = h.edge_key_dict_factory()
                for k, dd in kd.items():
                    x[k] = cm._deep(dd)
                shared[key] = x
            h._adj[n + m][v + m] = shared[key]
    return h


def to_multi(g):
    """A simple Graph as the MultiGraph with the same nodes (order kept) and the same edges in G.edges() order,
    every edge under key 0 (what the reference expander and the checkers read)."""
    h = nx.MultiGraph()
    for n in g._node:
        h.add_node(n, **cm._deep(g._node[n]))
    for u, v, d in g.edges(data=True):
        h.add_edge(u, v, **cm._deep(d))
    return h


def pattern_graph(pattern, mg=True):
    """(MultiGraph of the pattern at offset 0, message or None). The message reports a violation of the
    assumption  parse(pattern, idx_offset=m) == shift m (parse(pattern, 0))  (checked at offsets 3 and 17).
    mg=False: the pattern as Parser(use_multigraph=False) reads it, converted by to_multi."""
    if (pattern, mg) in _cache:
        return _cache[(pattern, mg)]
    g = Parser(use_multigraph=mg).parse(pattern)
    if not mg:
        g = to_multi(g)
    msg = None
    for m in SHIFT_OFFSETS:
        h = Parser(use_multigraph=mg).parse(pattern, idx_offset=m)
        if not mg:
            h = to_multi(h)
        if not cm.identical(h, shifted(g, m)):
            msg = "parser offset assumption fails for pattern %r at idx_offset=%d (use_multigraph=%s)" % (pattern, m, mg)
    _cache[(pattern, mg)] = (g, msg)
    return _cache[(pattern, mg)]


def shift_messages(cfg, mg=True):
    msgs = []
    for p in all_patterns(cfg):
        m = pattern_graph(p, mg)[1]
        if m:
            msgs.append(m)
    return msgs


def all_patterns(cfg):
    seen = []
    for p, _ in cfg["core"]:
        if p not in seen:
            seen.append(p)
    for _, _, graphs in cfg["groups"]:
        for p, _ in graphs:
            if p not in seen:
                seen.append(p)
    return seen


def _ints(a, what):
    if not isinstance(a, list) or any(isinstance(x, bool) or not isinstance(x, int) for x in a):
        raise Unexpected("%s: anchor is not a list of ints: %r" % (what, a))
    return list(a)


def _pgraph(pg, what):
    if type(pg) is not ProxyGraph:
        raise Unexpected("%s: not a ProxyGraph: %r" % (what, type(pg)))
    if not isinstance(pg.pattern, str):
        raise Unexpected("%s: pattern is not a string" % what)
    return [pg.pattern, _ints(pg.anchor, what)]


def dump_proxy(proxy, any_parser=False, custom_samplers=()):
    """cfg dict of a live Proxy object; raises Unexpected on anything outside the modelled domain
    (custom samplers, unique group samplers, non-default parser unless any_parser, shared core graph objects)."""
    if not isinstance(proxy, Proxy):
        raise Unexpected("not a Proxy")
    parser = proxy.parser
    if type(parser) is not Parser:
        raise Unexpected("parser is not a fgutils Parser")
    if not any_parser and (parser.use_multigraph is not True or parser.init_aam is not False):
        raise Unexpected("parser is not the default Parser(use_multigraph=True)")
    core = proxy.core
    if type(core) is not ProxyGroup or type(core.sampler) is not GraphSampler or core.sampler.unique is not True:
        raise Unexpected("core group does not use GraphSampler(unique=True)")
    if core.sampler._GraphSampler__hist:
        raise Unexpected("core sampler already has a history")
    if len(set(id(g) for g in core.graphs)) != len(core.graphs):
        raise Unexpected("core graphs are not pairwise distinct objects")
    groups = proxy._Proxy__groups
    if not isinstance(groups, dict):
        raise Unexpected("groups is not a dict")
    out_groups = []
    for key, grp in groups.items():
        if not isinstance(key, str) or type(grp) is not ProxyGroup:
            raise Unexpected("group entry %r" % (key,))
        if key in custom_samplers:
            pass      # a custom NON-RESTRICTING sampler installed by the harness (it returns every graph it is given)
        elif type(grp.sampler) is not GraphSampler or grp.sampler.unique is not False:
            raise Unexpected("group %r does not use the default GraphSampler(unique=False)" % key)
        if grp.sampler is core.sampler:
            raise Unexpected("group %r shares the core sampler" % key)
        out_groups.append([key, grp.name, [_pgraph(g, "group %s" % key) for g in grp.graphs]])
    if not isinstance(proxy.enable_aam, bool):
        raise Unexpected("enable_aam is not a bool")
    return {"core": [_pgraph(g, "core") for g in core.graphs], "groups": out_groups, "aam": proxy.enable_aam}


def cattr(d):
    """Node attribute dict as a compact term (Model/ProxyTerms.v abbreviations) when it has the parser's shape."""
    keys = set(d.keys())
    if keys in ({"symbol", "labels", "is_labeled"}, {"symbol", "labels", "is_labeled", "aam"}) \
            and isinstance(d["symbol"], str) and isinstance(d["labels"], list) and isinstance(d["is_labeled"], bool) \
            and (d["is_labeled"] or d["labels"] == []):
        if d["is_labeled"]:
            ls = ct.lst([ct.s(x) for x in d["labels"]])
            if "aam" in d:
                return "(nlm %s %s %s)" % (ct.s(d["symbol"]), ls, ct.z(d["aam"]))
            return "(nl %s %s)" % (ct.s(d["symbol"]), ls)
        if "aam" in d:
            return "(nam %s %s)" % (ct.s(d["symbol"]), ct.z(d["aam"]))
        return "(na %s)" % ct.s(d["symbol"])
    return ct.nattr(d)


def _edge_data(dd):
    extra = set(dd.keys()) - {"bond"}
    if extra or "bond" not in dd:
        raise ct.Unrepresentable("edge attribute keys %r" % (sorted(dd.keys()),))
    return dd["bond"]


def cgraph(g):
    """networkx.Graph -> compact term of type graph (same value as coqterm.graph)."""
    if g.is_multigraph() or g.is_directed():
        raise ct.Unrepresentable("not a simple undirected graph")
    entries = []
    for n in g._node:
        ad = []
        for v, dd in g._adj[n].items():
            b = _edge_data(dd)
            if isinstance(b, tuple) and len(b) == 2:
                ad.append("Ep %s %s %s" % (ct.z(v), ct.z(ct.half(b[0])), ct.z(ct.half(b[1]))))
            elif isinstance(b, (tuple, list)):
                ad.append("(%s, %s)" % (ct.z(v), ct.label(b)))
            else:
                ad.append("Es %s %s" % (ct.z(v), ct.z(ct.half(b))))
        entries.append("Nd %s %s %s" % (ct.z(n), cattr(g._node[n]), ct.lst(ad)))
    return "(%s : graph)" % ct.lst(entries)


def cmgraph(g):
    """networkx.MultiGraph -> compact term of type mgraph (same value as ctmulti.mgraph)."""
    if not g.is_multigraph() or g.is_directed():
        raise ct.Unrepresentable("not an undirected multigraph")
    cm.check_shared(g)
    entries = []
    for n in g._node:
        ad = []
        for v, kd in g._adj[n].items():
            items = list(kd.items())
            if len(items) == 1 and items[0][0] == 0:
                b = _edge_data(items[0][1])
                if isinstance(b, tuple) and len(b) == 2:
                    ad.append("Mp %s %s %s" % (ct.z(v), ct.z(ct.half(b[0])), ct.z(ct.half(b[1]))))
                    continue
                if not isinstance(b, (tuple, list)):
                    ad.append("Ms %s %s" % (ct.z(v), ct.z(ct.half(b))))
                    continue
            ks = ["(%s, %s)" % (ct.z(k), ct.label(_edge_data(dd))) for k, dd in items]
            ad.append("Mk %s %s" % (ct.z(v), ct.lst(ks)))
        entries.append("Md %s %s %s" % (ct.z(n), cattr(g._node[n]), ct.lst(ad)))
    return "(%s : mgraph)" % ct.lst(entries)


def pgraph_term(p, anchors, mg=True):
    g, _ = pattern_graph(p, mg)
    return "(mkPG %s %s)" % (cmgraph(g), ct.lst([ct.z(a) for a in anchors]))


def groups_term(groups, mg=True):
    items = []
    for key, name, graphs in groups:
        items.append("(%s, mkGrp %s %s)" % (ct.s(key), ct.s(name), ct.lst([pgraph_term(p, a, mg) for p, a in graphs])))
    return "(%s : groups)" % ct.lst(items)


def cfg_term(cfg, mg=True):
    return "(mkCfg %s %s %s)" % (ct.lst([pgraph_term(p, a, mg) for p, a in cfg["core"]]), groups_term(cfg["groups"], mg),
                                 ct.b(cfg["aam"]))


def make_parser(spec):
    """spec = None (the proxy's default) or [use_multigraph, init_aam]"""
    if spec is None:
        return None
    return Parser(use_multigraph=bool(spec[0]), init_aam=bool(spec[1]))


def build_proxy(cfg, cls=Proxy, how="dict", parser=None):
    """A fresh proxy object for a cfg dict. how: 'dict' (groups as dict under their keys, core as a
    unique ProxyGroup), 'list' (groups as list, needs key == name), 'plain' (core as pattern strings,
    needs default anchors), 'single' (one group passed bare)."""
    groups = {}
    for key, name, graphs in cfg["groups"]:
        groups[key] = ProxyGroup(name, [ProxyGraph(p, anchor=list(a)) for p, a in graphs])
    if how in ("list", "plain"):
        gl = list(groups.values())
    elif how == "single":
        gl = list(groups.values())[0]
    else:
        gl = groups
    if how == "plain":
        pats = [p for p, _ in cfg["core"]]
        core = pats[0] if len(pats) == 1 else pats
    else:
        core = ProxyGroup("__core__", [ProxyGraph(p, anchor=list(a)) for p, a in cfg["core"]], unique=True)
    if cls.__name__ == "MolProxy":
        return cls(core, gl, parser=make_parser(parser))
    return cls(core, gl, enable_aam=cfg["aam"], parser=make_parser(parser))


def count_formula(cfg, limit=10 ** 9):
    """Number of complete expansions per the property text, or None (cyclic / more than one group label)."""
    gd = {key: graphs for key, _, graphs in cfg["groups"]}
    memo = {}
    active = set()

    def cg(name):
        if name in memo:
            return memo[name]
        if name in active:
            raise RecursionError
        active.add(name)
        r = sum(cp(p) for p, _ in gd[name])
        active.discard(name)
        memo[name] = r
        return r

    def cp(p):
        g, _ = pattern_graph(p)
        r = 1
        for _, d in g.nodes(data=True):
            if d["is_labeled"]:
                ks = [l for l in d["labels"] if l in gd]
                if len(ks) > 1:
                    raise ValueError
                if ks:
                    r *= cg(ks[0])
                    if r > limit:
                        return r
        return r

    try:
        return sum(cp(p) for p, _ in cfg["core"])
    except (RecursionError, ValueError):
        return None


# ---- JSON-style configuration dicts (Proxy.from_dict / ProxyGroup.from_dict): Model/ProxyDict.v terms ----------

def _jpat(x):
    return "(Some %s)" % ct.s(x) if isinstance(x, str) else "None"


def jgraph_term(x):
    if isinstance(x, str):
        return "(JGStr %s)" % ct.s(x)
    if isinstance(x, dict):
        pat = "(Some %s)" % _jpat(x["pattern"]) if "pattern" in x else "None"
        if "pattern" in x and x["pattern"] is not None and not isinstance(x["pattern"], str):
            raise ct.Unrepresentable("pattern value %r" % (x["pattern"],))
        anchor = "(Some %s)" % ct.lst([ct.z(a) for a in x["anchor"]]) if "anchor" in x else "None"
        extra = ct.lst([ct.s(k) for k in x if k not in ("pattern", "anchor")])
        return "(JGDict %s %s %s)" % (pat, anchor, extra)
    return "JGOther"


def jgroup_term(v):
    if isinstance(v, str):
        return "(JCStr %s)" % ct.s(v)
    if isinstance(v, list):
        return "(JCList %s)" % ct.lst([jgraph_term(x) for x in v])
    if isinstance(v, dict):
        if "graphs" not in v:
            return "(JCDict None)"
        gs = v["graphs"]
        if isinstance(gs, list):
            return "(JCDict (Some (JSList %s)))" % ct.lst([jgraph_term(x) for x in gs])
        return "(JCDict (Some (JSOne %s)))" % jgraph_term(gs)
    return "JCOther"


def jgroups_term(groups):
    return "(%s : list (string * jgroup string))" % ct.lst(["(%s, %s)" % (ct.s(k), jgroup_term(v)) for k, v in groups.items()])


def jcore_term(core):
    if isinstance(core, str):
        return "(JKStr %s)" % ct.s(core)
    return "(JKList %s)" % ct.lst([ct.s(p) for p in core])


def conf_patterns(conf):
    """every pattern string that occurs in a dict configuration"""
    out = []

    def add(p):
        if isinstance(p, str) and p not in out:
            out.append(p)

    core = conf.get("core")
    for p in ([core] if isinstance(core, str) else core or []):
        add(p)
    for v in conf.get("groups", {}).values():
        items = v
        if isinstance(v, dict):
            items = v.get("graphs", [])
        if isinstance(items, (str, dict)):
            items = [items]
        if isinstance(items, list):
            for x in items:
                add(x if isinstance(x, str) else x.get("pattern") if isinstance(x, dict) else None)
    return out


def table_term(patterns, mg=True):
    return "(%s : list (string * mgraph))" % ct.lst(["(%s, %s)" % (ct.s(p), cmgraph(pattern_graph(p, mg)[0])) for p in patterns])


def dict_forms(rng, cfg):
    """An equivalent JSON-style configuration for a cfg dict whose groups are stored under their own names
    (core anchors are not expressible: the caller sets them to [0])."""
    groups = {}
    for key, _, graphs in cfg["groups"]:
        def item(p, a, force_dict=False):
            if a == [0] and not force_dict and rng.random() < 0.6:
                return p
            d = {"pattern": p}
            if a != [0] or rng.random() < 0.5:
                d["anchor"] = list(a)
            if rng.random() < 0.3:
                d[rng.choice(["order", "weight", "tag"])] = rng.randint(0, 9)
            if rng.random() < 0.15:
                d["name"] = "n" + str(rng.randint(0, 9))
            return d
        forms = ["dictlist", "list"]
        if len(graphs) == 1:
            forms += ["dictone", "dictone"]
            if graphs[0][1] == [0]:
                forms += ["str", "dictstr"]
        f = rng.choice(forms)
        if f == "str":
            v = graphs[0][0]
        elif f == "dictstr":
            v = {"graphs": graphs[0][0]}
        elif f == "dictone":
            v = {"graphs": item(graphs[0][0], graphs[0][1], force_dict=True)}
        elif f == "list":
            v = [item(p, a) for p, a in graphs]
        else:
            v = {"graphs": [item(p, a) for p, a in graphs]}
        groups[key] = v
    pats = [p for p, _ in cfg["core"]]
    conf = {"core": pats[0] if len(pats) == 1 and rng.random() < 0.6 else pats, "groups": groups}
    if not cfg["aam"] or rng.random() < 0.5:
        conf["enable_aam"] = cfg["aam"]
    return conf
