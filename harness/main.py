"""./check Cxx [--tier quick|thorough] [--replay file]

Decides one property: (1) regenerate the source-derived Coq files, (2) full .vo build of the
property's theorems, hygiene and Print Assumptions audit, (3) correspondence between the Gallina
model (evaluated by the Coq kernel's vm_compute) and the implementation in /repo on generated
and corpus inputs, plus the decidable specification checker on the implementation's outputs.
Exit 0 = held on everything explored; exit 1 + VIOLATION line otherwise."""
import argparse
import importlib
import json
import os
import sys
import time
import traceback

import lib


def main():
    ap = argparse.ArgumentParser()
    ap.add_argument("prop")
    ap.add_argument("--tier", default=os.environ.get("VERIF_TIER", "quick"))
    ap.add_argument("--replay")
    ap.add_argument("--cases", type=int, default=None, help="override the number of generated cases")
    args = ap.parse_args()
    tier = args.tier if args.tier in ("quick", "thorough") else "quick"
    seed = int(os.environ.get("VERIF_SEED", "0") or 0)
    pid = args.prop.upper()
    mod = importlib.import_module("props." + pid.lower())
    lib.assert_repo()
    lib.prepare_other_tree()
    if args.replay:
        return replay(mod, pid, args.replay)
    t0 = time.time()
    violations = []   # dict(kind, what, case, failing_input: bool)
    notes = []

    # ---- 1. translator --------------------------------------------------------------
    gen_ok, gen_msgs = True, []
    if getattr(mod, "USES_GEN", None):
        import gen_tables
        gen_ok, gen_msgs = gen_tables.regenerate(list(mod.USES_GEN))
        if not gen_ok:
            violations.append({"kind": "translator", "what": "; ".join(gen_msgs), "failing_input": False})

    # ---- 2. build + audit -----------------------------------------------------------
    props_rel = mod.PROPS
    targets = ["theories/" + props_rel[:-2] + ".vo"]
    b_ok, b_log, b_dt = lib.build(targets)
    model_ok = b_ok
    if not b_ok:
        m_ok, m_log, _ = lib.build(["theories/" + m[:-2] + ".vo" for m in mod.MODEL_FILES])
        model_ok = m_ok
        violations.append({"kind": "proof", "what": "build of %s failed" % props_rel,
                           "log": b_log[-4000:], "failing_input": False})
    bad = lib.hygiene()
    if bad:
        violations.append({"kind": "hygiene", "what": "forbidden construct: " + "; ".join(bad[:5]), "failing_input": False})
    pc = {"ok": False, "theorems": [], "axioms": [], "blocks": 0, "n_print": 0}
    if b_ok:
        pc = lib.props_check(props_rel)
        if not pc["ok"]:
            violations.append({"kind": "proof", "what": "Print Assumptions audit of %s failed (rc=%s, blocks %s/%s, axioms %s)"
                               % (props_rel, pc["rc"], pc["blocks"], pc["n_print"], pc["bad_axioms"]),
                               "log": pc["log"][-4000:], "failing_input": False})
    obligations = len(pc["theorems"]) if pc["theorems"] else len(getattr(mod, "THEOREMS", [])) or 1
    discharged = obligations if (b_ok and pc["ok"] and not bad) else 0

    # ---- 3. correspondence + checker on implementation outputs -----------------------
    stats = {"evaluations": 0, "distinct_nontrivial": 0, "hist": {}}
    samples = []
    if model_ok:
        try:
            run_cases(mod, pid, tier, seed, args.cases, violations, stats, samples, notes)
        except Exception:
            violations.append({"kind": "harness", "what": "harness error: " + traceback.format_exc()[-3000:],
                               "failing_input": False})
    else:
        violations.append({"kind": "model", "what": "model files do not build", "failing_input": False})

    # ---- 3b. the networkx model itself (only where an iteration order matters) -----------
    if model_ok and getattr(mod, "NX_TIE", False):
        import nxtie
        n_nx, nx_fails = nxtie.run(seed, 150 if tier == "quick" else 2000)
        notes.append("networkx model tie: %d operation sequences, %d disagreements" % (n_nx, len(nx_fails)))
        if nx_fails:
            violations.append({"kind": "correspondence", "what": "Base.NX model differs from networkx on %d operation sequence(s)" % len(nx_fails),
                               "correspondence": "Base.NX ~ networkx.Graph (insertion orders)", "case": nx_fails[0], "failing_input": False})

    if model_ok and getattr(mod, "NX_TIE_MULTI", False):
        import nxtie_multi
        n_nx, nx_fails = nxtie_multi.run(seed, 150 if tier == "quick" else 2000)
        notes.append("networkx MultiGraph model tie: %d operation sequences, %d disagreements" % (n_nx, len(nx_fails)))
        if nx_fails:
            violations.append({"kind": "correspondence", "what": "Base.NXMulti model differs from networkx on %d operation sequence(s)" % len(nx_fails),
                               "correspondence": "Base.NXMulti ~ networkx.MultiGraph (insertion orders, keys)", "case": nx_fails[0], "failing_input": False})

    # ---- 4. verdict -------------------------------------------------------------------
    known, fixed = lib.load_known_findings()
    known = [k for k in known if k.get("property") == pid]
    reported = []
    known_hit = {}
    for v in violations:
        kf = None
        if v.get("known_class"):
            for k in known:
                if k.get("class") == v["known_class"]:
                    kf = k
        if kf is not None:
            known_hit.setdefault(kf["id"], []).append(v)
        else:
            reported.append(v)
    for k in known:
        # a known finding is announced on every run while its witness still fails
        still = mod.known_witness_fails(k) if hasattr(mod, "known_witness_fails") else bool(known_hit.get(k["id"]))
        if still:
            print("KNOWN-FINDING: %s" % k["text"])
    # prefer violations that carry a failing input
    any_input = [v for v in reported if v.get("failing_input")]
    rc = 0
    replay_paths = []
    if reported:
        rc = 1
        os.makedirs(lib.REPLAYS, exist_ok=True)
        chosen = any_input[:3] if any_input else reported[:3]
        for n, v in enumerate(chosen):
            path = os.path.join(lib.REPLAYS, "%s_%s_%d_%d.json" % (pid, tier, seed, n))
            body = dict(v)
            body.update({"property": pid, "tier": tier, "seed": seed,
                         "all_violation_kinds": sorted(set(x["kind"] for x in reported)),
                         "n_violations": len(reported)})
            lib.write_json(path, body)
            replay_paths.append(path)
            tail = "" if v.get("failing_input") else " no-failing-input-found"
            print("VIOLATION property=%s replay=%s kind=%s%s" % (pid, path, v["kind"], tail))
    wall = time.time() - t0
    ev = {
        "property_id": pid, "tier": tier, "seed": seed, "level": "proof",
        "coverage": {
            "obligations": obligations, "discharged": discharged,
            "checker_cmd": "cd /verif/coq && make theories/%s.vo && coqc -Q theories FGV theories/%s  (Coq 8.16.1 kernel; Print Assumptions audited)" % (props_rel[:-2], props_rel),
            "trusted_base": getattr(mod, "TRUSTED", []) + [
                "Coq 8.16.1 kernel incl. vm_compute (no native_compute)",
                "axioms reported by Print Assumptions: %s" % (", ".join(pc["axioms"]) if pc["axioms"] else "none (closed under the global context)"),
                "correspondence harness /verif/harness (Python serialisation of inputs/outputs into Coq terms, generators)",
            ],
            "theorems": pc["theorems"],
            "evaluations": stats["evaluations"], "distinct_nontrivial": stats["distinct_nontrivial"],
            "rule": getattr(mod, "RULE", ""), "samples": samples[:5],
            "input_distribution": stats["hist"],
            "exhaustive": bool(stats.get("exhaustive", False)),
            "build_wall_s": round(b_dt, 1), "translator": gen_msgs, "notes": notes,
        },
        "assumptions": getattr(mod, "ASSUMPTIONS", []),
        "wall_s": round(wall, 1), "violations": len(reported),
    }
    lib.write_json(os.path.join(lib.EVID, pid + ".json"), ev)
    print("%s %s: obligations %d/%d, cases %d (nontrivial distinct %d), violations %d, %.1fs"
          % (pid, tier, discharged, obligations, stats["evaluations"], stats["distinct_nontrivial"], len(reported), wall))
    return rc


def run_cases(mod, pid, tier, seed, ncases, violations, stats, samples, notes):
    cases = []
    # corpus first
    for c in mod.corpus() if hasattr(mod, "corpus") else []:
        cases.append(c)
    n_corpus = len(cases)
    for c in mod.generate(seed, tier, ncases):
        cases.append(c)
    coq_cases, kept = [], []
    seen, nontrivial = set(), 0
    for c in cases:
        try:
            out = mod.run_impl(c)
        except Exception as e:  # an exception class the property module does not expect from the code
            stats["hist"]["unexpected_exception"] = stats["hist"].get("unexpected_exception", 0) + 1
            if stats["hist"]["unexpected_exception"] <= 3:
                violations.append({"kind": "correspondence", "what": "implementation raised an exception the model cannot produce: %s: %s"
                                   % (type(e).__name__, str(e)[:300]), "case": mod.describe(c), "failing_input": False,
                                   "correspondence": mod.CORRESPONDENCE})
            continue
        # generic purity probe on a fraction of the cases: the same call once more, after everything the first
        # call returned has been destructively edited in place; the second answer must be what the first one was
        if getattr(mod, "REPEAT_PROBE", False) and len(kept) % 5 == 0 and (not hasattr(mod, "repeat_ok") or mod.repeat_ok(c)):
            try:
                msg, out = repeat_probe(mod, c, out)   # the (unedited) second answer is used from here on
            except Exception as e:   # noqa
                msg, out = "repeating the call raised %s: %s" % (type(e).__name__, str(e)[:200]), mod.run_impl(c)
            if msg:
                stats["hist"]["repeat_probe_failed"] = stats["hist"].get("repeat_probe_failed", 0) + 1
                violations.append({"kind": "runtime", "what": msg, "case": mod.describe(c), "impl": mod.describe_out(out),
                                   "failing_input": True})
            else:
                stats["hist"]["repeat_probe_ok"] = stats["hist"].get("repeat_probe_ok", 0) + 1
        try:
            cc = mod.coq_case(c, out)
        except Exception as e:
            if type(e).__name__ == "Unrepresentable":
                stats["hist"]["unrepresentable"] = stats["hist"].get("unrepresentable", 0) + 1
                # the implementation produced a value outside the modelled domain: correspondence break
                violations.append({"kind": "correspondence", "what": "output not representable: %s" % e,
                                   "case": mod.describe(c), "impl": repr(out)[:2000], "failing_input": False,
                                   "correspondence": mod.CORRESPONDENCE})
                continue
            raise
        for msg in (mod.py_invariants(c, out) if hasattr(mod, "py_invariants") else []):
            # a message is a string, or dict(msg=..., known_class=...) to attribute it to a known finding
            v = {"kind": "runtime", "what": msg if isinstance(msg, str) else msg["msg"], "case": mod.describe(c),
                 "impl": mod.describe_out(out), "failing_input": True}
            if isinstance(msg, dict) and msg.get("known_class"):
                v["known_class"] = msg["known_class"]
            violations.append(v)
        coq_cases.append(cc)
        kept.append((c, out))
        k = mod.key(c)
        for h in mod.classes(c, out):
            stats["hist"][h] = stats["hist"].get(h, 0) + 1
        if k not in seen:
            seen.add(k)
            if mod.nontrivial(c, out):
                nontrivial += 1
        if len(samples) < 5 and len(kept) > n_corpus:
            samples.append({"input": mod.describe(c), "impl_output": mod.describe_out(out)})
    stats["evaluations"] = len(kept)
    stats["distinct_nontrivial"] = nontrivial
    stats["exhaustive"] = getattr(mod, "EXHAUSTIVE", {}).get(tier, False)
    checks = mod.CHECKS
    failing, errors = lib.run_coq_cases(pid, mod.IMPORTS, coq_cases, checks, chunk=getattr(mod, "CHUNK", 250))
    for k, path, log in errors:
        violations.append({"kind": "harness", "what": "coqc failed on case file %s" % path, "log": log, "failing_input": False})
    spec_names = [c for c in checks if c != "agree"]
    spec_fail = set()
    for cn in spec_names:
        spec_fail.update(failing[cn])
    agree_fail = set(failing.get("agree", []))
    for i in sorted(spec_fail):
        c, out = kept[i]
        which = [cn for cn in spec_names if i in failing[cn]]
        v = {"kind": "property", "what": "specification checker(s) %s reject the implementation's output" % which,
             "case": mod.describe(c), "impl": mod.describe_out(out), "failing_input": True,
             "model_agrees": i not in agree_fail}
        kc = None
        if hasattr(mod, "known_class"):
            try:
                kc = mod.known_class(c, out, which)
            except TypeError:
                kc = mod.known_class(c, out)
        if kc:
            v["known_class"] = kc
        add_diag(mod, pid, coq_cases[i], v)
        violations.append(v)
    only_agree = sorted(agree_fail - spec_fail)
    if only_agree:
        # correspondence broken, the property checker accepts every explored output
        i = only_agree[0]
        c, out = kept[i]
        v = {"kind": "correspondence", "what": "model and implementation differ on %d case(s); first shown" % len(only_agree),
             "correspondence": mod.CORRESPONDENCE, "case": mod.describe(c), "impl": mod.describe_out(out),
             "failing_input": False, "disagreeing_cases": len(only_agree)}
        if not spec_names:
            # no separate checker: the model is proved to satisfy the property and the comparison is
            # at the level the theorem speaks about, so a differing output is a failing input
            v["failing_input"] = getattr(mod, "AGREE_IS_PROPERTY", False)
        add_diag(mod, pid, coq_cases[i], v)
        violations.append(v)


def _scramble(obj, depth=0):
    """Destructively edit everything mutable reachable from a returned value."""
    import networkx as nx
    if depth > 6 or obj is None:
        return
    if isinstance(obj, nx.Graph):
        for n in list(obj.nodes):
            d = obj.nodes[n]
            for k in list(d):
                if isinstance(d[k], list):
                    d[k].append("__scrambled__")
                elif isinstance(d[k], str):
                    d[k] = "Zz"
            d["__scrambled__"] = True
        for e in list(obj.edges(keys=True)) if obj.is_multigraph() else list(obj.edges):
            dd = obj.edges[e]
            for k in list(dd):
                if isinstance(dd[k], list):
                    dd[k].append(99)
                else:
                    dd[k] = 99
        obj.graph["__scrambled__"] = True
        try:
            obj.add_node(("__scrambled__", id(obj)))
            if obj.number_of_nodes() > 1:
                obj.remove_node(next(iter(obj.nodes)))
        except Exception:   # noqa
            pass
        return
    if isinstance(obj, dict):
        for v in list(obj.values()):
            _scramble(v, depth + 1)
        return
    if isinstance(obj, (list, tuple, set)):
        for v in list(obj):
            _scramble(v, depth + 1)
        if isinstance(obj, list):
            obj.append("__scrambled__")
        return
    g = getattr(obj, "graph", None)
    if g is not None and not isinstance(obj, (str, bytes, int, float)):
        _scramble(g, depth + 1)


def repeat_probe(mod, c, out):
    before = json.dumps(mod.describe_out(out), sort_keys=True, default=repr)
    _scramble(out)
    out2 = mod.run_impl(c)
    after = json.dumps(mod.describe_out(out2), sort_keys=True, default=repr)
    if before != after:
        return ("the same call repeated after its first result was edited in place gives a different answer "
                "(the result shares state with an earlier result, or depends on an earlier call)"), out2
    return None, out2


_DIAGS = [0]


def add_diag(mod, pid, cc, v):
    if "diag" in cc and _DIAGS[0] < 3:
        _DIAGS[0] += 1
        rc, out = lib.coq_eval(pid, mod.IMPORTS, cc["defs"], cc["diag"])
        v["model_eval"] = out[-6000:]


def replay(mod, pid, path):
    body = json.load(open(path))
    if "case" not in body:
        print("replay names no input: kind=%s what=%s" % (body.get("kind"), body.get("what")))
        print(body.get("log", "")[-3000:])
        return 1
    c = mod.from_json(body["case"])
    out = mod.run_impl(c)
    print("input:", json.dumps(mod.describe(c))[:3000])
    print("implementation output:", json.dumps(mod.describe_out(out), default=repr)[:3000])
    cc = mod.coq_case(c, out)
    failing, errors = lib.run_coq_cases(pid + "r", mod.IMPORTS, [cc], mod.CHECKS)
    for cn in mod.CHECKS:
        print("check %-8s: %s" % (cn, "FAIL" if failing[cn] else "ok"))
    if "diag" in cc:
        rc, o = lib.coq_eval(pid + "r", mod.IMPORTS, cc["defs"], cc["diag"])
        print("model:", o[-3000:])
    msgs = mod.py_invariants(c, out) if hasattr(mod, "py_invariants") else []
    for m in msgs:
        print("runtime invariant FAIL:", m if isinstance(m, str) else m.get("msg"))
    bad = any(failing[cn] for cn in mod.CHECKS) or bool(errors) or bool(msgs)
    return 1 if bad else 0


if __name__ == "__main__":
    sys.exit(main())
