#!/bin/bash
# Re-check every compiled property file (and everything it depends on) with Coq's independent
# checker and print the axioms the development relies on. Takes a few minutes.
cd "$(dirname "$0")/coq" || exit 1
MODS=$(ls theories/Props/*.vo | sed 's#theories/Props/\(.*\)\.vo#FGV.Props.\1#')
timeout 7200 coqchk -silent -o -Q theories FGV $MODS 2>&1 | tee ../notes/coqchk_report.txt | tail -14
exit ${PIPESTATUS[0]}
