#!/bin/bash
# Re-check the compiled property files (and everything they depend on) with Coq's independent checker and
# print the axioms the development relies on. Props/C14 and Props/C15 are left out: they depend on
# Proofs/ProxyDAAll.v / ProxyDASigs.v, whose proofs evaluate the whole Diels-Alder enumeration with vm_compute;
# the checker replays such casts with its own (non-VM) reduction and needed more than 54 GB of memory for them.
# Those files are checked by coqc's kernel only (DESIGN section 8).
cd "$(dirname "$0")/coq" || exit 1
MODS=$(ls theories/Props/*.vo | sed 's#theories/Props/\(.*\)\.vo#FGV.Props.\1#' | grep -v 'C14$\|C15$')
( ulimit -v 40000000; timeout 7200 coqchk -silent -o -Q theories FGV $MODS ) 2>&1 | tee ../notes/coqchk_report.txt | tail -14
exit ${PIPESTATUS[0]}
