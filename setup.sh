#!/bin/bash
# Build the whole Coq development from a clean state (full .vo build, no quick modes).
set -e
cd "$(dirname "$0")/coq"
rm -rf cases; mkdir -p cases
export PYTHONPATH=/repo:"$(cd .. && pwd)/harness" PYTHONHASHSEED=0 PYTHONDONTWRITEBYTECODE=1
if [ -f ../harness/gen_tables.py ]; then /venv/bin/python -W ignore ../harness/gen_tables.py 2>&1 | grep -v 'WARNING conda' || true; fi
( echo "-Q theories FGV"
  echo "-arg -w -arg -notation-overridden,-ambiguous-paths,-deprecated-hint-without-locality"
  find theories -name '*.v' | sort ) > _CoqProject
coq_makefile -f _CoqProject -o Makefile
find theories \( -name '*.vo' -o -name '*.glob' -o -name '*.vok' -o -name '*.vos' -o -name '.*.aux' \) -delete
timeout 3000 make -j16
echo "setup ok"
