#!/bin/bash
# usage: ./cq.sh theories/Proofs/X.v   (compile one file with the project flags, under timeout)
cd "$(dirname "$0")"
timeout ${CQ_TIMEOUT:-600} coqc -Q theories FGV -w -notation-overridden,-ambiguous-paths,-deprecated-hint-without-locality "$@" 2>&1 | grep -v "WARNING conda"; true
