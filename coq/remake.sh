#!/bin/bash
# regenerate _CoqProject/Makefile from the file list and build the given targets (default: all)
cd "$(dirname "$0")"
(echo "-Q theories FGV"; echo "-arg -w -arg -notation-overridden,-ambiguous-paths,-deprecated-hint-without-locality"; find theories -name '*.v' | sort) > _CoqProject.new
if ! cmp -s _CoqProject.new _CoqProject; then mv _CoqProject.new _CoqProject; coq_makefile -f _CoqProject -o Makefile 2>&1 | grep -v 'WARNING conda'; else rm _CoqProject.new; fi
timeout ${CQ_TIMEOUT:-1200} make -j8 "$@" 2>&1 | grep -v 'WARNING conda'; true
