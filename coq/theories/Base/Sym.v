(** Symbol strings: ASCII lower-casing, islower, substring test (Python semantics on ASCII). *)
From Coq Require Import Ascii String Bool List NArith.
Import ListNotations.
Open Scope string_scope.

Definition is_upper_ascii (c : ascii) : bool :=
  let n := N_of_ascii c in (N.leb 65 n && N.leb n 90)%N.
Definition is_lower_ascii (c : ascii) : bool :=
  let n := N_of_ascii c in (N.leb 97 n && N.leb n 122)%N.
Definition lower_ascii (c : ascii) : ascii :=
  if is_upper_ascii c then ascii_of_N (N_of_ascii c + 32) else c.

Fixpoint lower (s : string) : string :=
  match s with EmptyString => EmptyString | String c t => String (lower_ascii c) (lower t) end.

Fixpoint has_cased (s : string) (p : ascii -> bool) : bool :=
  match s with EmptyString => false | String c t => p c || has_cased t p end.

(* str.islower(): at least one cased character and no upper-case character *)
Definition islower (s : string) : bool :=
  has_cased s is_lower_ascii && negb (has_cased s is_upper_ascii).

Fixpoint is_prefix (p s : string) : bool :=
  match p, s with
  | EmptyString, _ => true
  | String a p', String b s' => Ascii.eqb a b && is_prefix p' s'
  | _, EmptyString => false
  end.

(* Python's  x in s  for strings *)
Fixpoint is_infix (x s : string) : bool :=
  is_prefix x s || match s with EmptyString => false | String _ t => is_infix x t end.
