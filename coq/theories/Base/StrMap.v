(** Dicts keyed by strings (Python dict order: assignment overwrites in place, appends when
    absent) and membership in a list of strings. Definitions only. *)
From Coq Require Import List Bool String.
Import ListNotations.

Fixpoint slookup {A} (k : string) (l : list (string * A)) : option A :=
  match l with
  | [] => None
  | (k', a) :: t => if String.eqb k k' then Some a else slookup k t
  end.

Fixpoint sset {A} (k : string) (a : A) (l : list (string * A)) : list (string * A) :=
  match l with
  | [] => [(k, a)]
  | (k', a') :: t => if String.eqb k k' then (k, a) :: t else (k', a') :: sset k a t
  end.

Fixpoint smem (k : string) (l : list string) : bool :=
  match l with [] => false | x :: t => String.eqb k x || smem k t end.
