From Coq Require Import ZArith List Bool Lia.
From FGV Require Import Base.Util.
Import ListNotations.
Open Scope Z_scope.

Lemma zmem_In k l : zmem k l = true <-> In k l.
Proof.
  induction l as [|x t IH]; simpl; [split; [discriminate|tauto]|].
  rewrite orb_true_iff, IH, Z.eqb_eq. split; intros [H|H]; auto.
Qed.

Lemma zmem_false k l : zmem k l = false <-> ~ In k l.
Proof. rewrite <- zmem_In. destruct (zmem k l); split; congruence. Qed.

Lemma nodupb_NoDup l : nodupb l = true <-> NoDup l.
Proof.
  induction l as [|x t IH]; simpl; [split; [constructor|reflexivity]|].
  rewrite andb_true_iff, negb_true_iff, zmem_false, IH.
  split; [intros [H1 H2]; constructor; auto | intros H; inversion H; auto].
Qed.

Lemma alookup_In {A} k (l : list (Z * A)) a : alookup k l = Some a -> In (k, a) l.
Proof.
  induction l as [|[k' a'] t IH]; simpl; [discriminate|].
  destruct (Z.eqb_spec k k') as [->|Hne]; [intros [= ->]; auto | auto].
Qed.

Lemma alookup_None {A} k (l : list (Z * A)) : alookup k l = None <-> ~ In k (akeys l).
Proof.
  induction l as [|[k' a'] t IH]; simpl; [tauto|].
  destruct (Z.eqb_spec k k') as [->|Hne]; [split; [discriminate|tauto]|].
  rewrite IH. split; [intros H [H1|H1]; auto | tauto].
Qed.

Lemma alookup_Some_key {A} k (l : list (Z * A)) a : alookup k l = Some a -> In k (akeys l).
Proof. intros H. apply alookup_In in H. apply (in_map fst) in H. exact H. Qed.

Lemma In_alookup {A} k (l : list (Z * A)) : In k (akeys l) -> exists a, alookup k l = Some a.
Proof.
  intros H. destruct (alookup k l) eqn:E; [eauto|]. apply alookup_None in E. tauto.
Qed.

Lemma NoDup_alookup {A} k a (l : list (Z * A)) :
  NoDup (akeys l) -> In (k, a) l -> alookup k l = Some a.
Proof.
  induction l as [|[k' a'] t IH]; simpl; [tauto|]. intros Hnd [H|H].
  - inversion H; subst. rewrite Z.eqb_refl. reflexivity.
  - inversion Hnd as [|? ? Hni Hnd']; subst.
    destruct (Z.eqb_spec k k') as [->|Hne]; [|auto].
    exfalso. apply Hni. apply (in_map fst) in H. exact H.
Qed.

Lemma alookup_aset_eq {A} k (a : A) l : alookup k (aset k a l) = Some a.
Proof.
  induction l as [|[k' a'] t IH]; simpl; [rewrite Z.eqb_refl; auto|].
  destruct (Z.eqb_spec k k') as [->|Hne]; simpl; [rewrite Z.eqb_refl; auto|].
  destruct (Z.eqb_spec k k'); [contradiction|auto].
Qed.

Lemma alookup_aset_neq {A} k k2 (a : A) l : k2 <> k -> alookup k2 (aset k a l) = alookup k2 l.
Proof.
  intros Hne. induction l as [|[k' a'] t IH]; simpl.
  - destruct (Z.eqb_spec k2 k); [contradiction|auto].
  - destruct (Z.eqb_spec k k') as [->|Hne']; simpl.
    + destruct (Z.eqb_spec k2 k'); [contradiction|auto].
    + destruct (Z.eqb_spec k2 k'); auto.
Qed.

Lemma alookup_aset {A} k k2 (a : A) l :
  alookup k2 (aset k a l) = if k2 =? k then Some a else alookup k2 l.
Proof.
  destruct (Z.eqb_spec k2 k) as [->|H]; [apply alookup_aset_eq | apply alookup_aset_neq; auto].
Qed.

Lemma akeys_aset {A} k (a : A) l :
  akeys (aset k a l) = if zmem k (akeys l) then akeys l else akeys l ++ [k].
Proof.
  induction l as [|[k' a'] t IH]; simpl; [reflexivity|].
  destruct (Z.eqb_spec k k') as [->|Hne]; simpl; [reflexivity|].
  rewrite IH. unfold akeys. destruct (zmem k (map fst t)); reflexivity.
Qed.

Lemma alookup_adel {A} k k2 (l : list (Z * A)) :
  alookup k2 (adel k l) = if k2 =? k then None else alookup k2 l.
Proof.
  induction l as [|[k' a'] t IH]; simpl; [destruct (k2 =? k); auto|].
  destruct (Z.eqb_spec k k') as [->|Hne]; simpl.
  - rewrite IH. destruct (Z.eqb_spec k2 k'); auto.
  - rewrite IH. destruct (Z.eqb_spec k2 k') as [->|H2]; auto.
    destruct (Z.eqb_spec k' k); [congruence|auto].
Qed.

Lemma akeys_adel {A} k (l : list (Z * A)) : akeys (adel k l) = filter (fun x => negb (k =? x)) (akeys l).
Proof.
  induction l as [|[k' a'] t IH]; simpl; [reflexivity|].
  destruct (Z.eqb_spec k k'); simpl; [exact IH | f_equal; exact IH].
Qed.

Lemma NoDup_akeys_aset {A} k (a : A) l : NoDup (akeys l) -> NoDup (akeys (aset k a l)).
Proof.
  intros H. rewrite akeys_aset. destruct (zmem k (akeys l)) eqn:E; [exact H|].
  apply zmem_false in E. clear a. induction (akeys l) as [|x t IH]; simpl.
  - constructor; [intros []|constructor].
  - inversion H as [|? ? Hni Hnd]; subst. constructor.
    + rewrite in_app_iff. simpl. intros [H1|[H1|[]]]; [auto|]. subst. apply E. left; auto.
    + apply IH; [exact Hnd | intros H1; apply E; right; exact H1].
Qed.

Lemma NoDup_filter {A} (f : A -> bool) l : NoDup l -> NoDup (filter f l).
Proof.
  induction 1 as [|x l Hni Hnd IH]; simpl; [constructor|].
  destruct (f x); [constructor; [rewrite filter_In; tauto | exact IH] | exact IH].
Qed.

Lemma zmax_list_ge d l : d <= zmax_list d l.
Proof. revert d; induction l as [|x t IH]; simpl; intros d; [lia|]. specialize (IH (Z.max d x)). lia. Qed.

Lemma zmax_list_In d l x : In x l -> x <= zmax_list d l.
Proof.
  revert d; induction l as [|y t IH]; simpl; intros d; [tauto|]. intros [->|H]; [|auto].
  pose proof (zmax_list_ge (Z.max d x) t). lia.
Qed.

Lemma false_idx_aux_nil i l : false_idx_aux i l = [] <-> forallb (fun b => b) l = true.
Proof.
  revert i; induction l as [|b t IH]; simpl; intros i; [tauto|].
  destruct b; simpl; [apply IH | split; discriminate].
Qed.
