(** Characterisation lemmas for the networkx.Graph model: what [node_attr] and [edge_label]
    return after each operation, well-formedness and its preservation, and the relation between
    [edges] and [edge_label]. Later proofs should use these instead of unfolding the operations. *)
From Coq Require Import ZArith List Bool String Lia.
From FGV Require Import Base.Util Base.UtilFacts Base.Bond Base.NX.
Import ListNotations.
Open Scope Z_scope.

(** * association-list helpers *)

Lemma alookup_app {A} k (l1 l2 : list (Z * A)) :
  alookup k (l1 ++ l2) = match alookup k l1 with Some a => Some a | None => alookup k l2 end.
Proof.
  induction l1 as [|[k' a'] t IH]; simpl; [reflexivity|]. destruct (k =? k'); auto.
Qed.

Lemma alookup_map_snd {A B} (f : Z -> A -> B) k (l : list (Z * A)) :
  alookup k (map (fun '(m, a) => (m, f m a)) l) = option_map (f k) (alookup k l).
Proof.
  induction l as [|[k' a'] t IH]; simpl; [reflexivity|].
  destruct (Z.eqb_spec k k') as [->|H]; simpl; auto.
Qed.

Lemma map_fst_aset_present {A} k (a x : A) (l : list (Z * A)) :
  alookup k l = Some x -> map fst (aset k a l) = map fst l.
Proof.
  induction l as [|[k' a'] t IH]; simpl; [discriminate|].
  destruct (Z.eqb_spec k k') as [->|H]; simpl; [reflexivity|]. intros E. f_equal. auto.
Qed.

(** * well-formedness *)

Definition wf (g : graph) : Prop :=
  NoDup (nodes g)
  /\ (forall u, NoDup (map fst (adj g u)))
  /\ (forall u v l, edge_label g u v = Some l -> edge_label g v u = Some l).

Lemma wf_empty : wf empty_graph.
Proof.
  split; [constructor|]. split; [intros u; constructor|]. intros u v l H. discriminate.
Qed.

Lemma edge_label_has_node g u v l : edge_label g u v = Some l -> has_node g u = true.
Proof.
  unfold edge_label, adj, has_node. destruct (alookup u g) as [[a ad]|]; simpl; [reflexivity|discriminate].
Qed.

Lemma wf_edge_nodes g u v l : wf g -> edge_label g u v = Some l -> has_node g u = true /\ has_node g v = true.
Proof.
  intros (_ & _ & Hs) H. split; [eapply edge_label_has_node; eauto|].
  apply Hs in H. eapply edge_label_has_node; eauto.
Qed.

Lemma has_node_In g n : has_node g n = true <-> In n (nodes g).
Proof.
  unfold has_node, nodes. destruct (alookup n g) eqn:E; simpl.
  - split; [intros _; eapply alookup_Some_key; eauto | reflexivity].
  - split; [discriminate|]. intros H. apply alookup_None in E. contradiction.
Qed.

Lemma node_attr_has_node g n : has_node g n = true <-> exists a, node_attr g n = Some a.
Proof.
  unfold has_node, node_attr. destruct (alookup n g) as [[a ad]|]; simpl; split; eauto;
    try discriminate. intros (a & H). discriminate.
Qed.

(** * add_node *)

Lemma alookup_add_node g n a m :
  alookup m (add_node g n a) =
  if m =? n then Some (match alookup n g with Some (a0, ad) => (na_update a0 a, ad) | None => (a, []) end)
  else alookup m g.
Proof.
  unfold add_node. destruct (alookup n g) as [[a0 ad]|] eqn:E.
  - rewrite alookup_aset. reflexivity.
  - rewrite alookup_app. simpl. destruct (Z.eqb_spec m n) as [->|H]; [rewrite E; reflexivity|].
    destruct (alookup m g); reflexivity.
Qed.

Lemma node_attr_add_node g n a m :
  node_attr (add_node g n a) m =
  if m =? n then Some (match node_attr g n with Some a0 => na_update a0 a | None => a end)
  else node_attr g m.
Proof.
  unfold node_attr. rewrite alookup_add_node. destruct (m =? n); [|reflexivity].
  destruct (alookup n g) as [[a0 ad]|]; reflexivity.
Qed.

Lemma adj_add_node g n a m : adj (add_node g n a) m = adj g m.
Proof.
  unfold adj. rewrite alookup_add_node. destruct (Z.eqb_spec m n) as [->|H]; [|reflexivity].
  destruct (alookup n g) as [[a0 ad]|]; reflexivity.
Qed.

Lemma edge_label_add_node g n a u v : edge_label (add_node g n a) u v = edge_label g u v.
Proof. unfold edge_label. rewrite adj_add_node. reflexivity. Qed.

Lemma nodes_add_node g n a :
  nodes (add_node g n a) = if has_node g n then nodes g else nodes g ++ [n].
Proof.
  unfold add_node, has_node, nodes. destruct (alookup n g) as [[a0 ad]|] eqn:E; simpl.
  - eapply map_fst_aset_present. exact E.
  - rewrite map_app. reflexivity.
Qed.

Lemma has_node_add_node g n a m : has_node (add_node g n a) m = (m =? n) || has_node g m.
Proof.
  unfold has_node. rewrite alookup_add_node. destruct (m =? n); reflexivity.
Qed.

Lemma wf_add_node g n a : wf g -> wf (add_node g n a).
Proof.
  intros (H1 & H2 & H3). split; [|split].
  - rewrite nodes_add_node. destruct (has_node g n) eqn:E; [exact H1|].
    assert (Hn : ~ In n (nodes g)) by (rewrite <- has_node_In; congruence).
    clear -H1 Hn. induction (nodes g) as [|x t IH]; simpl.
    + constructor; [intros []|constructor].
    + inversion H1; subst. constructor.
      * rewrite in_app_iff. simpl. intros [Hx|[Hx|[]]]; [auto|]. subst. apply Hn. left; auto.
      * apply IH; [assumption|]. intros Hx. apply Hn. right; exact Hx.
  - intros u. rewrite adj_add_node. apply H2.
  - intros u v l. rewrite !edge_label_add_node. apply H3.
Qed.

(** * ensure_node *)

Lemma alookup_ensure_node g n m :
  alookup m (ensure_node g n) =
  match alookup m g with Some x => Some x | None => if m =? n then Some (na_empty, []) else None end.
Proof.
  unfold ensure_node. destruct (alookup n g) eqn:E.
  - destruct (alookup m g) eqn:E2; [reflexivity|]. destruct (Z.eqb_spec m n); [congruence|reflexivity].
  - rewrite alookup_app. simpl. destruct (alookup m g); reflexivity.
Qed.

Lemma adj_ensure_node g n m : adj (ensure_node g n) m = adj g m.
Proof.
  unfold adj. rewrite alookup_ensure_node. destruct (alookup m g) as [[a ad]|]; [reflexivity|].
  destruct (m =? n); reflexivity.
Qed.

Lemma node_attr_ensure_node g n m :
  node_attr (ensure_node g n) m =
  match node_attr g m with Some a => Some a | None => if m =? n then Some na_empty else None end.
Proof.
  unfold node_attr. rewrite alookup_ensure_node. destruct (alookup m g) as [[a ad]|]; [reflexivity|].
  destruct (m =? n); reflexivity.
Qed.

Lemma nodes_ensure_node g n : nodes (ensure_node g n) = if has_node g n then nodes g else nodes g ++ [n].
Proof.
  unfold ensure_node, has_node, nodes. destruct (alookup n g); simpl; [reflexivity|].
  rewrite map_app. reflexivity.
Qed.

(** * set_adj / add_edge *)

Lemma alookup_set_adj g u v l m :
  alookup m (set_adj g u v l) =
  if m =? u then match alookup u g with Some (a, ad) => Some (a, aset v l ad) | None => None end
  else alookup m g.
Proof.
  unfold set_adj. destruct (alookup u g) as [[a ad]|] eqn:E.
  - rewrite alookup_aset. reflexivity.
  - destruct (Z.eqb_spec m u) as [->|H]; [exact E|reflexivity].
Qed.

Lemma nodes_set_adj g u v l : nodes (set_adj g u v l) = nodes g.
Proof.
  unfold set_adj, nodes. destruct (alookup u g) as [[a ad]|] eqn:E; [|reflexivity].
  eapply map_fst_aset_present. exact E.
Qed.

Lemma node_attr_set_adj g u v l m : node_attr (set_adj g u v l) m = node_attr g m.
Proof.
  unfold node_attr. rewrite alookup_set_adj. destruct (Z.eqb_spec m u) as [->|H]; [|reflexivity].
  destruct (alookup u g) as [[a ad]|]; reflexivity.
Qed.

Lemma adj_set_adj g u v l m :
  adj (set_adj g u v l) m = if (m =? u) && has_node g u then aset v l (adj g u) else adj g m.
Proof.
  unfold adj, has_node. rewrite alookup_set_adj. destruct (Z.eqb_spec m u) as [->|H]; simpl; [|reflexivity].
  destruct (alookup u g) as [[a ad]|]; reflexivity.
Qed.

Lemma edge_label_set_adj g u v l x y :
  edge_label (set_adj g u v l) x y =
  if (x =? u) && (y =? v) && has_node g u then Some l else edge_label g x y.
Proof.
  unfold edge_label. rewrite adj_set_adj.
  destruct (Z.eqb_spec x u) as [->|Hx]; simpl; [|reflexivity].
  destruct (has_node g u) eqn:Hn; simpl.
  - rewrite alookup_aset. destruct (y =? v); reflexivity.
  - rewrite andb_false_r. reflexivity.
Qed.

Lemma has_node_ensure_node g n m : has_node (ensure_node g n) m = (m =? n) || has_node g m.
Proof.
  unfold has_node. rewrite alookup_ensure_node. destruct (alookup m g); simpl; [symmetry; apply orb_true_r|].
  destruct (m =? n); reflexivity.
Qed.

Lemma has_node_set_adj g u v l m : has_node (set_adj g u v l) m = has_node g m.
Proof.
  unfold has_node. rewrite alookup_set_adj. destruct (Z.eqb_spec m u) as [->|H]; [|reflexivity].
  destruct (alookup u g) as [[a ad]|]; reflexivity.
Qed.

Lemma edge_label_add_edge g u v l x y :
  edge_label (add_edge g u v l) x y =
  if ((x =? u) && (y =? v)) || ((x =? v) && (y =? u)) then Some l else edge_label g x y.
Proof.
  unfold add_edge. set (g1 := ensure_node (ensure_node g u) v).
  assert (Hu : has_node g1 u = true).
  { unfold g1. rewrite !has_node_ensure_node, Z.eqb_refl. simpl. apply orb_true_r. }
  assert (Hv : has_node g1 v = true).
  { unfold g1. rewrite !has_node_ensure_node, Z.eqb_refl. reflexivity. }
  assert (Hel : edge_label g1 x y = edge_label g x y).
  { unfold edge_label, g1. rewrite !adj_ensure_node. reflexivity. }
  rewrite edge_label_set_adj, has_node_set_adj, Hv, andb_true_r.
  rewrite edge_label_set_adj, Hu, andb_true_r, Hel.
  destruct ((x =? v) && (y =? u)); destruct ((x =? u) && (y =? v)); reflexivity.
Qed.

Lemma node_attr_add_edge g u v l m :
  node_attr (add_edge g u v l) m =
  match node_attr g m with
  | Some a => Some a
  | None => if (m =? u) || (m =? v) then Some na_empty else None
  end.
Proof.
  unfold add_edge. rewrite !node_attr_set_adj, !node_attr_ensure_node.
  destruct (node_attr g m); [reflexivity|]. destruct (m =? u), (m =? v); reflexivity.
Qed.

Lemma has_node_add_edge g u v l m : has_node (add_edge g u v l) m = (m =? u) || (m =? v) || has_node g m.
Proof.
  unfold add_edge. rewrite !has_node_set_adj, !has_node_ensure_node.
  destruct (m =? u), (m =? v); reflexivity.
Qed.

Lemma nodes_add_edge g u v l :
  nodes (add_edge g u v l) =
  let n1 := if has_node g u then nodes g else nodes g ++ [u] in
  if has_node g v || (v =? u) then n1 else n1 ++ [v].
Proof.
  unfold add_edge. rewrite !nodes_set_adj, nodes_ensure_node, has_node_ensure_node, nodes_ensure_node.
  cbv zeta. rewrite orb_comm. reflexivity.
Qed.

(** adjacency lists after add_edge (needed where iteration order matters) *)
Lemma adj_add_edge g u v l m :
  adj (add_edge g u v l) m =
  if m =? v then aset u l (if v =? u then aset v l (adj g u) else adj g v)
  else if m =? u then aset v l (adj g u)
  else adj g m.
Proof.
  unfold add_edge. set (g1 := ensure_node (ensure_node g u) v).
  assert (Hu : has_node g1 u = true).
  { unfold g1. rewrite !has_node_ensure_node, Z.eqb_refl. simpl. apply orb_true_r. }
  assert (Hv : has_node g1 v = true).
  { unfold g1. rewrite !has_node_ensure_node, Z.eqb_refl. reflexivity. }
  assert (Hadj : forall x, adj g1 x = adj g x).
  { intros x. unfold g1. rewrite !adj_ensure_node. reflexivity. }
  rewrite adj_set_adj, has_node_set_adj, Hv, andb_true_r.
  rewrite !adj_set_adj, Hu, !andb_true_r, !Hadj.
  destruct (Z.eqb_spec m v) as [->|Hmv]; [reflexivity|].
  destruct (m =? u); reflexivity.
Qed.

Lemma NoDup_fst_aset {A} k (a : A) l : NoDup (map fst l) -> NoDup (map fst (aset k a l)).
Proof. apply (NoDup_akeys_aset k a l). Qed.

Lemma wf_add_edge g u v l : wf g -> wf (add_edge g u v l).
Proof.
  intros (H1 & H2 & H3). split; [|split].
  - rewrite nodes_add_edge. cbv zeta.
    assert (Happ : forall (l0 : list Z) x, NoDup l0 -> ~ In x l0 -> NoDup (l0 ++ [x])).
    { clear. induction l0 as [|y t IH]; simpl; intros x Hnd Hni.
      - constructor; [intros []|constructor].
      - inversion Hnd; subst. constructor.
        + rewrite in_app_iff. simpl. intros [Hy|[Hy|[]]]; [auto|]. subst. apply Hni. left; auto.
        + apply IH; auto. }
    destruct (has_node g u) eqn:Eu.
    + destruct (has_node g v) eqn:Ev; simpl; [exact H1|].
      destruct (Z.eqb_spec v u) as [->|Hne]; [exact H1|].
      apply Happ; [exact H1|]. rewrite <- has_node_In. congruence.
    + assert (Hu : ~ In u (nodes g)) by (rewrite <- has_node_In; congruence).
      destruct (has_node g v) eqn:Ev; simpl; [apply Happ; auto|].
      destruct (Z.eqb_spec v u) as [->|Hne]; [apply Happ; auto|].
      apply Happ; [apply Happ; auto|]. rewrite in_app_iff. simpl.
      intros [Hv|[Hv|[]]]; [|congruence]. apply has_node_In in Hv. congruence.
  - intros m. rewrite adj_add_edge.
    destruct (m =? v); [apply NoDup_fst_aset; destruct (v =? u); [apply NoDup_fst_aset|]; apply H2|].
    destruct (m =? u); [apply NoDup_fst_aset|]; apply H2.
  - intros x y l0. rewrite !edge_label_add_edge.
    rewrite (orb_comm ((y =? u) && (x =? v))).
    rewrite (andb_comm (y =? v)), (andb_comm (y =? u)).
    destruct (((x =? u) && (y =? v)) || ((x =? v) && (y =? u))); [auto|apply H3].
Qed.

(** * remove_node *)

Lemma alookup_remove_node g n m :
  alookup m (remove_node g n) =
  if m =? n then None else option_map (fun '(a, ad) => (a, adel n ad)) (alookup m g).
Proof.
  unfold remove_node. induction g as [|[k [a ad]] t IH]; simpl.
  - destruct (m =? n); reflexivity.
  - destruct (Z.eqb_spec n k) as [->|Hnk]; simpl.
    + rewrite IH. destruct (m =? k); reflexivity.
    + rewrite IH. destruct (Z.eqb_spec m k) as [->|Hmk]; [|reflexivity].
      destruct (Z.eqb_spec k n); [congruence|reflexivity].
Qed.

Lemma node_attr_remove_node g n m :
  node_attr (remove_node g n) m = if m =? n then None else node_attr g m.
Proof.
  unfold node_attr. rewrite alookup_remove_node. destruct (m =? n); [reflexivity|].
  destruct (alookup m g) as [[a ad]|]; reflexivity.
Qed.

Lemma adj_remove_node g n m : adj (remove_node g n) m = if m =? n then [] else adel n (adj g m).
Proof.
  unfold adj. rewrite alookup_remove_node. destruct (m =? n); [reflexivity|].
  destruct (alookup m g) as [[a ad]|]; reflexivity.
Qed.

Lemma edge_label_remove_node g n u v :
  edge_label (remove_node g n) u v = if (u =? n) || (v =? n) then None else edge_label g u v.
Proof.
  unfold edge_label. rewrite adj_remove_node. destruct (u =? n); simpl; [reflexivity|].
  rewrite alookup_adel. reflexivity.
Qed.

Lemma has_node_remove_node g n m : has_node (remove_node g n) m = negb (m =? n) && has_node g m.
Proof.
  unfold has_node. rewrite alookup_remove_node. destruct (m =? n); [reflexivity|].
  destruct (alookup m g); reflexivity.
Qed.

Lemma nodes_remove_node g n : nodes (remove_node g n) = filter (fun x => negb (n =? x)) (nodes g).
Proof.
  unfold remove_node, nodes. rewrite map_map.
  rewrite (map_ext _ fst) by (intros [m [a ad]]; reflexivity).
  apply (akeys_adel n g).
Qed.

Lemma NoDup_fst_adel {A} k (l : list (Z * A)) : NoDup (map fst l) -> NoDup (map fst (adel k l)).
Proof. intros H. fold (akeys (adel k l)). rewrite akeys_adel. apply NoDup_filter. exact H. Qed.

Lemma wf_remove_node g n : wf g -> wf (remove_node g n).
Proof.
  intros (H1 & H2 & H3). split; [|split].
  - rewrite nodes_remove_node. apply NoDup_filter. exact H1.
  - intros m. rewrite adj_remove_node. destruct (m =? n); [constructor|]. apply NoDup_fst_adel. apply H2.
  - intros u v l. rewrite !edge_label_remove_node. rewrite (orb_comm (v =? n)).
    destruct ((u =? n) || (v =? n)); [discriminate|apply H3].
Qed.

(** * edges vs edge_label *)

Lemma edge_label_In_adj g u v l : edge_label g u v = Some l -> In (v, l) (adj g u).
Proof. unfold edge_label. apply alookup_In. Qed.

Lemma In_adj_edge_label g u v l : wf g -> In (v, l) (adj g u) -> edge_label g u v = Some l.
Proof. intros (_ & H2 & _) H. unfold edge_label. apply NoDup_alookup; [apply H2 | exact H]. Qed.

Lemma in_edges_aux seen g u v l :
  In (u, v, l) (edges_aux seen g) ->
  exists a ad, In (u, (a, ad)) g /\ In (v, l) ad /\ ~ In v seen.
Proof.
  revert seen. induction g as [|[n [a ad]] t IH]; simpl; intros seen H; [contradiction|].
  apply in_app_or in H. destruct H as [H|H].
  - apply in_map_iff in H. destruct H as ([v' l'] & Heq & Hf). injection Heq as -> -> ->.
    apply filter_In in Hf. destruct Hf as (Hin & Hns). exists a, ad.
    split; [left; reflexivity|]. split; [exact Hin|]. apply zmem_false. apply negb_true_iff. exact Hns.
  - destruct (IH _ H) as (a' & ad' & H1 & H2 & H3). exists a', ad'.
    split; [right; exact H1|]. split; [exact H2|]. intros Hs. apply H3. right. exact Hs.
Qed.

Lemma In_entry_adj g u a ad : NoDup (nodes g) -> In (u, (a, ad)) g -> adj g u = ad.
Proof.
  intros Hnd Hin. unfold adj. rewrite (NoDup_alookup u (a, ad) g Hnd Hin). reflexivity.
Qed.

Lemma in_edges_label g u v l : wf g -> In (u, v, l) (edges g) -> edge_label g u v = Some l.
Proof.
  intros Hwf H. destruct (in_edges_aux _ _ _ _ _ H) as (a & ad & H1 & H2 & _).
  apply In_adj_edge_label; [exact Hwf|]. destruct Hwf as (Hnd & _).
  rewrite (In_entry_adj g u a ad Hnd H1). exact H2.
Qed.

(* position-based statement: the edge {u,v} is reported from whichever endpoint comes first *)
Lemma edges_complete g u v l :
  wf g -> edge_label g u v = Some l -> In (u, v, l) (edges g) \/ In (v, u, l) (edges g).
Proof.
  intros Hwf H. pose proof Hwf as (Hnd & Hadj & Hsym).
  pose proof (Hsym _ _ _ H) as H'.
  assert (Hgen : forall g0 seen,
    (forall x, In x seen -> ~ In x (nodes g0)) ->
    NoDup (nodes g0) ->
    (forall a ad, In (u, (a, ad)) g0 -> In (v, l) ad) ->
    (forall a ad, In (v, (a, ad)) g0 -> In (u, l) ad) ->
    In u (nodes g0) -> In v (nodes g0) -> ~ In u seen -> ~ In v seen ->
    In (u, v, l) (edges_aux seen g0) \/ In (v, u, l) (edges_aux seen g0)).
  { induction g0 as [|[n [a0 ad0]] t IH]; simpl; intros seen Hseen Hnd0 Hu Hv Hinu Hinv Hnsu Hnsv; [contradiction|].
    inversion Hnd0 as [|? ? Hni Hnd1]; subst.
    destruct (Z.eq_dec n u) as [->|Hnu].
    - left. apply in_or_app. left. apply in_map_iff. exists (v, l). split; [reflexivity|].
      apply filter_In. split; [apply (Hu a0 ad0); left; reflexivity|].
      apply negb_true_iff. apply zmem_false. exact Hnsv.
    - destruct (Z.eq_dec n v) as [->|Hnv].
      + right. apply in_or_app. left. apply in_map_iff. exists (u, l). split; [reflexivity|].
        apply filter_In. split; [apply (Hv a0 ad0); left; reflexivity|].
        apply negb_true_iff. apply zmem_false. exact Hnsu.
      + destruct Hinu as [Hinu|Hinu]; [congruence|]. destruct Hinv as [Hinv|Hinv]; [congruence|].
        assert (Hrec : In (u, v, l) (edges_aux (n :: seen) t) \/ In (v, u, l) (edges_aux (n :: seen) t)).
        { apply IH.
          - intros x [<-|Hx]; [exact Hni|]. intros Hxt. apply (Hseen x Hx). right. exact Hxt.
          - exact Hnd1.
          - intros a ad Hin. apply (Hu a ad). right. exact Hin.
          - intros a ad Hin. apply (Hv a ad). right. exact Hin.
          - exact Hinu.
          - exact Hinv.
          - simpl. intros [H0|H0]; [congruence|auto].
          - simpl. intros [H0|H0]; [congruence|auto]. }
        destruct Hrec as [Hr|Hr]; [left|right]; apply in_or_app; right; exact Hr. }
  apply (Hgen g []).
  - intros x [].
  - exact Hnd.
  - intros a ad Hin. rewrite <- (In_entry_adj g u a ad Hnd Hin). apply edge_label_In_adj. exact H.
  - intros a ad Hin. rewrite <- (In_entry_adj g v a ad Hnd Hin). apply edge_label_In_adj. exact H'.
  - apply has_node_In. eapply edge_label_has_node; eauto.
  - apply has_node_In. eapply edge_label_has_node; eauto.
  - intros [].
  - intros [].
Qed.

(** * boolean well-formedness check reflects [wf] *)

Lemma wfb_wf g : wfb g = true -> wf g.
Proof.
  unfold wfb. rewrite andb_true_iff, forallb_forall. intros [Hn Hall].
  apply nodupb_NoDup in Hn. split; [exact Hn|]. split.
  - intros u. unfold adj. destruct (alookup u g) as [[a ad]|] eqn:E; [|constructor].
    apply alookup_In in E. specialize (Hall _ E). simpl in Hall. apply andb_true_iff in Hall.
    destruct Hall as [Hd _]. apply nodupb_NoDup. exact Hd.
  - intros u v l H. pose proof (edge_label_In_adj _ _ _ _ H) as Hin.
    unfold adj in Hin. destruct (alookup u g) as [[a ad]|] eqn:E; [|contradiction].
    apply alookup_In in E. specialize (Hall _ E). simpl in Hall. apply andb_true_iff in Hall.
    destruct Hall as [_ Hs]. rewrite forallb_forall in Hs. specialize (Hs _ Hin). simpl in Hs.
    destruct (edge_label g v u) as [l'|]; simpl in Hs; [|discriminate].
    apply label_eqb_eq in Hs. congruence.
Qed.
