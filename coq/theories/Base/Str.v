(** String helpers: the Python str methods the parser uses (single-character versions),
    decimal reading, and association lists keyed by strings. Definitions only. *)
From Coq Require Import ZArith List Bool Ascii String.
From FGV Require Import Base.Regex.
Import ListNotations.
Open Scope string_scope.
Open Scope Z_scope.

(* association list keyed by strings (self.rings, bond_to_order_map) *)
Fixpoint slookup {A} (k : string) (l : list (string * A)) : option A :=
  match l with
  | [] => None
  | (k', a) :: t => if String.eqb k k' then Some a else slookup k t
  end.
Fixpoint sset {A} (k : string) (a : A) (l : list (string * A)) : list (string * A) :=
  match l with
  | [] => [(k, a)]
  | (k', a') :: t => if String.eqb k k' then (k, a) :: t else (k', a') :: sset k a t
  end.
Fixpoint sdel {A} (k : string) (l : list (string * A)) : list (string * A) :=
  match l with
  | [] => []
  | (k', a') :: t => if String.eqb k k' then sdel k t else (k', a') :: sdel k t
  end.

(* s.lstrip(c) / s.rstrip(c) for a single character c *)
Fixpoint lstrip (c : ascii) (s : string) : string :=
  match s with
  | String a t => if Ascii.eqb a c then lstrip c t else s
  | EmptyString => EmptyString
  end.
Fixpoint rstrip (c : ascii) (s : string) : string :=
  match s with
  | EmptyString => EmptyString
  | String a t =>
      match rstrip c t with
      | EmptyString => if Ascii.eqb a c then EmptyString else String a EmptyString
      | t' => String a t'
      end
  end.

(* s.replace(c, "") for a single character c *)
Fixpoint remove_char (c : ascii) (s : string) : string :=
  match s with
  | EmptyString => EmptyString
  | String a t => if Ascii.eqb a c then remove_char c t else String a (remove_char c t)
  end.

(* s.split(c): always at least one field *)
Fixpoint split_on (c : ascii) (s : string) : list string :=
  match s with
  | EmptyString => [EmptyString]
  | String a t =>
      if Ascii.eqb a c then EmptyString :: split_on c t
      else match split_on c t with
           | f :: r => String a f :: r
           | [] => [String a EmptyString]      (* unreachable: split_on never returns [] *)
           end
  end.

Definition digit_val (c : ascii) : option Z :=
  if in_range "0" "9" c then Some (Z.of_N (N_of_ascii c) - 48) else None.

(* int(s) for a non-empty string of ASCII digits; None = ValueError. (Python's int also
   accepts signs, blanks and underscores; the lexer never produces them.) *)
Fixpoint int_digits (acc : Z) (s : string) : option Z :=
  match s with
  | EmptyString => Some acc
  | String c t => match digit_val c with Some d => int_digits (acc * 10 + d) t | None => None end
  end.
Definition py_int (s : string) : option Z :=
  match s with EmptyString => None | _ => int_digits 0 s end.

(* sep.join(l) *)
Fixpoint join (sep : string) (l : list string) : string :=
  match l with
  | [] => EmptyString
  | [x] => x
  | x :: t => x ++ sep ++ join sep t
  end.

Fixpoint all_chars (p : ascii -> bool) (s : string) : bool :=
  match s with EmptyString => true | String c t => p c && all_chars p t end.

Definition is_digit (c : ascii) : bool := in_range "0" "9" c.

Definition str_mem (x : string) (l : list string) : bool := existsb (String.eqb x) l.

Definition head_char (s : string) : option ascii :=
  match s with String c _ => Some c | EmptyString => None end.
