(** Model of networkx.MultiGraph with dict insertion orders (definitions only).
    mgraph = association list  node id -> (attributes, adjacency list);
    adjacency list = association list  neighbour -> key dict;
    key dict = association list  edge key -> bond label.
    All three levels keep insertion order, like MultiGraph._node / _adj / the key dicts.
    In networkx the key dict of an undirected edge bundle is ONE object stored under
    _adj[u][v] and _adj[v][u]; the model stores it on both sides and updates both.
    Every function mirrors the networkx 3.x method of the same name. While-loops are
    fuelled and return [None] when the fuel runs out (sufficiency: Proofs/NXMultiFacts.v). *)
From Coq Require Import ZArith List Bool String.
From FGV Require Import Base.Util Base.Bond Base.NX.
Import ListNotations.
Open Scope Z_scope.

Definition keyd := list (Z * label).
Definition madjl := list (Z * keyd).
Definition mgraph := list (Z * (nattr * madjl)).

Definition mempty : mgraph := [].

Definition mnodes (g : mgraph) : list Z := map fst g.
Definition mnodes_data (g : mgraph) : list (Z * nattr) := map (fun '(n, (a, _)) => (n, a)) g.
Definition mhas_node (g : mgraph) (n : Z) : bool := is_some (alookup n g).
Definition mnode_attr (g : mgraph) (n : Z) : option nattr :=
  match alookup n g with Some (a, _) => Some a | None => None end.
Definition madj (g : mgraph) (n : Z) : madjl :=
  match alookup n g with Some (_, ad) => ad | None => [] end.
Definition mneighbors (g : mgraph) (n : Z) : list Z := map fst (madj g n).
(* G[u][v] as a list; [] when u-v is not an edge (networkx never stores an empty key dict) *)
Definition mkeyd (g : mgraph) (u v : Z) : keyd :=
  match alookup v (madj g u) with Some kd => kd | None => [] end.
Definition mhas_edge (g : mgraph) (u v : Z) : bool := is_some (alookup v (madj g u)).
Definition mnumber_of_nodes (g : mgraph) : Z := Z.of_nat (List.length g).

(* Graph.add_node (MultiGraph inherits it) *)
Definition madd_node (g : mgraph) (n : Z) (a : nattr) : mgraph :=
  match alookup n g with
  | Some (a0, ad) => aset n (na_update a0 a, ad) g
  | None => g ++ [(n, (a, []))]
  end.

Definition mensure_node (g : mgraph) (n : Z) : mgraph :=
  match alookup n g with Some _ => g | None => g ++ [(n, (na_empty, []))] end.

(* key = len(keydict); while key in keydict: key += 1 *)
Fixpoint free_key (fuel : nat) (k : Z) (kd : keyd) : option Z :=
  match fuel with
  | O => None
  | S f => if is_some (alookup k kd) then free_key f (k + 1) kd else Some k
  end.

(* MultiGraph.new_edge_key(u, v) *)
Definition new_edge_key (g : mgraph) (u v : Z) : option Z :=
  match alookup v (madj g u) with
  | None => Some 0
  | Some kd => free_key (S (List.length kd)) (Z.of_nat (List.length kd)) kd
  end.

(* one side of: keydict[key] = datadict  /  _adj[u][v] = new keydict *)
Definition mset_adj (g : mgraph) (u v k : Z) (l : label) : mgraph :=
  match alookup u g with
  | Some (a, ad) =>
      aset u (a, aset v (aset k l (match alookup v ad with Some kd => kd | None => [] end)) ad) g
  | None => g
  end.

(* MultiGraph.add_edge(u, v, key=k, bond=l) *)
Definition madd_edge_key (g : mgraph) (u v k : Z) (l : label) : mgraph :=
  let g1 := mensure_node (mensure_node g u) v in
  mset_adj (mset_adj g1 u v k l) v u k l.

(* MultiGraph.add_edge(u, v, bond=l)   (key=None) *)
Definition madd_edge (g : mgraph) (u v : Z) (l : label) : option mgraph :=
  let g1 := mensure_node (mensure_node g u) v in
  match new_edge_key g1 u v with
  | Some k => Some (mset_adj (mset_adj g1 u v k l) v u k l)
  | None => None
  end.

(* Graph.remove_node (inherited) *)
Definition mremove_node (g : mgraph) (n : Z) : mgraph :=
  map (fun '(m, (a, ad)) => (m, (a, adel n ad))) (adel n g).

(* MultiGraph.edges(keys=True, data=True): every bundle once, from the endpoint met first *)
Fixpoint medges_aux (seen : list Z) (g : mgraph) : list (Z * Z * Z * label) :=
  match g with
  | [] => []
  | (n, (_, ad)) :: t =>
      flat_map (fun '(v, kd) => if zmem v seen then [] else map (fun '(k, l) => (n, v, k, l)) kd) ad
      ++ medges_aux (n :: seen) t
  end.
Definition medges (g : mgraph) : list (Z * Z * Z * label) := medges_aux [] g.

(* MultiGraph.edges(n, keys=True, data=True) and MultiGraph.edges(n, data=True) *)
Definition mincident_keys (g : mgraph) (n : Z) : list (Z * Z * Z * label) :=
  flat_map (fun '(v, kd) => map (fun '(k, l) => (n, v, k, l)) kd) (madj g n).
Definition mincident (g : mgraph) (n : Z) : list (Z * Z * label) :=
  flat_map (fun '(v, kd) => map (fun '(_, l) => (n, v, l)) kd) (madj g n).

(* for u, nbrs in _adj.items() for v, keydict in nbrs.items() for key, data in keydict.items() *)
Definition madj_quads (g : mgraph) : list (Z * Z * Z * label) :=
  flat_map (fun '(u, (_, ad)) => flat_map (fun '(v, kd) => map (fun '(k, l) => (u, v, k, l)) kd) ad) g.

Definition madd_nodes_from (g : mgraph) (l : list (Z * nattr)) : mgraph :=
  fold_left (fun acc '(n, a) => madd_node acc n a) l g.
(* add_edges_from with 4-tuples (u, v, key, data) *)
Definition madd_edges_from (g : mgraph) (l : list (Z * Z * Z * label)) : mgraph :=
  fold_left (fun acc '(u, v, k, lb) => madd_edge_key acc u v k lb) l g.

(* MultiGraph.copy() *)
Definition mcopy (g : mgraph) : mgraph :=
  madd_edges_from (madd_nodes_from mempty (mnodes_data g)) (madj_quads g).

(* nx.compose(G, H) on multigraphs: add_edges_from(G.edges(keys=True, data=True)) *)
Definition mcompose (g h : mgraph) : mgraph :=
  madd_edges_from
    (madd_nodes_from
       (madd_edges_from (madd_nodes_from mempty (mnodes_data g)) (medges g))
       (mnodes_data h))
    (medges h).

Definition mset_attr (g : mgraph) (n : Z) (a : nattr) : mgraph :=
  match alookup n g with
  | Some (_, ad) => aset n (a, ad) g
  | None => g
  end.

Definition mem3 (x : Z * Z * Z) (l : list (Z * Z * Z)) : bool :=
  existsb (fun y => (fst (fst x) =? fst (fst y)) && (snd (fst x) =? snd (fst y)) && (snd x =? snd y)) l.

(* while (source, target, key) in seen_edges: key += 1     (keys are ints) *)
Fixpoint free_key3 (fuel : nat) (s t k : Z) (seen : list (Z * Z * Z)) : option Z :=
  match fuel with
  | O => None
  | S f => if mem3 (s, t, k) seen then free_key3 f s t (k + 1) seen else Some k
  end.

(* the "check for conflicting edge-keys" loop of _relabel_copy (undirected) *)
Fixpoint dedup_keys (seen : list (Z * Z * Z)) (es : list (Z * Z * Z * label))
  : option (list (Z * Z * Z * label)) :=
  match es with
  | [] => Some []
  | (s, t, k, l) :: r =>
      match free_key3 (S (List.length seen)) s t k seen with
      | None => None
      | Some k' =>
          option_map (cons (s, t, k', l)) (dedup_keys ((t, s, k') :: (s, t, k') :: seen) r)
      end
  end.

(* nx.relabel_nodes(G, mapping, copy=True), multigraph branch, mapping.get(n, n) as a function *)
Definition mrelabel (f : Z -> Z) (g : mgraph) : option mgraph :=
  let h0 := madd_nodes_from mempty (map (fun '(n, _) => (f n, na_empty)) (mnodes_data g)) in
  let h1 := fold_left (fun acc '(n, a) => mset_attr acc (f n) a) (mnodes_data g) h0 in
  match dedup_keys [] (map (fun '(u, v, k, l) => (f u, f v, k, l)) (medges g)) with
  | None => None
  | Some es => Some (madd_edges_from h1 es)
  end.

Definition mrelabel_map (m : list (Z * Z)) (g : mgraph) : option mgraph :=
  mrelabel (fun n => match alookup n m with Some x => x | None => n end) g.

(* nx.Graph(M): convert.to_networkx_graph -> from_dict_of_dicts(M.adj, multigraph_input=True):
   add_nodes_from(adj); for u, nbrs: for v, keydict: if (u, v) not in seen:
   G.add_edges_from((u, v, data) for key, data in keydict.items()); seen.add((v, u))
   -- a later key overwrites the data of an earlier one; finally _node[n].update(dd) *)
Definition mem2 (x : Z * Z) (l : list (Z * Z)) : bool :=
  existsb (fun y => (fst x =? fst y) && (snd x =? snd y)) l.

Definition ts_inner (u : Z) (st : list (Z * Z) * graph) (e : Z * keyd) : list (Z * Z) * graph :=
  let '(seen, G) := st in
  let '(v, kd) := e in
  if mem2 (u, v) seen then (seen, G)
  else ((v, u) :: seen, add_edges_from G (map (fun '(_, l) => (u, v, l)) kd)).

Definition to_simple (g : mgraph) : graph :=
  let G0 := add_nodes_from empty_graph (map (fun '(n, _) => (n, na_empty)) (mnodes_data g)) in
  let G1 := snd (fold_left (fun st '(u, (_, ad)) => fold_left (ts_inner u) ad st) g ([], G0)) in
  fold_left (fun acc '(n, a) => add_node acc n a) (mnodes_data g) G1.

(* well-formedness: unique node ids, unique neighbours, non-empty key dicts with unique keys,
   every neighbour is a node and carries the identical key dict (same order) back *)
Definition keyd_eqb (x y : keyd) : bool :=
  list_eqb (fun a b => (fst a =? fst b) && label_eqb (snd a) (snd b)) x y.

Definition mwf_node (g : mgraph) (e : Z * (nattr * madjl)) : bool :=
  let '(n, (_, ad)) := e in
  nodupb (map fst ad)
  && forallb (fun '(v, kd) =>
                negb (match kd with [] => true | _ => false end)
                && nodupb (map fst kd)
                && option_eqb keyd_eqb (alookup n (madj g v)) (Some kd)) ad.
Definition mwfb (g : mgraph) : bool := nodupb (mnodes g) && forallb (mwf_node g) g.

Definition madjl_eqb (x y : madjl) : bool :=
  list_eqb (fun a b => (fst a =? fst b) && keyd_eqb (snd a) (snd b)) x y.

(* exact equality, including all iteration orders and edge keys *)
Definition mgraph_eqb (g h : mgraph) : bool :=
  list_eqb (fun a b => (fst a =? fst b) && nattr_eqb (fst (snd a)) (fst (snd b))
                       && madjl_eqb (snd (snd a)) (snd (snd b))) g h.

(** * vocabulary for statements about multigraphs (Prop-level well-formedness, label multisets) *)

(* G[u].get(v) *)
Definition mkd (g : mgraph) (u v : Z) : option keyd := alookup v (madj g u).

Definition mwf (g : mgraph) : Prop :=
  NoDup (mnodes g)
  /\ (forall u, NoDup (map fst (madj g u)))
  /\ (forall u v kd, mkd g u v = Some kd -> kd <> [] /\ NoDup (map fst kd) /\ mkd g v u = Some kd).

(* labels of the parallel bonds between u and v, and how many of them carry label l *)
Definition mlabels (g : mgraph) (u v : Z) : list label := map snd (mkeyd g u v).
Definition lcount (l : label) (ls : list label) : nat := List.length (filter (label_eqb l) ls).
Definition mcount (g : mgraph) (u v : Z) (l : label) : nat := lcount l (mlabels g u v).
