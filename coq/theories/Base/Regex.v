(** Regular expressions: exactly the subset of Python [re] syntax that occurs in
    fgutils.parse.token_specification, with an executable matcher.

    Python semantics reproduced by [re_match r s] (= [re.match(r, s)] as (matched text, rest)):
    - ordered alternation: the FIRST alternative that matches wins (not the longest);
    - [+] / [*] on a character set are greedy;
    - [.] matches any character except newline; [\d] is read on ASCII text.
    The matcher never backtracks. This is equivalent to Python's backtracking search on every
    regex for which [bt_free] holds: alternation occurs only at the top (nothing follows an
    alternative, so the first success is final), and every starred/plussed set is either the
    last element or is followed by a literal whose first character is outside the set (giving
    back characters could never let the rest match). [bt_free] is checked on the generated
    table in Spec/LexerRef.v; Proofs/RegexFacts.v proves the equivalence with a backtracking
    matcher under [bt_free]. *)
From Coq Require Import Ascii String Bool List NArith.
Import ListNotations.
Open Scope string_scope.

Inductive cset :=
| CAny                                  (* .   : anything but "\n" *)
| CDigit                                (* \d  *)
| CClass (l : list (ascii * ascii)).    (* [..] as inclusive ranges; a single character c is (c, c) *)

Inductive regex :=
| RLit (s : string)                     (* literal text (escapes already resolved) *)
| RSet (c : cset)                       (* one character of the set *)
| RPlus (c : cset)                      (* set+ *)
| RStar (c : cset)                      (* set* *)
| RCat (a b : regex)
| RAlt (a b : regex).

Definition in_range (lo hi c : ascii) : bool :=
  (N.leb (N_of_ascii lo) (N_of_ascii c) && N.leb (N_of_ascii c) (N_of_ascii hi))%N.

Definition cset_mem (cs : cset) (c : ascii) : bool :=
  match cs with
  | CAny => negb (Ascii.eqb c "010"%char)
  | CDigit => in_range "0" "9" c
  | CClass l => existsb (fun r => in_range (fst r) (snd r) c) l
  end.

(* longest prefix of s inside the set, and the rest *)
Fixpoint span (cs : cset) (s : string) : string * string :=
  match s with
  | EmptyString => (EmptyString, EmptyString)
  | String c t =>
      if cset_mem cs c then let (m, r) := span cs t in (String c m, r)
      else (EmptyString, s)
  end.

(* s = p ++ r  ->  Some r *)
Fixpoint strip_prefix (p s : string) : option string :=
  match p with
  | EmptyString => Some s
  | String a p' =>
      match s with
      | String b s' => if Ascii.eqb a b then strip_prefix p' s' else None
      | EmptyString => None
      end
  end.

Fixpoint re_match (r : regex) (s : string) : option (string * string) :=
  match r with
  | RLit l => match strip_prefix l s with Some rest => Some (l, rest) | None => None end
  | RSet cs =>
      match s with
      | String c t => if cset_mem cs c then Some (String c EmptyString, t) else None
      | EmptyString => None
      end
  | RPlus cs =>
      match span cs s with
      | (EmptyString, _) => None
      | (m, rest) => Some (m, rest)
      end
  | RStar cs => Some (span cs s)
  | RCat a b =>
      match re_match a s with
      | Some (m1, r1) =>
          match re_match b r1 with
          | Some (m2, r2) => Some (m1 ++ m2, r2)
          | None => None
          end
      | None => None
      end
  | RAlt a b =>
      match re_match a s with
      | Some x => Some x
      | None => re_match b s
      end
  end.

(** The side condition under which "no backtracking" is exact. *)
Definition is_simple (r : regex) : bool :=
  match r with RLit _ | RSet _ | RPlus _ | RStar _ => true | _ => false end.

(* may the element give characters back (so that what follows must not accept them)? *)
Definition rep_set (r : regex) : option cset :=
  match r with RPlus c | RStar c => Some c | _ => None end.

(* first character demanded by a sequence, when it starts with a non-empty literal *)
Definition lit_head (r : regex) : option ascii :=
  match r with
  | RLit (String c _) => Some c
  | RCat (RLit (String c _)) _ => Some c
  | _ => None
  end.

Definition follows_ok (a b : regex) : bool :=
  match rep_set a with
  | None => true
  | Some cs => match lit_head b with Some c => negb (cset_mem cs c) | None => false end
  end.

Fixpoint seq_ok (r : regex) : bool :=
  match r with
  | RCat a b => is_simple a && follows_ok a b && seq_ok b
  | RAlt _ _ => false
  | _ => true
  end.

Fixpoint bt_free (r : regex) : bool :=
  match r with
  | RAlt a b => bt_free a && bt_free b
  | _ => seq_ok r
  end.

(** First entry of an ordered table  name -> regex  that matches at the start of [s]:
    the combined pattern  "|".join("(?P<name>regex)")  tried at one position. *)
Fixpoint first_match (spec : list (string * regex)) (s : string) : option (string * string * string) :=
  match spec with
  | [] => None
  | (name, r) :: t =>
      match re_match r s with
      | Some (m, rest) => Some (name, m, rest)
      | None => first_match t s
      end
  end.

(* equality helpers used by the [..._ok] lemmas on generated tables *)
Definition ascii_pair_eqb (x y : ascii * ascii) : bool :=
  Ascii.eqb (fst x) (fst y) && Ascii.eqb (snd x) (snd y).

Fixpoint list_eqb' {A} (eqb : A -> A -> bool) (x y : list A) : bool :=
  match x, y with
  | [], [] => true
  | a :: x', b :: y' => eqb a b && list_eqb' eqb x' y'
  | _, _ => false
  end.

Definition cset_eqb (a b : cset) : bool :=
  match a, b with
  | CAny, CAny => true
  | CDigit, CDigit => true
  | CClass l, CClass l' => list_eqb' ascii_pair_eqb l l'
  | _, _ => false
  end.

Fixpoint regex_eqb (a b : regex) : bool :=
  match a, b with
  | RLit s, RLit s' => String.eqb s s'
  | RSet c, RSet c' => cset_eqb c c'
  | RPlus c, RPlus c' => cset_eqb c c'
  | RStar c, RStar c' => cset_eqb c c'
  | RCat x y, RCat x' y' => regex_eqb x x' && regex_eqb y y'
  | RAlt x y, RAlt x' y' => regex_eqb x x' && regex_eqb y y'
  | _, _ => false
  end.
